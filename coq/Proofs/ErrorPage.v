(* Proofs/ErrorPage.v — html.escape leaves no markup; dedent/strip only delete whitespace;
   the HTTP/1 error response is one correctly framed message. *)
From Coq Require Import List Bool NArith Arith Lia Ascii String.
From MV Require Import Base.Bytes Model.ErrorPage.
Import ListNotations.
Local Open Scope N_scope.

(* ------------------------------------------------------------------ *)
(* html.escape                                                         *)
(* ------------------------------------------------------------------ *)
Definition is_markup (c : N) : bool := (c =? LT) || (c =? GT) || (c =? DQUOTE) || (c =? SQUOTE).

Lemma esc_char_no_markup c : forallb (fun d => negb (is_markup d)) (esc_char c) = true.
Proof.
  unfold esc_char.
  destruct (c =? AMP) eqn:E1; [reflexivity|].
  destruct (c =? LT) eqn:E2; [reflexivity|].
  destruct (c =? GT) eqn:E3; [reflexivity|].
  destruct (c =? DQUOTE) eqn:E4; [reflexivity|].
  destruct (c =? SQUOTE) eqn:E5; [reflexivity|].
  simpl. unfold is_markup. rewrite E2, E3, E4, E5. reflexivity.
Qed.

Lemma escape_no_markup m : forallb (fun d => negb (is_markup d)) (html_escape m) = true.
Proof.
  unfold html_escape. induction m as [|c m IH]; [reflexivity|].
  cbn [flat_map]. rewrite forallb_app, esc_char_no_markup, IH. reflexivity.
Qed.

(* the inverse scanner: entity references back to characters; fuel = length *)
Fixpoint unescape (fuel : nat) (t : text) : text :=
  match fuel with
  | O => []
  | S f =>
    match t with
    | [] => []
    | c :: t' =>
      if text_starts (lit "&amp;") t then AMP :: unescape f (skipn 5 t)
      else if text_starts (lit "&lt;") t then LT :: unescape f (skipn 4 t)
      else if text_starts (lit "&gt;") t then GT :: unescape f (skipn 4 t)
      else if text_starts (lit "&quot;") t then DQUOTE :: unescape f (skipn 6 t)
      else if text_starts (lit "&#x27;") t then SQUOTE :: unescape f (skipn 6 t)
      else c :: unescape f t'
    end
  end.

Lemma unescape_esc_char f c rest :
  unescape (S f) (esc_char c ++ rest) = c :: unescape f rest.
Proof.
  unfold esc_char.
  destruct (c =? AMP) eqn:E1; [apply N.eqb_eq in E1; subst; reflexivity|].
  destruct (c =? LT) eqn:E2; [apply N.eqb_eq in E2; subst; reflexivity|].
  destruct (c =? GT) eqn:E3; [apply N.eqb_eq in E3; subst; reflexivity|].
  destruct (c =? DQUOTE) eqn:E4; [apply N.eqb_eq in E4; subst; reflexivity|].
  destruct (c =? SQUOTE) eqn:E5; [apply N.eqb_eq in E5; subst; reflexivity|].
  cbn [app unescape].
  assert (H : forall s, text_starts (AMP :: s) (c :: rest) = false).
  { intros s. cbn [text_starts]. rewrite N.eqb_sym, E1. reflexivity. }
  change (lit "&amp;") with (AMP :: lit "amp;"). rewrite H.
  change (lit "&lt;") with (AMP :: lit "lt;"). rewrite H.
  change (lit "&gt;") with (AMP :: lit "gt;"). rewrite H.
  change (lit "&quot;") with (AMP :: lit "quot;"). rewrite H.
  change (lit "&#x27;") with (AMP :: lit "#x27;"). rewrite H.
  reflexivity.
Qed.

Lemma unescape_escape m : forall f, (List.length m <= f)%nat -> unescape f (html_escape m) = m.
Proof.
  unfold html_escape. induction m as [|c m IH]; intros f Hf.
  - destruct f; reflexivity.
  - destruct f as [|f]; [simpl in Hf; lia|].
    cbn [flat_map]. rewrite unescape_esc_char. f_equal. apply IH. simpl in Hf. lia.
Qed.

(* ------------------------------------------------------------------ *)
(* dedent and strip delete only whitespace                             *)
(* ------------------------------------------------------------------ *)
Definition nonws (t : text) : text := filter (fun c => negb (is_ws c)) t.

Lemma nonws_app a b : nonws (a ++ b) = nonws a ++ nonws b.
Proof. apply filter_app. Qed.

Lemma nonws_rev a : nonws (rev a) = rev (nonws a).
Proof.
  induction a as [|c a IH]; [reflexivity|].
  simpl. rewrite nonws_app, IH. simpl. destruct (negb (is_ws c)); simpl; [reflexivity|rewrite app_nil_r; reflexivity].
Qed.

Lemma nonws_lstrip t : nonws (lstrip t) = nonws t.
Proof.
  induction t as [|c t IH]; [reflexivity|].
  simpl. destruct (is_ws c) eqn:E; simpl; rewrite ?E; simpl; [exact IH | reflexivity].
Qed.

Lemma nonws_strip t : nonws (strip t) = nonws t.
Proof.
  unfold strip. rewrite nonws_rev, nonws_lstrip, nonws_rev, nonws_lstrip, rev_involutive. reflexivity.
Qed.

Lemma is_sp_ws c : is_sp c = true -> is_ws c = true.
Proof. unfold is_sp, is_ws. intros H. apply orb_true_iff in H. destruct H as [H|H]; rewrite H; [reflexivity | rewrite orb_true_r; reflexivity]. Qed.

Lemma nonws_all_sp l : forallb is_sp l = true -> nonws l = [].
Proof.
  induction l as [|c l IH]; [reflexivity|]. simpl. intros H. apply andb_true_iff in H as [H1 H2].
  rewrite (is_sp_ws c H1). simpl. apply IH, H2.
Qed.

Lemma nonws_blank l : nonws (blank_ws l) = nonws l.
Proof. unfold blank_ws. destruct (forallb is_sp l) eqn:E; [rewrite (nonws_all_sp l E); reflexivity | reflexivity]. Qed.

Definition nonws_lines (ls : list text) : text := flat_map nonws ls.

Lemma nonws_join ls : nonws (join_nl ls) = nonws_lines ls.
Proof.
  induction ls as [|l ls IH]; [reflexivity|].
  destruct ls as [|l2 ls].
  - simpl. rewrite app_nil_r. reflexivity.
  - change (join_nl (l :: l2 :: ls)) with (l ++ NL :: join_nl (l2 :: ls)).
    rewrite nonws_app. change (nonws (NL :: join_nl (l2 :: ls))) with (nonws (join_nl (l2 :: ls))).
    rewrite IH. reflexivity.
Qed.

Lemma nonws_split t : forall cur, nonws_lines (split_nl t cur) = nonws (rev cur ++ t).
Proof.
  induction t as [|c t IH]; intros cur.
  - simpl. rewrite !app_nil_r. reflexivity.
  - cbn [split_nl]. destruct (c =? NL) eqn:E.
    + apply N.eqb_eq in E. subst c. cbn [nonws_lines flat_map]. fold (nonws_lines (split_nl t [])).
      rewrite IH. simpl. rewrite !nonws_app. reflexivity.
    + rewrite IH. simpl. rewrite <- app_assoc. reflexivity.
Qed.

Lemma nonws_lines_map f ls :
  (forall l, nonws (f l) = nonws l) -> nonws_lines (map f ls) = nonws_lines ls.
Proof.
  intros H. induction ls as [|l ls IH]; [reflexivity|]. simpl. rewrite H, IH. reflexivity.
Qed.

(* margins are made of spaces and tabs only *)
Lemma leading_ws_sp l : forallb is_sp (leading_ws l) = true.
Proof. induction l as [|c l IH]; [reflexivity|]. simpl. destruct (is_sp c) eqn:E; [simpl; rewrite E, IH; reflexivity | reflexivity]. Qed.

Lemma common_prefix_sp a b : forallb is_sp a = true -> forallb is_sp (common_prefix a b) = true.
Proof.
  revert b; induction a as [|x a IH]; intros b H; [reflexivity|].
  destruct b as [|y b]; [reflexivity|]. simpl in *. apply andb_true_iff in H as [H1 H2].
  destruct (x =? y); [simpl; rewrite H1, (IH b H2); reflexivity | reflexivity].
Qed.

Definition osp (m : option text) : Prop := match m with Some t => forallb is_sp t = true | None => True end.

Lemma margin_step_sp m i : osp m -> forallb is_sp i = true -> osp (margin_step m i).
Proof.
  intros Hm Hi. destruct m as [t|]; simpl; [|exact Hi].
  destruct (text_starts t i); [exact Hm|].
  destruct (text_starts i t); [exact Hi|]. apply common_prefix_sp, Hm.
Qed.

Lemma margin_of_sp ls : forall m, osp m -> osp (margin_of ls m).
Proof.
  induction ls as [|l ls IH]; intros m Hm; [exact Hm|].
  simpl. apply IH. unfold indent_of. destruct l; [exact Hm|]. apply margin_step_sp; [exact Hm | apply leading_ws_sp].
Qed.

Lemma text_starts_split m l : text_starts m l = true -> l = m ++ skipn (List.length m) l.
Proof.
  revert l; induction m as [|x m IH]; intros l H; [reflexivity|].
  destruct l as [|y l]; [discriminate|]. simpl in H. apply andb_true_iff in H as [H1 H2].
  apply N.eqb_eq in H1. subst y. simpl. f_equal. apply IH, H2.
Qed.

Lemma nonws_remove_margin m l : forallb is_sp m = true -> nonws (remove_margin m l) = nonws l.
Proof.
  intros Hm. unfold remove_margin. destruct (text_starts m l) eqn:E; [|reflexivity].
  rewrite (text_starts_split m l E) at 2. rewrite nonws_app, (nonws_all_sp m Hm). reflexivity.
Qed.

Lemma nonws_dedent t : nonws (dedent t) = nonws t.
Proof.
  unfold dedent.
  assert (Hl : nonws_lines (map blank_ws (split_nl t [])) = nonws t).
  { rewrite (nonws_lines_map blank_ws _ nonws_blank), nonws_split. reflexivity. }
  pose proof (margin_of_sp (map blank_ws (split_nl t [])) None I) as Hm.
  destruct (margin_of (map blank_ws (split_nl t [])) None) as [[|c m]|].
  - rewrite nonws_join. exact Hl.
  - rewrite nonws_join, (nonws_lines_map _ _ (fun l => nonws_remove_margin (c :: m) l Hm)). exact Hl.
  - rewrite nonws_join. exact Hl.
Qed.

Theorem page_nonws code reason msg :
  nonws (format_error_text code reason msg) = nonws (template code reason (html_escape msg)).
Proof. unfold format_error_text. rewrite nonws_strip, nonws_dedent. reflexivity. Qed.

(* every markup character of the page comes from the fixed template: the page, whitespace aside,
   is template-prefix ++ escaped message ++ template-suffix, and the escaped message has none *)
Theorem page_structure code reason msg :
  nonws (format_error_text code reason msg)
  = nonws (pre0 code reason) ++ nonws (html_escape msg) ++ nonws post0
  /\ forallb (fun d => negb (is_markup d)) (nonws (html_escape msg)) = true.
Proof.
  split.
  - rewrite page_nonws. unfold template. rewrite !nonws_app. reflexivity.
  - pose proof (escape_no_markup msg) as H. rewrite forallb_forall in *. intros x Hx.
    apply H. unfold nonws in Hx. apply filter_In in Hx. apply Hx.
Qed.

(* ------------------------------------------------------------------ *)
(* HTTP/1 framing of make_error_response                               *)
(* ------------------------------------------------------------------ *)
Definition no_cr (s : bytes) : Prop := Forall (fun c => byte_eqb c x0d = false) s.

Lemma take_line_spec l : forall acc rest, no_cr l ->
  take_line (l ++ CRLF ++ rest) acc = Some (rev acc ++ l, rest).
Proof.
  induction l as [|c l IH]; intros acc rest H.
  - simpl. rewrite app_nil_r. reflexivity.
  - inversion H as [|? ? Hc Hl]; subst. cbn [app take_line]. rewrite Hc.
    rewrite (IH (c :: acc) rest Hl). simpl. rewrite <- app_assoc. reflexivity.
Qed.

Lemma no_cr_app a b : no_cr a -> no_cr b -> no_cr (a ++ b).
Proof. intros; apply Forall_app; split; assumption. Qed.

Lemma no_cr_blit s : forallb (fun a => negb (N_of_ascii a =? 13)) (list_ascii_of_string s) = true -> no_cr (blit s).
Proof.
  unfold blit, no_cr. intros H. rewrite forallb_forall in H. apply Forall_forall. intros c Hc.
  apply in_map_iff in Hc as [a [<- Ha]]. specialize (H a Ha). apply negb_true_iff in H.
  apply byte_eqb_neq. intros E. apply N.eqb_neq in H. apply H.
  assert (L : N_of_ascii a < 256) by apply N_ascii_bounded.
  rewrite <- (bN_Nb (N_of_ascii a) L), E. reflexivity.
Qed.

(* decimal digits *)
Lemma digit_byte d : d < 10 -> is_digit (Nb (48 + d)) = true /\ bN (Nb (48 + d)) - 48 = d /\ byte_eqb (Nb (48 + d)) x0d = false.
Proof.
  intros H. assert (L : 48 + d < 256) by lia. unfold is_digit. rewrite (bN_Nb _ L).
  repeat split; try lia.
  - apply andb_true_iff; split; apply N.leb_le; lia.
  - apply byte_eqb_neq. intros E. pose proof (f_equal bN E) as E2. rewrite (bN_Nb _ L) in E2.
    change (bN x0d) with 13 in E2. lia.
Qed.

Lemma dec_digits_spec fuel : forall n acc,
  (N.to_nat (N.log2 n) < fuel)%nat ->
  exists ds, dec_digits fuel n acc = ds ++ acc /\ no_cr ds /\ ds <> [] /\
             forall a, parse_dec (ds ++ acc) a = parse_dec acc (a * 10 ^ N.of_nat (List.length ds) + n).
Proof.
  induction fuel as [|f IH]; intros n acc Hf; [lia|].
  cbn [dec_digits].
  assert (Hd : n mod 10 < 10) by (apply N.mod_lt; lia).
  destruct (digit_byte (n mod 10) Hd) as (D1 & D2 & D3).
  destruct (n <? 10) eqn:E.
  - apply N.ltb_lt in E. exists [Nb (48 + n mod 10)]. repeat split.
    + constructor; [exact D3 | constructor].
    + discriminate.
    + intros a. cbn [app parse_dec]. rewrite D1, D2. rewrite N.mod_small by exact E.
      simpl List.length. change (N.of_nat 1) with 1. rewrite N.pow_1_r. reflexivity.
  - apply N.ltb_ge in E.
    assert (Hlog : (N.to_nat (N.log2 (n / 10)) < f)%nat).
    { assert (N.log2 (n / 10) < N.log2 n).
      { assert (H2 : n / 10 <= n / 2) by (apply N.div_le_compat_l; lia).
        assert (H3 : N.log2 (n / 2) = N.pred (N.log2 n)).
        { rewrite <- N.div2_div, N.div2_spec, N.log2_shiftr. lia. }
        pose proof (N.log2_le_mono _ _ H2) as H4.
        assert (0 < N.log2 n) by (apply N.log2_pos; lia). lia. }
      lia. }
    destruct (IH (n / 10) (Nb (48 + n mod 10) :: acc) Hlog) as (ds & E1 & C1 & NE & P1).
    exists (ds ++ [Nb (48 + n mod 10)]). repeat split.
    + rewrite E1, <- app_assoc. reflexivity.
    + apply no_cr_app; [exact C1 | constructor; [exact D3 | constructor]].
    + destruct ds; discriminate.
    + intros a. rewrite <- app_assoc. cbn [app]. rewrite P1. cbn [parse_dec]. rewrite D1, D2.
      f_equal. rewrite app_length. simpl List.length. rewrite Nat.add_1_r, Nat2N.inj_succ, N.pow_succ_r'.
      rewrite (N.div_mod n 10) at 3 by lia. lia.
Qed.

Lemma dec_of_N_spec n :
  no_cr (dec_of_N n) /\ dec_of_N n <> [] /\ parse_dec (dec_of_N n) 0 = Some n.
Proof.
  unfold dec_of_N.
  destruct (dec_digits_spec (S (N.to_nat (N.log2 n))) n [] (Nat.lt_succ_diag_r _)) as (ds & E & C & NE & P).
  rewrite app_nil_r in E. rewrite E. repeat split; try assumption.
  specialize (P 0). rewrite app_nil_r in P. rewrite P. reflexivity.
Qed.

Lemma field_value_cl v :
  field_value (blit "content-length") (blit "content-length: " ++ v) = Some v.
Proof. reflexivity. Qed.

Lemma find_cl_skip name l ls :
  field_value name l = None -> find_field name (l :: ls) = find_field name ls.
Proof. intros H. simpl. rewrite H. reflexivity. Qed.

Lemma field_value_prefix_mismatch name p rest :
  List.length p = List.length name -> bytes_eqb (lower p) (lower name) = false ->
  field_value name (p ++ rest) = None.
Proof.
  intros HL HE. unfold field_value. rewrite <- HL, firstn_app, firstn_all, Nat.sub_diag. simpl.
  rewrite app_nil_r, HE. reflexivity.
Qed.

Theorem error_response_framed code reason ver body :
  no_cr reason -> no_cr ver ->
  ref_read_response (make_error_response code reason ver body)
  = Some (mkRef (blit "HTTP/1.1 " ++ dec_of_N code ++ [x20] ++ reason)
                [blit "Server: " ++ ver; blit "Connection: close"; blit "Content-Type: text/html";
                 blit "content-length: " ++ dec_of_N (N.of_nat (List.length body))]
                body []).
Proof.
  intros Hr Hv. unfold ref_read_response.
  destruct (dec_of_N_spec code) as (Cc & _ & _).
  destruct (dec_of_N_spec (N.of_nat (List.length body))) as (Cl & NEl & Pl).
  set (L1 := blit "HTTP/1.1 " ++ dec_of_N code ++ [x20] ++ reason).
  set (L2 := blit "Server: " ++ ver).
  set (L3 := blit "Connection: close").
  set (L4 := blit "Content-Type: text/html").
  set (L5 := blit "content-length: " ++ dec_of_N (N.of_nat (List.length body))).
  assert (N1 : no_cr L1).
  { unfold L1. repeat apply no_cr_app; try assumption; try (apply no_cr_blit; reflexivity).
    constructor; [reflexivity | constructor]. }
  assert (N2 : no_cr L2) by (unfold L2; apply no_cr_app; [apply no_cr_blit; reflexivity | assumption]).
  assert (N3 : no_cr L3) by (apply no_cr_blit; reflexivity).
  assert (N4 : no_cr L4) by (apply no_cr_blit; reflexivity).
  assert (N5 : no_cr L5) by (unfold L5; apply no_cr_app; [apply no_cr_blit; reflexivity | assumption]).
  assert (Eq : make_error_response code reason ver body
               = L1 ++ CRLF ++ (L2 ++ CRLF ++ (L3 ++ CRLF ++ (L4 ++ CRLF ++ (L5 ++ CRLF ++ ([] ++ CRLF ++ body))))))
    by (unfold make_error_response, L1, L2, L3, L4, L5; rewrite <- !app_assoc; reflexivity).
  rewrite Eq.
  rewrite (take_line_spec L1 [] _ N1). cbn [rev app].
  set (rest := L2 ++ CRLF ++ L3 ++ CRLF ++ L4 ++ CRLF ++ L5 ++ CRLF ++ [] ++ CRLF ++ body).
  assert (Hfields : forall f, (5 <= f)%nat ->
            read_fields f rest [] = Some ([L2; L3; L4; L5], body)).
  { intros f Hf. do 5 (destruct f as [|f]; [lia|]). unfold rest.
    cbn [read_fields]. rewrite (take_line_spec L2 [] _ N2). cbn [rev app].
    assert (E2 : L2 <> []) by (unfold L2; discriminate).
    destruct L2 as [|b2 L2'] eqn:EL2; [contradiction|].
    cbn [read_fields]. rewrite (take_line_spec L3 [] _ N3). cbn [rev app].
    change L3 with (blit "Connection: close"). cbv beta.
    remember (blit "Connection: close") as l3 eqn:El3. destruct l3 as [|b3 l3']; [discriminate|].
    cbn [read_fields]. rewrite (take_line_spec L4 [] _ N4). cbn [rev app].
    remember L4 as l4 eqn:El4. destruct l4 as [|b4 l4']; [discriminate|].
    cbn [read_fields]. rewrite (take_line_spec L5 [] _ N5). cbn [rev app].
    assert (E5 : L5 <> []) by (unfold L5; discriminate).
    destruct L5 as [|b5 L5'] eqn:EL5; [contradiction|].
    cbn [read_fields]. change (take_line (CRLF ++ body) []) with (Some (@nil byte, body)).
    reflexivity. }
  rewrite Hfields by (unfold rest; rewrite !app_length; simpl; lia).
  assert (F2 : field_value (blit "content-length") L2 = None).
  { unfold L2. change (blit "Server: ") with (blit "Server: "). unfold field_value.
    destruct ver as [|v1 ver']; [reflexivity|].
    simpl. destruct (firstn 6 (v1 :: ver')); reflexivity || (simpl; reflexivity). }
  cbn [find_field]. rewrite F2.
  change (field_value (blit "content-length") L3) with (@None bytes).
  change (field_value (blit "content-length") L4) with (@None bytes).
  unfold L5. rewrite field_value_cl.
  destruct (dec_of_N (N.of_nat (List.length body))) as [|d ds] eqn:Ed; [contradiction|].
  rewrite Pl, Nat2N.id, Nat.leb_refl, firstn_all, skipn_all. reflexivity.
Qed.
