(* Proofs/StickyCookieMain.v -- jar invariants and the history-level theorems of C54. *)
From Coq Require Import List Bool Arith NArith Lia.
From MV Require Import Base.Bytes Model.StickyCookie Proofs.StickyCookieSpec.
Import ListNotations.

(* ================= equality tests ================= *)
Lemma ostr_eqb_eq a b : ostr_eqb a b = true <-> a = b.
Proof.
  destruct a, b; simpl; split; intros H; try discriminate; try reflexivity.
  - apply bytes_eqb_eq in H. congruence.
  - inversion H. apply bytes_eqb_refl.
Qed.

Lemma key_eqb_eq a b : key_eqb a b = true <-> a = b.
Proof.
  destruct a as [[d1 p1] q1], b as [[d2 p2] q2]. unfold key_eqb.
  rewrite !andb_true_iff, bytes_eqb_eq, N.eqb_eq, ostr_eqb_eq.
  split; [intros [[-> ->] ->]; reflexivity | intros H; inversion H; auto].
Qed.

Lemma key_eqb_neq a b : key_eqb a b = false -> a <> b.
Proof. intros H ->. assert (key_eqb b b = true) by (apply key_eqb_eq; reflexivity). congruence. Qed.

Lemma bytes_eqb_neq' a b : bytes_eqb a b = false -> a <> b.
Proof. intros H ->. rewrite bytes_eqb_refl in H. discriminate. Qed.

(* ================= membership after the dict / jar operations ================= *)
Definition jar_has (j : jar) (k : key) (n : str) (v : option str) : Prop :=
  exists d, In (k, d) j /\ In (n, v) d.

Lemma dict_set_in {V} n (v : V) d m w :
  In (m, w) (dict_set n v d) -> (m, w) = (n, v) \/ In (m, w) d.
Proof.
  induction d as [|[m' w'] d IH]; simpl.
  - intros [H|[]]. left. congruence.
  - destruct (bytes_eqb n m') eqn:E.
    + apply bytes_eqb_eq in E; subst m'. intros [H|H]; [left; congruence | right; right; exact H].
    + intros [H|H]; [right; left; exact H|]. destruct (IH H); auto.
Qed.

Lemma dict_pop_in {V} n (d : list (str * V)) x : In x (dict_pop n d) -> In x d.
Proof.
  induction d as [|[m' w'] d IH]; simpl; [tauto|].
  destruct (bytes_eqb n m'); [auto|]. intros [H|H]; auto.
Qed.

Lemma jar_set_has k n v j k' n' v' :
  jar_has (jar_set k n v j) k' n' v' -> (k', n', v') = (k, n, v) \/ jar_has j k' n' v'.
Proof.
  unfold jar_has. induction j as [|[k0 d0] j IH]; simpl.
  - intros (d & [H|[]] & Hd). inversion H; subst. destruct Hd as [Hd|[]]. left. congruence.
  - destruct (key_eqb k k0) eqn:E.
    + apply key_eqb_eq in E; subst k0. intros (d & [H|H] & Hd).
      * inversion H; subst. apply dict_set_in in Hd as [Hd|Hd].
        -- left. congruence.
        -- right. exists d0. split; [left; reflexivity | exact Hd].
      * right. exists d. split; [right; exact H | exact Hd].
    + intros (d & [H|H] & Hd).
      * right. exists d. split; [left; exact H | exact Hd].
      * destruct IH as [IH|(d' & H1 & H2)]; [exists d; auto | left; exact IH |].
        right. exists d'. split; [right; exact H1 | exact H2].
Qed.

Lemma jar_del_has k n j k' n' v' : jar_has (jar_del k n j) k' n' v' -> jar_has j k' n' v'.
Proof.
  unfold jar_has. induction j as [|[k0 d0] j IH]; simpl; [tauto|].
  destruct (key_eqb k k0) eqn:E.
  - apply key_eqb_eq in E; subst k0. destruct (dict_pop n d0) as [|x d1] eqn:Ep.
    + intros (d & H & Hd). exists d. split; [right; exact H | exact Hd].
    + intros (d & [H|H] & Hd).
      * inversion H; subst. exists d0. split; [left; reflexivity|].
        apply (dict_pop_in n). rewrite Ep. exact Hd.
      * exists d. split; [right; exact H | exact Hd].
  - intros (d & [H|H] & Hd).
    + exists d. split; [left; exact H | exact Hd].
    + destruct IH as (d' & H1 & H2); [exists d; auto|]. exists d'. split; [right; exact H1 | exact H2].
Qed.

Lemma apply_action_has j a k n v :
  jar_has (apply_action j a) k n v -> a = ASet k n v \/ jar_has j k n v.
Proof.
  destruct a as [k0 n0 v0|k0 n0| |]; simpl; auto.
  - intros H. apply jar_set_has in H as [H|H]; [left; congruence | right; exact H].
  - intros H. right. eapply jar_del_has, H.
Qed.

(* ================= provenance: every binding was set by a Set-Cookie entry of the history ================= *)
Lemma response_loop_has v host port cs : forall j k n val,
  jar_has (fst (response_loop v host port cs j)) k n val ->
  jar_has j k n val \/ exists c, In c cs /\ cookie_action v host port c = ASet k n val.
Proof.
  induction cs as [|c cs IH]; intros j k n val; simpl; [auto|].
  destruct (cookie_action v host port c) eqn:Ea; simpl; auto; intros H; apply IH in H;
    (destruct H as [H | (c' & Hin & Hc')]; [| right; exists c'; auto]).
  - apply (apply_action_has j (ASet k0 n0 v0)) in H as [H|H]; [|auto].
    right. exists c. split; [left; reflexivity | congruence].
  - apply (apply_action_has j (ADel k0 n0)) in H as [H|H]; [discriminate | auto].
  - auto.
Qed.

Lemma run_has v flt_on h : forall j k n val,
  jar_has (fold_left (step v flt_on) h j) k n val ->
  jar_has j k n val \/
  exists host port cs c, In (Resp host port cs) h /\ In c cs /\ flt_on = true
                         /\ cookie_action v host port c = ASet k n val.
Proof.
  induction h as [|e h IH]; intros j k n val; simpl; [auto|].
  intros H. apply IH in H as [H | (host & port & cs & c & H1 & H2)].
  - destruct e as [host port cs | ]; simpl in H; [|auto].
    unfold response in H. destruct flt_on; [|auto].
    apply response_loop_has in H as [H | (c & Hin & Hc)]; [auto|].
    right. exists host, port, cs, c. auto.
  - right. exists host, port, cs, c. split; [right; exact H1 | exact H2].
Qed.

Lemma cookie_action_set_inv v host port c k n val :
  cookie_action v host port c = ASet k n val ->
  exists d q, k = (d, port, q) /\ ckey c host port = (Some d, port, q)
              /\ domain_match v host d = true /\ c_expired c = Some false
              /\ n = c_name c /\ val = c_value c.
Proof.
  unfold cookie_action. destruct (ckey c host port) as [[[d|] p] q] eqn:Ek; [|discriminate].
  assert (p = port) by (unfold ckey in Ek; congruence). subst p.
  destruct (domain_match v host d) eqn:Ed; [|discriminate].
  destruct (c_expired c) as [[|]|]; try discriminate.
  intros H. inversion H; subst. exists d, q. auto 10.
Qed.

Lemma cookie_action_del_inv v host port c k n :
  cookie_action v host port c = ADel k n ->
  exists d q, k = (d, port, q) /\ ckey c host port = (Some d, port, q)
              /\ domain_match v host d = true /\ c_expired c = Some true /\ n = c_name c.
Proof.
  unfold cookie_action. destruct (ckey c host port) as [[[d|] p] q] eqn:Ek; [|discriminate].
  assert (p = port) by (unfold ckey in Ek; congruence). subst p.
  destruct (domain_match v host d) eqn:Ed; [|discriminate].
  destruct (c_expired c) as [[|]|]; try discriminate.
  intros H. inversion H; subst. exists d, q. auto 10.
Qed.

(* ================= the request hook only uses matching entries ================= *)
Lemma request_loop_in v host port path : forall j l n val,
  request_loop v host port path j = Some l -> In (n, val) l ->
  exists d cp, jar_has j (d, port, Some cp) n val
               /\ domain_match v host d = true /\ path_match v path cp = true.
Proof.
  induction j as [|[[[d p] [cp|]] c] j IH]; intros l n val; simpl.
  - intros H. inversion H; subst. intros [].
  - destruct (request_loop v host port path j) as [r|] eqn:Er; [|discriminate].
    intros H Hin. inversion H; subst l; clear H.
    assert (Hr : In (n, val) r -> exists d0 cp0, jar_has ((d, p, Some cp, c) :: j) (d0, port, Some cp0) n val
               /\ domain_match v host d0 = true /\ path_match v path cp0 = true).
    { intros Hi. destruct (IH r n val eq_refl Hi) as (d0 & cp0 & (dd & H1 & H2) & H3).
      exists d0, cp0. split; [exists dd; split; [right; exact H1 | exact H2] | exact H3]. }
    destruct (domain_match v host d && (port =? p)%N && path_match v path cp) eqn:Em; [|auto].
    apply in_app_or in Hin as [Hin|Hin]; [|auto].
    apply andb_true_iff in Em as [Em Hp]. apply andb_true_iff in Em as [Hd Hport].
    apply N.eqb_eq in Hport; subst p.
    exists d, cp. split; [exists c; split; [left; reflexivity | exact Hin] | auto].
  - discriminate.
Qed.

(* the Cookie header after the hook is either the one the client sent or the formatted list of pairs the
   loop collected *)
Lemma request_header v flt_on fmatch host port path orig j hdr :
  request v flt_on fmatch host port path orig j = Some hdr ->
  hdr = orig \/ exists l, hdr = Some (format_cookie_header l) /\ l <> []
                          /\ flt_on = true /\ fmatch = true
                          /\ request_loop v host port path j = Some l.
Proof.
  unfold request. destruct flt_on; [|intros H; inversion H; auto].
  destruct fmatch.
  - destruct (request_loop v host port path j) as [[|x l]|]; intros H; inversion H; auto.
    right. exists (x :: l). repeat split; auto. discriminate.
  - intros H; inversion H; auto.
Qed.

(* ================= main theorem, stated for any variant in terms of its own predicates ================= *)
Lemma attached_provenance v flt_on h host port path l n val :
  request_loop v host port path (run v flt_on h) = Some l -> In (n, val) l ->
  exists rhost cs c d cp,
    In (Resp rhost port cs) h /\ In c cs
    /\ c_name c = n /\ c_value c = val /\ c_expired c = Some false
    /\ ckey c rhost port = (Some d, port, Some cp)
    /\ domain_match v rhost d = true /\ domain_match v host d = true /\ path_match v path cp = true.
Proof.
  intros Hl Hin. destruct (request_loop_in _ _ _ _ _ _ _ _ Hl Hin) as (d & cp & Hhas & Hd & Hp).
  unfold run in Hhas. apply run_has in Hhas as [(dd & [] & _) | (rhost & rport & cs & c & H1 & H2 & _ & Ha)].
  apply cookie_action_set_inv in Ha as (d' & q & Hk & Hck & Hdm & He & Hn & Hv).
  inversion Hk; subst. exists rhost, cs, c, d', cp. auto 12.
Qed.

Definition attach_conclusion (h : list event) (host : str) (port : N) (path : str) (n : str) (val : option str)
  (guard_dom : str -> str -> Prop) (guard_path : str -> str -> Prop) : Prop :=
  exists rhost cs c d cp,
    In (Resp rhost port cs) h /\ In c cs                      (* set by a response on the same port *)
    /\ c_name c = n /\ c_value c = val /\ c_expired c = Some false
    /\ ckey c rhost port = (Some d, port, Some cp)            (* d = Domain attribute or responding host *)
    /\ (guard_dom rhost d -> rfc_domain_match (lower rhost) (rfc_cookie_domain d))
    /\ (guard_dom host d -> rfc_domain_match (lower host) (rfc_cookie_domain d))
    /\ (guard_path path cp -> exists u, uri_path_of u path /\ rfc_path_match u cp).

Theorem attached_only_if_match_fixed flt_on h host port path l n val :
  request_loop Fixed host port path (run Fixed flt_on h) = Some l -> In (n, val) l ->
  attach_conclusion h host port path n val (fun _ _ => True) (fun _ _ => True).
Proof.
  intros Hl Hin.
  destruct (attached_provenance _ _ _ _ _ _ _ _ _ Hl Hin)
    as (rhost & cs & c & d & cp & H1 & H2 & H3 & H4 & H5 & H6 & H7 & H8 & H9).
  exists rhost, cs, c, d, cp. repeat (split; [assumption|]).
  split; [intros _; apply domain_match_fixed_rfc, H7|].
  split; [intros _; apply domain_match_fixed_rfc, H8|].
  intros _. apply path_match_fixed_rfc, H9.
Qed.

(* the unchanged code: the same conclusion outside the three findings *)
Definition no_dom_finding (a b : str) : Prop :=
  dom_inner_substring a b = false /\ dom_extra_dots a b = false.
Definition no_path_finding (t cp : str) : Prop := path_segment_boundary t cp = true.

Lemma domain_match_orig_partial a b :
  domain_match_orig a b = true -> no_dom_finding a b -> rfc_domain_match (lower a) (rfc_cookie_domain b).
Proof.
  intros H [G1 G2]. apply domain_match_orig_decompose in H as [H|[H|H]]; [|congruence|congruence].
  apply domain_match_fixed_rfc, H.
Qed.

Theorem attached_only_if_match_orig_partial flt_on h host port path l n val :
  request_loop Orig host port path (run Orig flt_on h) = Some l -> In (n, val) l ->
  attach_conclusion h host port path n val no_dom_finding no_path_finding.
Proof.
  intros Hl Hin.
  destruct (attached_provenance _ _ _ _ _ _ _ _ _ Hl Hin)
    as (rhost & cs & c & d & cp & H1 & H2 & H3 & H4 & H5 & H6 & H7 & H8 & H9).
  exists rhost, cs, c, d, cp. repeat (split; [assumption|]).
  split; [intros G; apply domain_match_orig_partial; assumption|].
  split; [intros G; apply domain_match_orig_partial; assumption|].
  intros G. apply path_match_fixed_rfc, path_match_orig_partial; assumption.
Qed.

(* ================= refutation for the unchanged code ================= *)
Lemma ends_with_complete n suf : ends_with suf (n ++ suf) = true.
Proof.
  induction n as [|x n IH]; simpl.
  - destruct suf; simpl; [reflexivity|]. rewrite byte_eqb_refl, bytes_eqb_refl. reflexivity.
  - rewrite IH. apply orb_true_r.
Qed.

Lemma not_rfc_domain_match s d :
  bytes_eqb s d = false -> ends_with (DOT :: d) s = false -> ~ rfc_domain_match s d.
Proof.
  intros H1 H2 [H | [[n Hn] _]].
  - subst. rewrite bytes_eqb_refl in H1. discriminate.
  - subst s. rewrite ends_with_complete in H2. discriminate.
Qed.

Definition s_example_com : str := [x65;x78;x61;x6d;x70;x6c;x65;x2e;x63;x6f;x6d].
Definition s_evil_host : str := [x61;x2e] ++ s_example_com ++ [x2e;x65;x76;x69;x6c;x2e;x6f;x72;x67].
Definition s_sid : str := [x73;x69;x64].
Definition s_foo : str := [x2f;x66;x6f;x6f].
Definition s_foobar : str := s_foo ++ [x62;x61;x72].
Definition refute_cookie (path : option (option str)) : cookie :=
  Cookie s_sid (Some [x31]) (Some (Some (DOT :: s_example_com))) path (Some false).
(* www.example.com:80 sets sid=1; Domain=.example.com -- then a request to a.example.com.evil.org:80 *)
Definition refute_history_dom : list event :=
  [Resp ([x77;x77;x77;x2e] ++ s_example_com) 80 [refute_cookie None]].
(* the same cookie with Path=/foo -- then a request for /foobar *)
Definition refute_history_path : list event :=
  [Resp ([x77;x77;x77;x2e] ++ s_example_com) 80 [refute_cookie (Some (Some s_foo))]].

Theorem orig_refuted_domain :
  exists l, request_loop Orig s_evil_host 80 [SLASH] (run Orig true refute_history_dom) = Some l
    /\ In (s_sid, Some [x31]) l
    /\ forall d cp, jar_has (run Orig true refute_history_dom) (d, 80%N, Some cp) s_sid (Some [x31]) ->
         ~ rfc_domain_match (lower s_evil_host) (rfc_cookie_domain d).
Proof.
  exists [(s_sid, Some [x31])]. split; [vm_compute; reflexivity|]. split; [left; reflexivity|].
  intros d cp (dd & Hin & _). vm_compute in Hin. destruct Hin as [Hin|[]]. inversion Hin; subst.
  apply not_rfc_domain_match; vm_compute; reflexivity.
Qed.

Theorem orig_refuted_path :
  exists l, request_loop Orig ([x77;x77;x77;x2e] ++ s_example_com) 80 s_foobar
              (run Orig true refute_history_path) = Some l
    /\ In (s_sid, Some [x31]) l
    /\ forall d cp, jar_has (run Orig true refute_history_path) (d, 80%N, Some cp) s_sid (Some [x31]) ->
         forall u, uri_path_of u s_foobar -> ~ rfc_path_match u cp.
Proof.
  exists [(s_sid, Some [x31])]. split; [vm_compute; reflexivity|]. split; [left; reflexivity|].
  intros d cp (dd & Hin & _). vm_compute in Hin. destruct Hin as [Hin|[]]. inversion Hin; subst. clear Hin.
  intros u [Hq [Hu | [q Hu]]].
  - subst u. intros [H | (rest & H & Hne & [[p Hp] | [r Hr]])].
    + vm_compute in H. discriminate.
    + apply (f_equal (@rev byte)) in Hp. rewrite rev_app_distr in Hp. vm_compute in Hp. discriminate.
    + subst rest. vm_compute in H. discriminate.
  - exfalso. assert (Hi : In QMARK s_foobar) by (rewrite Hu; apply in_or_app; right; left; reflexivity).
    vm_compute in Hi. repeat (destruct Hi as [Hi|Hi]; [discriminate|]). exact Hi.
Qed.

(* ================= a cookie that does not domain-match the responding host changes nothing ================= *)
Theorem foreign_cookie_ignored_fixed host port c d q :
  ckey c host port = (Some d, port, q) ->
  ~ rfc_domain_match (lower host) (rfc_cookie_domain d) ->
  cookie_action Fixed host port c = ASkip.
Proof.
  intros Hk Hn. unfold cookie_action. rewrite Hk.
  destruct (domain_match Fixed host d) eqn:E; [|reflexivity].
  exfalso. apply Hn, domain_match_fixed_rfc, E.
Qed.

Theorem foreign_cookie_ignored_orig_partial host port c d q :
  ckey c host port = (Some d, port, q) -> no_dom_finding host d ->
  ~ rfc_domain_match (lower host) (rfc_cookie_domain d) ->
  cookie_action Orig host port c = ASkip.
Proof.
  intros Hk G Hn. unfold cookie_action. rewrite Hk.
  destruct (domain_match Orig host d) eqn:E; [|reflexivity].
  exfalso. apply Hn, domain_match_orig_partial; assumption.
Qed.

Lemma response_loop_skip v host port cs : forall j,
  (forall c, In c cs -> cookie_action v host port c = ASkip) ->
  response_loop v host port cs j = (j, true).
Proof.
  induction cs as [|c cs IH]; intros j H; simpl; [reflexivity|].
  rewrite (H c (or_introl eq_refl)). simpl. apply IH. intros c' Hc'. apply H. right; exact Hc'.
Qed.

Theorem foreign_response_leaves_jar_fixed flt_on host port cs j :
  (forall c, In c cs -> exists d q, ckey c host port = (Some d, port, q)
                                    /\ ~ rfc_domain_match (lower host) (rfc_cookie_domain d)) ->
  response Fixed flt_on host port cs j = (j, true).
Proof.
  intros H. unfold response. destruct flt_on; [|reflexivity].
  apply response_loop_skip. intros c Hc. destruct (H c Hc) as (d & q & Hk & Hn).
  eapply foreign_cookie_ignored_fixed; eassumption.
Qed.

(* ================= well-formed jars: unique keys, unique names, no empty entry ================= *)
Definition wf (j : jar) : Prop :=
  NoDup (map fst j) /\ Forall (fun e => NoDup (map fst (snd e))) j.

Lemma dict_set_keys {V} n (v : V) d m :
  In m (map fst (dict_set n v d)) -> m = n \/ In m (map fst d).
Proof.
  induction d as [|[m' w'] d IH]; simpl.
  - intros [H|[]]; auto.
  - destruct (bytes_eqb n m') eqn:E; simpl; [auto|]. intros [H|H]; [auto|]. destruct (IH H); auto.
Qed.

Lemma dict_set_nodup {V} n (v : V) d : NoDup (map fst d) -> NoDup (map fst (dict_set n v d)).
Proof.
  induction d as [|[m' w'] d IH]; simpl; intros H.
  - constructor; [intros []|constructor].
  - inversion H; subst. destruct (bytes_eqb n m') eqn:E; simpl; [constructor; assumption|].
    constructor; [|auto]. intros Hin. apply dict_set_keys in Hin as [Hin|Hin]; [|contradiction].
    subst. rewrite bytes_eqb_refl in E. discriminate.
Qed.

Lemma dict_pop_keys {V} n (d : list (str * V)) m : In m (map fst (dict_pop n d)) -> In m (map fst d).
Proof.
  induction d as [|[m' w'] d IH]; simpl; [tauto|].
  destruct (bytes_eqb n m'); simpl; [auto|]. intros [H|H]; auto.
Qed.

Lemma dict_pop_nodup {V} n (d : list (str * V)) :
  NoDup (map fst d) -> NoDup (map fst (dict_pop n d)) /\ ~ In n (map fst (dict_pop n d)).
Proof.
  induction d as [|[m' w'] d IH]; simpl; intros H.
  - split; [constructor | intros []].
  - inversion H; subst. destruct (IH H3) as [I1 I2]. destruct (bytes_eqb n m') eqn:E.
    + apply bytes_eqb_eq in E; subst. auto.
    + simpl. split.
      * constructor; [|exact I1]. intros Hin. apply dict_pop_keys in Hin. contradiction.
      * intros [Hm|Hm]; [subst; rewrite bytes_eqb_refl in E; discriminate | contradiction].
Qed.

Lemma jar_set_keys k n v j k' : In k' (map fst (jar_set k n v j)) -> k' = k \/ In k' (map fst j).
Proof.
  induction j as [|[k0 d0] j IH]; simpl.
  - intros [H|[]]; auto.
  - destruct (key_eqb k k0); simpl; [auto|]. intros [H|H]; [auto|]. destruct (IH H); auto.
Qed.

Lemma jar_del_keys k n j k' : In k' (map fst (jar_del k n j)) -> In k' (map fst j).
Proof.
  induction j as [|[k0 d0] j IH]; simpl; [tauto|].
  destruct (key_eqb k k0); simpl.
  - destruct (dict_pop n d0); simpl; tauto.
  - intros [H|H]; auto.
Qed.

Lemma jar_set_wf k n v j : wf j -> wf (jar_set k n v j).
Proof.
  unfold wf. induction j as [|[k0 d0] j IH]; simpl; intros [H1 H2].
  - split; [constructor; [intros []|constructor] | ].
    constructor; [|constructor]. simpl. constructor; [intros []|constructor].
  - inversion H1; subst. inversion H2; subst. destruct (key_eqb k k0) eqn:E; simpl.
    + split; [constructor; assumption|]. constructor; [|assumption]. simpl. apply dict_set_nodup. assumption.
    + destruct IH as [I1 I2]; [auto|]. split.
      * constructor; [|exact I1]. intros Hin. apply jar_set_keys in Hin as [Hin|Hin]; [|contradiction].
        subst. apply key_eqb_neq in E. congruence.
      * constructor; assumption.
Qed.

Lemma jar_del_wf k n j : wf j -> wf (jar_del k n j).
Proof.
  unfold wf. induction j as [|[k0 d0] j IH]; simpl; intros [H1 H2]; [auto|].
  inversion H1; subst. inversion H2; subst. destruct (key_eqb k k0) eqn:E; simpl.
  - assert (Hp : NoDup (map fst (dict_pop n d0))) by (apply dict_pop_nodup; assumption).
    destruct (dict_pop n d0) as [|x d1]; [auto|]. split; [constructor; assumption|].
    constructor; [exact Hp|assumption].
  - destruct IH as [I1 I2]; [auto|]. split.
    + constructor; [|exact I1]. intros Hin. apply jar_del_keys in Hin. contradiction.
    + constructor; assumption.
Qed.

Lemma jar_del_gone k n j : wf j -> forall val, ~ jar_has (jar_del k n j) k n val.
Proof.
  unfold wf, jar_has. induction j as [|[k0 d0] j IH]; simpl; intros [H1 H2] val.
  - intros (d & [] & _).
  - inversion H1; subst. inversion H2; subst. destruct (key_eqb k k0) eqn:E.
    + apply key_eqb_eq in E; subst k0.
      assert (Hj : forall d, ~ In (k, d) j).
      { intros d Hd. apply H3. change k with (fst (k, d)). apply in_map, Hd. }
      destruct (dict_pop n d0) as [|x d1] eqn:Ep.
      * intros (d & Hd & _). exact (Hj d Hd).
      * intros (d & [Hd|Hd] & Hn); [|exact (Hj d Hd)].
        inversion Hd; subst d. destruct (dict_pop_nodup n d0 H5) as [_ Hno]. apply Hno.
        rewrite Ep. change n with (fst (n, val)). apply in_map, Hn.
    + intros (d & [Hd|Hd] & Hn).
      * inversion Hd; subst. apply key_eqb_neq in E. congruence.
      * apply (IH (conj H4 H6) val). exists d. auto.
Qed.

Lemma apply_action_wf j a : wf j -> wf (apply_action j a).
Proof. destruct a; simpl; auto using jar_set_wf, jar_del_wf. Qed.

Lemma response_loop_wf v host port cs : forall j, wf j -> wf (fst (response_loop v host port cs j)).
Proof.
  induction cs as [|c cs IH]; intros j H; simpl; [exact H|].
  destruct (cookie_action v host port c) eqn:Ea; simpl; auto; apply IH;
    [apply (apply_action_wf j (ASet k n v0) H) | apply (apply_action_wf j (ADel k n) H)].
Qed.

Lemma run_wf v flt_on h : forall j, wf j -> wf (fold_left (step v flt_on) h j).
Proof.
  induction h as [|e h IH]; intros j H; simpl; [exact H|]. apply IH.
  destruct e; simpl; [|exact H]. unfold response. destruct flt_on; [|exact H].
  apply response_loop_wf, H.
Qed.

Lemma wf_nil : wf []. Proof. split; constructor. Qed.

(* ================= expired cookies are removed ================= *)
Lemma response_loop_app v host port cs1 cs2 j :
  response_loop v host port (cs1 ++ cs2) j =
  let '(j1, ok) := response_loop v host port cs1 j in
  if ok then response_loop v host port cs2 j1 else (j1, false).
Proof.
  revert j; induction cs1 as [|c cs1 IH]; intros j; simpl; [reflexivity|].
  destruct (cookie_action v host port c); simpl; auto.
Qed.

(* After any history, a response that completes and carries an expired cookie which the addon accepts from
   that host (and that is not set again later in the same response) leaves no binding for it. *)
Theorem expired_removed v h host port cs1 c cs2 k n :
  cookie_action v host port c = ADel k n ->
  (forall c' val, In c' cs2 -> cookie_action v host port c' <> ASet k n val) ->
  snd (response v true host port (cs1 ++ c :: cs2) (run v true h)) = true ->
  forall val, ~ jar_has (run v true (h ++ [Resp host port (cs1 ++ c :: cs2)])) k n val.
Proof.
  intros Hc Hno Hok val. unfold run in *. rewrite fold_left_app. simpl.
  set (j0 := fold_left (step v true) h []) in *.
  assert (W0 : wf j0) by (apply run_wf, wf_nil).
  unfold response in *. rewrite response_loop_app in *.
  pose proof (response_loop_wf v host port cs1 j0 W0) as W1.
  destruct (response_loop v host port cs1 j0) as [j1 ok1]. simpl in W1.
  destruct ok1; [|simpl in Hok; discriminate].
  simpl in *. rewrite Hc in *. simpl in *.
  intros Hhas. apply response_loop_has in Hhas as [Hhas | (c' & Hin & Hset)].
  - exact (jar_del_gone k n j1 W1 val Hhas).
  - exact (Hno c' val Hin Hset).
Qed.

(* an expired cookie is accepted for removal exactly when the addon would have stored it *)
Lemma cookie_action_expired v host port c d q :
  ckey c host port = (Some d, port, q) -> domain_match v host d = true -> c_expired c = Some true ->
  cookie_action v host port c = ADel (d, port, q) (c_name c).
Proof. intros Hk Hd He. unfold cookie_action. rewrite Hk, Hd, He. reflexivity. Qed.

(* and an expired cookie can only remove a binding of a domain that the responding host domain-matches *)
Theorem delete_only_if_match_fixed host port c k n :
  cookie_action Fixed host port c = ADel k n ->
  exists d q, k = (d, port, q) /\ rfc_domain_match (lower host) (rfc_cookie_domain d).
Proof.
  intros H. apply cookie_action_del_inv in H as (d & q & Hk & _ & Hd & _).
  exists d, q. split; [exact Hk | apply domain_match_fixed_rfc, Hd].
Qed.

(* ================= non-vacuity ================= *)
Definition s_www : str := [x77;x77;x77;x2e] ++ s_example_com.
Definition nv_history : list event :=
  [Resp s_www 80 [refute_cookie (Some (Some s_foo))];
   Req s_www 80 s_foo true None;
   Resp s_www 80 [Cookie [x61] (Some [x32]) None None (Some false)]].

Lemma nonvacuous :
  request_loop Fixed s_www 80 (s_foo ++ [x2f;x78;x3f;x71]) (run Fixed true nv_history)
    = Some [(s_sid, Some [x31]); ([x61], Some [x32])]
  /\ request Fixed true true s_www 80 (s_foo ++ [x2f;x78;x3f;x71]) None (run Fixed true nv_history)
     = Some (Some [x73;x69;x64;x3d;x31;x3b;x20;x61;x3d;x32])
  /\ request_loop Fixed s_evil_host 80 s_foo (run Fixed true nv_history) = Some []
  /\ request_loop Fixed s_www 80 s_foobar (run Fixed true nv_history) = Some [([x61], Some [x32])]
  /\ request_loop Fixed s_www 443 s_foo (run Fixed true nv_history) = Some [].
Proof. vm_compute. repeat split; reflexivity. Qed.

(* ================= the statements used by Props/C54.v ================= *)
Theorem fixed_attached_only_if_match flt_on h host port path l n val :
  request_loop Fixed host port path (run Fixed flt_on h) = Some l -> In (n, val) l ->
  exists rhost cs c d cp,
    In (Resp rhost port cs) h /\ In c cs
    /\ c_name c = n /\ c_value c = val /\ c_expired c = Some false
    /\ ckey c rhost port = (Some d, port, Some cp)
    /\ rfc_domain_match (lower rhost) (rfc_cookie_domain d)
    /\ rfc_domain_match (lower host) (rfc_cookie_domain d)
    /\ exists u, uri_path_of u path /\ rfc_path_match u cp.
Proof.
  intros Hl Hin.
  destruct (attached_only_if_match_fixed _ _ _ _ _ _ _ _ Hl Hin)
    as (rhost & cs & c & d & cp & H1 & H2 & H3 & H4 & H5 & H6 & H7 & H8 & H9).
  exists rhost, cs, c, d, cp. auto 12.
Qed.

(* the observable: the Cookie header after the request hook *)
Theorem fixed_header_only_if_match flt_on fmatch h host port path orig hdr :
  request Fixed flt_on fmatch host port path orig (run Fixed flt_on h) = Some hdr ->
  hdr = orig \/
  exists l, hdr = Some (format_cookie_header l) /\ flt_on = true /\ fmatch = true /\
    forall n val, In (n, val) l ->
    exists rhost cs c d cp,
      In (Resp rhost port cs) h /\ In c cs
      /\ c_name c = n /\ c_value c = val /\ c_expired c = Some false
      /\ ckey c rhost port = (Some d, port, Some cp)
      /\ rfc_domain_match (lower rhost) (rfc_cookie_domain d)
      /\ rfc_domain_match (lower host) (rfc_cookie_domain d)
      /\ exists u, uri_path_of u path /\ rfc_path_match u cp.
Proof.
  intros H. apply request_header in H as [H | (l & H1 & _ & H3 & H4 & H5)]; [left; exact H|].
  right. exists l. repeat (split; [assumption|]). intros n val Hin.
  eapply fixed_attached_only_if_match; eassumption.
Qed.

(* host-only cookies (no Domain attribute) set by a host without a leading dot only go back to that host *)
Theorem fixed_host_only flt_on h host port path l n val :
  request_loop Fixed host port path (run Fixed flt_on h) = Some l -> In (n, val) l ->
  (forall rhost p cs c, In (Resp rhost p cs) h -> In c cs -> c_domain c = None /\ first_is DOT (lower rhost) = false) ->
  exists rhost cs, In (Resp rhost port cs) h /\ lower rhost = lower host.
Proof.
  intros Hl Hin Hall.
  destruct (attached_provenance _ _ _ _ _ _ _ _ _ Hl Hin)
    as (rhost & cs & c & d & cp & H1 & H2 & _ & _ & _ & H6 & _ & H8 & _).
  destruct (Hall _ _ _ _ H1 H2) as [Hd Hf]. exists rhost, cs. split; [exact H1|].
  unfold ckey in H6. rewrite Hd in H6. inversion H6; subst d.
  simpl in H8. unfold domain_match_fixed in H8.
  destruct (cj_domain_match (lower host) (lower rhost) && ends_with (lower rhost) (lower host)) eqn:E.
  - apply andb_true_iff in E as [E _]. apply cj_domain_match_nodot in E; rewrite !lower_idem in *; auto.
  - destruct (bytes_eqb (lower host) (remove_dot_prefix (lower rhost))) eqn:E2; [|discriminate].
    apply bytes_eqb_eq in E2. rewrite E2. unfold remove_dot_prefix. unfold first_is in Hf.
    destruct (lower rhost) as [|x r]; [reflexivity|]. rewrite Hf. reflexivity.
Qed.
