(* Proofs/Http2StreamsMap.v -- the stream-id mapping and the stream queue of Http2Client._handle_event (C05),
   proved for the generic wrapper cl_event over ANY wrapped connection that satisfies the hyper-h2 contract
   (get_next_available_stream_id exceeds every id used so far).  Invariants by induction on the replay fuel, then
   induction over histories. *)
From Coq Require Import List Bool NArith ZArith Lia.
From MV Require Import Base.Bytes Model.Http2Streams.
Import ListNotations.
Open Scope N_scope.

(* ------------------------------------------------------------------ ordered dicts *)
Section DictLemmas.
  Context {V : Type}.
  Implicit Types (d : list (N * V)).

  Lemma dget_dset_same k v d : dget k (dset k v d) = Some v.
  Proof. induction d as [|[k' v'] t IH]; cbn; [now rewrite N.eqb_refl|].
    destruct (k =? k') eqn:E; cbn; [now rewrite N.eqb_refl|now rewrite E]. Qed.

  Lemma dget_dset_other k k' v d : k <> k' -> dget k' (dset k v d) = dget k' d.
  Proof. intros Hn. induction d as [|[k2 v2] t IH]; cbn.
    - destruct (k' =? k) eqn:E; [apply N.eqb_eq in E; congruence|reflexivity].
    - destruct (k =? k2) eqn:E; cbn.
      + apply N.eqb_eq in E; subst k2. destruct (k' =? k) eqn:E2; [apply N.eqb_eq in E2; congruence|reflexivity].
      + destruct (k' =? k2); [reflexivity|exact IH]. Qed.

  Lemma dget_none_keys k d : dget k d = None <-> ~ In k (dkeys d).
  Proof. induction d as [|[k' v'] t IH]; cbn; [tauto|].
    destruct (k =? k') eqn:E.
    - apply N.eqb_eq in E; subst. split; [discriminate|intros H; exfalso; apply H; now left].
    - apply N.eqb_neq in E. rewrite IH. split; [intros H [H1|H1]; [congruence|tauto]|tauto]. Qed.

  Lemma dget_some_in k v d : dget k d = Some v -> In (k, v) d.
  Proof. induction d as [|[k' v'] t IH]; cbn; [discriminate|].
    destruct (k =? k') eqn:E; [apply N.eqb_eq in E; subst; intros [= ->]; now left|intros H; right; auto]. Qed.

  Lemma dkeys_dset_new k v d : dget k d = None -> dkeys (dset k v d) = dkeys d ++ [k].
  Proof. induction d as [|[k' v'] t IH]; cbn; [reflexivity|].
    destruct (k =? k') eqn:E; [discriminate|]. intros H. cbn. f_equal. exact (IH H). Qed.

  Lemma dkeys_dset_old k v v0 d : dget k d = Some v0 -> dkeys (dset k v d) = dkeys d.
  Proof. induction d as [|[k' v'] t IH]; cbn; [discriminate|].
    destruct (k =? k') eqn:E; cbn; [apply N.eqb_eq in E; now subst|]. intros H. f_equal. exact (IH H). Qed.

  Lemma in_dset k v k' v' d : In (k', v') (dset k v d) -> (k' = k /\ v' = v) \/ In (k', v') d.
  Proof. induction d as [|[k2 v2] t IH]; cbn.
    - intros [[= <- <-]|[]]; now left.
    - destruct (k =? k2) eqn:E; cbn.
      + intros [[= <- <-]|H]; [now left|right; now right].
      + intros [H|H]; [right; now left|]. destruct (IH H); [now left|right; now right]. Qed.

  Lemma dmem_true k d : dmem k d = true <-> dget k d <> None.
  Proof. unfold dmem. destruct (dget k d); split; congruence. Qed.
  Lemma dmem_false k d : dmem k d = false <-> dget k d = None.
  Proof. unfold dmem. destruct (dget k d); split; congruence. Qed.
End DictLemmas.

Definition is_hdr (e : hev) : bool := match e with EHeaders _ _ _ => true | _ => false end.

Lemma hev_sid_set e s : hev_sid (hev_set_sid e s) = s.
Proof. now destruct e. Qed.
Lemma is_hdr_set e s : is_hdr e = true -> exists t es, hev_set_sid e s = EHeaders s t es.
Proof. destruct e; try discriminate. intros _. now eexists _, _. Qed.

(* arrival order: client stream ids in order of their first HttpEvent *)
Definition add_first (k : N) (l : list N) : list N := if existsb (N.eqb k) l then l else l ++ [k].
Definition arr_step (acc : list N) (i : input) : list N :=
  match i with IHttp e => add_first (hev_sid e) acc | _ => acc end.
Definition arrivals (h : list input) : list N := fold_left arr_step h [].

Lemma existsb_eqb_in k l : existsb (N.eqb k) l = true <-> In k l.
Proof. rewrite existsb_exists. split; [intros [x [H E]]; apply N.eqb_eq in E; now subst|intros H; exists k; split; [exact H|apply N.eqb_refl]]. Qed.

Lemma arrivals_snoc h i : arrivals (h ++ [i]) = arr_step (arrivals h) i.
Proof. unfold arrivals. now rewrite fold_left_app. Qed.

Lemma nodup_snoc (k : N) l : NoDup l -> ~ In k l -> NoDup (l ++ [k]).
Proof. induction l as [|a t IH]; cbn; intros H Hn; [constructor; [tauto|constructor]|].
  inversion H; subst. constructor.
  - rewrite in_app_iff. cbn. intros [H1|[H1|[]]]; [tauto|subst; tauto].
  - apply IH; tauto. Qed.

Lemma arrivals_nodup h : NoDup (arrivals h).
Proof. induction h as [|i h IH] using rev_ind; [constructor|].
  rewrite arrivals_snoc. destruct i; cbn; try exact IH.
  unfold add_first. destruct (existsb (N.eqb (hev_sid e)) (arrivals h)) eqn:E; [exact IH|].
  apply nodup_snoc; [exact IH|]. rewrite <- existsb_eqb_in. congruence. Qed.

(* wf_first over a history that grows at the end *)
Fixpoint sids (h : list input) : list N :=
  match h with [] => [] | IHttp e :: t => hev_sid e :: sids t | _ :: t => sids t end.

Lemma wf_first_snoc h : forall seen i,
  wf_first seen (h ++ [i]) = true ->
  wf_first seen h = true /\
  (forall e, i = IHttp e -> ~ In (hev_sid e) seen -> ~ In (hev_sid e) (sids h) -> is_hdr e = true).
Proof.
  induction h as [|a t IH]; intros seen i H.
  - cbn in *. split; [reflexivity|]. intros e -> Hs _. cbn in H.
    destruct (existsb (N.eqb (hev_sid e)) seen) eqn:E; [apply existsb_eqb_in in E; tauto|]. now destruct e.
  - cbn [app] in H. destruct a; cbn [wf_first sids] in *; try (apply IH; exact H).
    destruct (existsb (N.eqb (hev_sid e)) seen) eqn:E.
    + destruct (IH _ _ H) as [H1 H2]. split; [exact H1|]. intros e' -> Hs Hn. apply (H2 e' eq_refl Hs). cbn in Hn. tauto.
    + destruct e; try discriminate. destruct (IH _ _ H) as [H1 H2]. split; [exact H1|].
      intros e' -> Hs Hn. apply (H2 e' eq_refl); cbn in *; tauto. Qed.

Lemma arrivals_sids h k : In k (arrivals h) <-> In k (sids h).
Proof. revert k. induction h as [|i h IH] using rev_ind; intros k; [cbn; tauto|].
  rewrite arrivals_snoc.
  assert (Hs : forall l i, sids (l ++ [i]) = sids l ++ sids [i]).
  { induction l as [|a t IHl]; intros; [reflexivity|]. cbn [app]. destruct a; cbn [sids]; rewrite ?IHl; reflexivity. }
  rewrite Hs, in_app_iff. destruct i; cbn; rewrite ?(IH k); try tauto.
  unfold add_first. destruct (existsb (N.eqb (hev_sid e)) (arrivals h)) eqn:E.
  - apply existsb_eqb_in in E. rewrite IH in E. rewrite IH. split; [tauto|intros [H|[H|[]]]; [tauto|now subst]].
  - rewrite in_app_iff. cbn. rewrite IH. tauto. Qed.

(* ------------------------------------------------------------------ the generic wrapper *)
Section Wrapper.
  Variable C : Type.
  Variable inner : C -> input -> res (C * list out).
  Variable has_free : C -> bool.
  Variable next_id : C -> N.
  Variable is_dead : C -> bool.
  Variable fq : bool.

  Notation client := (client C).
  Notation cl_event := (cl_event C inner has_free next_id is_dead fq).
  Notation cl_step := (cl_step C inner has_free next_id is_dead fq).
  Notation replay_with := (replay_with C).

  Definition alive (s : client) : Prop := is_dead (cc s) = false.
  Definition L (s : client) : list N := dkeys (our s) ++ dkeys (queue s).
  Definition Q (s : client) : Prop := queue s = [] \/ has_free (cc s) = false.

  Definition enq (e : hev) (q : list (N * list hev)) : list hev :=
    match dget (hev_sid e) q with Some l => l ++ [e] | None => [e] end.

  (* the tail of _handle_event: fail or resume queued streams *)
  Definition tail (f : nat) (s2 : client) (o2 : list out) : res (client * list out) :=
    match queue s2 with
    | (qsid, evs) :: rest =>
        if fq && is_dead (cc s2) then
          Ok (mkCl (cc s2) (our s2) (their s2) [], o2 ++ map (fun p => ORecv (EErr (fst p) 2 [] true)) (queue s2))
        else if has_free (cc s2) then
          do r3 <- replay_with (cl_event f) (mkCl (cc s2) (our s2) (their s2) rest) evs;
          Ok (fst r3, o2 ++ snd r3)
        else Ok (s2, o2)
    | [] => Ok (s2, o2)
    end.

  Definition run_inner (f : nat) (s1 : client) (i1 : input) : res (client * list out) :=
    do r <- inner (cc s1) i1;
    let '(c2, o) := r in
    do o2 <- relabel_all (their s1) o;
    tail f (mkCl c2 (our s1) (their s1) (queue s1)) o2.

  Lemma cl_event_unfold f s i :
    cl_event (S f) s i =
    if is_dead (cc s) then Ok (s, [])
    else match i with
         | IHttp e =>
             match dget (hev_sid e) (our s) with
             | Some ours => run_inner f s (IHttp (hev_set_sid e ours))
             | None =>
                 if negb (has_free (cc s)) then
                   Ok (mkCl (cc s) (our s) (their s) (dset (hev_sid e) (enq e (queue s)) (queue s)), [])
                 else
                   let ours := next_id (cc s) in
                   run_inner f (mkCl (cc s) (dset (hev_sid e) ours (our s)) (dset ours (hev_sid e) (their s)) (queue s))
                             (IHttp (hev_set_sid e ours))
             end
         | _ => run_inner f s i
         end.
  Proof.
    cbn [Http2Streams.cl_event]. destruct (is_dead (cc s)); [reflexivity|].
    destruct i; try reflexivity.
    destruct (dget (hev_sid e) (our s)); [reflexivity|].
    destruct (has_free (cc s)); reflexivity.
  Qed.

  (* ---------------- the contract of the wrapped connection (hyper-h2 side) *)
  Variable hi : C -> N.                      (* highest stream id used so far *)
  Variable Cinv : C -> Prop.                 (* an invariant of the wrapped connection *)
  Hypothesis next_id_fresh : forall c, hi c < next_id c.
  Hypothesis inner_mono : forall c i c' o, Cinv c -> inner c i = Ok (c', o) -> Cinv c' /\ hi c <= hi c'.
  Hypothesis inner_headers : forall c j t es c' o,
    Cinv c -> hi c < j -> inner c (IHttp (EHeaders j t es)) = Ok (c', o) -> j <= hi c'.

  (* ---------------- invariants *)
  Record qinv (s : client) : Prop := mkQ {
    q_ne : forall k l, In (k, l) (queue s) -> l <> [];
    q_ks : forall k l e, In (k, l) (queue s) -> In e l -> hev_sid e = k;
    q_dj : forall k, In k (dkeys (queue s)) -> dget k (our s) = None;
    q_nd : NoDup (dkeys (queue s)) }.

  Record binv (s : client) : Prop := mkBI {
    b_bij : forall c j, dget c (our s) = Some j <-> dget j (their s) = Some c;
    b_hi : forall j c, dget j (their s) = Some c -> j <= hi (cc s);
    b_ci : Cinv (cc s);
    b_fh : forall k l, In (k, l) (queue s) -> exists e r, l = e :: r /\ is_hdr e = true }.

  Definition hdr_pre (s : client) (i : input) : Prop :=
    forall e, i = IHttp e -> dget (hev_sid e) (our s) = None -> ~ In (hev_sid e) (dkeys (queue s)) -> is_hdr e = true.
  Definition apre (s : client) (i : input) : Prop :=
    forall e, i = IHttp e -> dget (hev_sid e) (our s) = None -> has_free (cc s) = true -> ~ In (hev_sid e) (dkeys (queue s)).

  Definition Lspec (s : client) (i : input) (s' : client) : Prop :=
    match i with
    | IHttp e =>
        let k := hev_sid e in
        L s' = if dmem k (our s) then L s
               else if has_free (cc s) then dkeys (our s) ++ k :: dkeys (queue s)
               else if dmem k (queue s) then L s else L s ++ [k]
    | _ => L s' = L s
    end.

  Definition post (s : client) (i : input) (s' : client) : Prop :=
    qinv s' /\
    (forall k v, dget k (our s) = Some v -> dget k (our s') = Some v) /\
    (forall e, i = IHttp e -> dget (hev_sid e) (our s) = None -> has_free (cc s) = true -> is_dead (cc s) = false ->
               dmem (hev_sid e) (our s') = true) /\
    (alive s' -> Q s' /\ Lspec s i s') /\
    (binv s -> hdr_pre s i -> binv s').

  Definition good (f : nat) : Prop :=
    forall s i s' o, cl_event f s i = Ok (s', o) -> qinv s -> apre s i -> post s i s'.

  Lemma dead_absorbs f s i s' o : is_dead (cc s) = true -> cl_event f s i = Ok (s', o) -> s' = s.
  Proof. destruct f; [discriminate|]. rewrite cl_event_unfold. intros ->. now intros [= <- _]. Qed.

  (* replaying the remaining events of a stream that is already mapped *)
  Lemma replay_mapped f (G : good f) : forall evs s s' o k,
    replay_with (cl_event f) s evs = Ok (s', o) ->
    qinv s -> (forall e, In e evs -> hev_sid e = k) -> dmem k (our s) = true ->
    qinv s' /\
    (forall k v, dget k (our s) = Some v -> dget k (our s') = Some v) /\
    (alive s' -> L s' = L s /\ (evs <> [] -> Q s')) /\
    (binv s -> binv s').
  Proof.
    induction evs as [|e t IH]; intros s s' o k H Hq Hk Hm.
    - cbn in H. injection H as <- _. split; [exact Hq|]. split; [auto|]. split; [|auto].
      intros _. split; [reflexivity|]. intros Hn. now destruct Hn.
    - cbn in H. destruct (cl_event f s (IHttp e)) as [[s1 o1]| |] eqn:E1; cbn in H; try discriminate.
      destruct (replay_with (cl_event f) s1 t) as [[s2 o2]| |] eqn:E2; cbn in H; try discriminate.
      injection H as <- _.
      assert (Hke : hev_sid e = k) by (apply Hk; now left).
      assert (Hap : apre s (IHttp e)).
      { intros e0 [= <-] Hn _. rewrite Hke in Hn. apply dmem_true in Hm. congruence. }
      destruct (G _ _ _ _ E1 Hq Hap) as (Hq1 & Hg1 & _ & Ha1 & Hb1).
      assert (Hm1 : dmem k (our s1) = true).
      { apply dmem_true in Hm. destruct (dget k (our s)) eqn:Eg; [|congruence]. apply dmem_true. rewrite (Hg1 _ _ Eg). congruence. }
      destruct (IH _ _ _ k E2 Hq1 (fun e0 H0 => Hk e0 (or_intror H0)) Hm1) as (Hq2 & Hg2 & Ha2 & Hb2).
      split; [exact Hq2|]. split; [intros k0 v Hg; apply Hg2, Hg1, Hg|]. split.
      + intros Hal. destruct (is_dead (cc s1)) eqn:Ed.
        * (* s1 dead: everything after is the identity, so s2 = s1 is dead *)
          assert (s2 = s1).
          { clear - E2 Ed. revert s2 o2 E2. induction t as [|e0 t IHt]; intros s2 o2 E2; cbn in E2; [now injection E2 as <- _|].
            destruct (cl_event f s1 (IHttp e0)) as [[sa oa]| |] eqn:Ea; cbn in E2; try discriminate.
            pose proof (dead_absorbs _ _ _ _ _ Ed Ea) as ->.
            destruct (replay_with (cl_event f) s1 t) as [[sb ob]| |] eqn:Eb; cbn in E2; try discriminate.
            injection E2 as <- _. eapply IHt; eauto. }
          subst s2. unfold alive in Hal. congruence.
        * destruct (Ha1 Ed) as [HQ1 HL1]. cbn in HL1. rewrite Hke, Hm in HL1.
          destruct (Ha2 Hal) as [HL2 HQ2]. split; [congruence|]. intros _.
          destruct t as [|e0 t']; [|apply HQ2; discriminate].
          cbn in E2. injection E2 as <- _. exact HQ1.
      + intros Hb. apply Hb2, Hb1; [exact Hb|]. intros e0 [= <-] Hn. rewrite Hke in Hn. apply dmem_true in Hm. congruence.
  Qed.

  Lemma tail_good f (G : good f) s2 o2 s' o :
    tail f s2 o2 = Ok (s', o) -> qinv s2 ->
    qinv s' /\
    (forall k v, dget k (our s2) = Some v -> dget k (our s') = Some v) /\
    (alive s' -> Q s' /\ L s' = L s2) /\
    (binv s2 -> binv s').
  Proof.
    unfold tail. intros H Hq. destruct (queue s2) as [|[qsid evs] rest] eqn:Eq.
    - injection H as <- _. split; [exact Hq|]. split; [auto|]. split; [|auto]. intros _. split; [now left|reflexivity].
    - destruct (fq && is_dead (cc s2)) eqn:Efq.
      + injection H as <- _. apply andb_true_iff in Efq as [_ Ed].
        split; [constructor; cbn; intros; try tauto; constructor|].
        split; [auto|]. split; [unfold alive; cbn; congruence|].
        intros [B1 B2 B3 B4]. constructor; cbn; auto. intros ? ? [].
      + destruct (has_free (cc s2)) eqn:Ef.
        2:{ injection H as <- _. split; [exact Hq|]. split; [auto|]. split; [|auto]. intros _. split; [now right|reflexivity]. }
        set (s3 := mkCl (cc s2) (our s2) (their s2) rest) in *.
        destruct (replay_with (cl_event f) s3 evs) as [[s4 o4]| |] eqn:Er; cbn in H; try discriminate.
        injection H as <- _.
        destruct Hq as [Qne Qks Qdj Qnd]. rewrite Eq in *. cbn in Qnd. inversion Qnd as [|? ? Hnin Hnd]; subst.
        assert (Hq3 : qinv s3).
        { constructor; cbn; intros.
          - eapply Qne; right; eauto.
          - eapply Qks; [right|]; eauto.
          - apply Qdj. now right.
          - exact Hnd. }
        destruct evs as [|e1 t].
        { exfalso. eapply Qne; [now left|reflexivity]. }
        assert (Hk1 : forall e, In e (e1 :: t) -> hev_sid e = qsid) by (intros; eapply Qks; [now left|eauto]).
        cbn in Er. destruct (cl_event f s3 (IHttp e1)) as [[sa oa]| |] eqn:Ea; cbn in Er; try discriminate.
        destruct (replay_with (cl_event f) sa t) as [[sb ob]| |] eqn:Eb; cbn in Er; try discriminate.
        injection Er as <- _.
        assert (Hno : dget (hev_sid e1) (our s3) = None) by (rewrite (Hk1 e1 (or_introl eq_refl)); apply Qdj; now left).
        assert (Hap : apre s3 (IHttp e1)).
        { intros e0 [= <-] _ _. rewrite (Hk1 e1 (or_introl eq_refl)). exact Hnin. }
        destruct (G _ _ _ _ Ea Hq3 Hap) as (Hqa & Hga & Hma & Haa & Hba).
        destruct (is_dead (cc s2)) eqn:Ed2.
        { (* the connection died in this call: done() swallows the replay *)
          assert (Ed3 : is_dead (cc s3) = true) by exact Ed2.
          pose proof (dead_absorbs _ _ _ _ _ Ed3 Ea) as ->.
          assert (sb = s3).
          { clear - Eb Ed3. revert sb ob Eb. induction t as [|e0 t IHt]; intros sb ob Eb; cbn in Eb; [now injection Eb as <- _|].
            destruct (cl_event f s3 (IHttp e0)) as [[sx ox]| |] eqn:Ex; cbn in Eb; try discriminate.
            pose proof (dead_absorbs _ _ _ _ _ Ed3 Ex) as ->.
            destruct (replay_with (cl_event f) s3 t) as [[sy oy]| |] eqn:Ey; cbn in Eb; try discriminate.
            injection Eb as <- _. eapply IHt; eauto. }
          subst sb. split; [exact Hq3|]. split; [auto|]. split; [unfold alive; cbn; congruence|].
          intros [B1 B2 B3 B4]. constructor; cbn; auto. intros k l Hin. apply (B4 k l). rewrite Eq. now right. }
        specialize (Hma e1 eq_refl Hno Ef Ed2).
        rewrite (Hk1 e1 (or_introl eq_refl)) in Hma.
        destruct (replay_mapped f G t sa sb ob qsid Eb Hqa (fun e0 H0 => Hk1 e0 (or_intror H0)) Hma) as (Hqb & Hgb & Hab & Hbb).
        split; [exact Hqb|]. split; [intros k v Hg; apply Hgb, Hga; exact Hg|]. split.
        * intros Hal. destruct (is_dead (cc sa)) eqn:Eda.
          { assert (sb = sa).
            { clear - Eb Eda. revert sb ob Eb. induction t as [|e0 t IHt]; intros sb ob Eb; cbn in Eb; [now injection Eb as <- _|].
              destruct (cl_event f sa (IHttp e0)) as [[sx ox]| |] eqn:Ex; cbn in Eb; try discriminate.
              pose proof (dead_absorbs _ _ _ _ _ Eda Ex) as ->.
              destruct (replay_with (cl_event f) sa t) as [[sy oy]| |] eqn:Ey; cbn in Eb; try discriminate.
              injection Eb as <- _. eapply IHt; eauto. }
            subst sb. unfold alive in Hal. congruence. }
          destruct (Haa Eda) as [HQa HLa]. cbn in HLa.
          rewrite (Hk1 e1 (or_introl eq_refl)) in HLa.
          assert (Hdm : dmem qsid (our s2) = false) by (apply dmem_false; apply Qdj; now left).
          cbn in HLa. rewrite Hdm, Ef in HLa.
          destruct (Hab Hal) as [HLb HQb]. split.
          -- destruct t as [|e0 t']; [cbn in Eb; injection Eb as <- _; exact HQa|apply HQb; discriminate].
          -- rewrite HLb, HLa. unfold L. rewrite Eq. reflexivity.
        * intros [B1 B2 B3 B4]. apply Hbb, Hba.
          -- constructor; cbn; auto. intros k l Hin. apply (B4 k l). rewrite Eq. now right.
          -- intros e0 [= <-] _ _. destruct (B4 qsid (e1 :: t)) as (e' & r & [= <- <-] & Hh); [rewrite Eq; now left|exact Hh].
  Qed.

  Lemma run_inner_good f (G : good f) s1 i1 s' o :
    run_inner f s1 i1 = Ok (s', o) -> qinv s1 ->
    qinv s' /\
    (forall k v, dget k (our s1) = Some v -> dget k (our s') = Some v) /\
    (alive s' -> Q s' /\ L s' = L s1) /\
    (forall c2 o1, inner (cc s1) i1 = Ok (c2, o1) ->
       binv (mkCl c2 (our s1) (their s1) (queue s1)) -> binv s').
  Proof.
    unfold run_inner. intros H Hq.
    destruct (inner (cc s1) i1) as [[c2 o1]| |] eqn:Ei; cbn in H; try discriminate.
    destruct (relabel_all (their s1) o1) as [o2| |]; cbn in H; try discriminate.
    assert (Hq2 : qinv (mkCl c2 (our s1) (their s1) (queue s1))) by (destruct Hq; constructor; auto).
    destruct (tail_good f G _ _ _ _ H Hq2) as (A & B & D & E).
    split; [exact A|]. split; [exact B|]. split; [exact D|]. intros c2' o1' [= <- <-]. exact E.
  Qed.

  Lemma all_good : forall f, good f.
  Proof.
    induction f as [|f G]; [intros s i s' o H; discriminate|].
    intros s i s' o H Hq Hap. rewrite cl_event_unfold in H.
    destruct (is_dead (cc s)) eqn:Ed.
    { injection H as <- _. unfold post. split; [exact Hq|]. split; [auto|]. split; [intros; congruence|].
      split; [unfold alive; congruence|auto]. }
    assert (Plain : forall i0, (forall e, i0 <> IHttp e) -> run_inner f s i0 = Ok (s', o) -> post s i0 s').
    { intros i0 Hni Hr. destruct (run_inner_good f G _ _ _ _ Hr Hq) as (A & B & D & E).
      unfold post. split; [exact A|]. split; [exact B|]. split; [intros e He; destruct (Hni _ He)|]. split.
      - intros Hal. destruct (D Hal) as [D1 D2]. split; [exact D1|]. destruct i0; try exact D2. destruct (Hni e eq_refl).
      - intros Hb _. unfold run_inner in Hr. destruct (inner (cc s) i0) as [[c2 o1]| |] eqn:Ei; cbn in Hr; try discriminate.
        apply (E _ _ eq_refl). destruct Hb as [B1 B2 B3 B4]. destruct (inner_mono _ _ _ _ B3 Ei) as [M1 M2].
        constructor; cbn; auto. intros j c Hj. specialize (B2 j c Hj). lia. }
    destruct i as [|e|l|]; try (apply Plain; [intros e0; discriminate|exact H]).
    destruct (dget (hev_sid e) (our s)) as [ours|] eqn:Eo.
    - (* already mapped *)
      destruct (run_inner_good f G _ _ _ _ H Hq) as (A & B & D & E).
      unfold post. split; [exact A|]. split; [exact B|]. split; [intros e0 [= <-]; congruence|]. split.
      + intros Hal. destruct (D Hal) as [D1 D2]. split; [exact D1|]. cbn. unfold dmem. now rewrite Eo.
      + intros Hb _. unfold run_inner in H.
        destruct (inner (cc s) (IHttp (hev_set_sid e ours))) as [[c2 o1]| |] eqn:Ei; cbn in H; try discriminate.
        apply (E _ _ eq_refl). destruct Hb as [B1 B2 B3 B4]. destruct (inner_mono _ _ _ _ B3 Ei) as [M1 M2].
        constructor; cbn; auto. intros j c Hj. specialize (B2 j c Hj). lia.
    - destruct (has_free (cc s)) eqn:Ef; cbn [negb] in H.
      + (* allocate a server stream id *)
        set (k := hev_sid e) in *. set (ours := next_id (cc s)) in *.
        set (s1 := mkCl (cc s) (dset k ours (our s)) (dset ours k (their s)) (queue s)) in *.
        assert (Hnq : ~ In k (dkeys (queue s))) by (apply (Hap e eq_refl Eo Ef)).
        assert (Hq1 : qinv s1).
        { destruct Hq as [Qne Qks Qdj Qnd]. constructor; cbn; auto. intros k0 Hin.
          rewrite dget_dset_other; [auto|]. intros ->. tauto. }
        destruct (run_inner_good f G _ _ _ _ H Hq1) as (A & B & D & E).
        assert (Hgrow : forall k0 v, dget k0 (our s) = Some v -> dget k0 (our s1) = Some v).
        { intros k0 v Hg. cbn. rewrite dget_dset_other; [exact Hg|]. intros ->. congruence. }
        unfold post. split; [exact A|]. split; [intros k0 v Hg; apply B, Hgrow, Hg|]. split.
        { intros e0 [= <-] _ _ _. pose proof (B k ours) as Hx. cbn in Hx. rewrite dget_dset_same in Hx.
          specialize (Hx eq_refl). apply dmem_true. unfold k in Hx. rewrite Hx. discriminate. }
        split.
        * intros Hal. destruct (D Hal) as [D1 D2]. split; [exact D1|]. cbn. fold k.
          assert (Hdm : dmem k (our s) = false) by (now apply dmem_false). rewrite Hdm, Ef, D2.
          unfold L, s1. cbn [our queue]. rewrite (dkeys_dset_new _ _ _ Eo), <- app_assoc. reflexivity.
        * intros Hb Hh. unfold run_inner in H.
          destruct (inner (cc s1) (IHttp (hev_set_sid e ours))) as [[c2 o1]| |] eqn:Ei; cbn in H; try discriminate.
          apply (E _ _ eq_refl). destruct Hb as [B1 B2 B3 B4].
          destruct (inner_mono _ _ _ _ B3 Ei) as [M1 M2].
          pose proof (next_id_fresh (cc s)) as Hfr. fold ours in Hfr.
          destruct (is_hdr_set e ours (Hh e eq_refl Eo Hnq)) as (t0 & es0 & Ehs). rewrite Ehs in Ei.
          pose proof (inner_headers _ _ _ _ _ _ B3 Hfr Ei) as Hle.
          assert (Hnt : dget ours (their s) = None).
          { destruct (dget ours (their s)) eqn:Et; [|reflexivity]. specialize (B2 _ _ Et). lia. }
          constructor; cbn; auto.
          -- intros c j. destruct (N.eq_dec c k) as [->|Hck].
             ++ rewrite dget_dset_same. split.
                ** intros [= <-]. apply dget_dset_same.
                ** intros Hj. destruct (N.eq_dec j ours) as [->|Hjo]; [reflexivity|].
                   rewrite dget_dset_other in Hj by congruence. apply B1 in Hj. congruence.
             ++ rewrite dget_dset_other by congruence. destruct (N.eq_dec j ours) as [->|Hjo].
                ** rewrite dget_dset_same. split; [|congruence]. intros Hc. apply B1 in Hc. congruence.
                ** rewrite dget_dset_other by congruence. apply B1.
          -- intros j c. destruct (N.eq_dec j ours) as [->|Hjo]; [intros _; exact Hle|].
             rewrite dget_dset_other by congruence. intros Hj. specialize (B2 _ _ Hj). lia.
      + (* no capacity: queue the event *)
        injection H as <- _. set (k := hev_sid e) in *.
        destruct Hq as [Qne Qks Qdj Qnd].
        unfold post. split.
        { constructor; cbn [queue our cc their].
          - intros k0 l Hin. apply in_dset in Hin as [[-> ->]|Hin]; [|eauto].
            unfold enq. fold k. destruct (dget k (queue s)); [destruct l; discriminate|discriminate].
          - intros k0 l e0 Hin He0. apply in_dset in Hin as [[-> ->]|Hin]; [|eauto].
            unfold enq in He0. fold k in He0. destruct (dget k (queue s)) as [l0|] eqn:Eg.
            + apply in_app_iff in He0 as [He0|[<-|[]]]; [|reflexivity]. eapply Qks; [apply dget_some_in; eauto|exact He0].
            + destruct He0 as [<-|[]]. reflexivity.
          - intros k0 Hin. destruct (dget k (queue s)) as [l0|] eqn:Eg.
            + rewrite (dkeys_dset_old _ _ _ _ Eg) in Hin. auto.
            + rewrite (dkeys_dset_new _ _ _ Eg) in Hin. apply in_app_iff in Hin as [Hin|[<-|[]]]; auto.
          - destruct (dget k (queue s)) as [l0|] eqn:Eg.
            + now rewrite (dkeys_dset_old _ _ _ _ Eg).
            + rewrite (dkeys_dset_new _ _ _ Eg). apply nodup_snoc; [exact Qnd|]. now apply dget_none_keys. }
        split; [auto|]. split; [intros e0 [= <-] _ Hf; congruence|]. split.
        * intros _. split; [now right|]. unfold Lspec. fold k.
          assert (Hdm : dmem k (our s) = false) by (now apply dmem_false). rewrite Hdm, Ef.
          unfold L. cbn [our queue]. unfold dmem. destruct (dget k (queue s)) as [l0|] eqn:Eg.
          -- now rewrite (dkeys_dset_old _ _ _ _ Eg).
          -- rewrite (dkeys_dset_new _ _ _ Eg). now rewrite app_assoc.
        * intros [B1 B2 B3 B4] Hh. constructor; cbn; auto.
          intros k0 l Hin. apply in_dset in Hin as [[-> ->]|Hin]; [|eauto].
          unfold enq. fold k. destruct (dget k (queue s)) as [l0|] eqn:Eg.
          -- destruct (B4 k l0 (dget_some_in _ _ _ Eg)) as (e' & r & -> & Hh'). now exists e', (r ++ [e]).
          -- exists e, []. split; [reflexivity|]. apply (Hh e eq_refl Eo). now apply dget_none_keys.
  Qed.

  (* every allocation happens in a call whose pre-state has capacity, and uses the next id of the library *)
  Lemma alloc_needs_capacity f s e s' o :
    cl_event f s (IHttp e) = Ok (s', o) -> qinv s -> apre s (IHttp e) ->
    dget (hev_sid e) (our s) = None -> dmem (hev_sid e) (our s') = true ->
    has_free (cc s) = true /\ dget (hev_sid e) (our s') = Some (next_id (cc s)).
  Proof.
    intros H Hq Hap Hn Hm. destruct f; [discriminate|]. pose proof H as H0. rewrite cl_event_unfold in H.
    destruct (is_dead (cc s)) eqn:Ed.
    { injection H as <- _. apply dmem_true in Hm. congruence. }
    rewrite Hn in H. destruct (has_free (cc s)) eqn:Ef; cbn [negb] in H.
    - split; [reflexivity|].
      set (s1 := mkCl (cc s) (dset (hev_sid e) (next_id (cc s)) (our s)) (dset (next_id (cc s)) (hev_sid e) (their s)) (queue s)) in *.
      assert (Hq1 : qinv s1).
      { destruct Hq as [Qne Qks Qdj Qnd]. constructor; cbn; auto. intros k0 Hin.
        rewrite dget_dset_other; [auto|]. intros Heq. subst k0. apply (Hap e eq_refl Hn Ef). exact Hin. }
      destruct (run_inner_good f (all_good f) _ _ _ _ H Hq1) as (_ & B & _).
      apply B. cbn. apply dget_dset_same.
    - injection H as <- _. cbn in Hm. apply dmem_true in Hm. congruence.
  Qed.

  (* repaired wrapper: once the connection is gone nothing is left waiting *)
  Definition Dq (s : client) : Prop := fq = true -> is_dead (cc s) = true -> queue s = [].

  Lemma replay_Dq f (G : forall s i s' o, cl_event f s i = Ok (s', o) -> Dq s -> Dq s') :
    forall evs s s' o, replay_with (cl_event f) s evs = Ok (s', o) -> Dq s -> Dq s'.
  Proof. induction evs as [|e t IH]; intros s s' o H Hd; cbn in H; [now injection H as <- _|].
    destruct (cl_event f s (IHttp e)) as [[s1 o1]| |] eqn:E1; cbn in H; try discriminate.
    destruct (replay_with (cl_event f) s1 t) as [[s2 o2]| |] eqn:E2; cbn in H; try discriminate.
    injection H as <- _. eapply IH; eauto. Qed.

  Lemma cl_event_Dq : forall f s i s' o, cl_event f s i = Ok (s', o) -> Dq s -> Dq s'.
  Proof.
    induction f as [|f IH]; intros s i s' o H Hd; [discriminate|]. rewrite cl_event_unfold in H.
    destruct (is_dead (cc s)) eqn:Ed; [now injection H as <- _|].
    assert (R : forall s1 i1, is_dead (cc s1) = false -> run_inner f s1 i1 = Ok (s', o) -> Dq s').
    { intros s1 i1 Ed1 Hr. unfold run_inner in Hr.
      destruct (inner (cc s1) i1) as [[c2 o1]| |]; cbn in Hr; try discriminate.
      destruct (relabel_all (their s1) o1) as [o2| |]; cbn in Hr; try discriminate.
      unfold tail in Hr. cbn [queue cc our their] in Hr. destruct (queue s1) as [|[qsid evs] rest] eqn:Eq.
      - injection Hr as <- _. intros _ _. reflexivity.
      - destruct (fq && is_dead c2) eqn:Efq; [injection Hr as <- _; intros _ _; reflexivity|].
        destruct (has_free c2).
        + destruct (replay_with (cl_event f) (mkCl c2 (our s1) (their s1) rest) evs) as [[s4 o4]| |] eqn:Er; cbn in Hr; try discriminate.
          injection Hr as <- _. eapply (replay_Dq f IH); [exact Er|]. intros Hf Hdd. cbn in Hdd. rewrite Hf, Hdd in Efq. discriminate.
        + injection Hr as <- _. intros Hf Hdd. cbn in Hdd. rewrite Hf, Hdd in Efq. discriminate. }
    destruct i as [|e|l|]; try exact (R _ _ Ed H).
    destruct (dget (hev_sid e) (our s)); [exact (R _ _ Ed H)|].
    destruct (negb (has_free (cc s))); [injection H as <- _; intros _ Hdd; cbn in Hdd; congruence|].
    exact (R (mkCl (cc s) (dset (hev_sid e) (next_id (cc s)) (our s)) (dset (next_id (cc s)) (hev_sid e) (their s)) (queue s)) _ Ed H).
  Qed.

  (* ---------------- histories *)
  Variable c0 : C.
  Hypothesis c0_inv : Cinv c0.

  Inductive reach : client -> list input -> Prop :=
  | reach_init : reach (mkCl c0 [] [] []) []
  | reach_step s h i s' o : reach s h -> cl_step s i = Ok (s', o) -> reach s' (h ++ [i]).

  Lemma reach_inv s h : reach s h ->
    qinv s /\ (alive s -> Q s /\ L s = arrivals h) /\ (wf_first [] h = true -> binv s).
  Proof.
    induction 1 as [|s h i s' o Hr IH Hs].
    - split; [constructor; cbn; intros; try tauto; constructor|]. split.
      + intros _. split; [now left|reflexivity].
      + intros _. constructor; cbn; try discriminate; auto. intros; split; discriminate. intros ? ? [].
    - destruct IH as (Hq & Ha & Hb). unfold Http2Streams.cl_step in Hs.
      destruct (is_dead (cc s)) eqn:Ed.
      { pose proof (dead_absorbs _ _ _ _ _ Ed Hs) as ->. split; [exact Hq|]. split; [unfold alive; congruence|].
        intros Hw. apply Hb. now destruct (wf_first_snoc _ _ _ Hw). }
      destruct (Ha Ed) as [HQ HL].
      assert (Hap : apre s i).
      { intros e -> Hn Hf. destruct HQ as [HQ|HQ]; [rewrite HQ; cbn; tauto|congruence]. }
      destruct (all_good _ _ _ _ _ Hs Hq Hap) as (Hq' & _ & _ & Ha' & Hb').
      split; [exact Hq'|]. split.
      + intros Hal. destruct (Ha' Hal) as [HQ' HL']. split; [exact HQ'|].
        rewrite arrivals_snoc. destruct i as [|e|l|]; cbn [arr_step]; unfold Lspec in HL'; try congruence.
        rewrite HL', <- HL. unfold add_first.
        assert (Hin : forall V (d : list (N * V)) k, dmem k d = true <-> In k (dkeys d)).
        { intros V d k. unfold dmem. pose proof (dget_none_keys k d) as Hk. destruct (dget k d).
          - split; [intros _|reflexivity]. destruct (in_dec N.eq_dec k (dkeys d)) as [Hy|Hy]; [assumption|]. apply Hk in Hy. discriminate.
          - split; [discriminate|]. intros Hi. apply Hk in Hi; [contradiction|reflexivity]. }
        destruct (dmem (hev_sid e) (our s)) eqn:Em.
        { assert (Hi : In (hev_sid e) (L s)) by (unfold L; apply in_app_iff; left; now apply Hin).
          apply existsb_eqb_in in Hi. now rewrite Hi. }
        assert (Hno : ~ In (hev_sid e) (dkeys (our s))) by (rewrite <- Hin; congruence).
        destruct (has_free (cc s)) eqn:Ef.
        { destruct HQ as [HQ|HQ]; [|congruence]. unfold L. rewrite HQ. cbn. rewrite app_nil_r.
          destruct (existsb (N.eqb (hev_sid e)) (dkeys (our s))) eqn:Ex; [apply existsb_eqb_in in Ex; contradiction|reflexivity]. }
        destruct (dmem (hev_sid e) (queue s)) eqn:Emq.
        { assert (Hi : In (hev_sid e) (L s)) by (unfold L; apply in_app_iff; right; now apply Hin).
          apply existsb_eqb_in in Hi. now rewrite Hi. }
        assert (Hnq : ~ In (hev_sid e) (dkeys (queue s))) by (rewrite <- Hin; congruence).
        destruct (existsb (N.eqb (hev_sid e)) (L s)) eqn:Ex; [|reflexivity].
        apply existsb_eqb_in in Ex. unfold L in Ex. apply in_app_iff in Ex. tauto.
      + intros Hw. destruct (wf_first_snoc _ _ _ Hw) as [Hw1 Hw2]. apply Hb'; [auto|].
        intros e -> Hn Hnq. apply (Hw2 e eq_refl); [tauto|]. rewrite <- arrivals_sids, <- HL.
        unfold L. rewrite in_app_iff. apply dget_none_keys in Hn. tauto.
  Qed.

  (* T1: in every reachable state of a well-formed history the two maps are mutually inverse *)
  Theorem map_bijective s h : reach s h -> wf_first [] h = true ->
    forall c j, dget c (our s) = Some j <-> dget j (their s) = Some c.
  Proof. intros Hr Hw. destruct (reach_inv _ _ Hr) as (_ & _ & Hb). exact (b_bij _ (Hb Hw)). Qed.

  (* every server stream id handed out is below the next id of the library: a later stream never reuses one *)
  Theorem map_ids_fresh s h : reach s h -> wf_first [] h = true ->
    forall j c, dget j (their s) = Some c -> j < next_id (cc s).
  Proof. intros Hr Hw j c Hj. destruct (reach_inv _ _ Hr) as (_ & _ & Hb).
    pose proof (b_hi _ (Hb Hw) _ _ Hj). pose proof (next_id_fresh (cc s)). lia. Qed.

  (* T3: opened streams followed by waiting streams = arrival order; each stream once; nobody waits while there is capacity *)
  Theorem map_fifo s h : reach s h -> alive s ->
    dkeys (our s) ++ dkeys (queue s) = arrivals h /\ NoDup (arrivals h) /\ (queue s = [] \/ has_free (cc s) = false).
  Proof. intros Hr Ha. destruct (reach_inv _ _ Hr) as (_ & H & _). destruct (H Ha) as [HQ HL].
    split; [exact HL|]. split; [apply arrivals_nodup|exact HQ]. Qed.

  (* none lost, repaired wrapper: in a reachable state whose connection is gone no stream is left waiting *)
  Theorem map_dead_queue_empty s h : reach s h -> fq = true -> is_dead (cc s) = true -> queue s = [].
  Proof. induction 1 as [|s h i s' o Hr IH Hs]; [reflexivity|]. apply (cl_event_Dq _ _ _ _ _ Hs). exact IH. Qed.

  (* a stream is opened by a step only if the wrapped connection reported capacity, and it gets the next id of the library *)
  Theorem map_open_needs_capacity s h e s' o : reach s h -> cl_step s (IHttp e) = Ok (s', o) ->
    dget (hev_sid e) (our s) = None -> dmem (hev_sid e) (our s') = true ->
    has_free (cc s) = true /\ dget (hev_sid e) (our s') = Some (next_id (cc s)).
  Proof. intros Hr Hs Hn Hm. destruct (reach_inv _ _ Hr) as (Hq & Ha & _).
    destruct (is_dead (cc s)) eqn:Ed.
    { pose proof (dead_absorbs _ _ _ _ _ Ed Hs) as ->. apply dmem_true in Hm. congruence. }
    destruct (Ha Ed) as [HQ _]. eapply alloc_needs_capacity; eauto.
    intros e0 [= <-] _ Hf. destruct HQ as [HQ|HQ]; [rewrite HQ; cbn; tauto|congruence]. Qed.

  Theorem map_queue_wellformed s h : reach s h -> qinv s.
  Proof. intros Hr. now destruct (reach_inv _ _ Hr). Qed.
End Wrapper.
