(* Proofs/X509VerifyLemmas.v -- facts about the specification Model/X509Verify.v, for all inputs. *)
From Coq Require Import List Bool NArith ZArith Lia.
From MV Require Import Base.Bytes Model.X509Verify.
Import ListNotations.

(* ---------- equality test on certificates ---------- *)

Lemma option_eqb_eq {A} (eqb : A -> A -> bool) (a b : option A) :
  (forall x y, eqb x y = true -> x = y) -> option_eqb eqb a b = true -> a = b.
Proof.
  intros H; destruct a, b; simpl; intros E; try discriminate; auto.
  f_equal; auto.
Qed.

Lemma list_eqb_eq {A} (eqb : A -> A -> bool) :
  (forall x y, eqb x y = true -> x = y) -> forall a b, list_eqb eqb a b = true -> a = b.
Proof.
  intros H; induction a as [|x a IH]; destruct b as [|y b]; simpl; intros E; try discriminate; auto.
  apply andb_true_iff in E; destruct E as [E1 E2]. f_equal; auto.
Qed.

Lemma bytes_eqb_true a b : bytes_eqb a b = true -> a = b.
Proof. apply bytes_eqb_eq. Qed.

Lemma cert_eqb_eq a b : cert_eqb a b = true -> a = b.
Proof.
  unfold cert_eqb; intros E.
  repeat (apply andb_true_iff in E; let E' := fresh "E" in destruct E as [E E']).
  destruct a, b; simpl in *.
  apply N.eqb_eq in E. apply N.eqb_eq in E9. apply N.eqb_eq in E8. apply N.eqb_eq in E7.
  apply Z.eqb_eq in E6. apply Z.eqb_eq in E5. apply eqb_prop in E4.
  apply (option_eqb_eq N.eqb) in E3; [|intros x y; apply N.eqb_eq].
  apply (list_eqb_eq bytes_eqb bytes_eqb_true) in E2.
  apply (list_eqb_eq bytes_eqb bytes_eqb_true) in E1.
  apply (option_eqb_eq bytes_eqb) in E0; [|apply bytes_eqb_true].
  subst; reflexivity.
Qed.

(* ---------- names ---------- *)

(* no Common Name fallback: the subject CN is never consulted *)
Lemma name_ok_ignores_cn s i k sk nb na ca pl dns ips cn1 cn2 t :
  name_ok (mkCert s i k sk nb na ca pl dns ips cn1) t = name_ok (mkCert s i k sk nb na ca pl dns ips cn2) t.
Proof. destruct t; reflexivity. Qed.

Lemma name_ok_host c h :
  name_ok c (THost h) = true <-> exists p, In p (c_dns c) /\ dns_match p h = true.
Proof. unfold name_ok; rewrite existsb_exists; tauto. Qed.

(* IP addresses match by octet-string equality with an iPAddress SAN only *)
Lemma name_ok_ip c ip : name_ok c (TIp ip) = true <-> In ip (c_ips c).
Proof.
  unfold name_ok; rewrite existsb_exists; split.
  - intros [x [Hin E]]. apply bytes_eqb_eq in E; subst; exact Hin.
  - intros Hin; exists ip; split; [exact Hin|apply bytes_eqb_refl].
Qed.

Lemma wildcard_suffix_shape pat suf :
  wildcard_suffix pat = Some suf -> exists rest, pat = x2a :: x2e :: rest /\ suf = x2e :: rest.
Proof.
  unfold wildcard_suffix.
  destruct pat as [|a [|b rest]]; try discriminate.
  - destruct a; discriminate.
  - destruct a; try discriminate; destruct b; try discriminate.
    destruct (_ && _); [|discriminate]. intros E; inversion E; subst. exists rest; auto.
Qed.

(* a pattern that is not star-dot-something is never treated as a wildcard: partial wildcards
   (f*.example.com, *f.example.com), stars in other labels and a bare star only match literally *)
Lemma non_leftmost_star_is_literal pat host :
  (forall rest, pat <> x2a :: x2e :: rest) ->
  dns_match pat host = true -> eq_nocase pat host = true.
Proof.
  intros Hn; unfold dns_match; intros E. apply andb_true_iff in E; destruct E as [_ E].
  destruct (wildcard_suffix pat) as [suf|] eqn:W; [|exact E].
  apply wildcard_suffix_shape in W; destruct W as [rest [Hp _]]. exfalso; exact (Hn rest Hp).
Qed.

Lemma is_ldh_not_dot l : forallb is_ldh l = true -> ~ In x2e l.
Proof.
  intros F Hin. rewrite forallb_forall in F. specialize (F _ Hin). vm_compute in F. discriminate.
Qed.

(* every successful match is a literal (case-insensitive) match or the star standing for exactly one
   whole non-empty left-most label: never for several labels, never for part of a label *)
Lemma dns_match_cases pat host :
  dns_match pat host = true ->
  eq_nocase pat host = true
  \/ exists rest l hr, pat = x2a :: x2e :: rest /\ host = l ++ hr /\ l <> [] /\ ~ In x2e l
                       /\ eq_nocase hr (x2e :: rest) = true.
Proof.
  unfold dns_match; intros E. apply andb_true_iff in E; destruct E as [_ E].
  destruct (wildcard_suffix pat) as [suf|] eqn:W; [|left; exact E].
  apply wildcard_suffix_shape in W; destruct W as [rest [Hp Hs]]; subst suf.
  unfold wildcard_match in E. cbv zeta in E.
  apply andb_true_iff in E; destruct E as [E E3]. apply andb_true_iff in E; destruct E as [E1 E2].
  apply Nat.ltb_lt in E1.
  set (n := (length host - length (x2e :: rest))%nat) in *.
  right. exists rest, (firstn n host), (skipn n host).
  assert (L : length (firstn n host) = n) by (apply firstn_length_le; unfold n; lia).
  assert (NE : firstn n host <> []).
  { intros H0. rewrite H0 in L. unfold n in L. simpl in L, E1. unfold byte in *. lia. }
  repeat split; auto.
  - symmetry; apply firstn_skipn.
  - apply orb_true_iff in E3; destruct E3 as [E3|E3].
    + apply is_ldh_not_dot; exact E3.
    + apply bytes_eqb_eq in E3. intros Hin.
      assert (X : firstn n host = [x2a]) by exact E3.
      rewrite X in Hin. simpl in Hin. destruct Hin as [H|[]]; discriminate.
Qed.

(* ---------- chains ---------- *)

(* the relation the search decides: n = number of issuing steps *)
Inductive valid_path (trust pool : list cert) (now : Z) : nat -> cert -> N -> Prop :=
| vp_anchor c d :
    time_ok now c = true -> self_issued c = true -> In c trust -> valid_path trust pool now 0 c d
| vp_step n c p d :
    time_ok now c = true -> In p (trust ++ pool) -> issues p c d = true ->
    valid_path trust pool now n p (d + 1)%N -> valid_path trust pool now (S n) c d.

Lemma path_search_sound trust pool now :
  forall fuel c d, path_search fuel true trust pool now c d = true ->
  exists n, (n <= fuel)%nat /\ valid_path trust pool now n c d.
Proof.
  induction fuel as [|f IH]; intros c d E; simpl in E;
    apply andb_true_iff in E; destruct E as [T E]; apply orb_true_iff in E.
  - destruct E as [E|E]; [|discriminate].
    apply andb_true_iff in E; destruct E as [S0 M]. apply existsb_exists in M; destruct M as [x [Hin Q]].
    apply cert_eqb_eq in Q; subst x. exists 0%nat; split; [lia|]. constructor; auto.
  - destruct E as [E|E].
    + apply andb_true_iff in E; destruct E as [S0 M]. apply existsb_exists in M; destruct M as [x [Hin Q]].
      apply cert_eqb_eq in Q; subst x. exists 0%nat; split; [lia|]. constructor; auto.
    + apply existsb_exists in E; destruct E as [p [Hin Q]].
      apply andb_true_iff in Q; destruct Q as [I R].
      destruct (IH _ _ R) as [n [Hn V]]. exists (S n); split; [lia|]. econstructor; eauto.
Qed.

Lemma cert_eqb_refl c : cert_eqb c c = true.
Proof.
  unfold cert_eqb. rewrite !N.eqb_refl, !Z.eqb_refl, eqb_reflx.
  assert (LR : forall l, list_eqb bytes_eqb l l = true)
    by (induction l; simpl; [reflexivity|rewrite bytes_eqb_refl; exact IHl]).
  rewrite !LR.
  destruct (c_pathlen c); simpl; [rewrite N.eqb_refl|];
    (destruct (c_cn c); simpl; [rewrite bytes_eqb_refl|]; reflexivity).
Qed.

Lemma path_search_complete trust pool now :
  forall n c d, valid_path trust pool now n c d ->
  forall fuel, (n <= fuel)%nat -> path_search fuel true trust pool now c d = true.
Proof.
  induction 1 as [c d T S0 Hin | n c p d T Hin I V IH]; intros fuel Hf.
  - destruct fuel; simpl; rewrite T, S0; simpl;
      (replace (existsb (cert_eqb c) trust) with true; [reflexivity|]);
      symmetry; apply existsb_exists; exists c; split; auto using cert_eqb_refl.
  - destruct fuel as [|f]; [lia|]. simpl. rewrite T; simpl.
    apply orb_true_iff; right. apply existsb_exists. exists p; split; [exact Hin|].
    rewrite I; simpl. apply IH; lia.
Qed.

(* properties of any accepted path *)
Lemma valid_path_leaf_time trust pool now n c d : valid_path trust pool now n c d -> time_ok now c = true.
Proof. destruct 1; assumption. Qed.

Lemma valid_path_ends_in_trusted_root trust pool now n c d :
  valid_path trust pool now n c d ->
  exists r, In r trust /\ self_issued r = true /\ time_ok now r = true.
Proof. induction 1; [exists c; auto|assumption]. Qed.

Lemma chain_ok_sound trust pool now leaf :
  chain_ok trust pool now leaf = true -> exists n, valid_path trust pool now n leaf 0%N.
Proof. intros E; apply path_search_sound in E; destruct E as [n [_ V]]; eauto. Qed.

Lemma chain_ok_complete trust pool now leaf n :
  valid_path trust pool now n leaf 0%N -> (n <= search_fuel trust pool)%nat -> chain_ok trust pool now leaf = true.
Proof. intros V H; unfold chain_ok; eapply path_search_complete; eauto. Qed.

(* the decomposition used by C15 (and C16) *)
Lemma x509_ok_sound trust chain now t :
  x509_ok trust chain now t = true ->
  exists leaf extra n, chain = leaf :: extra
    /\ valid_path trust extra now n leaf 0%N
    /\ time_ok now leaf = true
    /\ name_ok leaf t = true.
Proof.
  unfold x509_ok; destruct chain as [|leaf extra]; [discriminate|].
  intros E; apply andb_true_iff in E; destruct E as [C Nm].
  destruct (chain_ok_sound _ _ _ _ C) as [n V].
  exists leaf, extra, n; repeat split; auto. eapply valid_path_leaf_time; eauto.
Qed.

Lemma x509_ok_empty trust now t : x509_ok trust [] now t = false.
Proof. reflexivity. Qed.
