(* Proofs/ClientPlaybackWitness.v -- concrete histories: the witnesses of the refuted statements
   (computed by vm_compute on the model the correspondence check runs) and a non-vacuity example. *)
From Coq Require Import List Bool Arith NArith Lia.
From MV Require Import Base.Bytes Model.FlowBackup Proofs.FlowBackup Model.ClientPlayback
  Proofs.ClientPlaybackLog Proofs.ClientPlaybackStop Proofs.ClientPlaybackSent.
Import ListNotations.
Local Open Scope nat_scope.

Definition f_resp : cflow := http_flow 0%N (Some 100).
Definition f_noresp : cflow := http_flow 1%N None.

(* progress of a replay that has not been corrupted, phase by phase *)
Theorem can_finish : forall s a, act s = Some a -> a_pend a = None ->
  match a_phase a with
  | Connecting =>
      (exists r, log (loop_net (net s NFailed)) = log s ++ [LFin (a_seq a) (a_flow a) r true]
                 /\ act (loop_net (net s NFailed)) = None)
      /\ loop (net s NConnected) =
           mkSt (flows s) (queue s) (Some (mkAct (a_seq a) (a_flow a) Sent None)) (next_seq s)
                (log s ++ [LReq (a_seq a) (a_flow a)])
  | Sent =>
      (forall t, exists e, log (loop_net (net s (NResponse t))) = log s ++ [LFin (a_seq a) (a_flow a) (Some t) e]
                           /\ act (loop_net (net s (NResponse t))) = None)
      /\ (exists r, log (loop_net (net s NBroken)) = log s ++ [LFin (a_seq a) (a_flow a) r true]
                    /\ act (loop_net (net s NBroken)) = None)
  | Corrupt => True
  end.
Proof.
  intros s a A Q. destruct (a_phase a) eqn:P; auto.
  - split; [apply can_fail; auto|apply can_connect; auto].
  - split; [intros t; apply can_respond; auto|apply can_break; auto].
Qed.

(* the same flow queued twice: the second entry is answered from the response of the first replay *)
Definition twice : list op :=
  [Submit [0; 0]; Loop; Net NConnected; Loop; Net (NResponse 101); Loop].

Lemma stale_witness :
  let s := run (init [f_noresp]) twice in
  In (LStale 1 0) (log s) /\ In (LFin 1 0 (Some 101) false) (log s) /\ ~ In (LReq 1 0) (log s)
  /\ queue s = [] /\ act s = None.
Proof. vm_compute. repeat split; auto 10. intuition discriminate. Qed.

(* the request is dropped while the flow is queued: the except branch, neither response nor error *)
Lemma crash_witness :
  let s := run (init [f_noresp]) [Submit [0]; Edit 0 EDropRequest; Loop] in
  In (LCrash 0 0) (log s) /\ act s = None /\ queue s = []
  /\ option_map (fun f => (o_resp (fo (cf f)), o_err (fo (cf f)))) (nth_error (flows s) 0) = Some (None, false).
Proof. vm_compute. repeat split; auto 10. Qed.

(* stop_replay while the flow in flight (request sent) is queued a second time *)
Definition wedge_ops : list op := [Submit [0; 0; 1]; Loop; Net NConnected; Loop; Stop].

Lemma wedge_reached : corrupt (run (init [f_noresp; f_resp]) wedge_ops).
Proof. unfold corrupt. vm_compute. eexists. split; reflexivity. Qed.

Lemma wedge_witness :
  let s := run (init [f_noresp; f_resp]) wedge_ops in
  (exists a, act s = Some a /\ a_flow a = 0) /\
  forall more, act (run s more) <> None /\ popped (log (run s more)) = popped (log s)
               /\ forall n i r e, In (LFin n i r e) (log (run s more)) -> In (LFin n i r e) (log s).
Proof.
  intros s. split; [vm_compute; eexists; split; reflexivity|].
  intros more. destruct (corrupt_forever more s wedge_reached) as ((a & A & _) & P & F).
  split; [congruence|]. split; assumption.
Qed.

(* non-vacuity: two flows replayed in order, the second one edited while queued and then stopped *)
Definition demo_ops : list op :=
  [Submit [0; 1]; Loop; Net NConnected; Loop; Edit 1 (ESetContent 5); Net (NResponse 104)].

Lemma demo :
  let s := run (init [f_resp; f_noresp]) demo_ops in
  log s = [LSubmit 0 [0; 1]; LStart 0 0; LReq 0 0]
  /\ log (step s Loop) = [LSubmit 0 [0; 1]; LStart 0 0; LReq 0 0; LFin 0 0 (Some 104) false; LStart 1 1]
  /\ map snd (queue s) = [1] /\ act s = Some (mkAct 0 0 Sent (Some (NResponse 104)))
  /\ Forall (safe 1) demo_ops
  /\ option_map (fun f => f_state (cf f)) (nth_error (flows (step s Stop)) 1) = Some (f_state (cf f_noresp))
  /\ option_map (fun f => f_state (cf f)) (nth_error (flows s) 1) <> Some (f_state (cf f_noresp)).
Proof.
  split; [vm_compute; reflexivity|]. split; [vm_compute; reflexivity|]. split; [vm_compute; reflexivity|].
  split; [vm_compute; reflexivity|].
  split. { unfold demo_ops, safe. repeat constructor; discriminate. }
  split; [vm_compute; reflexivity|]. vm_compute. discriminate.
Qed.

(* ---- the refuted statements, as existentials ---- *)
Lemma replay_can_finish_refuted :
  exists fs ops, let s := run (init fs) ops in
  (exists a, act s = Some a /\ a_flow a = 0) /\
  forall more, act (run s more) <> None /\ popped (log (run s more)) = popped (log s)
               /\ forall n i r e, In (LFin n i r e) (log (run s more)) -> In (LFin n i r e) (log s).
Proof. exists [f_noresp; f_resp], wedge_ops. exact wedge_witness. Qed.

Lemma taken_entry_has_outcome_refuted :
  exists fs ops, let s := run (init fs) ops in
  In (LCrash 0 0) (log s) /\ act s = None /\ queue s = []
  /\ option_map (fun f => (o_resp (fo (cf f)), o_err (fo (cf f)))) (nth_error (flows s) 0) = Some (None, false).
Proof. exists [f_noresp], [Submit [0]; Edit 0 EDropRequest; Loop]. exact crash_witness. Qed.

Lemma every_entry_sends_refuted :
  exists fs ops, let s := run (init fs) ops in
  In (LStale 1 0) (log s) /\ In (LFin 1 0 (Some 101) false) (log s) /\ ~ In (LReq 1 0) (log s)
  /\ queue s = [] /\ act s = None.
Proof. exists [f_noresp], twice. exact stale_witness. Qed.

Lemma stop_restores_refuted :
  exists fs before_ops i,
  let before := run (init fs) before_ops in
  let after := run before [Submit [i]; Stop] in
  option_map (fun f => o_content (fo (cf f))) (nth_error (flows before) i) = Some (Some 7)
  /\ option_map (fun f => o_content (fo (cf f))) (nth_error (flows after) i) = Some (Some 0)
  /\ option_map (fun f => fbackup (cf f)) (nth_error (flows before) i) <> Some None
  /\ option_map (fun f => fbackup (cf f)) (nth_error (flows after) i) = Some None
  /\ queue after = [].
Proof.
  exists [http_flow 0%N (Some 100)], [Edit 0 EBackup; Edit 0 (ESetContent 7)], 0.
  exact stop_restores_refuted_witness.
Qed.
