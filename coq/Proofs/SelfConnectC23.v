(* Proofs/SelfConnectC23.v -- C23: the self-connect guard of Proxyserver.server_connect (generated
   model Gen/SelfConnect.v, describing the code after fixes/C23-transport-both.diff) against the
   specification Model/SelfSpec.v.  All statements are for every server list, host string, port
   and transport. *)
From Coq Require Import NArith List Bool Lia Ascii String.
From MV Require Import Base.Bytes Model.SelfConnectBase Model.SelfSpec Gen.SelfConnect.
Import ListNotations.
Open Scope N_scope.

(* the host spellings the guard recognises *)
Definition recognised (ch lh : bytes) : Prop :=
  ch = s_localhost \/ ch = s_127_0_0_1 \/ ch = s_v6_loop \/ ch = lh.

Lemma transport_test : forall mt ct,
  in_tuple transport_eqb mt [ct; BOTH] = true <-> transport_compatible mt ct.
Proof.
  intros mt ct. unfold transport_compatible, in_tuple. cbn [existsb].
  destruct mt, ct; cbn; split; intros H; try reflexivity; try discriminate; auto;
    destruct H as [H|H]; discriminate.
Qed.

Lemma self_connect_iff : forall ch cp ct srv lh lp,
  self_connect ch cp ct srv lh lp = true <->
  cp = lp /\ recognised ch lh /\ transport_compatible (mode_transport srv) ct.
Proof.
  intros. unfold self_connect, recognised. rewrite !andb_true_iff, N.eqb_eq, transport_test.
  unfold in_tuple. cbn [existsb]. rewrite !orb_true_iff, !bytes_eqb_eq.
  fold s_localhost s_127_0_0_1 s_v6_loop.
  split.
  - intros [[Hp Hh] Ht]. split; [exact Hp|]. split; [|exact Ht].
    destruct Hh as [H|[H|[H|[H|H]]]]; auto. discriminate.
  - intros [Hp [Hh Ht]]. split; [split; [exact Hp|]|exact Ht].
    destruct Hh as [H|[H|[H|H]]]; auto.
Qed.

Lemma server_connect_flags_iff : forall servers ch cp ct,
  server_connect servers ch cp ct = Some error_message <->
  exists srv la, In srv servers /\ In la (listen_addrs srv) /\ self_connect ch cp ct srv (fst la) (snd la) = true.
Proof.
  intros. unfold server_connect.
  destruct (existsb _ servers) eqn:E.
  - split; [intros _|reflexivity].
    apply existsb_exists in E. destruct E as [srv [Hs E]].
    apply existsb_exists in E. destruct E as [la [Hl E]]. exists srv, la. auto.
  - split; [discriminate|]. intros [srv [la [Hs [Hl H]]]]. exfalso.
    assert (T : existsb (fun server => existsb (fun la => self_connect ch cp ct server (fst la) (snd la)) (listen_addrs server)) servers = true).
    { apply existsb_exists. exists srv. split; [exact Hs|]. apply existsb_exists. exists la. auto. }
    rewrite E in T. discriminate.
Qed.

Lemma server_connect_none_or_flag : forall servers ch cp ct,
  server_connect servers ch cp ct = None \/ server_connect servers ch cp ct = Some error_message.
Proof. intros. unfold server_connect. destruct (existsb _ servers); auto. Qed.

(* exact characterisation of the implementation: which requests get the destination-unknown error *)
Theorem exact : forall servers ch cp ct,
  server_connect servers ch cp ct = Some error_message <->
  exists srv la, In srv servers /\ In la (listen_addrs srv)
    /\ cp = snd la /\ recognised ch (fst la) /\ transport_compatible (mode_transport srv) ct.
Proof.
  intros. rewrite server_connect_flags_iff. split; intros [srv [la [Hs [Hl H]]]]; exists srv, la;
    (split; [exact Hs|]; split; [exact Hl|]); apply self_connect_iff; exact H.
Qed.

(* the property, restricted to the recognised spellings (the complement is the finding) *)
Theorem partial : forall servers srv la ch cp ct,
  In srv servers -> In la (listen_addrs srv) ->
  denotes_listener srv la ch cp ct -> recognised ch (fst la) ->
  server_connect servers ch cp ct = Some error_message.
Proof.
  intros servers srv la ch cp ct Hs Hl [Hp [Ht _]] Hr. apply exact. exists srv, la. auto.
Qed.

(* ... and that guard is exact: with one listener, an unrecognised spelling is never stopped *)
Theorem unrecognised_not_flagged : forall mt la ch cp ct,
  ~ recognised ch (fst la) ->
  server_connect [{| mode_transport := mt; listen_addrs := [la] |}] ch cp ct = None.
Proof.
  intros mt la ch cp ct Hn.
  destruct (server_connect_none_or_flag [{| mode_transport := mt; listen_addrs := [la] |}] ch cp ct) as [H|H]; [exact H|].
  exfalso. apply exact in H. destruct H as [srv [la' [Hs [Hl [_ [Hr _]]]]]].
  destruct Hs as [Hs|[]]. subst srv. cbn [listen_addrs] in Hl. destruct Hl as [Hl|[]]. subst la'. exact (Hn Hr).
Qed.

(* the explicit listen address, and the three literal spellings, are stopped on the right port for
   every compatible transport -- including servers that listen on both transports (repaired) *)
Theorem explicit_listen_address : forall servers srv la cp ct,
  In srv servers -> In la (listen_addrs srv) -> cp = snd la ->
  transport_compatible (mode_transport srv) ct ->
  server_connect servers (fst la) cp ct = Some error_message.
Proof.
  intros servers srv la cp ct Hs Hl Hp Ht. apply exact. exists srv, la. unfold recognised. auto 10.
Qed.

(* ---- dotted-decimal printing is injective on octets: needed to say which 127.x.y.z are missed *)
Definition no_dot (s : bytes) : bool := forallb (fun b => negb (byte_eqb b dot)) s.

Fixpoint undec (s : bytes) (acc : N) : N :=
  match s with [] => acc | b :: r => undec r (acc * 10 + (bN b - 48)) end.

Definition octets : list N := map N.of_nat (seq 0 256).

Lemma octets_complete : forall x, x < 256 -> In x octets.
Proof.
  intros x H. unfold octets. apply in_map_iff. exists (N.to_nat x). split; [lia|].
  apply in_seq. lia.
Qed.

Lemma dec_octet_ok : forall x, x < 256 -> no_dot (dec_of_N x) = true /\ undec (dec_of_N x) 0 = x.
Proof.
  intros x H.
  assert (A : forallb (fun x => no_dot (dec_of_N x) && (undec (dec_of_N x) 0 =? x)) octets = true) by (vm_compute; reflexivity).
  rewrite forallb_forall in A. specialize (A x (octets_complete x H)).
  apply andb_prop in A. destruct A as [A1 A2]. apply N.eqb_eq in A2. auto.
Qed.

Lemma split_at_dot : forall a b r r', no_dot a = true -> no_dot b = true ->
  a ++ dot :: r = b ++ dot :: r' -> a = b /\ r = r'.
Proof.
  induction a as [|x a IH]; intros b r r' Ha Hb H.
  - destruct b as [|y b]; cbn in H.
    + inversion H. auto.
    + inversion H as [[Hy Hr]]. subst y. cbn in Hb. try rewrite byte_eqb_refl in Hb. discriminate.
  - destruct b as [|y b]; cbn in H.
    + inversion H as [[Hx Hr]]. subst x. cbn in Ha. try rewrite byte_eqb_refl in Ha. discriminate.
    + inversion H as [[Hx Hr]]. subst y. cbn in Ha, Hb.
      apply andb_prop in Ha. apply andb_prop in Hb.
      destruct (IH b r r' (proj2 Ha) (proj2 Hb) Hr) as [E1 E2]. subst. auto.
Qed.

Lemma dec_octet_inj : forall x y, x < 256 -> y < 256 -> dec_of_N x = dec_of_N y -> x = y.
Proof.
  intros x y Hx Hy H. rewrite <- (proj2 (dec_octet_ok x Hx)), <- (proj2 (dec_octet_ok y Hy)), H. reflexivity.
Qed.

Lemma dotted_inj : forall n m, n < 4294967296 -> m < 4294967296 -> dotted n = dotted m -> n = m.
Proof.
  intros n m Hn Hm H. unfold dotted in H.
  assert (B : forall k, k mod 256 < 256) by (intros; apply N.mod_lt; lia).
  destruct (split_at_dot _ _ _ _ (proj1 (dec_octet_ok _ (B _))) (proj1 (dec_octet_ok _ (B _))) H) as [E1 H1].
  destruct (split_at_dot _ _ _ _ (proj1 (dec_octet_ok _ (B _))) (proj1 (dec_octet_ok _ (B _))) H1) as [E2 H2].
  destruct (split_at_dot _ _ _ _ (proj1 (dec_octet_ok _ (B _))) (proj1 (dec_octet_ok _ (B _))) H2) as [E3 E4].
  apply dec_octet_inj in E1, E2, E3, E4; try apply B.
  pose proof (N.div_mod n 256 ltac:(lia)). pose proof (N.div_mod (n / 256) 256 ltac:(lia)).
  pose proof (N.div_mod (n / 256 / 256) 256 ltac:(lia)).
  pose proof (N.div_mod m 256 ltac:(lia)). pose proof (N.div_mod (m / 256) 256 ltac:(lia)).
  pose proof (N.div_mod (m / 256 / 256) 256 ltac:(lia)).
  rewrite !N.div_div in * by lia. change (256 * 256) with 65536 in *. change (65536 * 256) with 16777216 in *.
  assert (n / 16777216 < 256) by (apply N.div_lt_upper_bound; lia).
  assert (m / 16777216 < 256) by (apply N.div_lt_upper_bound; lia).
  rewrite (N.mod_small (n / 16777216) 256) in E1 by lia. rewrite (N.mod_small (m / 16777216) 256) in E1 by lia.
  lia.
Qed.

Lemma dotted_127_0_0_1 : dotted 2130706433 = s_127_0_0_1.
Proof. vm_compute. reflexivity. Qed.

Lemma dotted_loop_prefix : forall n, in_loop4 n = true ->
  exists r, dotted n = [x31; x32; x37; x2e] ++ r.
Proof.
  intros n H. unfold in_loop4 in H. apply andb_prop in H. destruct H as [H1 H2].
  apply N.leb_le in H1. apply N.leb_le in H2.
  assert (E : n / 16777216 = 127).
  { symmetry. apply (N.div_unique n 16777216 127 (n - 2130706432)); lia. }
  unfold dotted. rewrite E. change (127 mod 256) with 127. change (dec_of_N 127) with [x31; x32; x37].
  eexists. reflexivity.
Qed.

(* EVERY address of 127.0.0.0/8 other than 127.0.0.1, written in dotted decimal, is let through when
   mitmproxy listens on all interfaces (or on any loopback/wildcard address other than that very
   spelling): the guard recognises a single member of the /8 *)
Theorem loopback_v4_missed : forall n mt lh p ct,
  in_loop4 n = true -> n <> 2130706433 -> dotted n <> lh ->
  local_dest (dotted n)
  /\ server_connect [{| mode_transport := mt; listen_addrs := [(lh, p)] |}] (dotted n) p ct = None.
Proof.
  intros n mt lh p ct Hn Hne Hlh. split; [apply LD_v4; exact Hn|].
  apply unrecognised_not_flagged. cbn [fst]. unfold recognised.
  destruct (dotted_loop_prefix n Hn) as [r Hr].
  intros [H|[H|[H|H]]].
  - rewrite Hr in H. discriminate.
  - rewrite <- dotted_127_0_0_1 in H. apply dotted_inj in H; [exact (Hne H)| |lia].
    unfold in_loop4 in Hn. apply andb_prop in Hn. destruct Hn as [_ H2]. apply N.leb_le in H2. lia.
  - rewrite Hr in H. discriminate.
  - exact (Hlh H).
Qed.

(* same for the IPv4-mapped spelling of EVERY loopback address, 127.0.0.1 included *)
Theorem mapped_loopback_missed : forall n mt lh p ct,
  in_loop4 n = true -> s_mapped_prefix ++ dotted n <> lh ->
  local_dest (s_mapped_prefix ++ dotted n)
  /\ server_connect [{| mode_transport := mt; listen_addrs := [(lh, p)] |}] (s_mapped_prefix ++ dotted n) p ct = None.
Proof.
  intros n mt lh p ct Hn Hlh. split; [apply LD_mapped; exact Hn|].
  apply unrecognised_not_flagged. cbn [fst]. unfold recognised.
  destruct (dotted_loop_prefix n Hn) as [r Hr]. rewrite Hr.
  intros [H|[H|[H|H]]]; try discriminate. rewrite <- Hr in H. exact (Hlh H).
Qed.

(* every spelling of the name other than the all-lower-case one without trailing dot *)
Theorem localhost_names_missed : forall s mt lh p ct,
  is_localhost_name s = true -> s <> s_localhost -> s <> lh ->
  local_dest s /\ server_connect [{| mode_transport := mt; listen_addrs := [(lh, p)] |}] s p ct = None.
Proof.
  intros s mt lh p ct Hs Hne Hlh. split; [apply LD_name; exact Hs|].
  apply unrecognised_not_flagged. cbn [fst]. unfold recognised.
  intros [H|[H|[H|H]]]; try (subst s; vm_compute in Hs; discriminate); auto.
Qed.

(* ---- concrete counterexamples to the full property, one per spelling family:
   mitmproxy listening on all IPv4 interfaces (0.0.0.0:8080, regular mode, TCP) *)
Definition srv_all : server := {| mode_transport := TCP; listen_addrs := [(s_wild4, 8080)] |}.
Definition b (s : string) : bytes := map (fun a => Nb (N_of_ascii a)) (list_ascii_of_string s).

Definition counterexample (ch : bytes) : Prop :=
  denotes_listener srv_all (s_wild4, 8080) ch 8080 TCP /\ server_connect [srv_all] ch 8080 TCP = None.

Lemma denotes_all : forall ch, local_dest ch -> denotes_listener srv_all (s_wild4, 8080) ch 8080 TCP.
Proof.
  intros ch H. split; [reflexivity|]. split; [left; reflexivity|]. right. split; [|exact H].
  right. right. left. reflexivity.
Qed.

Theorem refuted :
  counterexample (dotted 2130706434)                   (* 127.0.0.2 *)
  /\ counterexample (b "LOCALHOST")
  /\ counterexample (b "localhost.")
  /\ counterexample s_wild6                            (* :: *)
  /\ counterexample (s_mapped_prefix ++ dotted 2130706433)   (* ::ffff:127.0.0.1 *)
  /\ counterexample s_v6_loop_short                    (* 0:0:0:0:0:0:0:1 *)
  (* the wildcard 0.0.0.0 is missed when listening on loopback *)
  /\ (denotes_listener {| mode_transport := TCP; listen_addrs := [(s_127_0_0_1, 8080)] |} (s_127_0_0_1, 8080) s_wild4 8080 TCP
      /\ server_connect [{| mode_transport := TCP; listen_addrs := [(s_127_0_0_1, 8080)] |}] s_wild4 8080 TCP = None).
Proof.
  assert (cex : forall ch, local_dest ch -> server_connect [srv_all] ch 8080 TCP = None -> counterexample ch).
  { intros ch H1 H2. split; [apply denotes_all; exact H1|exact H2]. }
  split; [apply cex; [apply LD_v4|]; vm_compute; reflexivity|].
  split; [apply cex; [apply LD_name|]; vm_compute; reflexivity|].
  split; [apply cex; [apply LD_name|]; vm_compute; reflexivity|].
  split; [apply cex; [apply LD_wild; right; left; reflexivity|vm_compute; reflexivity]|].
  split; [apply cex; [apply LD_mapped|]; vm_compute; reflexivity|].
  split; [apply cex; [apply LD_v6; right; left; reflexivity|vm_compute; reflexivity]|].
  split; [|vm_compute; reflexivity].
  split; [reflexivity|]. split; [left; reflexivity|]. right. split.
  - left. exists 2130706433. split; [vm_compute; reflexivity|]. symmetry. exact dotted_127_0_0_1.
  - apply LD_wild. left. reflexivity.
Qed.

(* non-vacuity: the hypotheses of [partial] are satisfiable with a non-trivial configuration, also for
   a server that listens on both transports (dns mode) asked over UDP, and the guard does not fire
   on an unrelated destination *)
Definition srv_dns : server := {| mode_transport := BOTH; listen_addrs := [(s_wild4, 53); (s_wild6, 53)] |}.

Theorem nonvacuous :
  denotes_listener srv_dns (s_wild6, 53) s_localhost 53 UDP
  /\ recognised s_localhost (fst (s_wild6, 53))
  /\ server_connect [srv_all; srv_dns] s_localhost 53 UDP = Some error_message
  /\ server_connect [srv_all; srv_dns] s_localhost 8080 UDP = None
  /\ server_connect [srv_all; srv_dns] (b "example.com") 8080 TCP = None
  /\ server_connect [srv_all; srv_dns] s_v6_loop 8080 TCP = Some error_message.
Proof.
  split.
  { split; [reflexivity|]. split; [right; reflexivity|]. right. split.
    - right. right. right. reflexivity.
    - apply LD_name. vm_compute. reflexivity. }
  split; [left; reflexivity|].
  split; [vm_compute; reflexivity|]. split; [vm_compute; reflexivity|].
  split; vm_compute; reflexivity.
Qed.
