(* Proofs/Socks5Seg.v -- segmentation independence of the Socks5Proxy model:
   feeding a ++ b in one DataReceived equals feeding a then b, for every state,
   hence every splitting of a byte stream reaches the same state as the unsplit stream. *)
From Coq Require Import List Bool Arith NArith Lia.
From MV Require Import Base.Bytes Model.Socks5.
Import ListNotations.

(* ---- list facts: a prefix long enough determines slices and indexing ---- *)
Lemma firstn_app_le {A} n (x b : list A) : n <= length x -> firstn n (x ++ b) = firstn n x.
Proof.
  intros H. rewrite firstn_app. replace (n - length x) with 0 by lia.
  cbn. apply app_nil_r.
Qed.

Lemma skipn_app_le {A} n (x b : list A) : n <= length x -> skipn n (x ++ b) = skipn n x ++ b.
Proof.
  intros H. rewrite skipn_app. replace (n - length x) with 0 by lia. reflexivity.
Qed.

Lemma at_app_lt i (x b : bytes) : i < length x -> at_ i (x ++ b) = at_ i x.
Proof. intros H. unfold at_. apply app_nth1. exact H. Qed.

Lemma slice_app_le a e (x b : bytes) : e <= length x -> slice a e (x ++ b) = slice a e x.
Proof.
  intros H. unfold slice.
  destruct (Nat.le_gt_cases a e) as [Hae|Hae].
  - rewrite skipn_app_le by lia. apply firstn_app_le. rewrite skipn_length. lia.
  - replace (e - a) with 0 by lia. reflexivity.
Qed.

Lemma ltb_app_false n (x b : bytes) : (length x <? n) = false -> (length (x ++ b) <? n) = false.
Proof. rewrite !Nat.ltb_ge, app_length. lia. Qed.

(* ---- the tail of state_connect ---- *)
Lemma child_data_app o a b : child_data (child_data o a) b = child_data o (a ++ b).
Proof. unfold child_data. cbn. rewrite app_assoc. reflexivity. Qed.

Lemma child_data_nil o : child_data o [] = o.
Proof. destruct o. unfold child_data. cbn. rewrite app_nil_r. reflexivity. Qed.

Lemma connect_finish_app c o h p rest b :
  connect_finish c o h p (rest ++ b) = handle_data c (connect_finish c o h p rest) b.
Proof.
  unfold connect_finish.
  destruct (finish_start c (set_dest o (h, p))) as [err o2].
  destruct err; [reflexivity|].
  destruct rest as [|r0 rest]; cbn [app].
  - destruct b as [|b0 b]; cbn [handle_data fst snd].
    + rewrite child_data_nil. reflexivity.
    + reflexivity.
  - cbn [handle_data fst snd]. rewrite child_data_app. reflexivity.
Qed.

(* ---- state_connect ---- *)
Lemma message_len_app atyp x b : 5 <= length x -> message_len atyp (x ++ b) = message_len atyp x.
Proof. intros H. unfold message_len. rewrite at_app_lt by lia. reflexivity. Qed.

Lemma connect_app c x b o :
  state_connect c (x ++ b) o = handle_data c (state_connect c x o) b.
Proof.
  assert (W : state_connect c x o = (Connect x, o) ->
              state_connect c (x ++ b) o = handle_data c (state_connect c x o) b).
  { intros ->. reflexivity. }
  destruct (length x <? 5) eqn:E1.
  { apply W. unfold state_connect. rewrite E1. reflexivity. }
  assert (L5 : 5 <= length x) by (apply Nat.ltb_ge; exact E1).
  destruct (negb (bytes_eqb (firstn 3 x) [x05; x01; x00])) eqn:E2.
  { unfold state_connect. rewrite (ltb_app_false _ _ _ E1), E1.
    rewrite firstn_app_le by lia. rewrite E2. reflexivity. }
  destruct (message_len (at_ 3 x) x) as [ml|] eqn:E3.
  2:{ unfold state_connect. rewrite (ltb_app_false _ _ _ E1), E1.
      rewrite firstn_app_le by lia. rewrite E2.
      rewrite at_app_lt by lia. rewrite message_len_app by lia. rewrite E3. reflexivity. }
  destruct (length x <? ml) eqn:E4.
  { apply W. unfold state_connect. rewrite E1, E2, E3, E4. reflexivity. }
  assert (Lml : ml <= length x) by (apply Nat.ltb_ge; exact E4).
  unfold state_connect. rewrite (ltb_app_false _ _ _ E1), E1.
  rewrite firstn_app_le by lia. rewrite E2.
  rewrite at_app_lt by lia. rewrite message_len_app by lia. rewrite E3.
  rewrite (ltb_app_false _ _ _ E4), E4.
  rewrite (firstn_app_le ml) by lia. rewrite skipn_app_le by lia.
  destruct (parse_host (at_ 3 x) (firstn ml x)) as [h|]; [|reflexivity].
  destruct (unpack_H _) as [port|]; [|reflexivity].
  apply connect_finish_app.
Qed.

(* ---- state_auth ---- *)
Lemma auth_app c x b o :
  state_auth c (x ++ b) o = handle_data c (state_auth c x o) b.
Proof.
  assert (W : state_auth c x o = (Auth x, o) ->
              state_auth c (x ++ b) o = handle_data c (state_auth c x o) b).
  { intros ->. reflexivity. }
  destruct (length x <? 3) eqn:E1.
  { apply W. unfold state_auth. rewrite E1. reflexivity. }
  assert (L3 : 3 <= length x) by (apply Nat.ltb_ge; exact E1).
  destruct (length x <? 3 + blen (at_ 1 x)) eqn:E2.
  { apply W. unfold state_auth. rewrite E1, E2. reflexivity. }
  assert (L2 : 3 + blen (at_ 1 x) <= length x) by (apply Nat.ltb_ge; exact E2).
  destruct (length x <? 3 + blen (at_ 1 x) + blen (at_ (2 + blen (at_ 1 x)) x)) eqn:E3.
  { apply W. unfold state_auth. rewrite E1, E2, E3. reflexivity. }
  assert (L4 : 3 + blen (at_ 1 x) + blen (at_ (2 + blen (at_ 1 x)) x) <= length x)
    by (apply Nat.ltb_ge; exact E3).
  unfold state_auth. rewrite (ltb_app_false _ _ _ E1), E1.
  rewrite (at_app_lt 1) by lia.
  rewrite (ltb_app_false _ _ _ E2), E2.
  rewrite (at_app_lt (2 + blen (at_ 1 x))) by lia.
  rewrite (ltb_app_false _ _ _ E3), E3.
  rewrite !slice_app_le by lia.
  destruct (negb (authok c _ _)); [reflexivity|].
  rewrite skipn_app_le by lia. apply connect_app.
Qed.

(* ---- state_greet ---- *)
Lemma greet_app c x b o :
  state_greet c (x ++ b) o = handle_data c (state_greet c x o) b.
Proof.
  assert (W : state_greet c x o = (Greet x, o) ->
              state_greet c (x ++ b) o = handle_data c (state_greet c x o) b).
  { intros ->. reflexivity. }
  destruct (length x <? 2) eqn:E1.
  { apply W. unfold state_greet. rewrite E1. reflexivity. }
  assert (L2 : 2 <= length x) by (apply Nat.ltb_ge; exact E1).
  destruct (negb (byte_eqb (at_ 0 x) SOCKS5_VERSION)) eqn:E2.
  { unfold state_greet. rewrite (ltb_app_false _ _ _ E1), E1.
    rewrite (at_app_lt 0) by lia. rewrite E2. reflexivity. }
  destruct (length x <? 2 + blen (at_ 1 x)) eqn:E3.
  { apply W. unfold state_greet. rewrite E1, E2, E3. reflexivity. }
  assert (L3 : 2 + blen (at_ 1 x) <= length x) by (apply Nat.ltb_ge; exact E3).
  unfold state_greet. rewrite (ltb_app_false _ _ _ E1), E1.
  rewrite (at_app_lt 0) by lia. rewrite E2.
  rewrite (at_app_lt 1) by lia.
  rewrite (ltb_app_false _ _ _ E3), E3.
  rewrite slice_app_le by lia.
  destruct (negb (existsb _ _)); [reflexivity|].
  rewrite skipn_app_le by lia.
  destruct (proxyauth c); [apply auth_app | apply connect_app].
Qed.

(* ---- one event split in two ---- *)
Lemma handle_data_app c s a b :
  handle_data c (handle_data c s a) b = handle_data c s (a ++ b).
Proof.
  destruct s as [p o]. destruct p as [buf|buf|buf| | |]; cbn [handle_data fst snd].
  - rewrite app_assoc. symmetry. apply greet_app.
  - rewrite app_assoc. symmetry. apply auth_app.
  - rewrite app_assoc. symmetry. apply connect_app.
  - rewrite child_data_app. reflexivity.
  - reflexivity.
  - reflexivity.
Qed.

Lemma feed_all_concat c segs : forall s a,
  feed_all c (handle_data c s a) segs = handle_data c s (a ++ concat segs).
Proof.
  induction segs as [|x segs IH]; intros s a; cbn [feed_all fold_left concat].
  - rewrite app_nil_r. reflexivity.
  - fold (feed_all c (handle_data c (handle_data c s a) x) segs).
    rewrite handle_data_app. rewrite IH. rewrite app_assoc. reflexivity.
Qed.

(* every segmentation of the stream reaches exactly the state (phase, remaining
   buffer, all observables) reached by delivering the whole stream at once *)
Theorem segmentation_independent c (segs : list bytes) :
  run c segs = run c [concat segs].
Proof.
  unfold run. cbn [feed_all fold_left].
  destruct segs as [|x segs].
  - reflexivity.
  - cbn [fold_left concat]. apply feed_all_concat.
Qed.

Corollary same_stream_same_state c (segs1 segs2 : list bytes) :
  concat segs1 = concat segs2 -> run c segs1 = run c segs2.
Proof.
  intros H. rewrite (segmentation_independent c segs1), (segmentation_independent c segs2), H.
  reflexivity.
Qed.
