(* Proofs/HttpTranslateMain.v -- C06: the h2 contract facts, decidedness of the model, the upgrade direction
   (format_h2_*_headers read back by parse_h2_*_headers), witnesses of the known findings, and a non-vacuity example. *)
From Coq Require Import List Bool NArith ZArith Lia.
From MV Require Import Base.Bytes Model.Http1Msg Model.Rfc9112 Model.HttpTranslate Gen.StatusReasons
  Proofs.Http1Lines Proofs.Http1Roundtrip Proofs.HttpTranslateBase Proofs.HttpTranslateReq Proofs.HttpTranslateResp.
Import ListNotations.

(* ---------- the contract: nothing that could end a line survives in any name or value (pseudo-headers included) *)
Theorem h2_validate_no_ctl r t h n v : h2_validate r t h = true -> In (n, v) h ->
  existsb is_bad_value_char v = false
  /\ forallb (fun c => (32 <? bN c)%N && (bN c <? 127)%N) n = true.
Proof.
  intros V I. pose proof (h2_validate_all _ _ _ V) as A. rewrite Forall_forall in A.
  destruct (A _ I) as (N & W & _). cbn [fst snd] in *. split.
  - unfold h2_value_ok in W. destruct v as [|c0 v]; [reflexivity|].
    apply andb_true_iff in W as [W _]. apply andb_true_iff in W as [W _]. apply negb_true_iff in W. exact W.
  - unfold h2_name_ok in N. apply andb_true_iff in N as [N _]. rewrite forallb_forall in *. intros c Hc.
    specialize (N c Hc). unfold h2_name_char_ok in N. apply andb_true_iff in N as [N N3]. apply andb_true_iff in N as [_ N2].
    rewrite N2, N3. reflexivity.
Qed.

(* header blocks accepted by the contract never enter the Transfer-Encoding branch of validate_headers *)
Lemma validated_no_te (fs : headers) :
  Forall (fun f => h2_name_ok (fst f) = true /\ h2_value_ok (snd f) = true /\ h2_field_ok f = true) fs ->
  get_all TRANSFER_ENCODING fs = [].
Proof.
  intros F. rewrite get_all_filter. change (lower TRANSFER_ENCODING) with TRANSFER_ENCODING.
  induction F as [|f fs (N & _ & K) _ IH]; [reflexivity|]. cbn [filter].
  unfold name_ci at 1. unfold h2_name_ok in N. apply andb_true_iff in N as [N _]. rewrite (h2_name_lower _ N).
  unfold h2_field_ok in K. apply andb_true_iff in K as [_ K]. apply negb_true_iff in K.
  unfold mem, CONNECTION_HEADERS in K. cbn [existsb] in K. repeat (apply orb_false_iff in K as [? K]).
  match goal with X : bytes_eqb (fst f) TRANSFER_ENCODING = false |- _ => rewrite X end. exact IH.
Qed.

Lemma validate_not_te fs : get_all TRANSFER_ENCODING fs = [] -> validate_headers fs <> VTe.
Proof.
  unfold validate_headers. intros E. rewrite E. destruct (negb _); [discriminate|].
  destruct (get_all CONTENT_LENGTH fs) as [|cl [|]]; try discriminate. destruct (valid_content_length cl); discriminate.
Qed.

Theorem down_request_decided pa h body tr : down_request pa h body tr <> OUndecided.
Proof.
  unfold down_request. destruct (h2_validate false false h) eqn:V; [|discriminate]. cbn [negb].
  destruct (h2_expected_length None h); [|discriminate]. destruct (negb _); [discriminate|]. destruct (negb _); [discriminate|].
  destruct (parse_h2_request_headers pa h) as [r|] eqn:P; [|discriminate].
  destruct (parse_req_spec _ _ _ P) as (q & Eh & _). pose proof (h2_validate_all _ _ _ V) as A.
  rewrite Eh in A. apply Forall_app in A as [_ A]. pose proof (validate_not_te _ (validated_no_te _ A)) as K.
  unfold validate_request_transparent. destruct (negb _); [discriminate|]. destruct (bytes_eqb _ _); [discriminate|].
  destruct (validate_headers (hq_fields r)); try congruence; destruct tr; discriminate.
Qed.

Theorem down_response_decided m h body tr : down_response m h body tr <> OUndecided.
Proof.
  unfold down_response. destruct (h2_validate true false h) eqn:V; [|discriminate]. cbn [negb].
  destruct (h2_expected_length (Some m) h); [|discriminate]. destruct (is_informational h); [discriminate|].
  destruct (negb _); [discriminate|]. destruct (negb _); [discriminate|].
  destruct (parse_h2_response_headers h) as [[st fields]|] eqn:P; [|discriminate].
  destruct (parse_resp_spec _ _ _ P) as (q & Eh & _). pose proof (h2_validate_all _ _ _ V) as A.
  rewrite Eh in A. apply Forall_app in A as [_ A]. pose proof (validate_not_te _ (validated_no_te _ A)) as K.
  destruct (validate_headers fields); try congruence; destruct tr; discriminate.
Qed.

(* ---------- upgrade direction: an HTTP/1 request formatted for HTTP/2 is read back by parse_h2_request_headers *)
Lemma split_regular (nf acc : headers) : Forall (fun f => is_pseudo (fst f) = false) nf ->
  split_pseudo_headers nf acc = Some (acc, nf).
Proof. intros F. destruct F as [|[n v] nf P _]; [reflexivity|]. cbn [split_pseudo_headers]. cbn [fst] in P. rewrite P. reflexivity. Qed.

Definition up_fields (authority : bytes) (fields : headers) : headers :=
  match authority, hget N_HOST fields with
  | [], Some _ => normalize_h1_headers (hdel N_HOST fields)
  | _, _ => normalize_h1_headers fields
  end.
Definition up_authority (authority : bytes) (fields : headers) : bytes :=
  match authority, hget N_HOST fields with
  | [], Some hv => hv
  | _, _ => authority
  end.

Fixpoint nodup_names (q : headers) (seen : list bytes) : bool :=
  match q with
  | [] => true
  | (n, _) :: q' => is_pseudo n && negb (mem n seen) && nodup_names q' (seen ++ [n])
  end.

Lemma split_prefix (q : headers) : forall (nf acc : headers), nodup_names q (map fst acc) = true ->
  Forall (fun f => is_pseudo (fst f) = false) nf ->
  split_pseudo_headers (q ++ nf) acc = Some (acc ++ q, nf).
Proof.
  induction q as [|[n v] q IH]; intros nf acc D NP.
  - cbn [app]. rewrite app_nil_r. apply split_regular. exact NP.
  - cbn [nodup_names] in D. apply andb_true_iff in D as [D D3]. apply andb_true_iff in D as [D1 D2].
    apply negb_true_iff in D2. cbn [app split_pseudo_headers]. rewrite D1, D2.
    etransitivity; [apply IH; [rewrite map_app; exact D3 | exact NP] | rewrite <- app_assoc; reflexivity].
Qed.

Theorem format_parse_request pa n m s a p f :
  valid_method m = true -> valid_path p = true ->
  (up_authority a f <> [] -> pa (up_authority a f) = true) ->
  Forall (fun x => is_pseudo (fst x) = false) (up_fields a f) ->
  parse_h2_request_headers pa (format_h2_request_headers n false m s a p f)
  = Some (mkH2Req m s (up_authority a f) p (up_fields a f)).
Proof.
  intros VM VP PA NP. unfold up_fields, up_authority in *.
  destruct a as [|a0 a].
  - destruct (hget N_HOST f) as [hv|] eqn:HG.
    + set (q := [(P_METHOD, m); (P_SCHEME, s); (P_PATH, p); (P_AUTHORITY, hv)] : headers).
      assert (E : format_h2_request_headers n false m s [] p f = q ++ normalize_h1_headers (hdel N_HOST f))
        by (unfold format_h2_request_headers; rewrite HG; reflexivity).
      rewrite E. unfold parse_h2_request_headers.
      rewrite (split_prefix q _ [] eq_refl NP).
      simpl. rewrite VM, VP. simpl.
      destruct hv as [|h0 hv]; [reflexivity|]. rewrite PA by discriminate. reflexivity.
    + set (q := [(P_METHOD, m); (P_SCHEME, s); (P_PATH, p)] : headers).
      assert (E : format_h2_request_headers n false m s [] p f = q ++ normalize_h1_headers f)
        by (unfold format_h2_request_headers; rewrite HG; reflexivity).
      rewrite E. unfold parse_h2_request_headers.
      rewrite (split_prefix q _ [] eq_refl NP).
      simpl. rewrite VM, VP. reflexivity.
  - set (q := [(P_METHOD, m); (P_SCHEME, s); (P_PATH, p); (P_AUTHORITY, a0 :: a)] : headers).
    assert (E : format_h2_request_headers n false m s (a0 :: a) p f = q ++ normalize_h1_headers f) by reflexivity.
    rewrite E. unfold parse_h2_request_headers.
    rewrite (split_prefix q _ [] eq_refl NP).
    simpl. rewrite VM, VP. simpl. rewrite PA by discriminate. reflexivity.
Qed.

(* ---------- upgrade direction, responses: the status code survives format_h2_response_headers + parse *)
Definition status_fmt_ok (st : Z) : bool :=
  match normalize_h1_headers [(P_STATUS, dec_of_Z st)] with
  | [(n, v)] => bytes_eqb n P_STATUS && match py_int_ws v with Some z => Z.eqb z st | None => false end
  | _ => false
  end.

Lemma status_fmt_sweep : forallb (fun k => status_fmt_ok (Z.of_nat k)) (seq 0 1000) = true.
Proof. vm_compute. reflexivity. Qed.

Lemma normalize_cons x f : normalize_h1_headers (x :: f) = normalize_h1_headers [x] ++ normalize_h1_headers f.
Proof.
  unfold normalize_h1_headers. cbn [map filter].
  destruct (negb (mem (fst (strip (lower (fst x)), strip (snd x))) CONNECTION_HEADERS)); reflexivity.
Qed.

Theorem format_parse_response st f : (0 <= st <= 999)%Z ->
  Forall (fun x => is_pseudo (fst x) = false) (normalize_h1_headers f) ->
  parse_h2_response_headers (format_h2_response_headers true false st f) = Some (st, normalize_h1_headers f).
Proof.
  intros R NP. pose proof status_fmt_sweep as S. rewrite forallb_forall in S.
  specialize (S (Z.to_nat st)). rewrite Z2Nat.id in S by lia. assert (K : status_fmt_ok st = true) by (apply S; apply in_seq; lia).
  unfold format_h2_response_headers. rewrite normalize_cons. unfold status_fmt_ok in K.
  destruct (normalize_h1_headers [(P_STATUS, dec_of_Z st)]) as [|[n v] [|]] eqn:E; try discriminate.
  apply andb_true_iff in K as [K1 K2]. apply bytes_eqb_eq in K1. subst n.
  destruct (py_int_ws v) as [z|] eqn:PI; [|discriminate]. apply Z.eqb_eq in K2. subst z.
  set (q := [(P_STATUS, v)] : headers). unfold parse_h2_response_headers.
  match goal with |- context [split_pseudo_headers (?a ++ _) _] => replace a with q by (symmetry; exact E) end.
  rewrite (split_prefix q _ [] eq_refl NP). simpl. rewrite PI. reflexivity.
Qed.

(* ---------- witnesses of the known findings (the guards of the two main theorems cannot be dropped) *)
Definition bs (l : list byte) : bytes := l.
Definition W_GET : bytes := [x47;x45;x54].
Definition W_HOST : bytes := [x65;x78;x61;x6d;x70;x6c;x65;x2e;x63;x6f;x6d].
Definition W_REQ (extra : headers) : headers :=
  [(P_METHOD, W_GET); (P_SCHEME, V_HTTP); (P_AUTHORITY, W_HOST); (P_PATH, [x2f])] ++ extra.
Definition strict : ref_opts := mkOpts false false false.

(* request-content-length-without-body: content-length 5 and END_STREAM on HEADERS *)
Lemma request_length_witness :
  exists out, down_request (fun _ => true) (W_REQ [(CONTENT_LENGTH, [x35])]) None None = OForward out false
              /\ parse_requests strict 2 out = PErr Incomplete.
Proof. eexists. split; vm_compute; reflexivity. Qed.

(* request-body-without-content-length: the body of a POST without content-length is written after the head as it is;
   when it looks like a request the reference reader finds two requests *)
Definition W_SMUGGLED : bytes :=
  [x47;x45;x54;x20;x2f;x61;x64;x6d;x69;x6e;x20;x48;x54;x54;x50;x2f;x31;x2e;x31;x0d;x0a;x48;x6f;x73;x74;x3a;x20;x78;x0d;x0a;x0d;x0a].
Lemma request_split_witness :
  exists out q1 q2,
    down_request (fun _ => true) [(P_METHOD, [x50;x4f;x53;x54]); (P_SCHEME, V_HTTP); (P_AUTHORITY, W_HOST); (P_PATH, [x2f;x61])]
                 (Some W_SMUGGLED) None = OForward out false
    /\ parse_requests strict 3 out = POk [q1; q2] /\ q_target q2 = [x2f;x61;x64;x6d;x69;x6e].
Proof. do 3 eexists. split; [vm_compute; reflexivity|]. split; vm_compute; reflexivity. Qed.

(* trailers: Http1Client.send raises *)
Lemma request_trailers_witness :
  down_request (fun _ => true) (W_REQ []) (Some [x61]) (Some [([x78], [x31])]) = OCrashTrailers.
Proof. vm_compute. reflexivity. Qed.

(* body-after-bodiless-response: 204 with DATA: the reference reader is left with unread bytes *)
Lemma response_bodiless_witness :
  exists out c p, down_response W_GET [(P_STATUS, [x32;x30;x34])] (Some [x61;x62]) None = OForward out c
              /\ parse_response strict W_GET out = POk (p, [x61;x62]).
Proof. do 3 eexists. split; vm_compute; reflexivity. Qed.

(* status-not-3-digits *)
Lemma response_status_witness :
  exists out c, down_response W_GET [(P_STATUS, [x39;x39;x39;x39;x39])] None None = OForward out c
              /\ parse_response strict W_GET out = PErr Invalid.
Proof. do 2 eexists. split; vm_compute; reflexivity. Qed.

(* response-content-length-without-body *)
Lemma response_length_witness :
  exists out c, down_response W_GET [(P_STATUS, [x32;x30;x30]); (CONTENT_LENGTH, [x35])] None None = OForward out c
              /\ parse_response strict W_GET out = PErr Incomplete.
Proof. do 2 eexists. split; vm_compute; reflexivity. Qed.

(* ---------- non-vacuity: a POST with two cookies, a body and no content-length satisfies every hypothesis *)
Definition W_POST : bytes := [x50;x4f;x53;x54].
Definition sample_block : headers :=
  [(P_METHOD, W_POST); (P_SCHEME, V_HTTPS); (P_AUTHORITY, W_HOST); (P_PATH, [x2f;x61]);
   (N_COOKIE, [x61;x3d;x31]); (CONTENT_LENGTH, [x39]); (N_COOKIE, [x62;x3d;x32])].
Definition sample_body : bytes := [x47;x45;x54;x20;x2f;x0d;x0a;x0d;x0a].
Definition W_JOINED : bytes := [x61;x3d;x31;x3b;x20;x62;x3d;x32].

Lemma sample_ok :
  (exists out, down_request (fun _ => true) sample_block (Some sample_body) None = OForward out false
     /\ contains W_JOINED out = true)
  /\ length_guard None sample_block (Some sample_body) /\ framing_guard sample_block (Some sample_body)
  /\ cookie_guard sample_block.
Proof.
  split; [eexists; split; vm_compute; reflexivity|]. split; [intros X; discriminate|].
  split; [intros _; vm_compute; discriminate | vm_compute; discriminate].
Qed.

(* ---------- what the written request means, in terms of the accepted header block *)
Definition nonempty (b : bytes) : bool := match b with [] => false | _ => true end.

Theorem down_request_semantics pa h body out c :
  down_request pa h body None = OForward out c ->
  exists r, parse_h2_request_headers pa h = Some r /\
    (exists q, h = q ++ hq_fields r /\ Forall (fun x => is_pseudo (fst x) = true) q
       /\ In (P_METHOD, hq_method r) q /\ In (P_SCHEME, hq_scheme r) q /\ In (P_PATH, hq_path r) q
       /\ (hq_authority r = [] \/ In (P_AUTHORITY, hq_authority r) q)) /\
    let fs := h1_fields (strip_r r) in
      field_values N_HOST fs
        = (if negb (hcontains N_HOST_CAP (hq_fields r)) && nonempty (hq_authority r)
           then [hq_authority r] else field_values N_HOST (hq_fields r))
      /\ field_values N_COOKIE fs
        = match get_all N_COOKIE (hq_fields r) with (_ :: _ :: _) as l => [join_semi l] | l => l end
      /\ forall k, k <> N_HOST -> k <> N_COOKIE -> k <> N_EXPECT ->
           filter (name_ci k) fs = filter (name_ci k) (hq_fields r).
Proof.
  unfold down_request. intros H.
  destruct (h2_validate false false h) eqn:V; [|discriminate]. cbn [negb] in H.
  destruct (h2_expected_length None h); [|discriminate].
  destruct (negb _); [discriminate|]. cbn [negb] in H.
  destruct (parse_h2_request_headers pa h) as [r|] eqn:P; [|discriminate].
  destruct (validate_request_transparent r) eqn:VR; try discriminate.
  exists r. split; [reflexivity|].
  destruct (parse_req_spec pa h r P) as (q & Eh & Fq & IM & IS & IP & IA & _ & _).
  split; [exists q; repeat split; assumption|].
  pose proof (h2_validate_all _ _ _ V) as VA.
  assert (VAf : Forall (fun f => h2_name_ok (fst f) = true /\ h2_value_ok (snd f) = true /\ h2_field_ok f = true) (hq_fields r)).
  { rewrite Eh in VA. apply Forall_app in VA. tauto. }
  pose proof (validated_no_te _ VAf) as NoTE.
  assert (AuthOk : hq_authority r = [] \/ h2_value_ok (hq_authority r) = true).
  { destruct IA as [X|X]; [left; exact X|right]. rewrite Forall_forall in VA.
    assert (I : In (P_AUTHORITY, hq_authority r) h) by (rewrite Eh; apply in_or_app; left; exact X).
    destruct (VA _ I) as (_ & Y & _). exact Y. }
  assert (NoTE' : get_all TRANSFER_ENCODING (hq_fields (strip_r r)) = []).
  { rewrite get_all_filter in *. change (lower TRANSFER_ENCODING) with TRANSFER_ENCODING in *.
    cbn [strip_r hq_fields]. rewrite strip_expect_filter by discriminate. exact NoTE. }
  cbv zeta. split; [|split].
  - rewrite (F_host (strip_r r) AuthOk). cbn [strip_r hq_fields hq_authority].
    unfold hcontains. rewrite !field_values_filter, !get_all_filter. change (lower N_HOST_CAP) with N_HOST.
    rewrite !strip_expect_filter by discriminate. reflexivity.
  - rewrite (F_cookie (strip_r r)). cbn [strip_r hq_fields]. rewrite !get_all_filter.
    change (lower N_COOKIE) with N_COOKIE. rewrite strip_expect_filter by discriminate. reflexivity.
  - intros k N1 N2 N4. rewrite (F_other (strip_r r) k N1 N2). cbn [strip_r hq_fields].
    apply strip_expect_filter. exact N4.
Qed.

(* ---------- emission does not change the request: the state after is the state before, so every later emission of
   the same request (replay) is the same header list, in particular with the same :authority / host *)
Theorem emission_pure n v m s a p f :
  snd (emit_request n v m s a p f) = f
  /\ fst (emit_request n v m s a p (snd (emit_request n v m s a p f))) = fst (emit_request n v m s a p f).
Proof. split; reflexivity. Qed.

Theorem emission_h1_pure r : snd (emit_h1_request r) = hq_fields r.
Proof. reflexivity. Qed.
