(* Proofs/HttpTranslateMain.v -- C06: the h2 contract facts, decidedness of the model, the upgrade direction
   (format_h2_*_headers read back by parse_h2_*_headers), witnesses of the known findings, and a non-vacuity example. *)
From Coq Require Import List Bool NArith ZArith Lia.
From MV Require Import Base.Bytes Model.Http1Msg Model.Rfc9112 Model.HttpTranslate Gen.StatusReasons
  Proofs.Http1Lines Proofs.Http1Roundtrip Proofs.HttpTranslateBase Proofs.HttpTranslateReq Proofs.HttpTranslateResp.
Import ListNotations.

(* ---------- the contract: nothing that could end a line survives in any name or value (pseudo-headers included) *)
Theorem h2_validate_no_ctl r t h n v : h2_validate r t h = true -> In (n, v) h ->
  existsb is_bad_value_char v = false
  /\ forallb (fun c => (32 <? bN c)%N && (bN c <? 127)%N) n = true.
Proof.
  intros V I. pose proof (h2_validate_all _ _ _ V) as A. rewrite Forall_forall in A.
  destruct (A _ I) as (N & W & _). cbn [fst snd] in *. split.
  - unfold h2_value_ok in W. destruct v as [|c0 v]; [reflexivity|].
    apply andb_true_iff in W as [W _]. apply andb_true_iff in W as [W _]. apply negb_true_iff in W. exact W.
  - unfold h2_name_ok in N. apply andb_true_iff in N as [N _]. rewrite forallb_forall in *. intros c Hc.
    specialize (N c Hc). unfold h2_name_char_ok in N. apply andb_true_iff in N as [N N3]. apply andb_true_iff in N as [_ N2].
    rewrite N2, N3. reflexivity.
Qed.

(* header blocks accepted by the contract never enter the Transfer-Encoding branch of validate_headers *)
Lemma validated_no_te (fs : headers) :
  Forall (fun f => h2_name_ok (fst f) = true /\ h2_value_ok (snd f) = true /\ h2_field_ok f = true) fs ->
  get_all TRANSFER_ENCODING fs = [].
Proof.
  intros F. rewrite get_all_filter. change (lower TRANSFER_ENCODING) with TRANSFER_ENCODING.
  induction F as [|f fs (N & _ & K) _ IH]; [reflexivity|]. cbn [filter].
  unfold name_ci at 1. unfold h2_name_ok in N. apply andb_true_iff in N as [N _]. rewrite (h2_name_lower _ N).
  unfold h2_field_ok in K. apply andb_true_iff in K as [_ K]. apply negb_true_iff in K.
  unfold mem, CONNECTION_HEADERS in K. cbn [existsb] in K. repeat (apply orb_false_iff in K as [? K]).
  match goal with X : bytes_eqb (fst f) TRANSFER_ENCODING = false |- _ => rewrite X end. exact IH.
Qed.

Lemma validate_not_te fs : get_all TRANSFER_ENCODING fs = [] -> validate_headers fs <> VTe.
Proof.
  unfold validate_headers. intros E. rewrite E. destruct (negb _); [discriminate|].
  destruct (get_all CONTENT_LENGTH fs) as [|cl [|]]; try discriminate. destruct (valid_content_length cl); discriminate.
Qed.

Theorem down_request_decided pa h body tr : down_request pa h body tr <> OUndecided.
Proof.
  unfold down_request. destruct (h2_validate false false h) eqn:V; [|discriminate]. cbn [negb].
  destruct (h2_expected_length None h); [|discriminate]. destruct (negb _); [discriminate|]. destruct (negb _); [discriminate|].
  destruct (parse_h2_request_headers pa h) as [r|] eqn:P; [|discriminate].
  destruct (parse_req_spec _ _ _ P) as (q & Eh & _). pose proof (h2_validate_all _ _ _ V) as A.
  rewrite Eh in A. apply Forall_app in A as [_ A]. pose proof (validate_not_te _ (validated_no_te _ A)) as K.
  unfold validate_request_transparent. destruct (negb _); [discriminate|]. destruct (bytes_eqb _ _); [discriminate|].
  destruct (validate_headers (hq_fields r)); try congruence; destruct tr; discriminate.
Qed.

Theorem down_response_decided m h body tr : down_response m h body tr <> OUndecided.
Proof.
  unfold down_response. destruct (h2_validate true false h) eqn:V; [|discriminate]. cbn [negb].
  destruct (h2_expected_length (Some m) h); [|discriminate]. destruct (is_informational h); [discriminate|].
  destruct (negb _); [discriminate|]. destruct (negb _); [discriminate|].
  destruct (parse_h2_response_headers h) as [[st fields]|] eqn:P; [|discriminate].
  destruct (parse_resp_spec _ _ _ P) as (q & Eh & _). pose proof (h2_validate_all _ _ _ V) as A.
  rewrite Eh in A. apply Forall_app in A as [_ A]. pose proof (validate_not_te _ (validated_no_te _ A)) as K.
  destruct (validate_headers fields); try congruence; destruct tr; discriminate.
Qed.

(* ---------- upgrade direction: an HTTP/1 request formatted for HTTP/2 is read back by parse_h2_request_headers *)
Lemma split_regular (nf acc : headers) : Forall (fun f => is_pseudo (fst f) = false) nf ->
  split_pseudo_headers nf acc = Some (acc, nf).
Proof. intros F. destruct F as [|[n v] nf P _]; [reflexivity|]. cbn [split_pseudo_headers]. cbn [fst] in P. rewrite P. reflexivity. Qed.

Definition up_fields (authority : bytes) (fields : headers) : headers :=
  match authority, hget N_HOST fields with
  | [], Some _ => normalize_h1_headers (hdel N_HOST fields)
  | _, _ => normalize_h1_headers fields
  end.
Definition up_authority (authority : bytes) (fields : headers) : bytes :=
  match authority, hget N_HOST fields with
  | [], Some hv => hv
  | _, _ => authority
  end.

Theorem format_parse_request pa n m s a p f :
  valid_method m = true -> valid_path p = true ->
  (up_authority a f <> [] -> pa (up_authority a f) = true) ->
  Forall (fun x => is_pseudo (fst x) = false) (up_fields a f) ->
  parse_h2_request_headers pa (format_h2_request_headers n false m s a p f)
  = Some (mkH2Req m s (up_authority a f) p (up_fields a f)).
Proof.
  intros VM VP PA NP. unfold format_h2_request_headers, up_fields, up_authority in *.
  unfold parse_h2_request_headers.
  destruct a as [|a0 a].
  - destruct (hget N_HOST f) as [hv|] eqn:HG.
    + cbn [app split_pseudo_headers is_pseudo P_METHOD P_SCHEME P_PATH P_AUTHORITY byte_eqb fst map mem existsb bytes_eqb].
      change (Byte.eqb x3a COLON) with true. cbv iota.
      repeat (cbn [app split_pseudo_headers is_pseudo fst map]; change (Byte.eqb x3a COLON) with true; cbv iota).
      admit.
    + admit.
  - admit.
Abort.
