(* Proofs/DnsC25.v -- boolean checkers for the well-formedness predicates (so concrete
   witnesses are discharged by vm_compute) and the refutation witnesses of C25. *)
From Coq Require Import List Bool Arith NArith Lia.
From MV Require Import Base.Bytes Model.DnsNames Model.DnsMessage Proofs.DnsNamesRT Proofs.DnsMessageRT
  Proofs.DnsFuel.
Import ListNotations.

Definition wf_labelb (p : name) : bool :=
  match p with [] => false | _ => true end && (length p <? 64) && forallb is_ascii p && negb (has_ace p).
Definition wf_nameb (n : name) : bool := forallb wf_labelb (name_parts n).
Definition wf_qb (q : question) : bool :=
  wf_nameb (q_name q) && (q_type q <? 65536)%N && (q_class q <? 65536)%N.
Definition wf_rrb (r : rr) : bool :=
  wf_nameb (r_name r) && (r_type r <? 65536)%N && (r_class r <? 65536)%N
  && (r_ttl r <? 4294967296)%N && (N.of_nat (length (r_data r)) <? 65536)%N.
Definition rdata_guardb (r : rr) : bool :=
  negb (record_data_can_have_compression (r_type r)) || no_ptr_byte (r_data r).
Definition wf_msgb (m : message) : bool :=
  (m_id m <? 65536)%N && (m_op_code m <? 16)%N && (m_reserved m <? 8)%N && (m_rcode m <? 16)%N
  && (N.of_nat (length (m_questions m)) <? 65536)%N && (N.of_nat (length (m_answers m)) <? 65536)%N
  && (N.of_nat (length (m_authorities m)) <? 65536)%N && (N.of_nat (length (m_additionals m)) <? 65536)%N
  && forallb wf_qb (m_questions m) && forallb wf_rrb (m_answers m)
  && forallb wf_rrb (m_authorities m) && forallb wf_rrb (m_additionals m).

Lemma forallb_Forall {A} (f : A -> bool) (P : A -> Prop) l :
  (forall x, f x = true -> P x) -> forallb f l = true -> Forall P l.
Proof.
  intros H Hl. rewrite forallb_forall in Hl. apply Forall_forall. intros x Hx. apply H, Hl, Hx.
Qed.

Ltac bools := repeat match goal with
  | H : _ && _ = true |- _ => apply andb_true_iff in H as [? ?]
  | H : (_ <? _)%N = true |- _ => apply N.ltb_lt in H
  | H : (_ <? _) = true |- _ => apply Nat.ltb_lt in H
  | H : negb _ = true |- _ => apply negb_true_iff in H
  end.

Lemma wf_labelb_ok p : wf_labelb p = true -> wf_label p.
Proof.
  unfold wf_labelb, wf_label. intros H. bools. repeat split; try assumption.
  destruct p; discriminate.
Qed.

Lemma wf_nameb_ok n : wf_nameb n = true -> wf_name n.
Proof. apply forallb_Forall, wf_labelb_ok. Qed.

Lemma wf_qb_ok q : wf_qb q = true -> wf_q q.
Proof.
  unfold wf_qb, wf_q. intros H. bools. repeat split; try assumption. apply wf_nameb_ok; assumption.
Qed.

Lemma wf_rrb_ok r : wf_rrb r = true -> wf_rr r.
Proof.
  unfold wf_rrb, wf_rr. intros H. bools. repeat split; try assumption. apply wf_nameb_ok; assumption.
Qed.

Lemma rdata_guardb_ok r : rdata_guardb r = true -> rdata_guard r.
Proof.
  unfold rdata_guardb, rdata_guard. intros H Hc. rewrite Hc in H. exact H.
Qed.

Lemma wf_msgb_ok m : wf_msgb m = true -> wf_msg m.
Proof.
  unfold wf_msgb, wf_msg. intros H. bools.
  repeat split; try assumption;
    first [eapply forallb_Forall; [exact wf_qb_ok|eassumption]
          |eapply forallb_Forall; [exact wf_rrb_ok|eassumption]].
Qed.

Lemma guardb_ok m : forallb rdata_guardb (all_rrs m) = true -> Forall rdata_guard (all_rrs m).
Proof. apply forallb_Forall, rdata_guardb_ok. Qed.

(* ---------- witnesses ---------- *)
Definition example_com : name :=
  [x65;x78;x61;x6d;x70;x6c;x65;x2e;x63;x6f;x6d].

(* TXT data 02 c0 0c: a two-byte character-string that looks like a pointer to offset 12 *)
Definition txt_msg : message :=
  mkMsg 1 false 0 false false true true 0 0
    [mkQ example_com 16 1] [mkRR example_com 16 1 5 [x02; xc0; x0c]] [] [].

(* a message with a compressible-type record that satisfies the guard *)
Definition good_msg : message :=
  mkMsg 4660 false 0 true false true true 0 3
    [mkQ example_com 15 1]
    [mkRR example_com 15 1 300 [x00; x0a; x04; x6d; x61; x69; x6c; x00];
     mkRR example_com 1 1 4294967295 [xc0; x0c; xff; x01]] [] [mkRR [] 41 4096 0 []].

(* question 1 = pointer to 03 www c0 0c ... : TXT data c0 11 resolves to the name www. *)
Definition value_error_buf : bytes :=
  [x00;x01;x81;x80;x00;x02;x00;x01;x00;x00;x00;x00;x00;x00;x01;x00;x01;x03;x77;x77;x77;xc0;x0c;
   x00;x01;x00;x01;x00;x00;x10;x00;x01;x00;x00;x00;x05;x00;x03;x02;xc0;x11].

(* question 1 is a forward pointer; after re-encoding the offsets move and TXT data c0 13 hits a name *)
Definition reencode_buf : bytes :=
  [x00;x01;x81;x80;x00;x02;x00;x01;x00;x00;x00;x00;xc0;x12;x00;x01;x00;x01;x01;x61;x00;x00;x01;
   x00;x01;x00;x00;x10;x00;x01;x00;x00;x00;x05;x00;x03;x02;xc0;x13].

Lemma roundtrip_refuted : exists m, wf_msg m /\
  exists b m', packed m = Ok b /\ DnsMessage.unpack b = Ok m' /\ m' <> m.
Proof.
  exists txt_msg. split; [apply wf_msgb_ok; vm_compute; reflexivity|].
  eexists. eexists. split; [vm_compute; reflexivity|]. split; [vm_compute; reflexivity|].
  intros H. apply (f_equal (fun m => map r_data (m_answers m))) in H. vm_compute in H. discriminate H.
Qed.

Lemma parse_error_only_refuted : DnsMessage.unpack value_error_buf = Err EValue.
Proof. vm_compute. reflexivity. Qed.

Lemma reencode_refuted : exists b m b' m',
  DnsMessage.unpack b = Ok m /\ packed m = Ok b' /\ DnsMessage.unpack b' = Ok m' /\ m' <> m.
Proof.
  exists reencode_buf. eexists. eexists. eexists.
  split; [vm_compute; reflexivity|]. split; [vm_compute; reflexivity|]. split; [vm_compute; reflexivity|].
  intros H. apply (f_equal (fun m => map r_data (m_answers m))) in H. vm_compute in H. discriminate H.
Qed.

Lemma not_packable_refuted : exists b m, DnsMessage.unpack b = Ok m /\ packed m = Err EValue.
Proof.
  exists [x00;x01;x81;x80;x00;x02;x00;x00;x00;x00;x00;x00;x00;x00;x01;x00;x01;x03;x77;x77;x77;xc0;x0c;
          x00;x01;x00;x01].
  eexists. split; [vm_compute; reflexivity|]. vm_compute. reflexivity.
Qed.

Lemma good_msg_ok : wf_msg good_msg /\ Forall rdata_guard (all_rrs good_msg)
  /\ length (all_rrs good_msg) = 3
  /\ exists b, packed good_msg = Ok b /\ DnsMessage.unpack b = Ok good_msg /\ length b = 98.
Proof.
  split; [apply wf_msgb_ok; vm_compute; reflexivity|].
  split; [apply guardb_ok; vm_compute; reflexivity|]. split; [reflexivity|].
  eexists. split; [vm_compute; reflexivity|]. split; vm_compute; reflexivity.
Qed.

(* decoded-then-re-encoded messages: the round trip under the same guards *)
Lemma reencode_partial b m : DnsMessage.unpack b = Ok m -> wf_msg m ->
  Forall rdata_guard (all_rrs m) ->
  exists b', packed m = Ok b' /\ DnsMessage.unpack b' = Ok m.
Proof.
  intros _ Hwf G. exists (msgwire m). apply message_roundtrip; assumption.
Qed.

(* ---------- histories: pack has no memory ---------- *)
Lemma pack_history_independent (h : list name) (n : name) :
  nth (length h) (pack_history (h ++ [n])) (Err EOther) = pack n.
Proof.
  unfold pack_history. rewrite map_app, app_nth2 by (rewrite map_length; lia).
  rewrite map_length, Nat.sub_diag. reflexivity.
Qed.

Lemma pack_history_roundtrip (names : list name) : Forall wf_name names ->
  Forall2 (fun n r => r = Ok (wire_name n) /\ DnsNames.unpack (wire_name n) = Ok n) names (pack_history names).
Proof.
  induction 1 as [|n l Hn _ IH]; [constructor|]. cbn [pack_history map]. constructor; [|exact IH].
  destruct (name_roundtrip n Hn) as [U P]. auto.
Qed.

(* two spellings of one name that differ only in ASCII case stay different on the wire *)
Lemma case_variants_example :
  pack_history [[x77;x57;x77;x2e;x61]; [x77;x77;x77;x2e;x61]; [x57;x57;x57;x2e;x41]]
  = [Ok [x03;x77;x57;x77;x01;x61;x00]; Ok [x03;x77;x77;x77;x01;x61;x00]; Ok [x03;x57;x57;x57;x01;x41;x00]].
Proof. vm_compute. reflexivity. Qed.
