(* Proofs/HeadersSample.v -- concrete witnesses showing the hypotheses of the C35 theorems are
   satisfiable on non-trivial values. *)
From Coq Require Import List Bool NArith ZArith.
From MV Require Import Base.Bytes Model.Headers Proofs.HeadersLaws.
Import ListNotations.

(* Host: example.com / accept: a / Accept: b *)
Definition sample_fields : list field :=
  [([x48; x6f; x73; x74], [x65; x78; x61; x6d; x70; x6c; x65; x2e; x63; x6f; x6d]);
   ([x61; x63; x63; x65; x70; x74], [x61]);
   ([x41; x63; x63; x65; x70; x74], [x62])].
(* the same with other capitalisation: HOST / Accept / ACCEPT *)
Definition sample_fields' : list field :=
  [([x48; x4f; x53; x54], [x65; x78; x61; x6d; x70; x6c; x65; x2e; x63; x6f; x6d]);
   ([x41; x63; x63; x65; x70; x74], [x61]);
   ([x41; x43; x43; x45; x50; x54], [x62])].
Definition ACCEPT : bytes := [x41; x43; x43; x45; x50; x54].
Definition accept : bytes := [x61; x63; x63; x65; x70; x74].
Definition sample_ops : list op :=
  [OSetAll false ACCEPT [[x31]; [x32]; [x33]]; OGetItem false accept; OCopy false; ODelItem true accept; OIter true].
Definition sample_ops' : list op :=
  [OSetAll false accept [[x31]; [x32]; [x33]]; OGetItem false ACCEPT; OCopy false; ODelItem true ACCEPT; OIter true].

Lemma sample_nonvacuous :
  forallb valid_field sample_fields = true
  /\ read_back sample_fields = Some (RhOk sample_fields)
  /\ get_all sample_fields ACCEPT = [[x61]; [x62]]
  /\ getitem sample_fields ACCEPT = Some [x61; x2c; x20; x62]
  /\ lf2 (sample_fields, []) = lf2 (sample_fields', [])
  /\ (sample_fields, @nil field) <> (sample_fields', [])
  /\ map lop sample_ops = map lop sample_ops' /\ sample_ops <> sample_ops'
  /\ forallb no_eq sample_ops = true /\ forallb no_eq sample_ops' = true
  /\ fst (run_ops (sample_fields, []) sample_ops) <> fst (run_ops (sample_fields', []) sample_ops').
Proof.
  repeat split; try (vm_compute; reflexivity); vm_compute; discriminate.
Qed.
