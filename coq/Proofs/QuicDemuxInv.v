(* Proofs/QuicDemuxInv.v -- the structural invariant of the RawQuicLayer model: maps <-> layers,
   equal class of paired ids, freshness of allocated ids, every command well targeted.  The
   invariant is phrased over the list of (client id, server id) pairs of the layers. *)
From Coq Require Import NArith Arith List Bool Lia.
From MV Require Import Base.Bytes Model.QuicIdsPrelude Gen.QuicIds Model.QuicDemux Proofs.QuicIds Proofs.QuicDemuxCore.
Import ListNotations.
Open Scope N_scope.

Notation idp := (N * option N)%type.
Definition pid (p : idp) (s : side) : option N := match s with Cl => Some (fst p) | Sv => snd p end.
Definition hasA (ids : list idp) (L : nat) (s : side) (id : N) : Prop :=
  exists p, nth_error ids L = Some p /\ pid p s = Some id.
Definition targetA (ids : list idp) (o : out) : Prop :=
  match o with
  | OSend L to id _ _ | OReset L to id _ | OStop L to id _ => hasA ids L to id
  | OPass L _ => (L < length ids)%nat
  | OCloseConn _ _ => True
  end.

Record InvA (ids : list idp) (cm sm : list (N * nat)) (nx : list N) (os : list out) : Prop := {
  inv_cnt : counters_ok nx;
  inv_cmap : forall k L, dict_get k cm = Some L <-> hasA ids L Cl k;
  inv_smap : forall k L, dict_get k sm = Some L <-> hasA ids L Sv k;
  inv_class : forall L c s, nth_error ids L = Some (c, Some s) -> s mod 4 = c mod 4;
  inv_cfresh : forall L c so, nth_error ids L = Some (c, so) -> c mod 2 = 1 -> c < counter nx (c mod 4);
  inv_sfresh : forall L c s, nth_error ids L = Some (c, Some s) -> s mod 2 = 0 -> s < counter nx (s mod 4);
  inv_outs : Forall (targetA ids) os }.

Definition NEA (ids : list idp) : Prop := forall L c, nth_error ids L = Some (c, None) -> c mod 2 = 0.

Lemma dict_get_set_same k v d : dict_get k (dict_set k v d) = Some v.
Proof.
  induction d as [|[k' v'] t IH]; cbn.
  - rewrite N.eqb_refl; reflexivity.
  - destruct (k =? k') eqn:E; cbn; [rewrite N.eqb_refl; reflexivity | rewrite E; auto].
Qed.
Lemma dict_get_set_other k k' v d : k <> k' -> dict_get k' (dict_set k v d) = dict_get k' d.
Proof.
  intros Hn. induction d as [|[k2 v2] t IH]; cbn.
  - destruct (k' =? k) eqn:E; [apply N.eqb_eq in E; congruence | reflexivity].
  - destruct (k =? k2) eqn:E; cbn.
    + apply N.eqb_eq in E; subst k2. destruct (k' =? k) eqn:E2; [apply N.eqb_eq in E2; congruence | reflexivity].
    + destruct (k' =? k2); auto.
Qed.

Lemma InvA_push ids cm sm nx os o : InvA ids cm sm nx os -> targetA ids o -> InvA ids cm sm nx (o :: os).
Proof. intros [] H; constructor; auto. Qed.

Lemma counter_mono nx c u id nx' j : counters_ok nx -> get_next_available_stream_id nx c u = Some (id, nx') ->
  counter nx j <= counter nx' j.
Proof.
  intros Hok Hg. destruct (alloc_spec nx c u Hok) as (id' & nx'' & Hg' & _ & Hid & _ & Hb & Ho).
  assert (Eq : id' = id /\ nx'' = nx') by (rewrite Hg in Hg'; inversion Hg'; auto); destruct Eq as [-> ->].
  destruct (N.eq_dec j (class_of c u)) as [->|Hn]; [rewrite Hb, Hid; lia | rewrite Ho; auto; lia].
Qed.

Lemma InvA_bump ids cm sm nx os c u id nx' : InvA ids cm sm nx os ->
  get_next_available_stream_id nx c u = Some (id, nx') -> InvA ids cm sm nx' os.
Proof.
  intros [] Hg. pose proof (alloc_spec nx c u inv_cnt0) as (id' & nx'' & Hg' & Hok' & _).
  assert (Eq : id' = id /\ nx'' = nx') by (rewrite Hg in Hg'; inversion Hg'; auto); destruct Eq as [-> ->].
  constructor; auto.
  - intros L c0 so Hn Hm. eapply N.lt_le_trans; [eapply inv_cfresh0; eauto | eapply counter_mono; eauto].
  - intros L c0 s Hn Hm. eapply N.lt_le_trans; [eapply inv_sfresh0; eauto | eapply counter_mono; eauto].
Qed.

Lemma hasA_lt ids L s id : hasA ids L s id -> (L < length ids)%nat.
Proof. intros (p & H & _). apply nth_error_Some. congruence. Qed.

(* the server id of layer L is set *)
Lemma InvA_set_sid ids ids' cm sm nx os L c s :
  InvA ids cm sm nx os ->
  nth_error ids L = Some (c, None) ->
  (forall L', nth_error ids' L' = if Nat.eqb L' L then Some (c, Some s) else nth_error ids L') ->
  (forall L', ~ hasA ids L' Sv s) ->
  s mod 4 = c mod 4 ->
  (s mod 2 = 0 -> s < counter nx (s mod 4)) ->
  InvA ids' cm (dict_set s L sm) nx os.
Proof.
  intros [] HL Hn Hfresh Hcls Hb.
  assert (Hlen : length ids' = length ids).
  { destruct (Nat.lt_trichotomy (length ids') (length ids)) as [H|[H|H]]; auto; exfalso.
    - assert (E : nth_error ids' (length ids') = None) by (apply nth_error_None; lia).
      rewrite Hn in E. destruct (Nat.eqb (length ids') L) eqn:E2; [discriminate|].
      apply nth_error_None in E.
      lia.
    - assert (E : nth_error ids' (length ids) <> None) by (apply nth_error_Some; lia).
      rewrite Hn in E. destruct (Nat.eqb (length ids) L) eqn:E2.
      + apply Nat.eqb_eq in E2. assert (nth_error ids L <> None) by congruence.
        apply nth_error_Some in H0. lia.
      + apply E. apply nth_error_None. lia. }
  assert (Hmono : forall L' s' k, hasA ids L' s' k -> hasA ids' L' s' k).
  { intros L' s' k (p & Hp & Hk). unfold hasA. rewrite Hn. destruct (Nat.eqb L' L) eqn:E.
    - apply Nat.eqb_eq in E; subst L'. rewrite HL in Hp; inversion Hp; subst p.
      destruct s'; cbn in *; [eexists; split; [reflexivity|]; cbn; auto | discriminate].
    - eauto. }
  constructor; auto.
  - intros k L'. rewrite inv_cmap0. split; [apply Hmono|].
    intros (p & Hp & Hk). rewrite Hn in Hp. destruct (Nat.eqb L' L) eqn:E.
    + apply Nat.eqb_eq in E; subst L'. inversion Hp; subst p. cbn in Hk. exists (c, None); auto.
    + exists p; auto.
  - intros k L'. destruct (N.eq_dec s k) as [->|Hne].
    + rewrite dict_get_set_same. split.
      * intros E; inversion E; subst L'. exists (c, Some k). rewrite Hn, Nat.eqb_refl. auto.
      * intros (p & Hp & Hk). rewrite Hn in Hp. destruct (Nat.eqb L' L) eqn:E.
        -- apply Nat.eqb_eq in E; congruence.
        -- exfalso. apply (Hfresh L'). exists p; auto.
    + rewrite dict_get_set_other by auto. rewrite inv_smap0. split; [apply Hmono|].
      intros (p & Hp & Hk). rewrite Hn in Hp. destruct (Nat.eqb L' L) eqn:E.
      * inversion Hp; subst p. cbn in Hk. congruence.
      * exists p; auto.
  - intros L' c0 s0 Hp. rewrite Hn in Hp. destruct (Nat.eqb L' L); [inversion Hp; subst; auto | eauto].
  - intros L' c0 so Hp. rewrite Hn in Hp. destruct (Nat.eqb L' L); [inversion Hp; subst; eauto | eauto].
  - intros L' c0 s0 Hp. rewrite Hn in Hp. destruct (Nat.eqb L' L); [inversion Hp; subst; auto | eauto].
  - eapply Forall_impl; [|exact inv_outs0]. intros o Ho. destruct o; cbn in *; auto. rewrite Hlen; auto.
Qed.

(* a new layer (c, None) is appended and registered under its client id *)
Lemma InvA_new_layer ids cm sm nx os c :
  InvA ids cm sm nx os ->
  (forall L', ~ hasA ids L' Cl c) ->
  (c mod 2 = 1 -> c < counter nx (c mod 4)) ->
  InvA (ids ++ [(c, None)]) (dict_set c (length ids) cm) sm nx os.
Proof.
  intros [] Hfresh Hb.
  assert (Hn : forall L', nth_error (ids ++ [(c, None)]) L' =
                         if Nat.eqb L' (length ids) then Some (c, None) else nth_error ids L').
  { intros L'. destruct (Nat.eqb L' (length ids)) eqn:E.
    - apply Nat.eqb_eq in E; subst. rewrite nth_error_app2, Nat.sub_diag by lia. reflexivity.
    - apply Nat.eqb_neq in E. destruct (Nat.lt_ge_cases L' (length ids)).
      + apply nth_error_app1; auto.
      + rewrite (proj2 (nth_error_None ids L')) by lia. apply nth_error_None. rewrite app_length; cbn; lia. }
  assert (Hmono : forall L' s' k, hasA ids L' s' k -> hasA (ids ++ [(c, None)]) L' s' k).
  { intros L' s' k H. pose proof (hasA_lt _ _ _ _ H). destruct H as (p & Hp & Hk).
    exists p; split; auto. rewrite nth_error_app1; auto. }
  constructor; auto.
  - intros k L'. destruct (N.eq_dec c k) as [->|Hne].
    + rewrite dict_get_set_same. split.
      * intros E; inversion E; subst L'. exists (k, None). rewrite Hn, Nat.eqb_refl. auto.
      * intros (p & Hp & Hk). rewrite Hn in Hp. destruct (Nat.eqb L' (length ids)) eqn:E.
        -- apply Nat.eqb_eq in E; congruence.
        -- exfalso. apply (Hfresh L'). exists p; auto.
    + rewrite dict_get_set_other by auto. rewrite inv_cmap0. split; [apply Hmono|].
      intros (p & Hp & Hk). rewrite Hn in Hp. destruct (Nat.eqb L' (length ids)) eqn:E.
      * inversion Hp; subst p. cbn in Hk. congruence.
      * exists p; auto.
  - intros k L'. rewrite inv_smap0. split; [apply Hmono|].
    intros (p & Hp & Hk). rewrite Hn in Hp. destruct (Nat.eqb L' (length ids)) eqn:E.
    + inversion Hp; subst p. cbn in Hk. discriminate.
    + exists p; auto.
  - intros L' c0 s0 Hp. rewrite Hn in Hp. destruct (Nat.eqb L' (length ids)); [discriminate | eauto].
  - intros L' c0 so Hp. rewrite Hn in Hp. destruct (Nat.eqb L' (length ids)); [inversion Hp; subst; auto | eauto].
  - intros L' c0 s0 Hp. rewrite Hn in Hp. destruct (Nat.eqb L' (length ids)); [discriminate | eauto].
  - eapply Forall_impl; [|exact inv_outs0]. intros o Ho. destruct o; cbn in *; auto.
    rewrite app_length; cbn; lia.
Qed.
