(* Proofs/EncodingCache.v -- the one-entry cache of encoding.py is transparent.
   Invariant: the cache entry (encoded, encoding, errors, decoded) always satisfies
   decode_pure encoding encoded = decoded, for a cached coding name. *)
From Coq Require Import List Bool NArith.
From MV Require Import Base.Bytes Model.Encoding.
Import ListNotations.

(* The library contract the round-trip statements rest on (TRUSTED, satisfiable: see EncodingToy.v). *)
Record contract (C : codecs) : Prop := {
  gzip_rt : forall x, zlib_auto C (gzip_compress C x) = Some x;
  gzip_ne : forall x, gzip_compress C x <> [];
  zlib_rt : forall x, zlib_decompress C (zlib_compress C x) = Some x;
  zlib_ne : forall x, zlib_compress C x <> [];
  brotli_rt : forall x, brotli_decompress C (brotli_compress C x) = Some x;
  brotli_ne : forall x, brotli_compress C x <> [];
  zstd_rt : forall x, zstd_decompress C (zstd_compress C x) = Some x;
  zstd_ne : forall x, zstd_compress C x <> []
}.

(* encode / decode without a cache *)
Definition pure_decode (C : codecs) (n err x : bytes) : pres :=
  match custom_decode C n with Some f => f x | None => py_decode C n err x end.
Definition pure_encode (C : codecs) (n err x : bytes) : pres :=
  match custom_encode C n with Some f => f x | None => py_encode C n err x end.

Definition to_res (p : pres) : res :=
  match p with PBytes b => RBytes b | PStr => RStr | PExc => RValueError | PTypeErr => RTypeError end.

Definition supported (n : bytes) : bool :=
  bytes_eqb n s_none || bytes_eqb n s_identity || is_cached_name n.

Definition Inv (C : codecs) (st : cstate) : Prop :=
  match st with
  | None => True
  | Some c => is_cached_name (c_encoding c) = true
              /\ pure_decode C (c_encoding c) (c_errors c) (c_encoded c) = PBytes (c_decoded c)
  end.

Section Cache.
Variable C : codecs.

Lemma cached_cases n : is_cached_name n = true ->
  n = s_gzip \/ n = s_deflate \/ n = s_deflateraw \/ n = s_br \/ n = s_zstd.
Proof.
  unfold is_cached_name. rewrite !orb_true_iff, !bytes_eqb_eq. tauto.
Qed.

Lemma supported_cases n : supported n = true ->
  n = s_none \/ n = s_identity \/ is_cached_name n = true.
Proof.
  unfold supported. rewrite !orb_true_iff, !bytes_eqb_eq. tauto.
Qed.

Lemma cached_supported n : is_cached_name n = true -> supported n = true.
Proof. intros H. unfold supported. rewrite H. apply orb_true_r. Qed.

(* For a supported name both dictionaries have an entry, neither looks at errors, and they round-trip. *)
Lemma supported_roundtrip n : contract C -> supported n = true ->
  exists f g, custom_encode C n = Some f /\ custom_decode C n = Some g /\
              forall x, exists e, f x = PBytes e /\ g e = PBytes x.
Proof.
  intros K H. apply supported_cases in H.
  destruct H as [H | [H | H]]; [subst n | subst n | apply cached_cases in H; destruct H as [H | [H | [H | [H | H]]]]; subst n].
  - exists identity, identity. repeat split; try reflexivity. intros x. exists x. split; reflexivity.
  - exists identity, identity. repeat split; try reflexivity. intros x. exists x. split; reflexivity.
  - exists (encode_gzip C), (decode_gzip C). repeat split; try reflexivity.
    intros x. exists (gzip_compress C x). split; [reflexivity |].
    unfold decode_gzip. destruct (gzip_compress C x) eqn:E.
    + exfalso. exact (gzip_ne C K x E).
    + rewrite <- E, (gzip_rt C K). reflexivity.
  - exists (encode_deflate C), (decode_deflate C). repeat split; try reflexivity.
    intros x. exists (zlib_compress C x). split; [reflexivity |].
    unfold decode_deflate. destruct (zlib_compress C x) eqn:E.
    + exfalso. exact (zlib_ne C K x E).
    + rewrite <- E, (zlib_rt C K). reflexivity.
  - exists (encode_deflate C), (decode_deflate C). repeat split; try reflexivity.
    intros x. exists (zlib_compress C x). split; [reflexivity |].
    unfold decode_deflate. destruct (zlib_compress C x) eqn:E.
    + exfalso. exact (zlib_ne C K x E).
    + rewrite <- E, (zlib_rt C K). reflexivity.
  - exists (encode_brotli C), (decode_brotli C). repeat split; try reflexivity.
    intros x. exists (brotli_compress C x). split; [reflexivity |].
    unfold decode_brotli. destruct (brotli_compress C x) eqn:E.
    + exfalso. exact (brotli_ne C K x E).
    + rewrite <- E, (brotli_rt C K). reflexivity.
  - exists (encode_zstd C), (decode_zstd C). repeat split; try reflexivity.
    intros x. exists (zstd_compress C x). split; [reflexivity |].
    unfold decode_zstd. destruct (zstd_compress C x) eqn:E.
    + exfalso. exact (zstd_ne C K x E).
    + rewrite <- E, (zstd_rt C K). reflexivity.
Qed.

Lemma pure_roundtrip n err err' x : contract C -> supported n = true ->
  exists e, pure_encode C n err x = PBytes e /\ pure_decode C n err' e = PBytes x.
Proof.
  intros K H. destruct (supported_roundtrip n K H) as (f & g & Hf & Hg & R).
  destruct (R x) as (e & He & Hd). exists e. unfold pure_encode, pure_decode. rewrite Hf, Hg. auto.
Qed.

(* a supported name never consults the error mode *)
Lemma pure_decode_errors n err err' x : supported n = true ->
  pure_decode C n err x = pure_decode C n err' x.
Proof.
  intros H. unfold pure_decode. apply supported_cases in H.
  destruct H as [H | [H | H]]; [subst n; reflexivity | subst n; reflexivity |].
  apply cached_cases in H. destruct H as [H | [H | [H | [H | H]]]]; subst n; reflexivity.
Qed.

Lemma decode_miss_fst st e n err : fst (decode_miss C st e n err) = to_res (pure_decode C n err e).
Proof. unfold decode_miss, pure_decode. destruct (match custom_decode C n with Some f => f e | None => _ end); reflexivity. Qed.

Lemma encode_miss_fst st d n err : fst (encode_miss C st d n err) = to_res (pure_encode C n err d).
Proof. unfold encode_miss, pure_encode. destruct (match custom_encode C n with Some f => f d | None => _ end); reflexivity. Qed.

Lemma decode_none_fst e n err :
  fst (decode C None (Some e) n err) = to_res (pure_decode C (lower n) err e).
Proof. cbn [decode]. apply decode_miss_fst. Qed.

Lemma encode_none_fst d n err :
  fst (encode C None (Some d) n err) = to_res (pure_encode C (lower n) err d).
Proof. cbn [encode]. apply encode_miss_fst. Qed.

(* ---- decode: the result never depends on the cache ---- *)
Lemma decode_transparent st e n err : Inv C st ->
  fst (decode C st e n err) = fst (decode C None e n err).
Proof.
  intros I. destruct e as [e |]; [| reflexivity].
  destruct st as [c |]; [| reflexivity].
  rewrite decode_none_fst. cbn [decode].
  destruct (bytes_eqb (c_encoded c) e && bytes_eqb (c_encoding c) (lower n) && bytes_eqb (c_errors c) err) eqn:H.
  - rewrite !andb_true_iff, !bytes_eqb_eq in H. destruct H as [[H1 H2] H3].
    destruct I as [_ I]. rewrite H1, H2, H3 in I. rewrite I. reflexivity.
  - apply decode_miss_fst.
Qed.

(* ---- encode: equal, or (cached coding) two streams that both decode to the input ---- *)
Definition enc_equiv (d n err : bytes) (r1 r2 : res) : Prop :=
  r1 = r2 \/
  (is_cached_name (lower n) = true /\
   exists b1 b2, r1 = RBytes b1 /\ r2 = RBytes b2 /\
                 pure_decode C (lower n) err b1 = PBytes d /\ pure_decode C (lower n) err b2 = PBytes d).

Lemma encode_equiv st d n err : contract C -> Inv C st ->
  enc_equiv d n err (fst (encode C st (Some d) n err)) (fst (encode C None (Some d) n err)).
Proof.
  intros K I. destruct st as [c |]; [| left; reflexivity].
  rewrite encode_none_fst. cbn [encode].
  destruct (bytes_eqb (c_decoded c) d && bytes_eqb (c_encoding c) (lower n) && bytes_eqb (c_errors c) err) eqn:H.
  - rewrite !andb_true_iff, !bytes_eqb_eq in H. destruct H as [[H1 H2] H3].
    destruct I as [Ic I]. rewrite H1, H2, H3 in I. rewrite H2 in Ic.
    destruct (pure_roundtrip (lower n) err err d K (cached_supported _ Ic)) as (e & He & Hd).
    right. split; [exact Ic |]. exists (c_encoded c), e. rewrite He. cbn [fst to_res]. auto.
  - left. apply encode_miss_fst.
Qed.

(* what an encode call returns for a supported coding, from any state *)
Lemma encode_supported st v n err : contract C -> Inv C st -> supported (lower n) = true ->
  exists e, fst (encode C st (Some v) n err) = RBytes e /\ pure_decode C (lower n) err e = PBytes v.
Proof.
  intros K I S.
  destruct (pure_roundtrip (lower n) err err v K S) as (e & He & Hd).
  destruct (encode_equiv st v n err K I) as [E | (_ & b1 & b2 & E1 & _ & D1 & _)].
  - exists e. rewrite E, encode_none_fst, He. auto.
  - exists b1. auto.
Qed.

(* ---- the invariant is preserved ---- *)
Lemma inv_decode st e n err : Inv C st -> Inv C (snd (decode C st e n err)).
Proof.
  intros I. destruct e as [e |]; [| exact I].
  assert (M : Inv C (snd (decode_miss C st e (lower n) err))).
  { unfold decode_miss.
    destruct (match custom_decode C (lower n) with Some f => f e | None => _ end) eqn:P; try exact I.
    cbn [snd]. destruct (is_cached_name (lower n)) eqn:Cn; [| exact I].
    split; [exact Cn | exact P]. }
  destruct st as [c |]; [| exact M]. cbn [decode].
  destruct (bytes_eqb (c_encoded c) e && bytes_eqb (c_encoding c) (lower n) && bytes_eqb (c_errors c) err); [exact I | exact M].
Qed.

Lemma inv_encode st d n err : contract C -> Inv C st -> Inv C (snd (encode C st d n err)).
Proof.
  intros K I. destruct d as [d |]; [| exact I].
  assert (M : Inv C (snd (encode_miss C st d (lower n) err))).
  { unfold encode_miss.
    destruct (match custom_encode C (lower n) with Some f => f d | None => _ end) eqn:P; try exact I.
    cbn [snd]. destruct (is_cached_name (lower n)) eqn:Cn; [| exact I].
    split; [exact Cn |]. cbn [c_encoding c_errors c_encoded c_decoded].
    destruct (pure_roundtrip (lower n) err err d K (cached_supported _ Cn)) as (e & He & Hd).
    unfold pure_encode in He. rewrite He in P. injection P as P. subst b. exact Hd. }
  destruct st as [c |]; [| exact M]. cbn [encode].
  destruct (bytes_eqb (c_decoded c) d && bytes_eqb (c_encoding c) (lower n) && bytes_eqb (c_errors c) err); [exact I | exact M].
Qed.

End Cache.
