(* Proofs/HttpStreamInv.v -- the lifecycle invariant of a stream (membership of its abstraction in the generated
   table, or a state about which nothing is claimed) is preserved by every transition, for all inputs. *)
From Coq Require Import List Bool NArith.
From MV Require Import Base.Bytes Model.HttpStream Proofs.HttpStreamAbs Proofs.HttpStreamTable.
Import ListNotations.

Definition okb (s : stream) : bool := top s || inb (ctl_of s) (table_for (tag_of (pc s))).
Definition Inv (s : stream) : Prop := okb s = true.

Ltac destr :=
  match goal with
  | |- context [match ?x with _ => _ end] => (is_var x; destruct x) || (let E := fresh "E" in destruct x eqn:E)
  end.
Ltac go := lazy; repeat (destr; lazy); vm_compute; reflexivity.

Lemma Inv_new id : Inv (new_stream id).
Proof. vm_compute. reflexivity. Qed.

Opaque okb.
Lemma L_event_test o s e : pc s = None -> top s = false -> In (ctl_of s) (table_for PNone) -> okb (fst (run_event o s e)) = true.
Proof.
  intros Hpc Htop Hin.
  destruct s as [sid cs ss pc queue req rc rs fresp ferr live rb pb srv hooks up tun cr ms ab rqe rqf rsf ve vg].
  cbn in Hpc. subst pc.
  unfold top in Htop. cbn [tunnel crashed venv vgap] in Htop.
  apply orb_false_elim in Htop; destruct Htop as [Htop ->]. apply orb_false_elim in Htop; destruct Htop as [Htop ->].
  apply orb_false_elim in Htop; destruct Htop as [-> ->].
  unfold ctl_of in Hin. cbn [HttpStream.cs HttpStream.ss msum upstream aborted reqerr_h req_fin resp_fin HttpStream.live req_stream] in Hin.
  unfold table_for in Hin.
  Time (destruct Hin as [Hin | Hin]; [injection Hin; intros; subst; clear Hin; destruct e; try (go; fail) |]).
  Time (destruct Hin as [Hin | Hin]; [injection Hin; intros; subst; clear Hin; destruct e; try (go; fail) |]).
  Show 1.
Admitted.
