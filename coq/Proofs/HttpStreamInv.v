(* Proofs/HttpStreamInv.v -- the lifecycle invariant.  ALL is the set of abstract stream states reachable in the
   abstract interpreter from a new stream (computed by breadth-first search inside Coq); it is closed under every
   abstract transition (checked by computation over all abstract inputs), and by soundness of the abstract
   interpreter every stream reachable in the model, for all inputs of unbounded size, has its abstraction in ALL. *)
From Coq Require Import List Bool NArith MSets.MSetPositive FSets.FMapPositive.
From MV Require Import Base.Bytes Model.HttpStream Proofs.HttpStreamAbs Proofs.HttpStreamSound.
Import ListNotations.
Local Open Scope N_scope.

(* ---------- codes (only used to deduplicate during the search and to index buckets) *)
Definition b2n (b : bool) : N := if b then 1 else 0.
Definition sst_n (x : sst) : N :=
  match x with SUninit => 0 | SWaitReqH => 1 | SConsumeReq => 2 | SStreamReq => 3 | SWaitRespH => 4
             | SConsumeResp => 5 | SStreamResp => 6 | SDone => 7 | SErrored => 8 end.
Definition after_n (a : after) : N := match a with AfNone => 0 | AfStreamHdr => 1 | AfStreamLate => 2 | AfConsume => 3 end.
Definition pctag_n (p : pctag) : N :=
  match p with
  | PNone => 0 | PInvReq1 => 1 | PInvReq2 => 2 | PInvResp => 3 | PBsReq1 => 4 | PBsReq2 => 5 | PBsResp1 => 6 | PBsResp2 => 7
  | PReqHeaders es => 8 + b2n es | PConnStreamHdr => 10 | PConnStreamLate => 11 | PConnConsume => 12
  | PReqStream => 13 | PReq => 14 | PRespHSet => 15 | PRespH es => 16 + b2n es | PResponse a => 18 + b2n a
  | PKilled => 20 | PPErr i af => 21 + 4 * b2n i + after_n af | PConnect => 29
  end.
Fixpoint mix (l : list (N * N)) : N := match l with [] => 0 | (radix, d) :: r => d + radix * mix r end.
Definition m_n (m : mstate) : N :=
  mix [(2, b2n (m_qh m)); (2, b2n (m_q m)); (2, b2n (m_rh m)); (2, b2n (m_r m)); (2, b2n (m_er m)); (2, b2n (m_cn m));
       (2, b2n (m_ok m)); (2, b2n (m_er2 m)); (2, b2n (m_early m))].
Definition idx (a : ast) : N := mix [(32, pctag_n (x_pc a)); (16, sst_n (x_cs a)); (16, sst_n (x_ss a))].
Definition acode (a : ast) : N :=
  mix [(8192, idx a); (512, m_n (x_m a)); (2, b2n (x_up a)); (2, b2n (x_ab a)); (2, b2n (x_rqe a)); (2, b2n (x_rqf a));
       (2, b2n (x_rsf a)); (2, b2n (x_live a)); (2, b2n (x_rs a)); (2, b2n (x_rq a)); (2, b2n (x_qb a)); (2, b2n (x_pb a)); (2, b2n (x_tun a)); (2, b2n (x_cr a));
       (2, b2n (x_ve a)); (2, b2n (x_ws a))].

Definition m_eqb (a b : mstate) : bool :=
  Bool.eqb (m_qh a) (m_qh b) && Bool.eqb (m_q a) (m_q b) && Bool.eqb (m_rh a) (m_rh b) && Bool.eqb (m_r a) (m_r b)
  && Bool.eqb (m_er a) (m_er b) && Bool.eqb (m_cn a) (m_cn b) && Bool.eqb (m_ok a) (m_ok b)
  && Bool.eqb (m_er2 a) (m_er2 b) && Bool.eqb (m_early a) (m_early b).
Definition ast_eqb (a b : ast) : bool :=
  N.eqb (pctag_n (x_pc a)) (pctag_n (x_pc b)) && sst_eqb (x_cs a) (x_cs b) && sst_eqb (x_ss a) (x_ss b) && m_eqb (x_m a) (x_m b)
  && Bool.eqb (x_up a) (x_up b) && Bool.eqb (x_ab a) (x_ab b) && Bool.eqb (x_rqe a) (x_rqe b)
  && Bool.eqb (x_rqf a) (x_rqf b) && Bool.eqb (x_rsf a) (x_rsf b) && Bool.eqb (x_live a) (x_live b)
  && Bool.eqb (x_rs a) (x_rs b) && Bool.eqb (x_rq a) (x_rq b) && Bool.eqb (x_qb a) (x_qb b)
  && Bool.eqb (x_pb a) (x_pb b) && Bool.eqb (x_tun a) (x_tun b)
  && Bool.eqb (x_cr a) (x_cr b) && Bool.eqb (x_ve a) (x_ve b) && Bool.eqb (x_ws a) (x_ws b).

Lemma sst_eqb_eq a b : sst_eqb a b = true -> a = b.
Proof. destruct a, b; simpl; intros H; try discriminate; reflexivity. Qed.
Lemma pctag_n_inj a b : N.eqb (pctag_n a) (pctag_n b) = true -> a = b.
Proof.
  destruct a as [| | | | | | | |[]| | | | | | |[]|[]| |[] []|], b as [| | | | | | | |[]| | | | | | |[]|[]| |[] []|];
    vm_compute; intros H; try discriminate; reflexivity.
Qed.
Lemma m_eqb_eq a b : m_eqb a b = true -> a = b.
Proof.
  destruct a, b; unfold m_eqb; simpl; intros H.
  repeat (apply andb_prop in H; destruct H as [H ?]).
  repeat match goal with E : Bool.eqb _ _ = true |- _ => apply eqb_prop in E end. subst. reflexivity.
Qed.
Lemma ast_eqb_eq a b : ast_eqb a b = true -> a = b.
Proof.
  destruct a, b; unfold ast_eqb; simpl; intros H.
  repeat (apply andb_prop in H; destruct H as [H ?]).
  repeat match goal with E : Bool.eqb _ _ = true |- _ => apply eqb_prop in E end.
  repeat match goal with E : sst_eqb _ _ = true |- _ => apply sst_eqb_eq in E end.
  match goal with E : m_eqb _ _ = true |- _ => apply m_eqb_eq in E end.
  apply pctag_n_inj in H. subst. reflexivity.
Qed.

(* ---------- abstract transition relation of a stream *)
Definition all_aev : list aev :=
  flat_map (fun i => flat_map (fun c => flat_map (fun h => [AReqHeaders i c h true; AReqHeaders i c h false])
                                                [true; false]) [true; false]) [true; false]
  ++ [AReqData true; AReqData false; AReqEOM; AReqErr; ARespHeaders true true; ARespHeaders true false; ARespHeaders false true;
      ARespHeaders false false; ARespData true; ARespData false; ARespEOM; ARespErr].
Lemma all_aev_complete e : In e all_aev.
Proof. destruct e as [[] [] [] []|[]| | |[] []|[]| |]; vm_compute; tauto. Qed.

Definition a_stopped (a : ast) : bool := x_tun a || x_cr a.
Definition is_pnone (p : pctag) : bool := match p with PNone => true | _ => false end.
Definition succs (a : ast) : list ast :=
  a_apply_act a ++
  (if a_stopped a then []
   else if is_pnone (x_pc a) then a_crash a ++ flat_map (fun e => a_run_event e a) all_aev
   else flat_map (fun ok => a_resume (x_pc a) ok (sx_pc PNone a)) [true; false]).

(* ---------- breadth-first search *)
Definition pcode (a : ast) : positive := N.succ_pos (acode a).
Fixpoint insert_all (cands : list ast) (seen : PositiveSet.t) (front : list ast) : PositiveSet.t * list ast :=
  match cands with
  | [] => (seen, front)
  | a :: r => if PositiveSet.mem (pcode a) seen then insert_all r seen front
              else insert_all r (PositiveSet.add (pcode a) seen) (a :: front)
  end.
Fixpoint level (front : list ast) (seen : PositiveSet.t) (next : list ast) : PositiveSet.t * list ast :=
  match front with
  | [] => (seen, next)
  | a :: rest => let '(seen1, next1) := insert_all (succs a) seen next in level rest seen1 next1
  end.
Fixpoint bfs (fuel : nat) (front : list ast) (seen : PositiveSet.t) (acc : list ast) : list ast * nat :=
  match fuel with
  | O => (acc, length front)
  | S f => match front with
           | [] => (acc, 0%nat)
           | _ => let '(seen1, next) := level front seen [] in bfs f next seen1 (front ++ acc)
           end
  end.
Definition a_init : ast := abs (new_stream 1).
Definition SEARCH : list ast * nat := Eval vm_compute in bfs 200 [a_init] (PositiveSet.singleton (pcode a_init)) [].
Definition ALL : list ast := Eval vm_compute in fst SEARCH.

(* ---------- the table *)
(* keyed by the full code: a bucket holds the states with that code (one, unless codes collide) *)
Definition key (a : ast) : positive := pcode a.
Definition add_b (m : PositiveMap.t (list ast)) (a : ast) : PositiveMap.t (list ast) :=
  PositiveMap.add (key a) (a :: match PositiveMap.find (key a) m with Some l => l | None => [] end) m.
Time Definition BM : PositiveMap.t (list ast) := Eval vm_compute in fold_left add_b ALL (PositiveMap.empty _).
Definition okb (a : ast) : bool :=
  match PositiveMap.find (key a) BM with Some l => existsb (ast_eqb a) l | None => false end.
Time Definition ELEMS : list ast := Eval vm_compute in flat_map snd (PositiveMap.elements BM).

Lemma okb_In a : okb a = true -> In a ELEMS.
Proof.
  unfold okb. destruct (PositiveMap.find (key a) BM) as [l|] eqn:E; [|discriminate].
  intros H. apply existsb_exists in H. destruct H as [x [Hx Heq]]. apply ast_eqb_eq in Heq. subst x.
  apply PositiveMap.elements_correct in E.
  change ELEMS with (flat_map snd (PositiveMap.elements BM)).
  apply in_flat_map. exists (key a, l). split; [exact E | exact Hx].
Qed.

Definition closed_b : bool := forallb (fun a => forallb okb (succs a)) ELEMS.
Lemma closed : closed_b = true.
Proof. vm_compute. reflexivity. Qed.

Lemma okb_succ a a' : okb a = true -> In a' (succs a) -> okb a' = true.
Proof.
  intros Ha Hin. apply okb_In in Ha. pose proof closed as C. unfold closed_b in C.
  rewrite forallb_forall in C. specialize (C a Ha). rewrite forallb_forall in C. exact (C a' Hin).
Qed.
Lemma okb_init : okb a_init = true.
Proof. vm_compute. reflexivity. Qed.

(* ---------- lifting to the model: Inv is preserved by every transition of a stream, for all inputs *)
Definition Inv (s : stream) : Prop := okb (abs s) = true.

Lemma Inv_new id : Inv (new_stream id).
Proof. exact okb_init. Qed.

Lemma abs_upd_queue q s : abs (upd_queue q s) = abs s.
Proof. destruct s; reflexivity. Qed.
Lemma abs_upd_pc_none s : abs (upd_pc None s) = sx_pc PNone (abs s).
Proof. destruct s; reflexivity. Qed.
Lemma pnone_iff s : is_pnone (x_pc (abs s)) = negb (is_some (pc s)).
Proof. destruct s as [? ? ? p]; destruct p as [k|]; [destruct k|]; reflexivity. Qed.
Lemma stopped_abs s : a_stopped (abs s) = stopped s.
Proof. destruct s; reflexivity. Qed.

Lemma succs_event a e a' : is_pnone (x_pc a) = true -> a_stopped a = false -> In a' (a_run_event e a) -> In a' (succs a).
Proof.
  intros H1 H2 H. unfold succs. rewrite H1, H2. apply in_or_app. right. apply in_or_app. right.
  apply in_flat_map. exists e. split; [apply all_aev_complete | exact H].
Qed.
Lemma succs_crash a a' : is_pnone (x_pc a) = true -> a_stopped a = false -> In a' (a_crash a) -> In a' (succs a).
Proof. intros H1 H2 H. unfold succs. rewrite H1, H2. apply in_or_app. right. apply in_or_app. left. exact H. Qed.
Lemma succs_resume a ok a' : is_pnone (x_pc a) = false -> a_stopped a = false ->
  In a' (a_resume (x_pc a) ok (sx_pc PNone a)) -> In a' (succs a).
Proof.
  intros H1 H2 H. unfold succs. rewrite H1, H2. apply in_or_app. right.
  apply in_flat_map. exists ok. split; [destruct ok; simpl; auto | exact H].
Qed.
Lemma succs_act a a' : In a' (a_apply_act a) -> In a' (succs a).
Proof. intros H. unfold succs. apply in_or_app. left. exact H. Qed.

Lemma Inv_event o s e : Inv s -> pc s = None -> stopped s = false -> Inv (fst (run_event o s e)).
Proof.
  intros H Hpc Hst. unfold Inv in *. apply (okb_succ (abs s)); [exact H|].
  apply (succs_event _ (aev_of o e)); [rewrite pnone_iff, Hpc; reflexivity | rewrite stopped_abs; exact Hst | apply run_event_s].
Qed.

Lemma Inv_crash s : Inv s -> pc s = None -> stopped s = false -> Inv (fst (crash s)).
Proof.
  intros H Hpc Hst. unfold Inv in *. apply (okb_succ (abs s)); [exact H|].
  apply succs_crash; [rewrite pnone_iff, Hpc; reflexivity | rewrite stopped_abs; exact Hst | apply crash_s].
Qed.

Lemma Inv_resume o k inp s : Inv s -> pc s = Some k -> stopped s = false -> Inv (fst (resume o k inp (upd_pc None s))).
Proof.
  intros H Hpc Hst. unfold Inv in *. apply (okb_succ (abs s)); [exact H|].
  apply (succs_resume _ (ok_of inp)); [rewrite pnone_iff, Hpc; reflexivity | rewrite stopped_abs; exact Hst |].
  pose proof (resume_s o k inp (upd_pc None s)) as R. rewrite abs_upd_pc_none in R.
  replace (x_pc (abs s)) with (tag_of (Some k)) by (destruct s; simpl in *; subst; reflexivity).
  exact R.
Qed.

Lemma Inv_act h a s : Inv s -> Inv (apply_act h a s).
Proof.
  intros H. unfold Inv in *. apply (okb_succ (abs s)); [exact H|].
  apply succs_act. apply apply_act_s.
Qed.

Lemma Inv_queue q s : Inv s -> Inv (upd_queue q s).
Proof. unfold Inv. rewrite abs_upd_queue. auto. Qed.

Lemma Inv_drain o q : forall s acc, Inv s -> Inv (fst (drain o s q acc)).
Proof.
  induction q as [|e q IH]; intros s acc H; simpl.
  - apply Inv_queue, H.
  - destruct (is_some (pc s) || stopped s) eqn:E.
    + apply Inv_queue, H.
    + apply orb_false_elim in E. destruct E as [E1 E2].
      destruct (run_event o (upd_queue q s) e) as [s1 c1] eqn:R.
      apply IH. change s1 with (fst (s1, c1)). rewrite <- R.
      apply Inv_event; [apply Inv_queue, H | | ].
      * destruct s as [? ? ? p]; destruct p; [discriminate | reflexivity].
      * destruct s; exact E2.
Qed.

Theorem Inv_handle o s inp : Inv s -> Inv (fst (stream_handle o s inp)).
Proof.
  intros H. unfold stream_handle. destruct (stopped s) eqn:Hst; [exact H|].
  assert (D : forall k, pc s = Some k ->
              Inv (fst (let '(s1, c1) := resume o k inp (upd_pc None s) in drain o s1 (queue s1) c1))).
  { intros k Hk. pose proof (Inv_resume o k inp s H Hk Hst) as R.
    destruct (resume o k inp (upd_pc None s)) as [s1 c1]. apply Inv_drain. exact R. }
  destruct inp as [e | | c].
  - destruct (pc s) eqn:Hpc; [apply Inv_queue, H | apply Inv_event; assumption].
  - destruct (pc s) eqn:Hpc; [apply D; reflexivity | apply Inv_crash; assumption].
  - destruct (pc s) eqn:Hpc; [apply D; reflexivity | apply Inv_crash; assumption].
Qed.

(* ---------- facts read off the table *)
Definition P_ok (a : ast) : bool := x_ve a || m_ok (x_m a).
Definition P_both (a : ast) : bool := x_ve a || (negb (m_r (x_m a) && m_er (x_m a)) && negb (m_er2 (x_m a))).
Definition P_early (a : ast) : bool := x_ve a || negb (m_early (x_m a)) || x_rs a.
Definition closed_ok (a : ast) : bool :=
  (x_rqf a || sst_eqb (x_cs a) SErrored || sst_eqb (x_ss a) SErrored)
  && (negb (x_up a) || x_rsf a || x_ab a || sst_eqb (x_ss a) SErrored).
Definition P_out (a : ast) : bool :=
  negb (is_pnone (x_pc a)) || x_tun a || x_cr a || x_ve a || x_ws a || negb (m_qh (x_m a)) || negb (closed_ok a)
  || (xorb (m_r (x_m a)) (m_er (x_m a)) && negb (x_live a)).
Lemma table_facts : forallb (fun a => P_ok a && P_both a && P_early a && P_out a) ELEMS = true.
Proof. vm_cast_no_check (eq_refl true). Qed.
Lemma Inv_facts s : Inv s -> P_ok (abs s) = true /\ P_both (abs s) = true /\ P_early (abs s) = true /\ P_out (abs s) = true.
Proof.
  intros H. apply okb_In in H. pose proof table_facts as T. rewrite forallb_forall in T. specialize (T _ H).
  repeat (apply andb_prop in T; destruct T as [T ?]). auto.
Qed.
