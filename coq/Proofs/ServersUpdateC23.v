(* Proofs/ServersUpdateC23.v -- C23: the registry of running listeners (Model/ServersUpdate.v) under
   histories of mode updates, and its composition with the self-connect guard (Gen/SelfConnect.v). *)
From Coq Require Import NArith List Bool Lia String.
From MV Require Import Base.Bytes Model.SelfConnectBase Model.SelfSpec Gen.SelfConnect Model.ServersUpdate Proofs.SelfConnectC23.
Import ListNotations.
Open Scope N_scope.

Lemma lookup_in : forall spec reg i, lookup spec reg = Some i -> In (spec, i) reg.
Proof.
  induction reg as [|[s j] r IH]; intros i H; cbn [lookup] in H; [discriminate|].
  destruct (s =? spec) eqn:E.
  - apply N.eqb_eq in E. inversion H. subst. left. reflexivity.
  - right. apply IH. exact H.
Qed.

Lemma lookup_none_mem : forall spec reg, lookup spec reg = None -> mem spec (map fst reg) = false.
Proof.
  induction reg as [|[s j] r IH]; intros H; cbn [lookup] in H; cbn [map fst mem existsb]; [reflexivity|].
  destruct (s =? spec) eqn:E; [discriminate|].
  rewrite N.eqb_sym, E. cbn [orb]. apply IH. exact H.
Qed.

Definition build_reg (reg : registry) modes n mk fails : registry := fst (fst (build reg modes n mk fails)).

Lemma build_reg_cons_kept : forall reg spec rest n mk fails i, lookup spec reg = Some i ->
  build_reg reg (spec :: rest) n mk fails = (spec, i) :: build_reg reg rest n mk fails.
Proof.
  intros. unfold build_reg. cbn [build]. rewrite H.
  destruct (build reg rest n mk fails) as [[r m] ok]. reflexivity.
Qed.

Lemma build_reg_cons_new : forall reg spec rest n mk fails, lookup spec reg = None ->
  exists j, build_reg reg (spec :: rest) n mk fails = (spec, j) :: build_reg reg rest (n + 1) mk fails.
Proof.
  intros. unfold build_reg. cbn [build]. rewrite H.
  destruct (build reg rest (n + 1) mk fails) as [[r m] ok]. eexists. reflexivity.
Qed.

(* a registered spec that is in the new mode list keeps ITS instance, whatever happens to the others *)
Lemma build_keeps : forall reg modes n mk fails spec i,
  lookup spec reg = Some i -> In spec modes -> lookup spec (build_reg reg modes n mk fails) = Some i.
Proof.
  induction modes as [|s rest IH]; intros n mk fails spec i Hl Hin; [destruct Hin|].
  destruct (s =? spec) eqn:E.
  - apply N.eqb_eq in E. subst s. rewrite (build_reg_cons_kept _ _ _ _ _ _ _ Hl).
    cbn [lookup]. rewrite N.eqb_refl. reflexivity.
  - assert (Hin' : In spec rest).
    { destruct Hin as [Hin|Hin]; [subst s; rewrite N.eqb_refl in E; discriminate|exact Hin]. }
    destruct (lookup s reg) as [j|] eqn:Ls.
    + rewrite (build_reg_cons_kept _ _ _ _ _ _ _ Ls). cbn [lookup]. rewrite E. apply IH; assumption.
    + destruct (build_reg_cons_new reg s rest n mk fails Ls) as [j Hj]. rewrite Hj.
      cbn [lookup]. rewrite E. apply IH; assumption.
Qed.

(* an instance is never replaced under its spec *)
Lemma build_same : forall reg modes n mk fails spec i j,
  lookup spec reg = Some i -> lookup spec (build_reg reg modes n mk fails) = Some j -> j = i.
Proof.
  induction modes as [|s rest IH]; intros n mk fails spec i j Hl H; [discriminate|].
  destruct (lookup s reg) as [k|] eqn:Ls.
  - rewrite (build_reg_cons_kept _ _ _ _ _ _ _ Ls) in H. cbn [lookup] in H.
    destruct (s =? spec) eqn:E.
    + apply N.eqb_eq in E. subst s. rewrite Hl in Ls. inversion Ls. inversion H. subst. reflexivity.
    + eapply IH; eassumption.
  - destruct (build_reg_cons_new reg s rest n mk fails Ls) as [k Hk]. rewrite Hk in H. cbn [lookup] in H.
    destruct (s =? spec) eqn:E.
    + apply N.eqb_eq in E. subst s. rewrite Hl in Ls. discriminate.
    + eapply IH; eassumption.
Qed.

Lemma update_reg_cases : forall reg on modes n mk fails,
  r_reg (update reg on modes n mk fails) = reg
  \/ (r_reg (update reg on modes n mk fails) = (if on then build_reg reg modes n mk fails else [])
      /\ r_stopped (update reg on modes n mk fails)
         = map snd (filter (fun p => negb (mem (fst p) (map fst (if on then build_reg reg modes n mk fails else [])))) reg)).
Proof.
  intros. unfold update, build_reg. destruct on.
  - destruct (build reg modes n mk fails) as [[r m] ok]. cbn [fst].
    destruct ((m =? n) && _); [left; reflexivity|right; split; reflexivity].
  - destruct ((n =? n) && _); [left; reflexivity|right; split; reflexivity].
Qed.

Theorem kept_stays : forall reg modes n mk fails spec i,
  lookup spec reg = Some i -> In spec modes ->
  lookup spec (r_reg (update reg true modes n mk fails)) = Some i.
Proof.
  intros reg modes n mk fails spec i Hl Hin.
  destruct (update_reg_cases reg true modes n mk fails) as [H|[H _]]; rewrite H; [exact Hl|].
  apply build_keeps; assumption.
Qed.

Theorem never_replaced : forall reg on modes n mk fails spec i j,
  lookup spec reg = Some i -> lookup spec (r_reg (update reg on modes n mk fails)) = Some j -> j = i.
Proof.
  intros reg on modes n mk fails spec i j Hl H.
  destruct (update_reg_cases reg on modes n mk fails) as [E|[E _]]; rewrite E in H.
  - rewrite Hl in H. inversion H. reflexivity.
  - destruct on; [eapply build_same; eassumption|discriminate].
Qed.

(* only stopped instances leave the registry; a spec in the new mode list never leaves *)
Theorem only_stopped_leave : forall reg on modes n mk fails spec i,
  lookup spec reg = Some i -> lookup spec (r_reg (update reg on modes n mk fails)) = None ->
  In i (r_stopped (update reg on modes n mk fails)) /\ (on = false \/ ~ In spec modes).
Proof.
  intros reg on modes n mk fails spec i Hl H.
  destruct (update_reg_cases reg on modes n mk fails) as [E|[E S]].
  - rewrite E, Hl in H. discriminate.
  - rewrite E in H. split.
    + rewrite S. apply in_map_iff. exists (spec, i). split; [reflexivity|].
      apply filter_In. split; [apply lookup_in; exact Hl|]. cbn [fst].
      apply negb_true_iff. exact (lookup_none_mem _ _ H).
    + destruct on; [right|left; reflexivity]. intros Hin.
      rewrite (build_keeps reg modes n mk fails spec i Hl Hin) in H. discriminate.
Qed.

(* over histories: as long as the server option is on and the spec stays in the mode list, the same
   instance stays registered through every update -- whatever is added, fails or is removed around it *)
Theorem kept_through_history : forall h reg n spec i,
  lookup spec reg = Some i ->
  (forall s, In s h -> s_server_on s = true /\ In spec (s_modes s)) ->
  forall res, In res (run_updates reg n h) -> lookup spec (r_reg res) = Some i.
Proof.
  induction h as [|s r IH]; intros reg n spec i Hl Hall res Hin; [destruct Hin|].
  cbn [run_updates] in Hin.
  destruct (Hall s (or_introl eq_refl)) as [Hon Hm].
  assert (K : lookup spec (r_reg (update reg (s_server_on s) (s_modes s) n (s_mk s) (s_fails s))) = Some i).
  { rewrite Hon. apply kept_stays; assumption. }
  destruct Hin as [Hin|Hin]; [subst res; exact K|].
  eapply IH; [exact K| |exact Hin]. intros s' Hs'. apply Hall. right. exact Hs'.
Qed.

(* composition with the guard: a destination on a kept listener is still refused after the update *)
Theorem kept_listener_guarded : forall reg modes n mk fails spec i la ch ct,
  lookup spec reg = Some i -> In spec modes ->
  In la (listen_addrs (i_server i)) -> recognised ch (fst la) ->
  transport_compatible (mode_transport (i_server i)) ct ->
  server_connect (servers_of (r_reg (update reg true modes n mk fails))) ch (snd la) ct = Some error_message.
Proof.
  intros reg modes n mk fails spec i la ch ct Hl Hin Hla Hr Ht.
  apply exact. exists (i_server i), la.
  split; [|auto].
  unfold servers_of. apply in_map_iff. exists (spec, i). split; [reflexivity|].
  apply lookup_in. apply kept_stays; assumption.
Qed.

(* non-vacuity: keep one running instance, add one whose start fails: the kept one is still there,
   the failed one is registered without listen addresses, the update reports failure *)
Definition sv (p : N) : server := {| mode_transport := TCP; listen_addrs := [(s_127_0_0_1, p)] |}.
Definition reg0 : registry := r_reg (update [] true [1] 0 (fun _ => sv 8080) (fun _ => false)).

Theorem update_nonvacuous :
  let res := update reg0 true [1; 2] 1 (fun _ => sv 9090) (fun s => s =? 2) in
  lookup 1 reg0 = Some {| i_id := 0; i_running := true; i_server := sv 8080 |}
  /\ lookup 1 (r_reg res) = lookup 1 reg0
  /\ option_map i_running (lookup 2 (r_reg res)) = Some false
  /\ r_ok res = false /\ r_stopped res = []
  /\ server_connect (servers_of (r_reg res)) s_localhost 8080 TCP = Some error_message
  /\ server_connect (servers_of (r_reg res)) s_localhost 9090 TCP = None
  /\ r_stopped (update (r_reg res) true [2] 2 (fun _ => sv 9090) (fun _ => false))
     = [{| i_id := 0; i_running := true; i_server := sv 8080 |}].
Proof. repeat split; vm_compute; reflexivity. Qed.
