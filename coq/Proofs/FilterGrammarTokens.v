(* Proofs/FilterGrammarTokens.v -- facts about the generated character tables (256-case sweeps) and the
   token-level functions of Model/FilterGrammar.v. *)
From Coq Require Import List Bool NArith Arith Lia.
From MV Require Import Base.Bytes Gen.FlowFilterAtoms Model.FilterGrammar.
Import ListNotations.

Definition allws (w : bytes) : Prop := forallb is_ws w = true.
Definition safe (f : byte -> bool) (rest : bytes) : Prop :=
  match rest with [] => True | c :: _ => f c = false end.
Definition follow_ok (S rest : bytes) : Prop := ends_word S = false \/ safe is_wordch rest.

(* ---- table facts ---- *)
Lemma sweep_ws_wordch : forall b, implb (is_ws b) (negb (is_wordch b)) = true.
Proof. apply forall_bytes. vm_compute. reflexivity. Qed.
Lemma sweep_we_wordch : forall b, implb (is_we b) (is_wordch b) = true.
Proof. apply forall_bytes. vm_compute. reflexivity. Qed.
Lemma sweep_dig_wordch : forall b, implb (is_dig b) (is_wordch b) = true.
Proof. apply forall_bytes. vm_compute. reflexivity. Qed.

Lemma ws_not_wordch b : is_ws b = true -> is_wordch b = false.
Proof. intros H. pose proof (sweep_ws_wordch b) as F. rewrite H in F. destruct (is_wordch b); [discriminate | reflexivity]. Qed.
Lemma wordch_not_ws b : is_wordch b = true -> is_ws b = false.
Proof. intros H. destruct (is_ws b) eqn:E; [| reflexivity]. apply ws_not_wordch in E. congruence. Qed.
Lemma we_wordch b : is_we b = true -> is_wordch b = true.
Proof. intros H. pose proof (sweep_we_wordch b) as F. rewrite H in F. exact F. Qed.
Lemma not_wordch_not_we b : is_wordch b = false -> is_we b = false.
Proof. intros H. destruct (is_we b) eqn:E; [| reflexivity]. apply we_wordch in E. congruence. Qed.
Lemma dig_wordch b : is_dig b = true -> is_wordch b = true.
Proof. intros H. pose proof (sweep_dig_wordch b) as F. rewrite H in F. exact F. Qed.
Lemma not_wordch_not_dig b : is_wordch b = false -> is_dig b = false.
Proof. intros H. destruct (is_dig b) eqn:E; [| reflexivity]. apply dig_wordch in E. congruence. Qed.

Lemma code_lit_cons c : code_lit c = x7e :: c.
Proof. reflexivity. Qed.
Lemma quote_of_cases q : quote_of q = x22 \/ quote_of q = x27.
Proof. destruct q; [right | left]; reflexivity. Qed.
Lemma wsch_is_ws c : is_ws (wsch_byte c) = true.
Proof. destruct c; reflexivity. Qed.
Lemma ws_bytes_allws w : allws (ws_bytes w).
Proof. unfold allws. induction w as [| c w IH]; [reflexivity |]. simpl. rewrite wsch_is_ws. exact IH. Qed.
Lemma ws1_allws w : allws (ws1 w).
Proof. destruct w; [reflexivity |]. apply (ws_bytes_allws (w :: w0)). Qed.
Lemma sep_allws L w : allws (sep L w).
Proof. unfold sep. destruct (ends_word L); [apply ws1_allws | apply ws_bytes_allws]. Qed.
Lemma allws_app a b : allws a -> allws b -> allws (a ++ b).
Proof. unfold allws. intros. rewrite forallb_app. rewrite H, H0. reflexivity. Qed.
Lemma allws_nil : allws [].
Proof. reflexivity. Qed.

(* ---- skip_ws / lit ---- *)
Lemma skip_ws_app w s : allws w -> skip_ws (w ++ s) = skip_ws s.
Proof.
  unfold allws. induction w as [| c w IH]; intros H; [reflexivity |].
  simpl in H. apply andb_true_iff in H. destruct H as [Hc Hw]. simpl. rewrite Hc. auto.
Qed.
Lemma skip_ws_cons c r : is_ws c = false -> skip_ws (c :: r) = c :: r.
Proof. intros H. simpl. rewrite H. reflexivity. Qed.
Lemma skip_ws_allws w : allws w -> skip_ws w = [].
Proof. intros H. rewrite <- (app_nil_r w). rewrite skip_ws_app by exact H. reflexivity. Qed.
Lemma lit_hit c w r : allws w -> is_ws c = false -> lit c (w ++ c :: r) = Some r.
Proof. intros Hw Hc. unfold lit. rewrite skip_ws_app by exact Hw. rewrite skip_ws_cons by exact Hc. rewrite byte_eqb_refl. reflexivity. Qed.
Lemma lit_miss c d w r : allws w -> is_ws d = false -> c <> d -> lit c (w ++ d :: r) = None.
Proof.
  intros Hw Hd Hne. unfold lit. rewrite skip_ws_app by exact Hw. rewrite skip_ws_cons by exact Hd.
  destruct (byte_eqb c d) eqn:E; [| reflexivity]. apply byte_eqb_eq in E. contradiction.
Qed.
Lemma lit_allws c w : allws w -> lit c w = None.
Proof. intros H. unfold lit. rewrite skip_ws_allws by exact H. reflexivity. Qed.

(* ---- span / strip_prefix ---- *)
Lemma span_app f a rest : forallb f a = true -> safe f rest -> span f (a ++ rest) = (a, rest).
Proof.
  induction a as [| c a IH]; intros Ha Hr.
  - simpl. destruct rest as [| d r]; [reflexivity |]. simpl in *. rewrite Hr. reflexivity.
  - simpl in Ha. apply andb_true_iff in Ha. destruct Ha as [Hc Ha]. simpl. rewrite Hc. rewrite IH by assumption. reflexivity.
Qed.
Lemma strip_prefix_app p s : strip_prefix p (p ++ s) = Some s.
Proof. induction p as [| a p IH]; [reflexivity |]. simpl. rewrite byte_eqb_refl. exact IH. Qed.

(* ---- ends_word ---- *)
Lemma ends_word_app a b : b <> [] -> ends_word (a ++ b) = ends_word b.
Proof.
  intros Hb. induction a as [| c a IH]; [reflexivity |].
  simpl. destruct (a ++ b) eqn:E.
  - destruct a; destruct b; simpl in E; congruence.
  - exact IH.
Qed.
Lemma ends_word_all b : b <> [] -> forallb is_wordch b = true -> ends_word b = true.
Proof.
  induction b as [| c b IH]; intros Hne H; [congruence |].
  simpl in H. apply andb_true_iff in H. destruct H as [Hc Hb]. simpl.
  destruct b as [| d b]; [exact Hc |]. apply IH; [discriminate | exact Hb].
Qed.
Lemma ends_word_last a c : ends_word (a ++ [c]) = is_wordch c.
Proof. rewrite ends_word_app by discriminate. reflexivity. Qed.
Lemma follow_safe S rest : ends_word S = true -> follow_ok S rest -> safe is_wordch rest.
Proof. intros H [F | F]; [congruence | exact F]. Qed.
Lemma safe_allws_app w c r : allws w -> is_wordch c = false -> safe is_wordch (w ++ c :: r).
Proof.
  intros Hw Hc. destruct w as [| d w]; [exact Hc |]. simpl. unfold allws in Hw. simpl in Hw.
  apply andb_true_iff in Hw. apply ws_not_wordch. tauto.
Qed.
Lemma follow_sep L w X : follow_ok L (sep L w ++ X).
Proof.
  unfold follow_ok, sep. destruct (ends_word L) eqn:E; [right | left; reflexivity].
  destruct w as [| d w]; simpl; [reflexivity |]. apply ws_not_wordch, wsch_is_ws.
Qed.
