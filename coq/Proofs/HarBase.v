(* Proofs/HarBase.v -- C41: version tables (exact characterisation) and the header/body lemmas used by the
   round-trip proof: what Message.set_content / decode do to a message without Content-Encoding. *)
From Coq Require Import List Bool NArith Lia.
From MV Require Import Base.Bytes Model.Headers Proofs.HeadersLaws Gen.HarTables Model.Har.
Import ListNotations.

(* ---------------------------------------------------------------- version tables *)
Definition V11 : bytes := [x48;x54;x54;x50;x2f;x31;x2e;x31].      (* HTTP/1.1 *)
Definition V2  : bytes := [x48;x54;x54;x50;x2f;x32].              (* HTTP/2   *)
Definition V20 : bytes := [x48;x54;x54;x50;x2f;x32;x2e;x30].      (* HTTP/2.0, the spelling mitmproxy uses internally *)
Definition V3  : bytes := [x48;x54;x54;x50;x2f;x33].              (* HTTP/3   *)
Definition V10 : bytes := [x48;x54;x54;x50;x2f;x31;x2e;x30].      (* HTTP/1.0 *)

Definition import_req_version (v : bytes) : bytes := match_version req_version_table req_version_default v.
Definition import_resp_version (v : bytes) : bytes := match_version resp_version_table resp_version_default v.
Definition version_kept (v : bytes) : Prop := v = V11 \/ v = V2 \/ v = V3.

Lemma match_version_range t d v :
  match_version t d v = d \/ exists p, In (p, match_version t d v) t /\ v = p.
Proof.
  induction t as [|[p o] t IH]; cbn [match_version]; [left; reflexivity|].
  destruct (bytes_eqb v p) eqn:E.
  - right. exists p. split; [left; reflexivity|]. apply bytes_eqb_eq; exact E.
  - destruct IH as [IH|[q [Hq Hv]]]; [left; exact IH|]. right. exists q. split; [right; exact Hq|exact Hv].
Qed.

Lemma req_version_exact v : import_req_version v = v <-> version_kept v.
Proof.
  unfold import_req_version, version_kept. split.
  - intros H. destruct (match_version_range req_version_table req_version_default v) as [D|[p [Hin Hv]]].
    + left. rewrite <- H, D. reflexivity.
    + rewrite H in Hin. subst p. cbn in Hin.
      destruct Hin as [E|[E|[E|[]]]]; inversion E; subst; auto.
  - intros [H|[H|H]]; subst v; vm_compute; reflexivity.
Qed.

Lemma resp_version_exact v : import_resp_version v = v <-> version_kept v.
Proof.
  unfold import_resp_version, version_kept. split.
  - intros H. destruct (match_version_range resp_version_table resp_version_default v) as [D|[p [Hin Hv]]].
    + left. rewrite <- H, D. reflexivity.
    + rewrite H in Hin. subst p. cbn in Hin.
      destruct Hin as [E|[E|[E|[]]]]; inversion E; subst; auto.
  - intros [H|[H|H]]; subst v; vm_compute; reflexivity.
Qed.

Lemma http2_not_kept : import_req_version V20 = V11 /\ import_resp_version V20 = V11 /\ ~ version_kept V20.
Proof.
  split; [vm_compute; reflexivity|]. split; [vm_compute; reflexivity|].
  intros [H|[H|H]]; discriminate H.
Qed.

(* ---------------------------------------------------------------- headers *)
Lemma getitem_setitem_other hs k v k' :
  bytes_eqb (lower k') (lower k) = false -> getitem (setitem hs k v) k' = getitem hs k'.
Proof. intros H. unfold getitem, setitem. rewrite set_all_get_all, H. reflexivity. Qed.

Lemma contains_setitem_other hs k v k' :
  bytes_eqb (lower k') (lower k) = false -> contains (setitem hs k v) k' = contains hs k'.
Proof. intros H. unfold contains. rewrite getitem_setitem_other by exact H. reflexivity. Qed.

Lemma pop_absent hs k : getitem hs k = None -> pop hs k = hs.
Proof. intros H. unfold pop, delitem, contains. rewrite H. reflexivity. Qed.

(* what set_content does to the headers of a message without Transfer-Encoding *)
Definition upd_cl (hs : list field) (b : bytes) : list field :=
  if contains hs K_TE then hs else setitem hs K_CL (dec_of_N (N.of_nat (length b))).

Lemma upd_cl_ce hs b : getitem (upd_cl hs b) K_CE = getitem hs K_CE.
Proof. unfold upd_cl. destruct (contains hs K_TE); [reflexivity|]. apply getitem_setitem_other. vm_compute. reflexivity. Qed.

Lemma upd_cl_te hs b : contains (upd_cl hs b) K_TE = contains hs K_TE.
Proof. unfold upd_cl. destruct (contains hs K_TE) eqn:E; [exact E|]. rewrite contains_setitem_other; [exact E|vm_compute; reflexivity]. Qed.

Lemma upd_cl_others hs b : others K_CL (upd_cl hs b) = others K_CL hs.
Proof. unfold upd_cl. destruct (contains hs K_TE); [reflexivity|]. unfold setitem. apply set_all_untouched. Qed.

Lemma upd_cl_ct hs b : get_default (upd_cl hs b) K_CT [] = get_default hs K_CT [].
Proof.
  unfold get_default, upd_cl. destruct (contains hs K_TE); [reflexivity|].
  rewrite getitem_setitem_other; [reflexivity|vm_compute; reflexivity].
Qed.

Section NoContentEncoding.
  Variable L : lib.
  Hypothesis enc_identity : forall v, l_encode L v IDENTITY = Ok v.

  Lemma set_content_noce hs b : getitem hs K_CE = None -> set_content L hs b = Ok (upd_cl hs b, b).
  Proof.
    intros H. unfold set_content. rewrite H. cbn [or_identity]. rewrite enc_identity. cbn [bind].
    unfold upd_cl. destruct (contains hs K_TE); reflexivity.
  Qed.

  Lemma get_content_noce strict hs raw : getitem hs K_CE = None -> get_content L strict hs raw = Ok raw.
  Proof. intros H. unfold get_content. destruct raw; [rewrite H|]; reflexivity. Qed.

  (* decode(): the body is kept; the headers change only in Content-Length, and not at all for an empty body *)
  Lemma decode_noce hs b : getitem hs K_CE = None ->
    decode L hs (Some b) = Ok (match b with [] => hs | _ :: _ => upd_cl hs b end, Some b).
  Proof.
    intros H. unfold decode. destruct b as [|x b]; [reflexivity|].
    rewrite get_content_noce by exact H. cbn [bind]. rewrite pop_absent by exact H.
    rewrite set_content_noce by exact H. reflexivity.
  Qed.
End NoContentEncoding.
