(* Proofs/Pexp.v -- interval reasoning over ALL natural numbers by reflection.
   A pexp is a boolean combination of closed-interval membership tests.  Such a predicate is
   constant between consecutive breakpoints (interval starts, and successors of interval ends),
   so it holds everywhere iff it holds at 0 and at every breakpoint ([valid_sound]).  This is a
   proof for every address, not an enumeration of addresses: the number of evaluation points is
   the number of interval bounds in the tables. *)
From Coq Require Import NArith List Bool Lia ZifyBool.
From MV Require Import Model.Ipaddr Model.Pexp.
Import ListNotations.
Open Scope N_scope.

(* a and b are on the same side of every breakpoint in l *)
Definition sim (l : list N) (a b : N) : Prop := forall c, In c l -> (c <=? a) = (c <=? b).

Lemma sim_app : forall l1 l2 a b, sim (l1 ++ l2) a b -> sim l1 a b /\ sim l2 a b.
Proof.
  intros l1 l2 a b H; split; intros c Hc; apply H; apply in_or_app; [left|right]; exact Hc.
Qed.

Lemma eval_sim : forall p a b, sim (bps p) a b -> eval p a = eval p b.
Proof.
  induction p as [| |nt|p IH|p IHp q IHq|p IHp q IHq]; intros a b H; cbn [eval bps] in *.
  - reflexivity.
  - reflexivity.
  - unfold in_net.
    pose proof (H (fst nt) (or_introl eq_refl)) as H1.
    pose proof (H (N.succ (snd nt)) (or_intror (or_introl eq_refl))) as H2.
    destruct (fst nt <=? a) eqn:E1; destruct (fst nt <=? b) eqn:E2;
    destruct (N.succ (snd nt) <=? a) eqn:E3; destruct (N.succ (snd nt) <=? b) eqn:E4;
    destruct (a <=? snd nt) eqn:E5; destruct (b <=? snd nt) eqn:E6; try reflexivity; try discriminate;
    exfalso; lia.
  - f_equal. apply IH. exact H.
  - apply sim_app in H. destruct H as [H1 H2]. rewrite (IHp a b H1), (IHq a b H2). reflexivity.
  - apply sim_app in H. destruct H as [H1 H2]. rewrite (IHp a b H1), (IHq a b H2). reflexivity.
Qed.

(* every a has a representative among 0 and the breakpoints: the largest breakpoint <= a *)
Lemma rep_exists : forall l a, exists r, In r (0 :: l) /\ r <= a /\ sim l a r.
Proof.
  induction l as [|c l IH]; intros a.
  - exists 0. split; [left; reflexivity|]. split; [lia|]. intros c [].
  - destruct (IH a) as [r [Hin [Hle Hsim]]].
    destruct (c <=? a) eqn:Eca; [destruct (r <? c) eqn:Erc|].
    + exists c. split; [right; left; reflexivity|]. split; [lia|].
      intros d [Hd|Hd].
      * subst d. rewrite Eca. symmetry. apply N.leb_le. lia.
      * pose proof (Hsim d Hd) as Hd'.
        destruct (d <=? a) eqn:E1; destruct (d <=? r) eqn:E2; destruct (d <=? c) eqn:E3;
          try reflexivity; try discriminate; exfalso; lia.
    + exists r. split.
      * destruct Hin as [Hin|Hin]; [left; exact Hin|right; right; exact Hin].
      * split; [exact Hle|]. intros d [Hd|Hd].
        -- subst d. rewrite Eca. symmetry. apply N.leb_le. lia.
        -- apply Hsim. exact Hd.
    + exists r. split.
      * destruct Hin as [Hin|Hin]; [left; exact Hin|right; right; exact Hin].
      * split; [exact Hle|]. intros d [Hd|Hd].
        -- subst d. rewrite Eca. symmetry. apply N.leb_gt. lia.
        -- apply Hsim. exact Hd.
Qed.

Theorem valid_sound : forall p, valid p = true -> forall a, eval p a = true.
Proof.
  intros p H a. unfold valid in H. rewrite forallb_forall in H.
  destruct (rep_exists (bps p) a) as [r [Hin [_ Hsim]]].
  rewrite (eval_sim p a r Hsim). apply H. exact Hin.
Qed.

(* ---- tables as predicates *)
Lemma eval_por_tbl : forall t a, eval (por_tbl t) a = existsb (fun net => in_net a net) t.
Proof. induction t as [|n t IH]; intros a; cbn [por_tbl eval existsb]; [reflexivity|]. rewrite IH. reflexivity. Qed.

Lemma eval_por_tbl_in_nets : forall t a, eval (por_tbl t) a = in_nets a t.
Proof. intros. apply eval_por_tbl. Qed.

