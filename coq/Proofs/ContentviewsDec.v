(* Proofs/ContentviewsDec.v -- str(int) then int(): decimal digits round trip (dec_of_N of
   Base/Bytes.v against dec_value of Model/ContentviewsDns.v). *)
From Coq Require Import List Bool Arith NArith ZArith Lia.
From MV Require Import Base.Bytes Model.ContentviewsDns.
Import ListNotations.

Lemma dec_value_snoc ds d : dec_value (ds ++ [d]) = (dec_value ds * 10 + (bN d - 48))%N.
Proof. unfold dec_value. rewrite fold_left_app. reflexivity. Qed.

Definition digit_of (n : N) : byte := Nb (48 + n mod 10)%N.

Lemma digit_of_bN n : bN (digit_of n) = (48 + n mod 10)%N.
Proof. unfold digit_of. apply bN_Nb. assert (n mod 10 < 10)%N by (apply N.mod_lt; lia). lia. Qed.

Lemma digit_of_is_digit n : is_digit (digit_of n) = true.
Proof.
  unfold is_digit. rewrite digit_of_bN. assert (n mod 10 < 10)%N as H by (apply N.mod_lt; lia).
  revert H. generalize (n mod 10)%N. intros m H.
  apply andb_true_iff. split; apply N.leb_le; lia.
Qed.

Lemma dec_digits_S f n acc :
  dec_digits (S f) n acc =
  if (n <? 10)%N then digit_of n :: acc else dec_digits f (n / 10)%N (digit_of n :: acc).
Proof. reflexivity. Qed.

Lemma dec_digits_spec : forall f n acc, (n < 2 ^ N.of_nat (S f))%N ->
  exists ds, dec_digits (S f) n acc = ds ++ acc /\ forallb is_digit ds = true /\ ds <> [] /\ dec_value ds = n.
Proof.
  induction f as [|f IH]; intros n acc Hn.
  - assert (n < 10)%N as H10 by (change (2 ^ N.of_nat 1)%N with 2%N in Hn; lia).
    exists [digit_of n]. rewrite dec_digits_S.
    apply N.ltb_lt in H10 as H10b. rewrite H10b. repeat split.
    + simpl. rewrite digit_of_is_digit. reflexivity.
    + discriminate.
    + unfold dec_value. simpl. rewrite digit_of_bN. rewrite N.mod_small by lia. lia.
  - rewrite dec_digits_S. destruct (n <? 10)%N eqn:E.
    + apply N.ltb_lt in E. exists [digit_of n]. repeat split.
      * simpl. rewrite digit_of_is_digit. reflexivity.
      * discriminate.
      * unfold dec_value. simpl. rewrite digit_of_bN. rewrite N.mod_small by lia. lia.
    + apply N.ltb_ge in E.
      assert (n / 10 < 2 ^ N.of_nat (S f))%N as Hd.
      { apply N.div_lt_upper_bound; [lia|].
        rewrite (Nat2N.inj_succ (S f)), N.pow_succ_r' in Hn. lia. }
      destruct (IH (n / 10)%N (digit_of n :: acc) Hd) as (ds & E1 & F & NE & V).
      exists (ds ++ [digit_of n]). repeat split.
      * rewrite E1, <- app_assoc. reflexivity.
      * rewrite forallb_app, F. simpl. rewrite digit_of_is_digit. reflexivity.
      * destruct ds; discriminate.
      * rewrite dec_value_snoc, V, digit_of_bN.
        assert (n = 10 * (n / 10) + n mod 10)%N as DM by (apply N.div_mod; lia).
        revert DM. generalize (n / 10)%N (n mod 10)%N. intros a b DM. lia.
Qed.

Lemma dec_of_N_spec n :
  forallb is_digit (dec_of_N n) = true /\ dec_of_N n <> [] /\ dec_value (dec_of_N n) = n.
Proof.
  unfold dec_of_N.
  assert (n < 2 ^ N.of_nat (S (N.to_nat (N.log2 n))))%N as H.
  { rewrite Nat2N.inj_succ, N2Nat.id. destruct n as [|p]; [reflexivity|].
    apply N.log2_spec. lia. }
  destruct (dec_digits_spec _ n [] H) as (ds & E & F & NE & V).
  rewrite E, app_nil_r. auto.
Qed.

