(* Proofs/EncodingC31.v -- the history-level statements of C31 (run = cache after any history),
   derived from the invariant lemmas of EncodingCache.v / EncodingMsg.v. *)
From Coq Require Import List Bool NArith.
From MV Require Import Base.Bytes Model.Encoding Proofs.EncodingCache Proofs.EncodingMsg.
Import ListNotations.

Lemma hist_cache_transparent_decode :
  forall (C : codecs) (lenient : bool) (h : list call) (e : option bytes) (n err : bytes),
    contract C ->
    fst (decode C (run C lenient h) e n err) = fst (decode C None e n err).
Proof.
  intros C l h e n err K. apply decode_transparent. apply inv_run. exact K.
Qed.

Lemma hist_cache_transparent_encode :
  forall (C : codecs) (lenient : bool) (h : list call) (d n err : bytes),
    contract C ->
    enc_equiv C d n err (fst (encode C (run C lenient h) (Some d) n err)) (fst (encode C None (Some d) n err)).
Proof.
  intros C l h d n err K. apply encode_equiv; [exact K | apply inv_run; exact K].
Qed.

Lemma hist_get_content_transparent :
  forall (C : codecs) (lenient : bool) (h : list call) (m : msg) (strict : bool),
    contract C ->
    fst (get_content C lenient (run C lenient h) m strict) = fst (get_content C lenient None m strict).
Proof.
  intros C l h m s K. apply get_content_transparent. apply inv_run. exact K.
Qed.

Lemma hist_set_get_roundtrip :
  forall (C : codecs) (lenient : bool) (h h2 : list call) (m : msg) (v : bytes) o m' st' (strict : bool),
    contract C ->
    supported (lower (coding_of m)) = true ->
    set_content C lenient (run C lenient h) m (Some v) = (o, m', st') ->
    o = Done /\ m_ce m' = m_ce m /\ m_te m' = m_te m
    /\ (exists e, m_raw m' = Some e /\ pure_decode C (lower (coding_of m)) s_strict e = PBytes v)
    /\ fst (get_content C lenient (run_from C lenient st' h2) m' strict) = GBytes v.
Proof.
  intros C l h h2 m v o m' st' s K S E.
  pose proof (inv_run C l h K) as I.
  destruct (set_get_roundtrip C l _ m v o m' st' K I S E) as (A & B & T & D & G).
  repeat split; try assumption. apply G. apply inv_run_from; [exact K |].
  pose proof (inv_set_content C l _ m (Some v) K I) as J. rewrite E in J. exact J.
Qed.

Lemma hist_decode_encode_preserves :
  forall (C : codecs) (lenient : bool) (h0 h1 h2 h3 : list call) (m : msg) (c : bytes) (s s3 : bool) (n : bytes)
         (b0 : byte) (r0 : bytes) o1 m1 st1' o2 m2 st2',
    contract C ->
    m_raw m = Some (b0 :: r0) ->
    fst (get_content C lenient (run C lenient h0) m true) = GBytes c ->
    msg_decode C lenient (run C lenient h1) m s = (o1, m1, st1') ->
    supported (lower (match n with [] => s_identity | _ => n end)) = true ->
    msg_encode C lenient (run C lenient h2) m1 n = (o2, m2, st2') ->
    o1 = Done /\ o2 = Done /\ m_ce m1 = None /\ m_raw m1 = Some c /\ m_ce m2 = Some n
    /\ fst (get_content C lenient (run C lenient h3) m2 s3) = GBytes c.
Proof.
  intros C l h0 h1 h2 h3 m c s s3 n b0 r0 o1 m1 st1' o2 m2 st2' K Hr G D S E.
  destruct (decode_encode_preserves C l _ _ _ m c s n b0 r0 o1 m1 st1' o2 m2 st2' K
              (inv_run C l h0 K) (inv_run C l h1 K) (inv_run C l h2 K) Hr G D S E) as (A & B & X & Y & Z & W).
  repeat split; try assumption. apply W. apply inv_run. exact K.
Qed.

Lemma hist_decode_encode_preserves_empty :
  forall (C : codecs) (lenient : bool) (h0 h1 h2 h3 : list call) (m : msg) (g : gres) (s s3 : bool) (n : bytes)
         o1 m1 st1' o2 m2 st2',
    contract C ->
    m_raw m = None \/ m_raw m = Some [] ->
    supported (lower (coding_of m)) = true ->
    fst (get_content C lenient (run C lenient h0) m true) = g ->
    msg_decode C lenient (run C lenient h1) m s = (o1, m1, st1') ->
    supported (lower (match n with [] => s_identity | _ => n end)) = true ->
    msg_encode C lenient (run C lenient h2) m1 n = (o2, m2, st2') ->
    o1 = Done /\ m1 = m /\ o2 = Done /\ m_ce m2 = Some n
    /\ fst (get_content C lenient (run C lenient h3) m2 s3) = g.
Proof.
  intros C l h0 h1 h2 h3 m g s s3 n o1 m1 st1' o2 m2 st2' K Hr Sm G D S E.
  destruct (decode_encode_preserves_empty C l _ _ _ m g s n o1 m1 st1' o2 m2 st2' K
              (inv_run C l h0 K) (inv_run C l h1 K) (inv_run C l h2 K) Hr Sm G D S E) as (A & B & X & Y & W).
  repeat split; try assumption. apply W. apply inv_run. exact K.
Qed.
