(* Proofs/NextLayer.v — events that arrive before a protocol is chosen reach the chosen
   layer exactly once, in arrival order; NextLayer is transparent for the child. *)
From Coq Require Import List Bool Arith Lia.
From MV Require Import Model.LayerCore Proofs.LayerCore.
Import ListNotations.

Section NL.
  Variable CS : Type.
  Variable ch : CS -> event -> prog CS.
  Variable child_id me : nat.
  Variable ask_on_start : bool.
  Variable c0 : CS.

  Notation feed := (feed_child ch child_id).
  Notation handler := (nl_handler me ask_on_start).
  Notation ndrain := (nl_drain me ask_on_start).
  Notation step := (nl_step ch child_id me ask_on_start).
  Notation nrun := (nl_run ch child_id me ask_on_start).

  Lemma feed_app c a b :
    fst (feed c (a ++ b)) = fst (feed (fst (feed c a)) b).
  Proof.
    revert c; induction a as [|ev a IH]; intros c; simpl; [reflexivity|].
    destruct (handle_event ch child_id c ev) as [[[c1 o1] t1] f1].
    specialize (IH c1).
    destruct (feed c1 (a ++ b)) as [c2 o2]. destruct (feed c1 a) as [c3 o3].
    simpl in *. exact IH.
  Qed.

  Definition pending (s : nls CS) : list event := nl_delivered s ++ nl_events s ++ nl_pq s.

  Definition ninv (s : nls CS) : Prop :=
    (nl_chosen s = true -> nl_events s = [] /\ nl_pq s = [] /\ nl_waiting s = None) /\
    (nl_waiting s = None -> nl_pq s = []) /\
    nl_child s = fst (feed (init c0) (nl_delivered s)).

  Lemma handler_spec (s : nls CS) ev :
    nl_chosen s = false ->
    let '(s', out) := handler s ev in
    nl_chosen s' = false /\ nl_events s' = nl_events s ++ [ev] /\ nl_pq s' = nl_pq s /\
    nl_delivered s' = nl_delivered s /\ nl_child s' = nl_child s.
  Proof.
    intros _. unfold nl_handler.
    destruct ev as [kind eid|c r]; simpl.
    - destruct (ask_on_start && Nat.eqb kind K_START); simpl; [repeat split|].
      destruct (Nat.eqb kind K_CLOSE_CLIENT); simpl; [repeat split|].
      destruct (Nat.eqb kind K_DATA); simpl; repeat split.
    - repeat split.
  Qed.

  Lemma ndrain_spec q : forall s : nls CS,
    nl_chosen s = false ->
    let '(s', out) := ndrain s q in
    nl_chosen s' = false /\ nl_events s' ++ nl_pq s' = nl_events s ++ q /\
    nl_delivered s' = nl_delivered s /\ nl_child s' = nl_child s /\
    (nl_waiting s' = None -> nl_pq s' = []).
  Proof.
    induction q as [|ev q IH]; intros s Hc; simpl.
    - repeat split; try assumption; rewrite ?app_nil_r; try reflexivity.
    - set (s0 := mkNls (nl_events s) (nl_chosen s) (nl_child s) (nl_waiting s) q (nl_ctr s) (nl_delivered s)).
      pose proof (handler_spec s0 ev Hc) as H.
      destruct (handler s0 ev) as [s1 out1].
      destruct H as (H1 & H2 & H3 & H4 & H5). simpl in *.
      destruct (nl_waiting s1) eqn:Ew.
      + split; [exact H1|]. split; [rewrite H2, H3, <- app_assoc; reflexivity|].
        split; [exact H4|]. split; [exact H5|]. rewrite Ew. discriminate.
      + specialize (IH s1 H1). destruct (ndrain s1 q) as [s2 out2].
        destruct IH as (I1 & I2 & I3 & I4 & I5).
        split; [exact I1|]. split; [rewrite I2, H2, <- app_assoc; reflexivity|].
        split; [rewrite I3; exact H4|]. split; [rewrite I4; exact H5|]. exact I5.
  Qed.

  Lemma step_spec (s : nls CS) ev :
    ninv s ->
    let '(s', out, consumed) := step s ev in
    ninv s' /\ pending s' = pending s ++ (if consumed then [] else [ev]).
  Proof.
    intros (Hch & Hw & Hchild). unfold nl_step, pending.
    destruct (nl_chosen s) eqn:Ec.
    - destruct (Hch eq_refl) as (He & Hp & Hwt).
      destruct (handle_event ch child_id (nl_child s) ev) as [[[c' out] t] f] eqn:Eh.
      simpl. split.
      + repeat split; simpl; try assumption; try (intros _; assumption).
        rewrite feed_app, <- Hchild. simpl. rewrite Eh. reflexivity.
      + rewrite He, Hp. simpl. rewrite !app_nil_r. reflexivity.
    - destruct (nl_waiting s) as [c|] eqn:Ew.
      + assert (Hq : forall s', s' = mkNls (nl_events s) false (nl_child s) (nl_waiting s) (nl_pq s ++ [ev]) (nl_ctr s) (nl_delivered s) ->
                 ninv s' /\ nl_delivered s' ++ nl_events s' ++ nl_pq s' = (nl_delivered s ++ nl_events s ++ nl_pq s) ++ [ev]).
        { intros s' ->. split.
          - repeat split; simpl; try discriminate; try assumption.
            rewrite Ew. discriminate.
          - simpl. rewrite <- !app_assoc. reflexivity. }
        destruct ev as [kind eid|c' r]; [apply Hq; rewrite Ew; reflexivity|].
        destruct (Nat.eqb c' c) eqn:Ecc; [|apply Hq; rewrite Ew; reflexivity].
        destruct (Nat.odd r).
        * destruct (feed (nl_child s) (nl_events s)) as [c1 out1] eqn:E1.
          destruct (feed c1 (nl_pq s)) as [c2 out2] eqn:E2.
          simpl. split.
          -- repeat split; simpl.
             rewrite app_assoc, feed_app, feed_app, <- Hchild, E1. simpl. rewrite E2. reflexivity.
          -- rewrite !app_nil_r. reflexivity.
        * set (s0 := mkNls (nl_events s) false (nl_child s) None (nl_pq s) (nl_ctr s) (nl_delivered s)).
          pose proof (ndrain_spec (nl_pq s) s0 eq_refl) as Hd.
          destruct (ndrain s0 (nl_pq s)) as [s' out].
          destruct Hd as (D1 & D2 & D3 & D4 & D5). simpl in *.
          split.
          -- split; [intros Hx; rewrite D1 in Hx; discriminate|]. split; [exact D5|].
             rewrite D4, D3. exact Hchild.
          -- rewrite D3, D2, app_nil_r. reflexivity.
      + pose proof (handler_spec s ev Ec) as H.
        destruct (handler s ev) as [s' out].
        destruct H as (H1 & H2 & H3 & H4 & H5).
        specialize (Hw eq_refl). split.
        * split; [intros Hx; rewrite H1 in Hx; discriminate|].
          split; [intros _; rewrite H3; exact Hw|]. rewrite H5, H4. exact Hchild.
        * rewrite H4, H2, H3, Hw, !app_nil_r, app_assoc. reflexivity.
  Qed.

  Lemma nrun_spec evs : forall s : nls CS,
    ninv s ->
    let '(s', out, fs) := nrun s evs in
    ninv s' /\ pending s' = pending s ++ select negb evs fs /\ length fs = length evs.
  Proof.
    induction evs as [|ev evs IH]; intros s Hi; simpl.
    - split; [exact Hi|]. split; [rewrite app_nil_r; reflexivity | reflexivity].
    - pose proof (step_spec s ev Hi) as H.
      destruct (step s ev) as [[s1 out1] f1]. destruct H as (I1 & P1).
      specialize (IH s1 I1). destruct (nrun s1 evs) as [[s2 out2] fs].
      destruct IH as (I2 & P2 & L2).
      split; [exact I2|]. split.
      + rewrite P2, P1. destruct f1; simpl; rewrite <- ?app_assoc; simpl; rewrite ?app_nil_r; reflexivity.
      + simpl. rewrite L2. reflexivity.
  Qed.

  Lemma ninv_init ctr0 : ninv (nl_init c0 ctr0).
  Proof. repeat split. Qed.

  (* Events reach the chosen layer exactly once, in arrival order, whenever the decision is made *)
  Theorem nextlayer_delivers_in_order ctr0 evs :
    let '(s, out, fs) := nrun (nl_init c0 ctr0) evs in
    nl_delivered s ++ nl_events s ++ nl_pq s = select negb evs fs /\
    (nl_chosen s = true -> nl_delivered s = select negb evs fs) /\
    nl_child s = fst (feed (init c0) (nl_delivered s)) /\
    length fs = length evs.
  Proof.
    pose proof (nrun_spec evs (nl_init c0 ctr0) (ninv_init ctr0)) as H.
    destruct (nrun (nl_init c0 ctr0) evs) as [[s out] fs].
    destruct H as ((Hc & Hw & Hchild) & P & L).
    unfold pending in P. simpl in P.
    repeat split; try assumption.
    intros Hch. destruct (Hc Hch) as (He & Hp & _).
    rewrite He, Hp, !app_nil_r in P. exact P.
  Qed.
End NL.
