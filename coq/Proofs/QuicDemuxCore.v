(* Proofs/QuicDemuxCore.v -- basic facts about the RawQuicLayer model and an induction principle
   for the nested event_to_child recursion: a state predicate that survives each atomic action of
   the command translation survives event_to_child for every child and every fuel. *)
From Coq Require Import NArith Arith List Bool Lia.
From MV Require Import Base.Bytes Model.QuicIdsPrelude Gen.QuicIds Model.QuicDemux Proofs.QuicIds.
Import ListNotations.
Open Scope N_scope.

Section Core.
Variable C : Type.
Variable child_step : C -> connst * connst -> cevent -> C * list ccmd.
Notation state := (state C).
Notation slayer := (slayer C).

Definition keeps_ids (f : slayer -> slayer) : Prop := forall l, cid (f l) = cid l /\ sid (f l) = sid l.

Lemma keeps_set_conn s g : keeps_ids (set_conn C s g).
Proof. intros l; destruct s; split; reflexivity. Qed.
Lemma keeps_set_cst c : keeps_ids (set_cst C c).
Proof. intros l; split; reflexivity. Qed.

Lemma nth_upd_same L f (ls : list slayer) l : nth_error ls L = Some l -> nth_error (upd_nth C L f ls) L = Some (f l).
Proof. revert L; induction ls as [|x t IH]; intros [|n] H; cbn in *; try discriminate; [inversion H; reflexivity | auto]. Qed.
Lemma nth_upd_other L L' f (ls : list slayer) : L <> L' -> nth_error (upd_nth C L f ls) L' = nth_error ls L'.
Proof. revert L L'; induction ls as [|x t IH]; intros [|n] [|m] H; cbn; try reflexivity; try contradiction; apply IH; auto. Qed.
Lemma nth_upd_none L f (ls : list slayer) L' : nth_error ls L' = None -> nth_error (upd_nth C L f ls) L' = None.
Proof. revert L L'; induction ls as [|x t IH]; intros [|n] [|m] H; cbn in *; try reflexivity; try discriminate; auto. Qed.
Lemma length_upd L f (ls : list slayer) : length (upd_nth C L f ls) = length ls.
Proof. revert L; induction ls as [|x t IH]; intros [|n]; cbn; auto. Qed.

Lemma nth_upd L f (ls : list slayer) L' :
  nth_error (upd_nth C L f ls) L' =
  if Nat.eqb L L' then option_map f (nth_error ls L') else nth_error ls L'.
Proof.
  destruct (Nat.eqb L L') eqn:E.
  - apply Nat.eqb_eq in E; subst L'. destruct (nth_error ls L) eqn:H.
    + cbn. apply nth_upd_same; auto.
    + cbn. apply nth_upd_none; auto.
  - apply Nat.eqb_neq in E. apply nth_upd_other; auto.
Qed.

Definition has_id (st : state) (L : nat) (s : side) (id : N) : Prop :=
  exists l, nth_error (layers st) L = Some l /\ stream_id l s = Some id.

Lemma stream_id_keeps f l s : keeps_ids f -> stream_id (f l) s = stream_id l s.
Proof. intros K; destruct (K l) as [A B]; destruct s; cbn; congruence. Qed.

Lemma has_id_upd st L f L' s id : keeps_ids f -> (has_id (upd_layer C L f st) L' s id <-> has_id st L' s id).
Proof.
  intros K. unfold has_id, upd_layer; cbn. rewrite nth_upd.
  destruct (Nat.eqb L L'); [|tauto].
  destruct (nth_error (layers st) L') as [l|]; cbn.
  - split; intros (l' & E & H); inversion E; subst.
    + exists l; split; auto. rewrite stream_id_keeps in H; auto.
    + exists (f l'); split; auto. rewrite stream_id_keeps; auto.
  - split; intros (l' & E & _); discriminate.
Qed.

(* ------------------------------------------------------------ induction principle *)
Definition inner_err (e : errk) : Prop :=
  e = AssertStreamId \/ e = AssertOpenClient \/ e = AssertOpenTwice \/ e = AssertTsStart \/
  e = CounterIndex \/ e = Internal \/ e = OutOfFuel.

Section Principle.
Variable P : state -> Prop.
Variable w : wrap.
Variable L : nat.
Hypothesis H_cst : forall st c, P st -> P (upd_layer C L (set_cst C c) st).
Hypothesis H_read : forall st s, P st -> P (upd_layer C L (set_conn C s (set_read false)) st).
Hypothesis H_end : forall st s, P st -> P (upd_layer C L (set_conn C s (set_end true)) st).
Hypothesis H_fail : forall st e, P st -> inner_err e -> P (fail C e st).
Hypothesis H_pass : forall st l n, P st -> nth_error (layers st) L = Some l -> P (emit C w L (OPass L n) st).
Hypothesis H_send : forall st l s id d, P st -> nth_error (layers st) L = Some l -> stream_id l s = Some id ->
  can_write (conn_of s l) = true -> P (emit C w L (OSend L s id d false) st).
Hypothesis H_fin : forall st l s id, P st -> nth_error (layers st) L = Some l -> stream_id l s = Some id ->
  can_write (conn_of s l) = true ->
  P (emit C w L (OSend L s id [] true) (upd_layer C L (set_conn C s (set_write false)) st)).
Hypothesis H_stop : forall st l s id, P st -> nth_error (layers st) L = Some l -> stream_id l s = Some id ->
  P (emit C w L (OStop L s id 0) st).
Hypothesis H_open : forall st l id nx, P st -> nth_error (layers st) L = Some l -> sid l = None ->
  get_next_available_stream_id (next_ids st) true (stream_is_unidirectional (cid l)) = Some (id, nx) ->
  P (let st1 := open_server_stream C L id (with_next C nx st) in
     with_server_ids C (dict_set id L (server_ids st1)) st1).

Definition rec_ok (rec : wrap -> nat -> cevent -> state -> state) : Prop :=
  forall ev st, P st -> P (rec w L ev st).

Lemma layers_emit w' L' o st : layers (emit C w' L' o st) = layers st.
Proof.
  unfold emit. destruct w'; destruct o; cbn; try reflexivity.
  - destruct fin; cbn; try reflexivity.
    destruct (nth_error (layers st) L'); cbn; try reflexivity.
    destruct (_ && _); reflexivity.
  - destruct (is_empty d); reflexivity.
Qed.

Lemma close_P rec s st : rec_ok rec -> P st -> P (close_stream_layer_with C rec w L s st).
Proof.
  intros R H. unfold close_stream_layer_with.
  destruct (nth_error (layers st) L) as [l|]; [|apply H_fail; auto; unfold inner_err; tauto].
  destruct (negb (ts_start (conn_of s l))).
  - apply H_fail; [apply H_read; auto | unfold inner_err; tauto].
  - destruct (ts_end (conn_of s l)); [apply H_read; auto|].
    apply R. apply H_end. apply H_read. auto.
Qed.

Lemma do_cmd_P rec cmd st : rec_ok rec -> P st -> P (do_cmd C rec w L cmd st).
Proof.
  intros R H. unfold do_cmd.
  destruct (nth_error (layers st) L) as [l|] eqn:El; [|apply H_fail; auto; unfold inner_err; tauto].
  destruct cmd as [s d|s half|s|n].
  - destruct (stream_id l s) as [id|] eqn:Ei; [|apply H_fail; auto; unfold inner_err; tauto].
    destruct (can_write (conn_of s l)) eqn:Ew; auto. eapply H_send; eauto.
  - destruct (stream_id l s) as [id|] eqn:Ei; [|apply H_fail; auto; unfold inner_err; tauto].
    set (st1 := if can_write (conn_of s l) then _ else st).
    assert (P1 : P st1).
    { unfold st1. destruct (can_write (conn_of s l)) eqn:Ew; auto. eapply H_fin; eauto. }
    assert (E1 : exists l1, nth_error (layers st1) L = Some l1 /\ stream_id l1 s = Some id).
    { unfold st1. destruct (can_write (conn_of s l)); [|eauto].
      rewrite layers_emit. cbn. exists (set_conn C s (set_write false) l). split.
      - apply nth_upd_same; auto.
      - rewrite stream_id_keeps; auto. apply keeps_set_conn. }
    destruct half; auto.
    destruct E1 as (l1 & E1 & I1).
    apply close_P; auto.
    destruct (_ || _); auto. eapply H_stop; eauto.
  - destruct s; [apply H_fail; auto; unfold inner_err; tauto|].
    destruct (sid l) eqn:Es; [apply H_fail; auto; unfold inner_err; tauto|].
    destruct (get_next_available_stream_id _ _ _) as [[id nx]|] eqn:Eg; [|apply H_fail; auto; unfold inner_err; tauto].
    apply R. eapply (H_open st l id nx); eauto.
  - eapply H_pass; eauto.
Qed.

Lemma run_cmds_P rec cmds st : rec_ok rec -> P st -> P (run_cmds C rec w L cmds st).
Proof.
  intros R. revert st. induction cmds as [|c t IH]; intros st H; cbn; auto.
  destruct (err st); auto. apply IH. apply do_cmd_P; auto.
Qed.

Lemma etc_P fuel : rec_ok (etc C child_step fuel).
Proof.
  induction fuel as [|f IH]; intros ev st H; cbn.
  - apply H_fail; auto; unfold inner_err; tauto.
  - destruct (nth_error (layers st) L) as [l|]; [|apply H_fail; auto; unfold inner_err; tauto].
    destruct (child_step (cst l) (cconn l, sconn l) ev) as [c' cmds].
    apply run_cmds_P; auto.
Qed.

Lemma close_layer_P s st : P st -> P (close_stream_layer C child_step w L s st).
Proof. apply close_P. apply etc_P. Qed.

End Principle.
End Core.
