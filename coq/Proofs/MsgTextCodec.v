(* Proofs/MsgTextCodec.v -- decode (encode s) = s for the exact codecs ASCII, Latin-1, UTF-8
   (strict), and: on scalar text the surrogateescape encoder equals the strict one. *)
From Coq Require Import ZArith NArith List Bool Lia ZifyBool.
From MV Require Import Base.Bytes Model.MsgText.
Import ListNotations.
Local Open Scope N_scope.

Ltac Zify.zify_post_hook ::= Z.to_euclidean_division_equations.

(* ---------- ASCII / Latin-1 ---------- *)
Lemma narrow_rt (limit : N) : limit <= 256 -> forall s b,
  narrow_encode limit s = Some b -> narrow_decode limit b = Some s.
Proof.
  intros Hl. unfold narrow_encode, narrow_decode.
  induction s as [|c s IH]; intros b H; cbn [map_opt] in *.
  - injection H as <-. reflexivity.
  - destruct (c <? limit) eqn:E; [|discriminate].
    destruct (map_opt _ s) as [r|] eqn:Er; [|discriminate].
    injection H as <-. cbn [map_opt].
    rewrite bN_Nb by lia. rewrite E. rewrite (IH r eq_refl). reflexivity.
Qed.

(* ---------- UTF-8 ---------- *)
Lemma step1 b0 r : bN b0 < 128 -> utf8_step (b0 :: r) = U8Ok (bN b0) r.
Proof. intros H. unfold utf8_step. destruct (bN b0 <? 128) eqn:E; [reflexivity | lia]. Qed.

Lemma step2 b0 b1 r : 194 <= bN b0 -> bN b0 < 224 -> is_cont b1 = true ->
  utf8_step (b0 :: b1 :: r) = U8Ok ((bN b0 - 192) * 64 + (bN b1 - 128)) r.
Proof.
  intros H1 H2 H3. unfold utf8_step.
  destruct (bN b0 <? 128) eqn:E1; [lia|].
  destruct ((194 <=? bN b0) && (bN b0 <? 224)) eqn:E2; [|lia].
  rewrite H3. reflexivity.
Qed.

Lemma step3 b0 b1 b2 r : 224 <= bN b0 -> bN b0 < 240 -> second_ok b0 b1 = true -> is_cont b2 = true ->
  utf8_step (b0 :: b1 :: b2 :: r) = U8Ok ((bN b0 - 224) * 4096 + (bN b1 - 128) * 64 + (bN b2 - 128)) r.
Proof.
  intros H1 H2 H3 H4. unfold utf8_step.
  destruct (bN b0 <? 128) eqn:E1; [lia|].
  destruct ((194 <=? bN b0) && (bN b0 <? 224)) eqn:E2; [lia|].
  destruct ((224 <=? bN b0) && (bN b0 <? 240)) eqn:E3; [|lia].
  rewrite H3, H4. reflexivity.
Qed.

Lemma step4 b0 b1 b2 b3 r : 240 <= bN b0 -> bN b0 < 245 -> second_ok b0 b1 = true ->
  is_cont b2 = true -> is_cont b3 = true ->
  utf8_step (b0 :: b1 :: b2 :: b3 :: r)
  = U8Ok ((bN b0 - 240) * 262144 + (bN b1 - 128) * 4096 + (bN b2 - 128) * 64 + (bN b3 - 128)) r.
Proof.
  intros H1 H2 H3 H4 H5. unfold utf8_step.
  destruct (bN b0 <? 128) eqn:E1; [lia|].
  destruct ((194 <=? bN b0) && (bN b0 <? 224)) eqn:E2; [lia|].
  destruct ((224 <=? bN b0) && (bN b0 <? 240)) eqn:E3; [lia|].
  destruct ((240 <=? bN b0) && (bN b0 <? 245)) eqn:E4; [|lia].
  rewrite H3, H4, H5. reflexivity.
Qed.

Lemma is_cont_Nb n : 128 <= n -> n <= 191 -> is_cont (Nb n) = true.
Proof. intros. unfold is_cont. rewrite bN_Nb by lia. lia. Qed.

Lemma second_ok_Nb n0 n1 : n0 < 256 -> 128 <= n1 -> n1 <= 191 ->
  (n0 = 224 -> 160 <= n1) -> (n0 = 237 -> n1 <= 159) ->
  (n0 = 240 -> 144 <= n1) -> (n0 = 244 -> n1 <= 143) ->
  second_ok (Nb n0) (Nb n1) = true.
Proof.
  intros. unfold second_ok, is_cont. rewrite !bN_Nb by lia.
  destruct (n0 =? 224) eqn:A; [lia|].
  destruct (n0 =? 237) eqn:A1; [lia|].
  destruct (n0 =? 240) eqn:A2; [lia|].
  destruct (n0 =? 244) eqn:A3; lia.
Qed.

Lemma scalar_bounds c : is_scalar c = true -> (c < 55296 \/ 57343 < c) /\ c <= 1114111.
Proof. unfold is_scalar, is_surrogate. lia. Qed.

Lemma utf8_step_cp c rest : is_scalar c = true -> utf8_step (utf8_cp c ++ rest) = U8Ok c rest.
Proof.
  intros Hs. apply scalar_bounds in Hs. destruct Hs as [Hsur Hmax]. unfold utf8_cp.
  destruct (c <? 128) eqn:E1.
  - cbn [app]. rewrite step1; rewrite bN_Nb by lia; [reflexivity | lia].
  - destruct (c <? 2048) eqn:E2.
    + cbn [app]. rewrite step2.
      * rewrite !bN_Nb by lia. f_equal. lia.
      * rewrite bN_Nb by lia. lia.
      * rewrite bN_Nb by lia. lia.
      * apply is_cont_Nb; lia.
    + destruct (c <? 65536) eqn:E3.
      * cbn [app]. rewrite step3.
        -- rewrite !bN_Nb by lia. f_equal. lia.
        -- rewrite bN_Nb by lia. lia.
        -- rewrite bN_Nb by lia. lia.
        -- apply second_ok_Nb; lia.
        -- apply is_cont_Nb; lia.
      * cbn [app]. rewrite step4.
        -- rewrite !bN_Nb by lia. f_equal. lia.
        -- rewrite bN_Nb by lia. lia.
        -- rewrite bN_Nb by lia. lia.
        -- apply second_ok_Nb; lia.
        -- apply is_cont_Nb; lia.
        -- apply is_cont_Nb; lia.
Qed.

Lemma utf8_cp_nonempty c : (1 <= length (utf8_cp c))%nat.
Proof.
  unfold utf8_cp. destruct (c <? 128); [cbn; lia|].
  destruct (c <? 2048); [cbn; lia|]. destruct (c <? 65536); cbn; lia.
Qed.

Definition utf8_bytes (s : text) : bytes := flat_map utf8_cp s.

Lemma utf8_encode_spec s b : utf8_encode s = Some b ->
  b = utf8_bytes s /\ Forall (fun c => is_scalar c = true) s.
Proof.
  unfold utf8_encode. revert b. induction s as [|c s IH]; intros b H; cbn [concat_opt] in H.
  - injection H as <-. split; [reflexivity | constructor].
  - unfold utf8_cp_strict in H at 1. destruct (is_scalar c) eqn:E; [|discriminate].
    destruct (concat_opt utf8_cp_strict s) as [r|] eqn:Er; [|discriminate].
    injection H as <-. destruct (IH r eq_refl) as [-> HF].
    split; [reflexivity | constructor; assumption].
Qed.

Lemma utf8_encode_scalar s : Forall (fun c => is_scalar c = true) s ->
  utf8_encode s = Some (utf8_bytes s).
Proof.
  unfold utf8_encode. induction 1 as [|c s Hc HF IH]; cbn [concat_opt]; [reflexivity|].
  unfold utf8_cp_strict at 1. rewrite Hc, IH. reflexivity.
Qed.

Lemma utf8_decode_bytes se s : Forall (fun c => is_scalar c = true) s ->
  forall fuel, (length (utf8_bytes s) <= fuel)%nat ->
  utf8_decode_fuel se fuel (utf8_bytes s) = Some s.
Proof.
  induction 1 as [|c s Hc HF IH]; intros fuel Hf.
  - destruct fuel; reflexivity.
  - cbn [utf8_bytes flat_map] in *. fold (utf8_bytes s) in *.
    rewrite app_length in Hf. pose proof (utf8_cp_nonempty c) as Hn.
    destruct fuel as [|f]; [lia|].
    cbn [utf8_decode_fuel]. rewrite (utf8_step_cp c _ Hc).
    rewrite IH by lia. reflexivity.
Qed.

Theorem utf8_rt s b : utf8_encode s = Some b -> utf8_decode b = Some s.
Proof.
  intros H. apply utf8_encode_spec in H as [-> HF]. unfold utf8_decode.
  apply utf8_decode_bytes; [assumption | lia].
Qed.

(* on scalar text surrogateescape never triggers *)
Lemma escaped_not_scalar c : is_scalar c = true -> is_escaped_byte c = false.
Proof. unfold is_scalar, is_surrogate, is_escaped_byte. lia. Qed.

Lemma utf8_encode_se_scalar s : Forall (fun c => is_scalar c = true) s ->
  utf8_encode_se s = utf8_encode s.
Proof.
  unfold utf8_encode_se, utf8_encode. induction 1 as [|c s Hc HF IH]; cbn [concat_opt]; [reflexivity|].
  rewrite IH. unfold utf8_cp_se. rewrite (escaped_not_scalar c Hc). reflexivity.
Qed.

(* utf-8-sig: one BOM is added and one is removed *)
Theorem utf8sig_rt s b : utf8sig_encode s = Some b -> utf8sig_decode b = Some s.
Proof.
  unfold utf8sig_encode, utf8sig_decode. destruct (utf8_encode s) as [r|] eqn:E; [|discriminate].
  intros H. injection H as <-. cbn [bom8 app starts_with]. rewrite !byte_eqb_refl. cbn [andb skipn].
  apply utf8_rt. exact E.
Qed.
