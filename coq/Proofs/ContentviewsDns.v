(* Proofs/ContentviewsDns.v -- the DNS content view: to_json / from_json round trip, and
   reencode (prettify data) composed with the wire round trip of C25. *)
From Coq Require Import List Bool Arith NArith ZArith Lia.
From MV Require Import Base.Bytes Model.Strutils Model.WsUtf8 Model.DnsNames Model.DnsMessage
  Gen.DnsEnums Model.Contentviews Model.ContentviewsDns
  Proofs.ContentviewsDec Proofs.DnsNamesRT Proofs.DnsMessageRT Proofs.DnsC25 Proofs.ContentviewsSafe.
Import ListNotations.
Local Open Scope N_scope.

(* ---------- small string facts ---------- *)
Lemma starts_with_app p y : starts_with p (p ++ y) = true.
Proof. induction p as [|a p IH]; [reflexivity|]. cbn. rewrite byte_eqb_refl. exact IH. Qed.

Lemma skipn_app_len {A} (p y : list A) : skipn (length p) (p ++ y) = y.
Proof. induction p as [|a p IH]; [reflexivity | exact IH]. Qed.

Lemma removeprefix_app p y : removeprefix p (p ++ y) = y.
Proof. unfold removeprefix. rewrite starts_with_app. apply skipn_app_len. Qed.

Lemma removesuffix_app s c : removesuffix [c] (s ++ [c]) = s.
Proof.
  unfold removesuffix. rewrite rev_app_distr. cbn [rev app].
  change (c :: rev s) with ([c] ++ rev s). rewrite removeprefix_app. apply rev_involutive.
Qed.

Lemma parse_dec_of_N n : parse_dec (dec_of_N n) = Some n.
Proof.
  destruct (dec_of_N_spec n) as (D & NE & V). unfold parse_dec.
  destruct (dec_of_N n) as [|a r] eqn:E; [congruence|]. rewrite D, V. reflexivity.
Qed.

(* ---------- enum tables ---------- *)
Definition tbl_ok (pre : bytes) (t : list (N * bytes)) : bool :=
  forallb (fun ks => match tbl_rev t (snd ks) with Some k => k =? fst ks | None => false end
                     && negb (starts_with pre (snd ks))) t.

Lemma tbl_get_in t n s : tbl_get t n = Some s -> In (n, s) t.
Proof.
  induction t as [|[k s'] t IH]; [discriminate|]. cbn. destruct (k =? n) eqn:E.
  - intro H. inversion H; subst. apply N.eqb_eq in E. subst. left. reflexivity.
  - intro H. right. exact (IH H).
Qed.

Lemma tbl_rev_none t x : (forall k s, In (k, s) t -> s <> x) -> tbl_rev t x = None.
Proof.
  induction t as [|[k s'] t IH]; intro H; [reflexivity|]. cbn.
  destruct (bytes_eqb s' x) eqn:E.
  - apply bytes_eqb_eq in E. exfalso. exact (H k s' (or_introl eq_refl) E).
  - apply IH. intros k0 s0 Hin. apply (H k0 s0). right. exact Hin.
Qed.

Lemma enum_roundtrip pre t : tbl_ok pre t = true ->
  forall n, enum_from_str pre t (enum_to_str pre t n) = Some n.
Proof.
  intros OK n. unfold tbl_ok in OK. rewrite forallb_forall in OK.
  unfold enum_from_str, enum_to_str. destruct (tbl_get t n) as [s|] eqn:G.
  - apply tbl_get_in in G. specialize (OK _ G). cbn [fst snd] in OK.
    apply andb_true_iff in OK. destruct OK as [R _].
    destruct (tbl_rev t s) as [k|]; [|discriminate R]. apply N.eqb_eq in R. subst. reflexivity.
  - rewrite tbl_rev_none.
    + rewrite removeprefix_app, removesuffix_app. apply parse_dec_of_N.
    + intros k s Hin Heq. specialize (OK _ Hin). cbn [fst snd] in OK.
      apply andb_true_iff in OK. destruct OK as [_ P]. rewrite Heq, starts_with_app in P. discriminate P.
Qed.

Lemma op_rt n : op_from_str (op_to_str n) = Some n.
Proof. apply enum_roundtrip. vm_compute. reflexivity. Qed.
Lemma rc_rt n : rc_from_str (rc_to_str n) = Some n.
Proof. apply enum_roundtrip. vm_compute. reflexivity. Qed.
Lemma ty_rt n : ty_from_str (ty_to_str n) = Some n.
Proof. apply enum_roundtrip. vm_compute. reflexivity. Qed.
Lemma cl_rt n : cl_from_str (cl_to_str n) = Some n.
Proof. apply enum_roundtrip. vm_compute. reflexivity. Qed.

(* ---------- hex ---------- *)
Definition hex_byte_ok (b : byte) : bool :=
  match hexval (hexdigit (bN b / 16)), hexval (hexdigit (bN b mod 16)) with
  | Some x, Some y => byte_eqb (Nb (x * 16 + y)) b
  | _, _ => false
  end
  && negb (byte_eqb (hexdigit (bN b / 16)) x20) && negb (byte_eqb (hexdigit (bN b mod 16)) x20).

Lemma hex_byte_ok_all b : hex_byte_ok b = true.
Proof. revert b. apply forall_bytes. vm_compute. reflexivity. Qed.

Lemma fromhex_hex_of d : fromhex (hex_of d) = Some d.
Proof.
  induction d as [|b d IH]; [reflexivity|].
  cbn [hex_of flat_map app fromhex]. fold (hex_of d). rewrite IH.
  pose proof (hex_byte_ok_all b) as H. unfold hex_byte_ok in H.
  apply andb_true_iff in H. destruct H as [H _]. apply andb_true_iff in H. destruct H as [H _].
  destruct (hexval (hexdigit (bN b / 16))) as [x|]; [|discriminate H].
  destruct (hexval (hexdigit (bN b mod 16))) as [y|]; [|discriminate H].
  apply byte_eqb_eq in H. rewrite H. reflexivity.
Qed.

Lemma before_sp_paren_cut : forall d rest,
  before_sp_paren (hex_of d ++ x20 :: x28 :: rest) = hex_of d.
Proof.
  induction d as [|b d IH]; intro rest; [reflexivity|].
  cbn [hex_of flat_map app]. fold (hex_of d).
  pose proof (hex_byte_ok_all b) as H. unfold hex_byte_ok in H.
  apply andb_true_iff in H. destruct H as [H N2]. apply andb_true_iff in H. destruct H as [_ N1].
  apply negb_true_iff in N1. apply negb_true_iff in N2.
  set (h1 := hexdigit (bN b / 16)) in *. set (h2 := hexdigit (bN b mod 16)) in *.
  cbn [before_sp_paren]. rewrite N1. cbn [andb]. f_equal.
  specialize (IH rest).
  destruct (hex_of d ++ x20 :: x28 :: rest) as [|c r'] eqn:E.
  - destruct (hex_of d); discriminate E.
  - rewrite N2. cbn [andb]. f_equal. exact IH.
Qed.

Lemma before_sp_paren_plain : forall d, before_sp_paren (hex_of d) = hex_of d.
Proof.
  induction d as [|b d IH]; [reflexivity|].
  cbn [hex_of flat_map app]. fold (hex_of d).
  pose proof (hex_byte_ok_all b) as H. unfold hex_byte_ok in H.
  apply andb_true_iff in H. destruct H as [H N2]. apply andb_true_iff in H. destruct H as [_ N1].
  apply negb_true_iff in N1. apply negb_true_iff in N2.
  set (h1 := hexdigit (bN b / 16)) in *. set (h2 := hexdigit (bN b mod 16)) in *.
  cbn [before_sp_paren]. rewrite N1. cbn [andb]. f_equal.
  destruct (hex_of d) as [|c r'] eqn:E; [reflexivity|].
  rewrite N2. cbn [andb]. f_equal. exact IH.
Qed.

Lemma hex_fallback_hex d : hex_fallback (hex_str d) = Some d.
Proof.
  unfold hex_fallback, hex_str. rewrite removeprefix_app, before_sp_paren_plain. apply fromhex_hex_of.
Qed.

Lemma hex_fallback_invalid t d : hex_fallback (invalid_str t d) = Some d.
Proof.
  unfold hex_fallback, invalid_str, hex_str. rewrite <- app_assoc, removeprefix_app.
  unfold INVALID_OPEN. cbn [app]. rewrite before_sp_paren_cut. apply fromhex_hex_of.
Qed.

Lemma map_opt_map {A B} (f : A -> option B) (g : B -> A) (l : list B) :
  (forall x, In x l -> f (g x) = Some x) -> map_opt f (map g l) = Some l.
Proof.
  induction l as [|x l IH]; intro H; [reflexivity|]. cbn [map map_opt].
  rewrite (H x (or_introl eq_refl)), IH; [reflexivity|]. intros y Hy. apply H. right. exact Hy.
Qed.

Section DnsProofs.
Variable lib_enc : N -> bytes -> option djson.
Variable lib_dec : N -> djson -> option bytes.

Notation data_json := (data_json lib_enc).
Notation data_from_json := (data_from_json lib_dec).
Notation rr_to_json := (rr_to_json lib_enc).
Notation rr_from_json := (rr_from_json lib_dec).
Notation m_to_json := (m_to_json lib_enc).
Notation m_from_json := (m_from_json lib_dec).

(* The complement of the findings about record data:
   - A / AAAA / HTTPS: what the library prints it parses back to the same bytes, and it
     rejects the marker string used for unprintable data (both hold of ipaddress for every
     input; for HTTPS records it is a guard on the data);
   - NS / CNAME / PTR: the data is a name in canonical uncompressed form
     (complement of dns-name-rdata-garbled);
   - TXT: the data is well-formed UTF-8 (complement of dns-txt-not-utf8-garbled). *)
Definition rdata_ok (t : N) (d : bytes) : Prop :=
  if is_lib_type t then
    (forall j, lib_enc t d = Some j -> lib_dec t j = Some d)
    /\ (lib_enc t d = None -> lib_dec t (DStr (invalid_str t d)) = None)
  else if is_name_type t then exists n, DnsNames.unpack d = Ok n /\ DnsNames.pack n = Ok d
  else if t =? T_TXT then utf8_valid d = true
  else True.

Lemma data_roundtrip t d : rdata_ok t d -> data_from_json t (data_json t d) = Some d.
Proof.
  unfold rdata_ok, ContentviewsDns.data_from_json, ContentviewsDns.data_json, data_attempt.
  destruct (is_lib_type t) eqn:L.
  - intros [H1 H2]. destruct (lib_enc t d) as [j|] eqn:E.
    + rewrite (H1 j eq_refl). reflexivity.
    + rewrite (H2 eq_refl). apply hex_fallback_invalid.
  - destruct (is_name_type t) eqn:Nm.
    + intros (n & U & P). rewrite U, P. reflexivity.
    + destruct (t =? T_TXT) eqn:X.
      * intros ->. reflexivity.
      * intros _. apply hex_fallback_hex.
Qed.

Lemma q_roundtrip q : q_from_json (q_to_json q) = Some q.
Proof. destruct q. unfold q_from_json, q_to_json. cbn. rewrite ty_rt, cl_rt. reflexivity. Qed.

Definition rr_ok (r : rr) : Prop := rdata_ok (r_type r) (r_data r).

Lemma rr_roundtrip r : rr_ok r -> rr_from_json (rr_to_json r) = Some r.
Proof.
  destruct r as [n t c ttl d]. unfold rr_ok, ContentviewsDns.rr_from_json, ContentviewsDns.rr_to_json.
  cbn. intro H. rewrite ty_rt, cl_rt, (data_roundtrip t d H). reflexivity.
Qed.

Lemma rrs_roundtrip l : Forall rr_ok l -> map_opt rr_from_json (map rr_to_json l) = Some l.
Proof. intro F. apply map_opt_map. rewrite Forall_forall in F. intros x Hx. apply rr_roundtrip, F, Hx. Qed.

(* from_json (to_json m) is m with the reserved bits cleared *)
Definition clear_reserved (m : message) : message :=
  mkMsg (m_id m) (m_query m) (m_op_code m) (m_aa m) (m_tc m) (m_rd m) (m_ra m) 0 (m_rcode m)
        (m_questions m) (m_answers m) (m_authorities m) (m_additionals m).

Lemma message_json_roundtrip sz m :
  Forall rr_ok (all_rrs m) -> m_from_json (m_to_json sz m) = Some (clear_reserved m).
Proof.
  intro F. unfold all_rrs in F. apply Forall_app in F. destruct F as [F1 F]. apply Forall_app in F.
  destruct F as [F2 F3]. unfold ContentviewsDns.m_from_json, ContentviewsDns.m_to_json. cbn.
  rewrite op_rt, rc_rt, (map_opt_map _ _ _ (fun q _ => q_roundtrip q)),
          (rrs_roundtrip _ F1), (rrs_roundtrip _ F2), (rrs_roundtrip _ F3).
  reflexivity.
Qed.

Lemma clear_reserved_id m : m_reserved m = 0 -> clear_reserved m = m.
Proof. destruct m. cbn. intros ->. reflexivity. Qed.

(* ---------- refutations (for every library codec) ---------- *)
(* the AD bit (reserved = 2) of a query is lost *)
Definition ad_query : message :=
  mkMsg 42 true 0 false false true false 2 0 [mkQ [x61] 1 1] [] [] [].
Lemma reserved_lost : exists m', m_from_json (m_to_json 0 ad_query) = Some m' /\ m' <> ad_query
  /\ wf_msg ad_query /\ Forall rr_ok (all_rrs ad_query).
Proof.
  eexists. split; [vm_compute; reflexivity|]. split; [discriminate|]. split.
  - apply wf_msgb_ok. vm_compute. reflexivity.
  - constructor.
Qed.

(* a TXT record whose data is not UTF-8 comes back as the text of the marker string *)
Definition txt_bad : rr := mkRR [x61] 16 1 5 [x01; xff].
Lemma txt_garbled : exists r', rr_from_json (rr_to_json txt_bad) = Some r' /\ r_data r' <> r_data txt_bad
  /\ r_data r' = invalid_str 16 [x01; xff].
Proof. eexists. split; [vm_compute; reflexivity|]. split; [discriminate | vm_compute; reflexivity]. Qed.

(* a CNAME record whose data is not a complete name comes back as a name made of the marker string *)
Definition cname_bad : rr := mkRR [x61] 5 1 5 [x05; x61; x62; x63].
Lemma name_rdata_garbled : exists r', rr_from_json (rr_to_json cname_bad) = Some r' /\ r_data r' <> r_data cname_bad.
Proof. eexists. split; [vm_compute; reflexivity | discriminate]. Qed.

(* ---------- the view ---------- *)
Variable yaml_dumps : mjson -> text.
Variable yaml_loads : text -> option mjson.
(* the contract of the YAML library for one document: what is dumped loads back to the same
   value, and (ruamel escapes every non-printable character) the dump has nothing that the
   final filter of prettify_message replaces *)
Definition yaml_ok (j : mjson) : Prop :=
  yaml_loads (yaml_dumps j) = Some j
  /\ forall c, In c (yaml_dumps j) -> replaced true c = false.

Notation dns_prettify := (dns_prettify lib_enc yaml_dumps).
Notation dns_reencode := (dns_reencode lib_dec yaml_loads).

Lemma yaml_unfiltered c1 j : yaml_ok j -> ecc c1 (yaml_dumps j) = yaml_dumps j.
Proof.
  intros [_ yaml_printable]. apply ecc_id. apply forallb_forall. intros c Hc. apply negb_true_iff.
  pose proof (yaml_printable c Hc) as P. unfold replaced in *. destruct c1; [exact P|].
  apply orb_false_iff in P. destruct P as [P _]. rewrite P. reflexivity.
Qed.

Definition strip (tcp : bool) (b : bytes) : bytes := if tcp then skipn 2 b else b.

(* what re-encoding the (filtered) rendering gives, in terms of the decoded message *)
Lemma reencode_prettify c1 tcp data m :
  DnsMessage.unpack (strip tcp data) = Ok m -> Forall rr_ok (all_rrs m) ->
  yaml_ok (m_to_json (msg_size m) m) ->
  exists t, dns_prettify tcp data = inl t /\
    dns_reencode tcp (ecc c1 t) =
      match pack_message (clear_reserved m) tcp with Ok b => Some b | Err _ => None end.
Proof.
  intros U F Y. unfold strip in U.
  assert (dns_prettify tcp data = inl (yaml_dumps (m_to_json (msg_size m) m))) as P.
  { unfold ContentviewsDns.dns_prettify. cbv zeta. destruct tcp; cbv iota in U |- *; rewrite U; reflexivity. }
  eexists. split; [exact P|]. unfold ContentviewsDns.dns_reencode.
  rewrite (yaml_unfiltered _ _ Y). destruct Y as [Y _]. rewrite Y, (message_json_roundtrip _ m F). reflexivity.
Qed.

Lemma pack_u16_ok n : n < 65536 -> pack_u16 n = Ok (put_u16be n).
Proof. intro H. unfold pack_u16. apply N.ltb_lt in H. rewrite H. reflexivity. Qed.

(* The property, on the complement of the findings: a DNS message that decodes to m (with the
   reserved bits clear and record data as in rdata_ok, and within the guards of the wire
   round trip C25) renders, and re-encoding the unedited rendering gives bytes that decode
   to exactly m: same header fields, questions and records. *)
Theorem dns_view_roundtrip c1 tcp data m :
  DnsMessage.unpack (strip tcp data) = Ok m ->
  m_reserved m = 0 -> Forall rr_ok (all_rrs m) ->
  yaml_ok (m_to_json (msg_size m) m) ->
  wf_msg m -> Forall rdata_guard (all_rrs m) ->
  (tcp = true -> forall b, packed m = Ok b -> N.of_nat (length b) < 65536) ->
  exists t out, dns_prettify tcp data = inl t /\ dns_reencode tcp (ecc c1 t) = Some out
    /\ DnsMessage.unpack (strip tcp out) = Ok m.
Proof.
  intros U R F Y W G L.
  destruct (reencode_prettify c1 tcp data m U F Y) as (t & P & E).
  rewrite (clear_reserved_id m R) in E.
  destruct (reencode_partial _ m U W G) as (b' & Pk & Un).
  exists t. unfold pack_message in E. rewrite Pk in E. cbn [bind] in E. destruct tcp.
  - rewrite (pack_u16_ok _ (L eq_refl b' Pk)) in E. cbn [bind] in E.
    eexists. split; [exact P|]. split; [exact E|]. cbn [strip put_u16be app skipn]. exact Un.
  - eexists. split; [exact P|]. split; [exact E|]. exact Un.
Qed.

End DnsProofs.

(* ---------- the contracts are satisfiable; a non-trivial instance ---------- *)
(* a toy library (hex both ways for A / AAAA / HTTPS) and a toy YAML whose dump is a fixed
   printable text per message, looked up by the loader *)
Definition toy_enc (t : N) (d : bytes) : option djson :=
  if (t =? T_A) && negb (length d =? 4)%nat then None else Some (DOpaque d).
Definition toy_dec (t : N) (j : djson) : option bytes :=
  match j with DOpaque d => Some d | DStr _ => None end.

Definition good_query : bytes :=
  [x00; x2a; x01; x00; x00; x01; x00; x00; x00; x00; x00; x00; x03; x64; x6e; x73; x06; x67; x6f; x6f;
   x67; x6c; x65; x00; x00; x01; x00; x01].

Example toy_lib_ok : forall d, rdata_ok toy_enc toy_dec T_A d.
Proof.
  intros d. unfold rdata_ok. change (is_lib_type T_A) with true. cbn [toy_dec]. split.
  - intros j E. unfold toy_enc in E. destruct ((T_A =? T_A) && negb (length d =? 4)%nat); [discriminate|].
    inversion E. reflexivity.
  - reflexivity.
Qed.

Definition good_msg : message :=
  mkMsg 42 true 0 false false true false 0 0 [mkQ [x64; x6e; x73; x2e; x67; x6f; x6f; x67; x6c; x65] 1 1] [] [] [].
Definition toy_dumps (j : mjson) : text := [105; 100; 58; 32; 52; 50; 10].
Definition toy_loads (t : text) : option mjson := Some (m_to_json toy_enc 0 good_msg).

(* every hypothesis of dns_view_roundtrip holds of a real query (dns.google A, id 42), over UDP
   and with a length prefix, and the conclusion is a 28-byte message equal to the input *)
Lemma good_query_instance :
  DnsMessage.unpack good_query = Ok good_msg /\ m_reserved good_msg = 0
  /\ Forall (rr_ok toy_enc toy_dec) (all_rrs good_msg)
  /\ yaml_ok toy_dumps toy_loads (m_to_json toy_enc (msg_size good_msg) good_msg)
  /\ wf_msg good_msg /\ Forall rdata_guard (all_rrs good_msg)
  /\ (forall b, packed good_msg = Ok b -> N.of_nat (length b) < 65536)
  /\ dns_reencode toy_dec toy_loads false (ecc false (toy_dumps (m_to_json toy_enc 0 good_msg))) = Some good_query.
Proof.
  split; [vm_compute; reflexivity|]. split; [reflexivity|]. split; [constructor|]. split.
  - split; [reflexivity|]. intros c Hc.
    assert (forallb (fun c => negb (replaced true c)) (toy_dumps (m_to_json toy_enc 0 good_msg)) = true) as F
      by (vm_compute; reflexivity).
    rewrite forallb_forall in F. apply negb_true_iff. exact (F c Hc).
  - split; [apply wf_msgb_ok; vm_compute; reflexivity|]. split; [constructor|]. split.
    + intros b Pb. assert (packed good_msg = Ok good_query) as E by (vm_compute; reflexivity).
      rewrite E in Pb. inversion Pb; subst b. vm_compute. reflexivity.
    + vm_compute. reflexivity.
Qed.
