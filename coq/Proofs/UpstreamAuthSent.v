(* Proofs/UpstreamAuthSent.v -- C24, the other direction: the credential is sent where the statement says it is
   (CONNECT heads, plain requests forwarded to the upstream proxy, requests of reverse-mode clients), for the code
   as found and for the repaired code (whose tunnelled set never suppresses it on a client that is not tunnelled). *)
From Coq Require Import List Bool NArith Lia.
From MV Require Import Base.Bytes Model.UpstreamAuth Proofs.UpstreamAuthStep Proofs.UpstreamAuthWorld.
Import ListNotations.
Open Scope N_scope.

Lemma requestheaders_upstream cfg cred in_set hs p :
  cfg.(c_auth) = Some cred -> cred <> [] -> (cfg.(c_fixed) && in_set) = false ->
  carries cred (requestheaders cfg (PUpstream p) false in_set hs).
Proof.
  intros Ha Hne Hf. unfold requestheaders. rewrite Ha. destruct cred as [|x r]; [contradiction|]. cbn [truthy].
  rewrite Hf. cbn. apply set_all1_has.
Qed.

Lemma requestheaders_reverse cfg cred in_set hs tls t rtls :
  cfg.(c_auth) = Some cred -> cred <> [] ->
  carries cred (requestheaders cfg (PReverse t rtls) tls in_set hs).
Proof.
  intros Ha Hne. unfold requestheaders. rewrite Ha. destruct cred as [|x r]; [contradiction|]. cbn [truthy].
  cbn. apply set_all1_has.
Qed.

Lemma step_sent cfg cred in_set st ev st' wr conn w :
  cfg.(c_auth) = Some cred -> cred <> [] -> inv st ->
  ((cfg.(c_fixed) && in_set) = true -> st.(cs_tunnel) = true) ->
  step cfg in_set st ev = (st', wr, conn) -> In w wr ->
  w.(w_kind) = WConnect \/ (w.(w_via) = true /\ w.(w_tunnelled) = false) \/ is_reverse w.(w_pm) = true ->
  carries cred w.(w_fields).
Proof.
  intros Ha Hne Hi Hset H Hin Hwhere. unfold step in H. destruct (negb (cs_alive st)).
  { inversion H; subst. destruct Hin. }
  assert (Hi' := Hi). destruct Hi' as (Hc & Hs & Hu).
  destruct ev as [tgt hh hs ok|a itls ok|ord].
  - destruct (resolve (cs_layer st) tgt hh) as [[tls a]|] eqn:Er; [|inversion H; subst; destruct Hin].
    destruct (send_request cfg st tls a (requestheaders cfg (cs_pm st) tls in_set hs) ok) as [s2 w2] eqn:E.
    inversion H; subst. assert (E' := E). unfold send_request in E'.
    destruct (send_request_writes _ _ _ _ _ _ _ _ _ Hi E Hin) as [Hpm Hw].
    destruct Hw as [(Hk & Hv & Ht & Hlv & Hh)|(Hk & Hf & Hv & Ht & Hh)].
    + (* a CONNECT head: its fields are connect_head *)
      clear Hwhere.
      destruct (find_reusable a tls (hl_via (cs_layer st)) (hl_conns (cs_layer st))).
      * inversion E'; subst. destruct Hin as [<-|[]]. discriminate.
      * destruct (hl_via (cs_layer st) && send_connect (hl_mode (cs_layer st)) tls && negb ok).
        -- inversion E'; subst. destruct Hin as [<-|[]]. cbn. apply connect_head_carries; assumption.
        -- inversion E'; subst. apply in_app_or in Hin. destruct Hin as [Hin|[<-|[]]]; [|discriminate].
           destruct (hl_via (cs_layer st) && send_connect (hl_mode (cs_layer st)) tls); [|destruct Hin].
           destruct Hin as [<-|[]]. cbn. apply connect_head_carries; assumption.
    + rewrite Hf. destruct Hwhere as [Hwk|[[Hwv Hwt]|Hwr]].
      * rewrite Hk in Hwk. discriminate.
      * (* to the proxy, outside a tunnel: upstream HTTPMode, plain http *)
        rewrite Hv in Hwv. rewrite Ht, Hwv in Hwt. cbn in Hwt. unfold send_connect in Hwt.
        apply orb_false_iff in Hwt. destruct Hwt as [Htls Hm]. apply negb_false_iff in Hm.
        unfold shape_ok in Hs. destruct (hl_mode (cs_layer st)); try discriminate.
        destruct Hs as (Hp & _ & Hnt). subst tls.
        destruct (cs_pm st) as [|p|? ?|? ?|? ?]; try discriminate.
        apply requestheaders_upstream; try assumption.
        destruct (c_fixed cfg && in_set) eqn:Efs; [|reflexivity]. rewrite (Hset eq_refl) in Hnt. discriminate.
      * rewrite Hpm in Hwr. destruct (cs_pm st) as [|p|t rtls|? ?|? ?]; try discriminate.
        apply requestheaders_reverse; assumption.
  - unfold shape_ok in Hs. destruct (hl_mode (cs_layer st)) eqn:Em.
    + destruct (transparent_layer cfg a itls false (cs_next st)) as [l n]. inversion H; subst. destruct Hin.
    + destruct (c_eager cfg && itls); inversion H; subst; [|destruct Hin].
      destruct Hin as [<-|[]]. cbn. apply connect_head_carries; assumption.
    + inversion H; subst. destruct Hin.
  - inversion H; subst. destruct Hin.
Qed.

(* members of the tunnelled set are tunnelled clients *)
Definition winv2 (ws : wstate) : Prop :=
  forall c, mem c ws.(ws_set) = true -> exists st, lookup c ws.(ws_conns) = Some st /\ st.(cs_tunnel) = true.

Lemma wstep_inv2 cfg ws e ws' wr : winv cfg ws -> winv2 ws -> wstep cfg ws e = (ws', wr) -> winv2 ws'.
Proof.
  intros Hw H2 H. destruct e as [c pm|c ev|opt|c]; cbn [wstep] in H.
  - destruct (lookup c (ws_conns ws)) eqn:El.
    + inversion H; subst. assumption.
    + inversion H; subst. intros x Hx. cbn in Hx. destruct (H2 x Hx) as (st & Hl & Ht). exists st. split; [|assumption].
      cbn. rewrite (lookup_app_none _ _ _ _ El). destruct (c =? x) eqn:E; [|assumption].
      apply N.eqb_eq in E. subst x. rewrite El in Hl. discriminate.
  - destruct (lookup c (ws_conns ws)) as [st|] eqn:El.
    + destruct (step (with_auth cfg (ws_auth ws)) (mem c (ws_set ws)) st ev) as [[st' w1] conn] eqn:Es.
      inversion H; subst. clear H. destruct (Hw c st El) as [Hi Hm].
      destruct (step_state _ _ _ _ _ _ _ Hi Es) as (Hi' & _ & Ht1 & Ht2).
      intros x Hx. cbn in Hx. cbn. rewrite lookup_update by (rewrite El; discriminate).
      destruct (c =? x) eqn:E.
      * apply N.eqb_eq in E. subst x. exists st'. split; [reflexivity|]. apply Ht2.
        destruct (conn && c_fixed cfg) eqn:Ec.
        -- right. apply andb_true_iff in Ec. apply Ec.
        -- left. destruct (H2 c Hx) as (s0 & Hl & Ht). rewrite El in Hl. inversion Hl; subst. assumption.
      * apply H2. destruct (conn && c_fixed cfg); [|assumption].
        unfold mem in *. cbn in Hx. rewrite N.eqb_sym, E in Hx. cbn in Hx. assumption.
    + inversion H; subst. assumption.
  - inversion H; subst. exact H2.
  - destruct (lookup c (ws_conns ws)) as [st|] eqn:El; inversion H; subst; [|assumption].
    intros x Hx. cbn in Hx. cbn. rewrite lookup_update by (rewrite El; discriminate).
    destruct (H2 x Hx) as (s0 & Hl & Ht). destruct (c =? x) eqn:E.
    + apply N.eqb_eq in E. subst x. rewrite El in Hl. inversion Hl; subst s0. exists (dead st). split; [reflexivity|exact Ht].
    + exists s0. split; assumption.
Qed.

(* one step from a state in which UpstreamAuth.auth = Some cred *)
Lemma wstep_sent cfg cred ws e ws' wr c w :
  ws.(ws_auth) = Some cred -> cred <> [] -> winv cfg ws -> winv2 ws ->
  wstep cfg ws e = (ws', wr) -> In (c, w) wr ->
  w.(w_kind) = WConnect \/ (w.(w_via) = true /\ w.(w_tunnelled) = false) \/ is_reverse w.(w_pm) = true ->
  carries cred w.(w_fields).
Proof.
  intros Ha Hne Hw H2 H Hin Hwhere. destruct e as [c0 pm|c0 ev|opt|c0]; cbn [wstep] in H;
    [| |inversion H; subst; destruct Hin|destruct (lookup c0 (ws_conns ws)); inversion H; subst; destruct Hin].
  - destruct (lookup c0 (ws_conns ws)); inversion H; subst; destruct Hin.
  - destruct (lookup c0 (ws_conns ws)) as [st|] eqn:El; [|inversion H; subst; destruct Hin].
    destruct (step (with_auth cfg (ws_auth ws)) (mem c0 (ws_set ws)) st ev) as [[st' w1] conn] eqn:Es.
    inversion H; subst. clear H. apply in_map_iff in Hin. destruct Hin as (w' & Hw' & Hin). inversion Hw'; subst.
    destruct (Hw c st El) as [Hi Hm].
    eapply step_sent; try eassumption.
    + cbn. assumption.
    + intros Hfs. cbn in Hfs. apply andb_true_iff in Hfs. destruct Hfs as [_ Hmem].
      destruct (H2 c Hmem) as (s0 & Hl & Ht). rewrite El in Hl. inversion Hl; subst. assumption.
Qed.

Lemma winv2_init : winv2 ws_init.
Proof. intros c H. discriminate. Qed.

(* both invariants hold of every reachable state *)
Lemma wrun_invs cfg : forall es ws, winv cfg ws -> winv2 ws ->
  winv cfg (fst (wrun cfg ws es)) /\ winv2 (fst (wrun cfg ws es)).
Proof.
  induction es as [|e r IH]; intros ws Hw H2; cbn [wrun].
  - split; assumption.
  - destruct (wstep cfg ws e) as [ws1 w1] eqn:E1. destruct (wrun cfg ws1 r) as [ws2 w2] eqn:E2. cbn [fst].
    specialize (IH ws1 (wstep_inv _ _ _ _ _ Hw E1) (wstep_inv2 _ _ _ _ _ Hw H2 E1)). rewrite E2 in IH. exact IH.
Qed.

(* After ANY history (option changes included): if upstream_auth is now configured with value cred, the next event
   writes cred into every CONNECT head, every request head sent to the proxy outside a tunnel and every request head
   of a reverse-mode client. *)
Theorem sent_where_due : forall cfg cred es e,
  let ws := fst (wrun cfg ws_init es) in
  ws.(ws_auth) = Some cred -> cred <> [] ->
  forall c w, In (c, w) (snd (wstep cfg ws e)) ->
  w.(w_kind) = WConnect \/ (w.(w_via) = true /\ w.(w_tunnelled) = false) \/ is_reverse w.(w_pm) = true ->
  carries cred w.(w_fields).
Proof.
  intros cfg cred es e ws Ha Hne c w Hin Hwhere.
  destruct (wrun_invs cfg es ws_init (winv_init cfg) winv2_init) as [Hw H2]. fold ws in Hw, H2.
  destruct (wstep cfg ws e) as [ws' wr] eqn:E. eapply wstep_sent; eassumption.
Qed.
