(* Proofs/ViewSpec.v -- invariants of the View state and total-correctness specifications of the
   primitive functions (key cache, sorted list, Focus and Settings handlers). *)
From Coq Require Import List Bool Arith NArith ZArith Lia Permutation Sorted.
From MV Require Import Base.Bytes Model.View Proofs.ViewBase.
Import ListNotations.

Definition cache_of (s : state) (id : N) (o : order) : option N :=
  match sget (settings s) id with Some c => cget o c | None => None end.

(* ---------- relations between states ---------- *)
Record cfg_eq (s s' : state) : Prop := {
  ce_heap : heap s' = heap s; ce_store : store s' = store s; ce_filt : filt s' = filt s;
  ce_okey : okey s' = okey s; ce_sm : show_marked s' = show_marked s }.

Definition cache_new (s s' : state) := forall id o k, cache_of s' id o = Some k ->
  cache_of s id o = Some k \/ (In id (store s) /\ k = generate o (attr s id)).
Definition cache_mono (s s' : state) := forall id o k, cache_of s id o = Some k -> cache_of s' id o = Some k.
Definition sids_sub (s s' : state) := forall id, In id (settings_ids s') -> In id (settings_ids s) \/ In id (store s).

Record upd (s s' : state) : Prop := { u_cfg : cfg_eq s s'; u_new : cache_new s s'; u_ids : sids_sub s s' }.
Record updm (s s' : state) : Prop := { um_upd : upd s s'; um_mono : cache_mono s s' }.
(* nothing but the settings changed, and they only grew by fresh keys of stored flows *)
Record ext (s s' : state) : Prop := {
  e_updm : updm s s'; e_view : view s' = view s; e_focus : focus s' = focus s; e_log : log s' = log s }.

Lemma cfg_eq_refl s : cfg_eq s s. Proof. constructor; reflexivity. Qed.
Lemma cfg_eq_trans a b c : cfg_eq a b -> cfg_eq b c -> cfg_eq a c.
Proof. intros [] []. constructor; congruence. Qed.
Lemma attr_cfg s s' id : cfg_eq s s' -> attr s' id = attr s id.
Proof. intros []. unfold attr. congruence. Qed.

Lemma upd_refl s : upd s s.
Proof. constructor; [apply cfg_eq_refl | intros id o k H; auto | intros id H; auto]. Qed.
Lemma upd_trans a b c : upd a b -> upd b c -> upd a c.
Proof.
  intros [C1 N1 I1] [C2 N2 I2]. constructor.
  - eapply cfg_eq_trans; eauto.
  - intros id o k H. destruct (N2 _ _ _ H) as [H1|[H1 H2]].
    + apply N1; exact H1.
    + right. rewrite (ce_store _ _ C1) in H1. rewrite (attr_cfg _ _ id C1) in H2. auto.
  - intros id H. destruct (I2 _ H) as [H1|H1].
    + apply I1; exact H1.
    + right. rewrite (ce_store _ _ C1) in H1. exact H1.
Qed.
Lemma updm_refl s : updm s s.
Proof. constructor; [apply upd_refl | intros id o k H; exact H]. Qed.
Lemma updm_trans a b c : updm a b -> updm b c -> updm a c.
Proof. intros [U1 M1] [U2 M2]. constructor; [eapply upd_trans; eauto | intros id o k H; auto]. Qed.
Lemma ext_refl s : ext s s.
Proof. constructor; [apply updm_refl | reflexivity..]. Qed.
Lemma ext_trans a b c : ext a b -> ext b c -> ext a c.
Proof. intros [] []. constructor; [eapply updm_trans; eauto | congruence..]. Qed.

(* ---------- invariants ---------- *)
Record CoreV (s : state) : Prop := {
  c_store : NoDup (store s);
  c_sorted : ksorted (view s);
  c_cached : forall k id, In (k, id) (view s) -> In id (store s) /\ cache_of s id (okey s) = Some k;
  c_nodup : NoDup (raw_ids s) }.
Definition SidsOk (s : state) : Prop := forall id, In id (settings_ids s) -> In id (store s).
Definition FocusOk (s : state) : Prop :=
  match focus s with Some f => In f (raw_ids s) | None => view s = [] end.
Definition wanted (s : state) (id : N) : bool :=
  fmatches (filt s) (attr s id) && implb (show_marked s) (fmarked (attr s id)).
(* every shown flow matches the filter; every stored, matching (and, in marked-only mode, marked) flow is shown *)
Definition M1 (s : state) : Prop := forall id, In id (raw_ids s) -> fmatches (filt s) (attr s id) = true.
Definition M2 (s : state) : Prop := forall id, In id (store s) -> wanted s id = true -> In id (raw_ids s).
(* guarded: in marked-only mode every shown flow is marked *)
Definition M3 (s : state) : Prop := show_marked s = true -> forall id, In id (raw_ids s) -> fmarked (attr s id) = true.
(* guarded: every cached sort key is the current key of the flow *)
Definition Fresh (s : state) : Prop := forall id o k, cache_of s id o = Some k -> k = generate o (attr s id).

Lemma shows_wanted s id : shows s (attr s id) = wanted s id.
Proof. unfold shows, wanted. destruct (show_marked s), (fmarked (attr s id)); reflexivity. Qed.
Lemma shows_true s f : shows s f = true <->
  fmatches (filt s) f = true /\ (show_marked s = true -> fmarked f = true).
Proof.
  unfold shows. destruct (fmatches (filt s) f), (show_marked s), (fmarked f); simpl; split; intros H;
    try reflexivity; try discriminate; try (split; [reflexivity | intros; reflexivity]);
    try (destruct H as [H1 H2]; try discriminate; specialize (H2 eq_refl); discriminate).
  split; [reflexivity | intros; discriminate].
Qed.

Lemma CoreV_updm s s' : updm s s' -> view s' = view s -> CoreV s -> CoreV s'.
Proof.
  intros [[C _ _] Mo] V [H1 H2 H3 H4]. constructor.
  - rewrite (ce_store _ _ C). exact H1.
  - rewrite V. exact H2.
  - intros k id Hin. rewrite V in Hin. destruct (H3 _ _ Hin) as [A B].
    rewrite (ce_store _ _ C), (ce_okey _ _ C). split; [exact A | apply Mo; exact B].
  - unfold raw_ids. rewrite V. exact H4.
Qed.
Lemma Sids_upd s s' : upd s s' -> SidsOk s -> SidsOk s'.
Proof.
  intros [C _ I] H id Hin. rewrite (ce_store _ _ C). destruct (I _ Hin) as [A|A]; [apply H; exact A | exact A].
Qed.
Lemma wanted_cfg s s' id : cfg_eq s s' -> wanted s' id = wanted s id.
Proof. intros C. unfold wanted. rewrite (attr_cfg _ _ id C), (ce_filt _ _ C), (ce_sm _ _ C). reflexivity. Qed.
Lemma M1_cfg s s' : cfg_eq s s' -> view s' = view s -> M1 s -> M1 s'.
Proof.
  intros C V H id Hin. unfold raw_ids in Hin. rewrite V in Hin.
  rewrite (attr_cfg _ _ id C), (ce_filt _ _ C). apply H. exact Hin.
Qed.
Lemma M2_cfg s s' : cfg_eq s s' -> view s' = view s -> M2 s -> M2 s'.
Proof.
  intros C V H id Hin Hw. unfold raw_ids. rewrite V. rewrite (ce_store _ _ C) in Hin.
  rewrite (wanted_cfg _ _ id C) in Hw. apply H; assumption.
Qed.
Lemma M3_cfg s s' : cfg_eq s s' -> view s' = view s -> M3 s -> M3 s'.
Proof.
  intros C V H Hs id Hin. unfold raw_ids in Hin. rewrite V in Hin. rewrite (ce_sm _ _ C) in Hs.
  rewrite (attr_cfg _ _ id C). apply H; assumption.
Qed.
Lemma Fresh_upd s s' : upd s s' -> Fresh s -> Fresh s'.
Proof.
  intros [C Nw _] H id o k Hc. rewrite (attr_cfg _ _ id C).
  destruct (Nw _ _ _ Hc) as [A|[_ A]]; [apply H; exact A | exact A].
Qed.
Lemma FocusOk_eq s s' : view s' = view s -> focus s' = focus s -> FocusOk s -> FocusOk s'.
Proof. unfold FocusOk, raw_ids. intros -> ->. auto. Qed.

(* ---------- settings writes ---------- *)
Lemma cache_of_sset s id c id' o :
  cache_of (set_settings (sset (settings s) id c) s) id' o = if N.eqb id id' then cget o c else cache_of s id' o.
Proof. unfold cache_of. simpl. rewrite sget_sset. destruct (N.eqb id id'); reflexivity. Qed.

Lemma ext_cache_fill s id o c :
  In id (store s) ->
  (forall o', cget o' c = cache_of s id o') ->
  cget o c = None ->
  ext s (set_settings (sset (settings s) id (cset o (generate o (attr s id)) c)) s).
Proof.
  intros Hst Hc Hn.
  constructor; try reflexivity. constructor; [constructor|].
  - constructor; reflexivity.
  - intros id' o' k. rewrite cache_of_sset. destruct (N.eqb id id') eqn:E; [|auto].
    apply N.eqb_eq in E. subst id'. rewrite cget_cset. destruct (order_eqb o' o) eqn:E2.
    + apply order_eqb_eq in E2. subst o'. intros [= <-]. right. split; [exact Hst | reflexivity].
    + rewrite Hc. auto.
  - intros id' H. unfold settings_ids in H. simpl in H. apply sset_ids in H. destruct H as [->|H]; auto.
  - intros id' o' k. rewrite cache_of_sset. destruct (N.eqb id id') eqn:E; [|auto].
    apply N.eqb_eq in E. subst id'. rewrite cget_cset. destruct (order_eqb o' o) eqn:E2.
    + apply order_eqb_eq in E2. subst o'. rewrite <- Hc, Hn. discriminate.
    + rewrite Hc. auto.
Qed.

(* ---------- _OrderKey.__call__ ---------- *)
Lemma okey_call_spec o id s : exists k s', okey_call o id s = Ok (k, s') /\ ext s s'
  /\ (In id (store s) -> forall k0, cache_of s id o = Some k0 -> k = k0)
  /\ (In id (store s) -> cache_of s' id o = Some k)
  /\ (~ In id (store s) \/ cache_of s id o = None -> k = generate o (attr s id)).
Proof.
  unfold okey_call. destruct (memN id (store s)) eqn:Em.
  - apply memN_In in Em.
    destruct (sget (settings s) id) as [c|] eqn:Es.
    + destruct (cget o c) as [k|] eqn:Ec.
      * exists k, s. split; [reflexivity|]. split; [apply ext_refl|].
        unfold cache_of. rewrite Es, Ec. repeat split; intros; try congruence.
        destruct H; [contradiction | congruence].
      * eexists _, _. split; [reflexivity|]. split.
        { apply ext_cache_fill; auto. intros o'. unfold cache_of. rewrite Es. reflexivity. }
        split; [unfold cache_of; rewrite Es, Ec; discriminate|].
        split; [|reflexivity]. intros _. rewrite cache_of_sset, N.eqb_refl, cget_cset.
        replace (order_eqb o o) with true by (symmetry; apply order_eqb_eq; reflexivity). reflexivity.
    + eexists _, _. split; [reflexivity|]. split.
      { apply ext_cache_fill; auto.
        - intros o'. unfold cache_of. rewrite Es. apply cget_cempty.
        - apply cget_cempty. }
      split; [unfold cache_of; rewrite Es; discriminate|].
      split; [|reflexivity]. intros _. rewrite cache_of_sset, N.eqb_refl, cget_cset.
      replace (order_eqb o o) with true by (symmetry; apply order_eqb_eq; reflexivity). reflexivity.
  - apply memN_false in Em. exists (generate o (attr s id)), s. split; [reflexivity|].
    split; [apply ext_refl|]. repeat split; intros; try contradiction; reflexivity.
Qed.
