(* Proofs/HeadersViews.v -- the non-multi read views items()/keys()/values() of the model:
   never fail, list every name once in its FIRST spelling (exactly the iteration order) with the
   folded values; the multi views are the fields themselves. *)
From Coq Require Import List Bool NArith.
From MV Require Import Base.Bytes Model.Headers Model.MultimapSpec Proofs.HeadersRefine Proofs.HeadersLaws.
Import ListNotations.

Lemma getitem_contains fs k :
  contains fs k = true -> getitem fs k = Some (_reduce_values (get_all fs k)).
Proof.
  unfold contains, getitem. destruct (get_all fs k); [discriminate | reflexivity].
Qed.

Lemma items_loop_total fs : forall ks,
  (forall k, In k ks -> contains fs k = true) ->
  items_loop fs ks = Some (map (fun k => (k, _reduce_values (get_all fs k))) ks).
Proof.
  induction ks as [|k ks IH]; intros H; simpl; [reflexivity|].
  rewrite (getitem_contains fs k (H k (or_introl eq_refl))).
  rewrite IH by (intros k' Hk'; apply H; right; exact Hk'). reflexivity.
Qed.

Theorem views_law fs :
  items fs = Some (map (fun k => (k, _reduce_values (get_all fs k))) (iter fs))
  /\ keys fs = Some (iter fs)
  /\ values fs = Some (map (fun k => _reduce_values (get_all fs k)) (iter fs))
  /\ items_multi fs = fs /\ keys_multi fs = map fst fs /\ values_multi fs = map snd fs.
Proof.
  assert (Hi : items fs = Some (map (fun k => (k, _reduce_values (get_all fs k))) (iter fs))).
  { unfold items. apply items_loop_total. intros k Hk.
    destruct (iter_law fs) as (_ & Hc & _). apply Hc. apply in_map. exact Hk. }
  split; [exact Hi|]. unfold keys, values. rewrite Hi. simpl. rewrite !map_map. simpl.
  rewrite map_id. repeat split; reflexivity.
Qed.
