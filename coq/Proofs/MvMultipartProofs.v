(* Proofs/MvMultipartProofs.v -- decode_multipart (encode_multipart parts) = parts for representable
   boundaries and parts; concrete counterexamples outside that guard (C34). *)
From Coq Require Import List Bool NArith Lia.
From MV Require Import Base.Bytes Model.MvCommon Model.MvUrl Model.MvMultipart Proofs.MvCommonLemmas.
Import ListNotations.

(* ---------- representability ---------- *)
Definition okb (c : byte) : bool := unreserved c || byte_eqb c SLASH.
Definition boundary_ok (b : bytes) : bool := nonempty b && forallb okb b.
Definition nl (c : byte) : bool := byte_eqb c CR || byte_eqb c LF.
Definition noline (s : bytes) : bool := forallb (fun c => negb (nl c)) s.
Definition Dl (b : bytes) : bytes := DD ++ b.
Definition key_ok (b k : bytes) : bool :=
  nonempty k && noline k && negb (memb DQ k) && negb (contains (Dl b) k).
Definition val_ok (b v : bytes) : bool := noline v && negb (contains (Dl b) v).
Definition parts_ok (b : bytes) (parts : pairs) : bool :=
  forallb (fun kv => key_ok b (fst kv) && val_ok b (snd kv)) parts.

(* ---------- starts_with / contains ---------- *)
Lemma starts_with_app p t : starts_with p (p ++ t) = true.
Proof. induction p as [|x p IH]; [destruct t; reflexivity|]. simpl. rewrite byte_eqb_refl. exact IH. Qed.

Lemma starts_with_sep D c a b : memb c D = false -> starts_with D (a ++ c :: b) = starts_with D a.
Proof.
  revert a. induction D as [|d D IH]; intros a H.
  - destruct a; reflexivity.
  - unfold memb in H. simpl in H. apply orb_false_iff in H as [H1 H2].
    destruct a as [|x a]; simpl.
    + rewrite byte_eqb_sym, H1. reflexivity.
    + rewrite (IH a H2). reflexivity.
Qed.

Lemma contains_nil D : D <> [] -> contains D [] = false.
Proof. destruct D; [congruence|reflexivity]. Qed.

Lemma contains_sep D c a b : D <> [] -> memb c D = false ->
  contains D (a ++ c :: b) = contains D a || contains D b.
Proof.
  intros Hne H. induction a as [|x a IH].
  - simpl app. simpl contains at 1. rewrite contains_nil by exact Hne.
    change (c :: b) with ([] ++ c :: b). rewrite starts_with_sep by exact H.
    destruct D; [congruence|reflexivity].
  - simpl app. simpl contains. rewrite IH.
    change (x :: a ++ c :: b) with ((x :: a) ++ c :: b). rewrite starts_with_sep by exact H.
    rewrite orb_assoc. reflexivity.
Qed.

Lemma contains_cons_sep D c b : D <> [] -> memb c D = false -> contains D (c :: b) = contains D b.
Proof.
  intros Hne H. change (c :: b) with ([] ++ c :: b). rewrite contains_sep by assumption.
  rewrite contains_nil by exact Hne. reflexivity.
Qed.

Lemma starts_with2 x y D s : starts_with (x :: y :: D) s = true -> starts_with [x; y] s = true.
Proof.
  destruct s as [|s0 [|s1 s]]; simpl; intros H; try discriminate.
  - rewrite andb_false_r in H. discriminate.
  - apply andb_true_iff in H as [H1 H]. apply andb_true_iff in H as [H2 _]. rewrite H1, H2. reflexivity.
Qed.

Lemma contains2 x y D s : contains [x; y] s = false -> contains (x :: y :: D) s = false.
Proof.
  induction s as [|c s IH]; intros H; [reflexivity|].
  cbn [contains] in *. apply orb_false_iff in H as [H1 H2].
  rewrite (IH H2), orb_false_r.
  destruct (starts_with (x :: y :: D) (c :: s)) eqn:E; [|reflexivity].
  apply starts_with2 in E. congruence.
Qed.

Lemma contains_prefix D t : D <> [] -> contains D (D ++ t) = true.
Proof.
  destruct D as [|d D]; [congruence|]. intros _. simpl app. cbn [contains].
  change (d :: D ++ t) with ((d :: D) ++ t). rewrite starts_with_app. reflexivity.
Qed.

(* ---------- split ---------- *)
Lemma split_skip D p t : split_go D (p ++ t) (length p) = split_go D t 0.
Proof.
  induction p as [|x p IH]; [destruct t; reflexivity|]. simpl. exact IH.
Qed.

Lemma split_match D t : D <> [] -> split_go D (D ++ t) 0 = [] :: split_go D t 0.
Proof.
  destruct D as [|d D]; [congruence|]. intros _.
  change ((d :: D) ++ t) with (d :: (D ++ t)). cbn [split_go].
  change (d :: D ++ t) with ((d :: D) ++ t). rewrite starts_with_app.
  replace (length (d :: D) - 1) with (length D) by (simpl; lia). rewrite split_skip. reflexivity.
Qed.

Fixpoint nomatch (D x t : bytes) : bool :=
  match x with
  | [] => true
  | _ :: x' => negb (starts_with D (x ++ t)) && nomatch D x' t
  end.

Lemma split_nomatch D x t h r :
  nomatch D x t = true -> split_go D t 0 = h :: r -> split_go D (x ++ t) 0 = (x ++ h) :: r.
Proof.
  intros Hn Ht. induction x as [|c x IH]; [exact Ht|].
  simpl in Hn. apply andb_true_iff in Hn as [H1 H2]. apply negb_true_iff in H1.
  change ((c :: x) ++ t) with (c :: (x ++ t)). cbn [split_go].
  rewrite H1. rewrite (IH H2). reflexivity.
Qed.

Lemma starts_with_last D y z t :
  memb z D = false -> starts_with D ((y ++ [z]) ++ t) = true -> starts_with D (y ++ [z]) = true.
Proof.
  revert y. induction D as [|d D IH]; intros y Hz H; [destruct (y ++ [z]); reflexivity|].
  unfold memb in Hz. simpl in Hz. apply orb_false_iff in Hz as [Hz1 Hz2].
  destruct y as [|c y]; simpl in *.
  - rewrite byte_eqb_sym, Hz1 in H. discriminate.
  - apply andb_true_iff in H as [H1 H2]. rewrite H1. apply IH; assumption.
Qed.

Lemma nomatch_intro D y z t :
  D <> [] -> memb z D = false -> contains D (y ++ [z]) = false -> nomatch D (y ++ [z]) t = true.
Proof.
  intros Hne Hz. induction y as [|c y IH]; intros Hc.
  - simpl. rewrite andb_true_r. apply negb_true_iff.
    destruct (starts_with D (z :: t)) eqn:E; [|reflexivity].
    pose proof (starts_with_last D [] z t Hz E) as S. simpl in S.
    simpl in Hc. rewrite S in Hc. discriminate.
  - change ((c :: y) ++ [z]) with (c :: (y ++ [z])) in *. simpl contains in Hc.
    apply orb_false_iff in Hc as [Hc1 Hc2]. cbn [nomatch]. rewrite (IH Hc2), andb_true_r.
    apply negb_true_iff.
    destruct (starts_with D ((c :: y ++ [z]) ++ t)) eqn:E; [|reflexivity].
    pose proof (starts_with_last D (c :: y) z t Hz E) as S.
    change ((c :: y) ++ [z]) with (c :: y ++ [z]) in S. congruence.
Qed.

(* ---------- splitlines ---------- *)
Lemma splitlines_line l rest : noline l = true -> splitlines (l ++ CR :: LF :: rest) = l :: splitlines rest.
Proof.
  induction l as [|c l IH]; intros H; [reflexivity|].
  unfold noline in H. simpl in H. apply andb_true_iff in H as [H1 H2].
  unfold nl in H1. apply negb_true_iff in H1. apply orb_false_iff in H1 as [Hcr Hlf].
  change ((c :: l) ++ CR :: LF :: rest) with (c :: (l ++ CR :: LF :: rest)).
  cbn [splitlines]. rewrite Hlf, Hcr. rewrite (IH H2). reflexivity.
Qed.

(* ---------- the encoder output ---------- *)
Definition CDL (k : bytes) : bytes := CD_PREFIX ++ k ++ [DQ].
Definition chunk (kv : bytes * bytes) : bytes :=
  CR :: LF :: (CDL (fst kv) ++ CR :: LF :: (CT_LINE ++ CR :: LF :: CR :: LF :: (snd kv ++ CR :: LF :: CR :: LF :: []))).
Definition LAST : bytes := [x2d; x2d; x0d; x0a].
Definition body (b : bytes) (parts : pairs) : bytes :=
  concat (map (fun kv => Dl b ++ chunk kv) parts) ++ Dl b ++ LAST.

Lemma quote_id safe s : forallb (fun c => unreserved c || memb c safe) s = true -> quote safe s = s.
Proof.
  unfold quote. induction s as [|c s IH]; intros H; [reflexivity|].
  simpl in H. apply andb_true_iff in H as [H1 H2]. cbn [flat_map]. rewrite (IH H2).
  unfold quote_byte. rewrite H1. reflexivity.
Qed.

Lemma boundary_quote b : boundary_ok b = true -> quote [SLASH] b = b.
Proof.
  intros H. apply andb_true_iff in H as [_ H]. apply quote_id.
  eapply forallb_impl; [|exact H]. intros c Hc. unfold okb in Hc. unfold memb. simpl.
  rewrite orb_false_r. exact Hc.
Qed.

Lemma join6 (a1 a2 a3 a4 a5 a6 : bytes) R : R <> [] ->
  join CRLF ([a1; a2; a3; a4; a5; a6] ++ R)
  = a1 ++ CRLF ++ a2 ++ CRLF ++ a3 ++ CRLF ++ a4 ++ CRLF ++ a5 ++ CRLF ++ a6 ++ CRLF ++ join CRLF R.
Proof. destruct R; [congruence|]. intros _. reflexivity. Qed.

Lemma encode_join b parts :
  forallb (fun kv => nonempty (fst kv)) parts = true ->
  join CRLF (flat_map (part_hdrs b) parts ++ [DD ++ b ++ DD ++ CRLF]) = body b parts.
Proof.
  intros H. unfold body. induction parts as [|kv parts IH].
  - simpl. reflexivity.
  - simpl in H. apply andb_true_iff in H as [H1 H2].
    simpl flat_map. unfold part_hdrs at 1. rewrite H1. rewrite <- !app_assoc.
    change ([DD ++ b; CD_PREFIX ++ fst kv ++ [DQ]; CT_LINE; []; snd kv] ++
            [[]] ++ flat_map (part_hdrs b) parts ++ [DD ++ b ++ DD ++ CRLF])
      with ([DD ++ b; CD_PREFIX ++ fst kv ++ [DQ]; CT_LINE; []; snd kv; []]
            ++ (flat_map (part_hdrs b) parts ++ [DD ++ b ++ DD ++ CRLF])).
    rewrite join6 by (destruct (flat_map (part_hdrs b) parts); discriminate).
    rewrite (IH H2). simpl map. simpl concat. unfold chunk, CDL, Dl, CRLF.
    unfold DD. cbn [app]. repeat (progress (rewrite <- ?app_assoc; cbn [app])). reflexivity.
Qed.

Lemma not_boundary_value b v : contains (Dl b) v = false -> boundary_in_value b v = false.
Proof.
  intros H. unfold boundary_in_value. apply orb_false_iff. split.
  - destruct (bytes_eqb v (DD ++ b)) eqn:E; [|reflexivity]. apply bytes_eqb_eq in E. subst v.
    pose proof (contains_prefix (Dl b) []) as C. rewrite app_nil_r in C. unfold Dl in *.
    rewrite C in H by discriminate. discriminate.
  - destruct (bytes_eqb v (DD ++ b ++ [LF])) eqn:E; [|reflexivity]. apply bytes_eqb_eq in E. subst v.
    pose proof (contains_prefix (Dl b) [LF]) as C. unfold Dl in *. rewrite <- app_assoc in C.
    rewrite C in H by discriminate. discriminate.
Qed.

Lemma encode_ok b parts :
  boundary_ok b = true -> parts_ok b parts = true ->
  encode_multipart (Some b) parts = Some (body b parts).
Proof.
  intros Hb Hp. unfold encode_multipart. rewrite (boundary_quote b Hb).
  assert (E : existsb (fun kv => boundary_in_value b (snd kv)) parts = false).
  { unfold parts_ok in Hp. induction parts as [|kv parts IH]; [reflexivity|].
    simpl in Hp. apply andb_true_iff in Hp as [H1 H2]. simpl. rewrite (IH H2), orb_false_r.
    apply andb_true_iff in H1 as [_ Hv]. unfold val_ok in Hv. apply andb_true_iff in Hv as [_ Hv].
    apply negb_true_iff in Hv. apply not_boundary_value, Hv. }
  rewrite E. f_equal. apply encode_join.
  unfold parts_ok in Hp. eapply forallb_forall. intros kv Hin. rewrite forallb_forall in Hp.
  specialize (Hp kv Hin). apply andb_true_iff in Hp as [Hk _]. unfold key_ok in Hk.
  repeat (apply andb_true_iff in Hk as [Hk _]). exact Hk.
Qed.
