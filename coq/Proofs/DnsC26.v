(* Proofs/DnsC26.v -- forwarding = pack_message after unpack.  Plain (uncompressed) well-formed
   messages are forwarded byte-identically; whatever is forwarded is the plain wire form of
   the decoded message and forwarding it again changes nothing; witnesses for the refutation
   (reference decoder reads the forwarded TXT data differently) and for a compressed
   CNAME/MX response whose meaning is kept although the bytes change. *)
From Coq Require Import List Bool Arith NArith Lia.
From MV Require Import Base.Bytes Model.DnsNames Model.DnsMessage Model.DnsRef
  Proofs.DnsNamesRT Proofs.DnsMessageRT Proofs.DnsC25.
Import ListNotations.

Lemma forward_plain m : wf_msg m -> Forall rdata_guard (all_rrs m) ->
  forward_udp (msgwire m) = Ok (msgwire m).
Proof.
  intros Hwf G. destruct (message_roundtrip m Hwf G) as [P U].
  unfold forward_udp. rewrite U. cbn [bind]. unfold pack_message. rewrite P. reflexivity.
Qed.

Lemma forward_decoded b b' : forward_udp b = Ok b' ->
  exists m, DnsMessage.unpack b = Ok m /\ packed m = Ok b' /\
    (wf_msg m -> Forall rdata_guard (all_rrs m) ->
     b' = msgwire m /\ DnsMessage.unpack b' = Ok m /\ forward_udp b' = Ok b').
Proof.
  unfold forward_udp. destruct (DnsMessage.unpack b) as [m|e] eqn:U; [|discriminate].
  cbn [bind]. unfold pack_message. destruct (packed m) as [p|e] eqn:P; [|discriminate].
  cbn [bind]. intros [= <-]. exists m. repeat split; try assumption.
  - destruct (message_roundtrip m H H0) as [P' _]. congruence.
  - destruct (message_roundtrip m H H0) as [P' U']. congruence.
  - destruct (message_roundtrip m H H0) as [P' U'].
    assert (p = msgwire m) by congruence. subst p. apply forward_plain; assumption.
Qed.

Definition txt_compressed : bytes :=
  [x00;x01;x81;x80;x00;x01;x00;x01;x00;x00;x00;x00;x07;x65;x78;x61;x6d;x70;x6c;x65;x03;x63;x6f;x6d;x00;
   x00;x10;x00;x01;xc0;x0c;x00;x10;x00;x01;x00;x00;x00;x05;x00;x03;x02;xc0;x0c].

Definition cname_mx_compressed : bytes :=
  [x00;x01;x81;x80;x00;x01;x00;x02;x00;x00;x00;x00;x03;x77;x77;x77;x07;x65;x78;x61;x6d;x70;x6c;x65;x03;
   x63;x6f;x6d;x00;x00;x01;x00;x01;xc0;x0c;x00;x05;x00;x01;x00;x00;x00;x3c;x00;x06;x03;x63;x64;x6e;xc0;
   x10;xc0;x29;x00;x0f;x00;x01;x00;x00;x00;x3c;x00;x09;x00;x0a;x04;x4d;x61;x69;x6c;xc0;x10].

Lemma meaning_refuted : exists b w b',
  ref_canon b = Some w /\ forward_udp b = Ok b' /\ ref_canon b' <> Some w.
Proof.
  exists txt_compressed. eexists. eexists.
  split; [vm_compute; reflexivity|]. split; [vm_compute; reflexivity|]. vm_compute. discriminate.
Qed.

Lemma meaning_kept_example : exists w b',
  ref_canon cname_mx_compressed = Some w /\ forward_udp cname_mx_compressed = Ok b'
  /\ b' <> cname_mx_compressed /\ ref_canon b' = Some w /\ length b' = 108.
Proof.
  eexists. eexists. split; [vm_compute; reflexivity|]. split; [vm_compute; reflexivity|].
  split; [vm_compute; discriminate|]. split; vm_compute; reflexivity.
Qed.

(* SOA for shop.example.org: MNAME ns1.dns-provider.net, RNAME hostmaster + a pointer into the MNAME of the SAME rdata *)
Definition soa_intra_rdata : bytes :=
  [x00;x07;x81;x80;x00;x01;x00;x01;x00;x00;x00;x00;x04;x73;x68;x6f;x70;x07;x65;x78;x61;x6d;x70;x6c;x65;x03;x6f;x72;x67;x00;
   x00;x06;x00;x01;xc0;x0c;x00;x06;x00;x01;x00;x00;x0e;x10;x00;x37;x03;x6e;x73;x31;x0c;x64;x6e;x73;x2d;x70;x72;x6f;x76;x69;
   x64;x65;x72;x03;x6e;x65;x74;x00;x0a;x68;x6f;x73;x74;x6d;x61;x73;x74;x65;x72;xc0;x32;x78;xa3;xf1;x75;x00;x00;x1c;x20;x00;
   x00;x0e;x10;x00;x12;x75;x00;x00;x00;x01;x2c].

Lemma intra_rdata_example : exists w b',
  ref_canon soa_intra_rdata = Some w /\ forward_udp soa_intra_rdata = Ok b'
  /\ ref_canon b' = Some w /\ length b' = 133.
Proof.
  eexists. eexists. split; [vm_compute; reflexivity|]. split; [vm_compute; reflexivity|].
  split; vm_compute; reflexivity.
Qed.

(* TCP: a forwarded frame is exactly the UDP forwarding of the same message behind its 2-byte length *)
Lemma tcp_frame_is_udp msg f : forward_tcp_frame msg = Ok f ->
  exists b, forward_udp msg = Ok b /\ f = put_u16be (N.of_nat (length b)) ++ b.
Proof.
  unfold forward_tcp_frame, forward_udp. destruct (DnsMessage.unpack msg) as [m|e]; [|discriminate].
  cbn [bind]. unfold pack_message. destruct (packed m) as [p|e]; [|discriminate]. cbn [bind].
  unfold pack_u16. destruct (N.of_nat (length p) <? 65536)%N; [|discriminate]. cbn [bind].
  intros [= <-]. exists p. split; reflexivity.
Qed.

Lemma tcp_stream_app a b : forward_tcp_stream (a ++ b) =
  match forward_tcp_stream a, forward_tcp_stream b with Some x, Some y => Some (x ++ y) | _, _ => None end.
Proof.
  induction a as [|m a IH]; cbn [app forward_tcp_stream].
  - destruct (forward_tcp_stream b); reflexivity.
  - rewrite IH. destruct (forward_tcp_frame m); [|reflexivity].
    destruct (forward_tcp_stream a); [|reflexivity]. destruct (forward_tcp_stream b); [|reflexivity].
    rewrite app_assoc. reflexivity.
Qed.
