(* Proofs/DnsLayerInv.v -- the flow-map invariant of DNSLayer: every flow carries a query the
   client sent under the key id, every stored response is an upstream message with the key id
   or was set by an addon; consequences for hooks and for the bytes sent to the client.
   Also: when a response hook can fire while a client message is handled (stale replay). *)
From Coq Require Import List Bool Arith NArith Lia.
From MV Require Import Base.Bytes Model.DnsLayer Proofs.DnsLayerFrame Proofs.DnsLayerSeg.
Import ListNotations.

Lemma find_set_flow i j f l :
  find_flow j (set_flow i f l) = if (j =? i)%N then Some f else find_flow j l.
Proof.
  induction l as [|[k g] l IH]; cbn [set_flow find_flow].
  - destruct (j =? i)%N; reflexivity.
  - destruct (i =? k)%N eqn:E.
    + apply N.eqb_eq in E. subst k. cbn [find_flow]. destruct (j =? i)%N; reflexivity.
    + cbn [find_flow]. destruct (j =? k)%N eqn:E2.
      * apply N.eqb_eq in E2. subst k.
        destruct (j =? i)%N eqn:E3; [|reflexivity].
        apply N.eqb_eq in E3. subst j. rewrite N.eqb_refl in E. discriminate.
      * exact IH.
Qed.

Definition kill (f : flow) : flow := mkFlow (f_ord f) (f_req f) (f_resp f) (f_err f) false.

Lemma find_all_dead i l : find_flow i (all_dead l) = option_map kill (find_flow i l).
Proof.
  induction l as [|[k g] l IH]; [reflexivity|].
  cbn [all_dead map find_flow fst snd]. destruct (i =? k)%N; [reflexivity | exact IH].
Qed.

Section Inv.
Variable c : cfg.
Variable A : message -> Prop.          (* the messages addons set as responses *)

Definition resp_ok (sm : list message) (i : N) (r : message) : Prop :=
  A r \/ (In r sm /\ m_id r = i).

Definition req_ok (cq : list message) (i : N) (f : flow) : Prop :=
  match f_req f with
  | Some q => m_id q = i /\ In q cq
  | None => fix_drop c = false
  end.

Definition fl_ok (cq sm : list message) (i : N) (f : flow) : Prop :=
  req_ok cq i f /\ forall r, f_resp f = Some r -> resp_ok sm i r.

Definition script_ok (sc : list act) : Prop :=
  (forall m, In (ASetResp m) sc -> A m)
  /\ (forall rc n an q, In (AResolve rc n an) sc -> A (resolved q rc n an)).

Definition act_ok (a : act) : Prop :=
  (forall m, a = ASetResp m -> A m) /\ (forall rc n an q, a = AResolve rc n an -> A (resolved q rc n an)).

Definition flows_ok (cq sm : list message) (fl : list (N * flow)) : Prop :=
  forall i f, find_flow i fl = Some f -> fl_ok cq sm i f.

Definition Inv (s : st) : Prop :=
  script_ok (s_script s) /\ flows_ok (s_cq s) (s_sm s) (s_flows s).

(* what is acceptable in the command trace; [ctx] is the trace a send is part of *)
Definition reply_ok (cq sm : list message) (data : bytes) : Prop :=
  exists m, data = pack_message m (ctcp c) /\
    (A m \/ exists q, In q cq /\ m_id q = m_id m /\ (m = fail q \/ In m sm)).

Definition orphan_hook (ctx : list out) : Prop :=
  exists ord rs e, In (OHook HResp ord None rs e) ctx.

Definition out_good (cq sm : list message) (ctx : list out) (o : out) : Prop :=
  match o with
  | OHook k _ (Some q) rs _ => In q cq /\ forall r, rs = Some r -> resp_ok sm (m_id q) r
  | OHook k _ None _ _ => fix_drop c = false /\ k = HResp
  | OSend true data => reply_ok cq sm data \/ orphan_hook ctx
  | _ => True
  end.

Definition good (cq sm : list message) (ctx outs : list out) : Prop :=
  Forall (out_good cq sm ctx) outs.

Lemma resp_ok_mono sm sm' i r : incl sm sm' -> resp_ok sm i r -> resp_ok sm' i r.
Proof. intros H [Ha|[H1 H2]]; [left; exact Ha | right; split; [apply H; exact H1 | exact H2]]. Qed.

Lemma fl_ok_mono cq cq' sm sm' i f :
  incl cq cq' -> incl sm sm' -> fl_ok cq sm i f -> fl_ok cq' sm' i f.
Proof.
  intros Hc Hs [H1 H2]. split.
  - unfold req_ok in *. destruct (f_req f); [destruct H1; split; [assumption | apply Hc; assumption] | exact H1].
  - intros r Hr. eapply resp_ok_mono; [exact Hs | apply H2; exact Hr].
Qed.

Lemma out_good_mono cq cq' sm sm' ctx ctx' o :
  incl cq cq' -> incl sm sm' -> incl ctx ctx' ->
  out_good cq sm ctx o -> out_good cq' sm' ctx' o.
Proof.
  intros Hc Hs Hx. destruct o as [k ord rq rs e| |tc d| |]; cbn; try (intros; exact I).
  - destruct rq as [q|]; [|auto].
    intros [H1 H2]. split; [apply Hc; exact H1|].
    intros r Hr. eapply resp_ok_mono; [exact Hs | apply H2; exact Hr].
  - destruct tc; [|auto]. intros [H|H].
    + left. destruct H as (m & Hd & [Ha|(q & Q1 & Q2 & Q3)]); exists m; (split; [exact Hd|]).
      * left; exact Ha.
      * right. exists q. split; [apply Hc; exact Q1|]. split; [exact Q2|].
        destruct Q3 as [Q3|Q3]; [left; exact Q3 | right; apply Hs; exact Q3].
    + right. destruct H as (ord & rs & e & H). exists ord, rs, e. apply Hx. exact H.
Qed.

Lemma good_mono cq cq' sm sm' ctx ctx' outs :
  incl cq cq' -> incl sm sm' -> incl ctx ctx' -> good cq sm ctx outs -> good cq' sm' ctx' outs.
Proof.
  intros Hc Hs Hx H. unfold good in *. eapply Forall_impl; [|exact H].
  intros o Ho. eapply out_good_mono; eassumption.
Qed.

Lemma good_app cq sm a b : good cq sm a a -> good cq sm b b -> good cq sm (a ++ b) (a ++ b).
Proof.
  intros Ha Hb. unfold good. apply Forall_app. split.
  - eapply good_mono; [apply incl_refl | apply incl_refl | apply incl_appl, incl_refl | exact Ha].
  - eapply good_mono; [apply incl_refl | apply incl_refl | apply incl_appr, incl_refl | exact Hb].
Qed.

Lemma good_cons cq sm h o : out_good cq sm (h :: o) h -> good cq sm o o -> good cq sm (h :: o) (h :: o).
Proof.
  intros Hh Ho. constructor; [exact Hh|].
  eapply good_mono; [apply incl_refl | apply incl_refl | apply incl_tl, incl_refl | exact Ho].
Qed.

(* ---------- pop_act ---------- *)

Lemma pop_act_same s :
  s_flows (snd (pop_act s)) = s_flows s /\ s_cq (snd (pop_act s)) = s_cq s
  /\ s_sm (snd (pop_act s)) = s_sm s /\ s_srv (snd (pop_act s)) = s_srv s
  /\ s_conn (snd (pop_act s)) = s_conn s.
Proof. unfold pop_act. destruct (s_script s); repeat split. Qed.

Lemma pop_act_script s :
  script_ok (s_script s) ->
  script_ok (s_script (snd (pop_act s))) /\ act_ok (fst (pop_act s)).
Proof.
  unfold pop_act. intros [H1 H2]. destruct (s_script s) as [|a sc] eqn:E; cbn [fst snd].
  - split; [rewrite E; split; assumption | split; discriminate].
  - split; split.
    + cbn. intros m Hm. apply H1. right. exact Hm.
    + cbn. intros rc n an q Hm. apply H2. right. exact Hm.
    + intros m Hm. apply H1. left. exact Hm.
    + intros rc n an q Hm. apply H2. left. exact Hm.
Qed.

Lemma pop_act_incl s : incl (s_script (snd (pop_act s))) (s_script s)
  /\ (fst (pop_act s) = ANone \/ In (fst (pop_act s)) (s_script s)).
Proof.
  unfold pop_act. destruct (s_script s) as [|a sc] eqn:E; cbn [fst snd].
  - rewrite E. split; [apply incl_refl | left; reflexivity].
  - cbn. split; [apply incl_tl, incl_refl | right; left; reflexivity].
Qed.

Lemma apply_act_ok cq sm i a f :
  act_ok a -> fl_ok cq sm i f -> fl_ok cq sm i (apply_act a f).
Proof.
  intros [Ha Hb] [H1 H2]. split.
  - unfold req_ok. rewrite apply_act_req. exact H1.
  - destruct a; cbn [apply_act]; try exact H2.
    + intros r Hr. cbn in Hr. inversion Hr; subst. left. apply Ha. reflexivity.
    + intros r Hr. discriminate.
    + destruct (f_req f) as [q|]; [|exact H2].
      intros r Hr. cbn in Hr. inversion Hr; subst. left. apply Hb. reflexivity.
Qed.

Lemma flows_ok_put cq sm fl i f :
  flows_ok cq sm fl -> fl_ok cq sm i f -> flows_ok cq sm (set_flow i f fl).
Proof.
  intros H Hf j g Hj. rewrite find_set_flow in Hj. destruct (j =? i)%N eqn:E.
  - apply N.eqb_eq in E. subst j. inversion Hj; subst. exact Hf.
  - apply H. exact Hj.
Qed.

(* ---------- the three handlers ---------- *)

Definition post (s : st) (p : st * list out) : Prop :=
  Inv (fst p) /\ s_cq (fst p) = s_cq s /\ s_sm (fst p) = s_sm s
  /\ good (s_cq s) (s_sm s) (snd p) (snd p).

Lemma handle_response_inv s i f m :
  Inv s -> req_ok (s_cq s) i f -> resp_ok (s_sm s) i m ->
  post s (handle_response c s i f m).
Proof.
  intros [Hs Hf] Hq Hm. unfold handle_response.
  destruct (pop_act_same s) as (P1 & P2 & P3 & _). destruct (pop_act_script s Hs) as [P4 P5].
  destruct (pop_act s) as [a s1]. cbn [fst snd] in *.
  set (f1 := mkFlow (f_ord f) (f_req f) (Some m) (f_err f) (f_live f)).
  assert (F1 : fl_ok (s_cq s) (s_sm s) i f1).
  { split; [exact Hq|]. intros r Hr. cbn in Hr. inversion Hr; subst. exact Hm. }
  assert (F2 : fl_ok (s_cq s) (s_sm s) i (apply_act a f1)) by (apply apply_act_ok; assumption).
  unfold post. cbn [fst snd]. split; [|split; [|split]].
  - split; cbn; [exact P4|]. rewrite P1, P2, P3. apply flows_ok_put; assumption.
  - cbn. exact P2.
  - cbn. exact P3.
  - assert (Hh : forall ctx, out_good (s_cq s) (s_sm s) ctx (hook_of HResp f1)).
    { intros ctx. unfold hook_of. cbn [f_req f_resp f1 out_good]. unfold req_ok in Hq.
      destruct (f_req f) as [q|]; [|split; [exact Hq | reflexivity]].
      destruct Hq as [Q1 Q2]. split; [exact Q2|].
      intros r Hr. injection Hr as <-. rewrite Q1. exact Hm. }
    destruct (f_resp (apply_act a f1)) as [r|] eqn:Er.
    + constructor; [apply Hh|]. constructor; [|constructor].
      cbn [out_good].
      destruct F2 as [_ F2]. specialize (F2 r Er).
      unfold req_ok in Hq. destruct (f_req f) as [q|] eqn:Eq.
      * left. exists r. split; [reflexivity|].
        destruct F2 as [Fa|[Fi Fd]]; [left; exact Fa|].
        right. exists q. destruct Hq as [Q1 Q2]. split; [exact Q2|]. split; [congruence|]. right. exact Fi.
      * right. exists (f_ord f), (Some m), (f_err f). left. unfold hook_of. cbn. try rewrite Eq. reflexivity.
    + constructor; [apply Hh | constructor].
Qed.

Lemma handle_error_inv s i f q :
  Inv s -> f_req f = Some q -> m_id q = i -> In q (s_cq s) ->
  (forall r, f_resp f = Some r -> resp_ok (s_sm s) i r) ->
  post s (handle_error c s i f).
Proof.
  intros [Hs Hf] Hq Hi Hin Hr. unfold handle_error.
  destruct (pop_act_same s) as (P1 & P2 & P3 & _). destruct (pop_act_script s Hs) as [P4 P5].
  destruct (pop_act s) as [a s1]. cbn [fst snd] in *.
  set (f1 := mkFlow (f_ord f) (f_req f) (f_resp f) true (f_live f)).
  assert (F1 : fl_ok (s_cq s) (s_sm s) i f1).
  { split; [unfold req_ok; cbn; rewrite Hq; auto | exact Hr]. }
  assert (F2 : fl_ok (s_cq s) (s_sm s) i (apply_act a f1)) by (apply apply_act_ok; assumption).
  assert (E : f_req (apply_act a f1) = Some q) by (rewrite apply_act_req; exact Hq).
  rewrite E. unfold post. cbn [fst snd]. split; [|split; [|split]].
  - split; cbn; [exact P4|]. rewrite P1, P2, P3. apply flows_ok_put; assumption.
  - cbn. exact P2.
  - cbn. exact P3.
  - constructor; [|constructor; [|constructor]].
    + unfold hook_of. cbn [f_req f_resp f1 out_good]. rewrite Hq. split; [exact Hin|].
      intros r Er. rewrite Hi. apply Hr. exact Er.
    + cbn [out_good]. left. exists (fail q). split; [reflexivity|]. right. exists q.
      split; [exact Hin|]. split; [reflexivity|]. left. reflexivity.
Qed.

Lemma Inv_with_srv s b cn : Inv s -> Inv (with_srv s b cn).
Proof. intros H. exact H. Qed.

Lemma post_cons s s0 p h :
  s_cq s0 = s_cq s -> s_sm s0 = s_sm s ->
  (forall ctx, out_good (s_cq s) (s_sm s) ctx h) ->
  post s0 p -> post s (let (s2, o) := p in (s2, h :: o)).
Proof.
  intros E1 E2 Hh (H1 & H2 & H3 & H4). destruct p as [s2 o]. cbn [fst snd] in *.
  unfold post. cbn [fst snd]. rewrite E1 in H2, H4. rewrite E2 in H3, H4.
  split; [exact H1|]. split; [exact H2|]. split; [exact H3|].
  apply good_cons; [apply Hh | exact H4].
Qed.

Lemma post_cons2 s s0 p h h' :
  s_cq s0 = s_cq s -> s_sm s0 = s_sm s ->
  (forall ctx, out_good (s_cq s) (s_sm s) ctx h) ->
  (forall ctx, out_good (s_cq s) (s_sm s) ctx h') ->
  post s0 p -> post s (let (s2, o) := p in (s2, h :: h' :: o)).
Proof.
  intros E1 E2 Hh Hh' (H1 & H2 & H3 & H4). destruct p as [s2 o]. cbn [fst snd] in *.
  unfold post. cbn [fst snd]. rewrite E1 in H2, H4. rewrite E2 in H3, H4.
  split; [exact H1|]. split; [exact H2|]. split; [exact H3|].
  apply good_cons; [apply Hh|]. apply good_cons; [apply Hh' | exact H4].
Qed.

Lemma handle_request_inv s i f m :
  Inv s -> In m (s_cq s) -> m_id m = i ->
  (forall r, f_resp f = Some r -> resp_ok (s_sm s) i r) ->
  post s (handle_request c s i f m).
Proof.
  intros HI Hin Hi Hr. pose proof HI as [Hs Hf]. unfold handle_request.
  destruct (pop_act_same s) as (P1 & P2 & P3 & P6 & P7). destruct (pop_act_script s Hs) as [P4 P5].
  destruct (pop_act s) as [a s1]. cbn [fst snd] in *.
  set (f1 := mkFlow (f_ord f) (Some m) (f_resp f) (f_err f) (f_live f)).
  assert (F1 : fl_ok (s_cq s) (s_sm s) i f1).
  { split; [unfold req_ok; cbn; auto | exact Hr]. }
  assert (F2 : fl_ok (s_cq s) (s_sm s) i (apply_act a f1)) by (apply apply_act_ok; assumption).
  assert (E : f_req (apply_act a f1) = Some m) by (rewrite apply_act_req; reflexivity).
  set (f2 := apply_act a f1) in *.
  assert (I1 : Inv s1) by (split; [exact P4 | rewrite P1, P2, P3; exact Hf]).
  assert (Hh : forall ctx, out_good (s_cq s) (s_sm s) ctx (hook_of HReq f1)).
  { intros ctx. unfold hook_of. cbn [f_req f_resp f1 out_good]. split; [exact Hin|].
    intros r Er. rewrite Hi. apply Hr. exact Er. }
  assert (Herr : forall s0, Inv s0 -> s_cq s0 = s_cq s -> s_sm s0 = s_sm s -> post s0 (handle_error c s0 i f2)).
  { intros s0 I0 C0 S0. apply (handle_error_inv s0 i f2 m I0 E Hi).
    - rewrite C0. exact Hin.
    - rewrite S0. apply F2. }
  assert (Hopen : forall ctx, out_good (s_cq s) (s_sm s) ctx OOpen) by (intros; exact I).
  destruct (f_resp f2) as [r|] eqn:Er.
  { apply (post_cons s s1); try assumption.
    apply handle_response_inv; [exact I1 | rewrite P2; apply F2 | rewrite P3; apply F2; exact Er]. }
  destruct (f_err f2).
  { apply (post_cons s s1); try assumption. apply Herr; assumption. }
  destruct (negb (has_addr c)).
  { apply (post_cons s s1); try assumption. apply Herr; assumption. }
  assert (Hput : forall s0, Inv s0 -> s_cq s0 = s_cq s -> s_sm s0 = s_sm s -> Inv (put_flow s0 i f2)).
  { intros s0 [I0 I0'] C0 S0. split; [exact I0|]. cbn. apply flows_ok_put; [exact I0'|].
    rewrite C0, S0. exact F2. }
  destruct (s_srv s1).
  { unfold post. cbn [fst snd]. split; [apply Hput; assumption|]. split; [exact P2|]. split; [exact P3|].
    constructor; [apply Hh|]. constructor; [exact I | constructor]. }
  destruct (s_conn s1) as [|[|] cn].
  - apply (post_cons2 s s1); try assumption. apply Herr; assumption.
  - unfold post. cbn [fst snd].
    split; [apply (Hput (with_srv s1 true cn)); [apply Inv_with_srv; exact I1 | exact P2 | exact P3]|].
    split; [exact P2|]. split; [exact P3|].
    constructor; [apply Hh|]. constructor; [exact I|]. constructor; [exact I | constructor].
  - apply (post_cons2 s (with_srv s1 false cn)); try assumption.
    apply Herr; [apply Inv_with_srv; exact I1 | exact P2 | exact P3].
Qed.

(* ---------- one message, a list of messages, an event, a history ---------- *)

Definition post_ext (s : st) (p : st * list out) : Prop :=
  Inv (fst p) /\ incl (s_cq s) (s_cq (fst p)) /\ incl (s_sm s) (s_sm (fst p))
  /\ good (s_cq (fst p)) (s_sm (fst p)) (snd p) (snd p).

Lemma post_to_ext s s0 p :
  incl (s_cq s) (s_cq s0) -> incl (s_sm s) (s_sm s0) -> post s0 p -> post_ext s p.
Proof.
  intros H1 H2 (A1 & A2 & A3 & A4). unfold post_ext. rewrite A2, A3. auto.
Qed.

Lemma post_ext_nil s : Inv s -> post_ext s (s, []).
Proof.
  intros H. unfold post_ext. cbn [fst snd]. split; [exact H|].
  split; [apply incl_refl|]. split; [apply incl_refl | constructor].
Qed.

Lemma Inv_note s fc m : Inv s -> Inv (note_msg s fc m).
Proof.
  intros [H1 H2]. split; [exact H1|]. cbn. intros i f Hf.
  eapply fl_ok_mono; [| |apply H2; exact Hf]; destruct fc; try apply incl_refl; apply incl_tl, incl_refl.
Qed.

Lemma handle_msg_inv fc s m : Inv s -> post_ext s (handle_msg c fc s m).
Proof.
  intros HI. unfold handle_msg.
  destruct (s_crashed s); [apply post_ext_nil; exact HI|].
  pose proof (Inv_note s fc m HI) as HN.
  assert (C1 : incl (s_cq s) (s_cq (note_msg s fc m)))
    by (cbn; destruct fc; [apply incl_tl|]; apply incl_refl).
  assert (S1 : incl (s_sm s) (s_sm (note_msg s fc m)))
    by (cbn; destruct fc; [|apply incl_tl]; apply incl_refl).
  destruct (find_flow (m_id m) (s_flows s)) as [f|] eqn:Ef.
  - assert (Fo : fl_ok (s_cq (note_msg s fc m)) (s_sm (note_msg s fc m)) (m_id m) f)
      by (apply HN; exact Ef).
    destruct fc.
    + destruct (fix_fresh c && answered f).
      * change (new_flow (retire (note_msg s true m) f))
          with (mkFlow (s_next s) None None false true, snd (new_flow (retire (note_msg s true m) f))).
        set (s1 := snd (new_flow (retire (note_msg s true m) f))).
        apply (post_to_ext s s1); [exact C1 | exact S1|].
        apply handle_request_inv; [exact HN | left; reflexivity | reflexivity | discriminate].
      * apply (post_to_ext s (note_msg s true m)); [exact C1 | exact S1|].
        apply handle_request_inv; [exact HN | left; reflexivity | reflexivity | apply Fo].
    + apply (post_to_ext s (note_msg s false m)); [exact C1 | exact S1|].
      apply handle_response_inv; [exact HN | apply Fo | right; split; [left; reflexivity | reflexivity]].
  - destruct fc.
    + change (new_flow (note_msg s true m))
        with (mkFlow (s_next s) None None false true, snd (new_flow (note_msg s true m))).
      set (s1 := snd (new_flow (note_msg s true m))).
      apply (post_to_ext s s1); [exact C1 | exact S1|].
      apply handle_request_inv; [exact HN | left; reflexivity | reflexivity | discriminate].
    + destruct (fix_drop c) eqn:Ed; [apply post_ext_nil; exact HI|].
      change (new_flow (note_msg s false m))
        with (mkFlow (s_next s) None None false true, snd (new_flow (note_msg s false m))).
      set (s1 := snd (new_flow (note_msg s false m))).
      apply (post_to_ext s s1); [exact C1 | exact S1|].
      apply handle_response_inv; [exact HN | exact Ed | right; split; [left; reflexivity | reflexivity]].
Qed.

Lemma post_ext_seq s p1 (k : st -> st * list out) :
  post_ext s p1 -> (forall s1, Inv s1 -> post_ext s1 (k s1)) ->
  post_ext s (let (s1, o1) := p1 in let (s2, o2) := k s1 in (s2, o1 ++ o2)).
Proof.
  intros (A1 & A2 & A3 & A4) Hk. destruct p1 as [s1 o1]. cbn [fst snd] in *.
  destruct (Hk s1 A1) as (B1 & B2 & B3 & B4). destruct (k s1) as [s2 o2]. cbn [fst snd] in *.
  unfold post_ext. cbn [fst snd]. split; [exact B1|].
  split; [eapply incl_tran; eassumption|]. split; [eapply incl_tran; eassumption|].
  apply good_app; [|exact B4].
  eapply good_mono; [exact B2 | exact B3 | apply incl_refl | exact A4].
Qed.

Lemma handle_msgs_inv fc ms : forall s, Inv s -> post_ext s (handle_msgs c fc s ms).
Proof.
  induction ms as [|m r IH]; intros s HI; [apply post_ext_nil; exact HI|].
  cbn [handle_msgs]. apply (post_ext_seq s (handle_msg c fc s m) (fun s1 => handle_msgs c fc s1 r)).
  - apply handle_msg_inv. exact HI.
  - exact IH.
Qed.

Variable unpack : bytes -> ures.

Lemma Inv_all_dead s srv : Inv s -> Inv (with_done s (all_dead (s_flows s)) srv).
Proof.
  intros [H1 H2]. split; [exact H1|]. cbn. intros i f Hf. rewrite find_all_dead in Hf.
  destruct (find_flow i (s_flows s)) as [g|] eqn:Eg; [|discriminate].
  cbn in Hf. inversion Hf; subst. exact (H2 i g Eg).
Qed.

Lemma step_inv s e : Inv s -> post_ext s (step unpack c s e).
Proof.
  intros HI. unfold step.
  destruct (s_crashed s); [apply post_ext_nil; exact HI|].
  destruct (s_phase s); [|apply post_ext_nil; exact HI].
  destruct e as [fc data|fc].
  - destruct (unpack_message unpack c s fc data) as [ms b| | |].
    + apply (handle_msgs_inv fc ms (with_buf s fc b)). exact HI.
    + unfold post_ext. cbn [fst snd]. split; [exact HI|]. repeat split; try apply incl_refl.
      constructor; [exact I | constructor].
    + unfold post_ext. cbn [fst snd]. split; [exact HI|]. repeat split; try apply incl_refl.
      constructor; [exact I | constructor].
    + unfold post_ext. cbn [fst snd]. split; [exact HI|]. repeat split; try apply incl_refl.
      constructor; [exact I | constructor].
  - unfold post_ext. cbn [fst snd]. split; [apply Inv_all_dead; exact HI|].
    repeat split; try apply incl_refl.
    destruct fc; [destruct (s_srv s)|]; repeat constructor.
Qed.

Lemma run_inv es : forall s, Inv s -> post_ext s (run unpack c s es).
Proof.
  induction es as [|e es IH]; intros s HI; [apply post_ext_nil; exact HI|].
  cbn [run]. apply (post_ext_seq s (step unpack c s e) (fun s1 => run unpack c s1 es)).
  - apply step_inv. exact HI.
  - exact IH.
Qed.

End Inv.

(* ---------- from the initial state ---------- *)

(* a message the addons of this run may set as a response: one given explicitly, or the answer
   the resolver builds from some request *)
Definition addon_msg (script : list act) (m : message) : Prop :=
  In (ASetResp m) script \/ exists rc n an q, In (AResolve rc n an) script /\ m = resolved q rc n an.

Lemma Inv_init c script conn : Inv c (addon_msg script) (init script conn).
Proof.
  split; [split|].
  - intros m Hm. left. exact Hm.
  - intros rc n an q Hm. right. exists rc, n, an, q. split; [exact Hm | reflexivity].
  - intros i f Hf. discriminate.
Qed.

Lemma run_good unpack c script conn es :
  let r := run unpack c (init script conn) es in
  good c (addon_msg script) (s_cq (fst r)) (s_sm (fst r)) (snd r) (snd r).
Proof.
  intros r. destruct (run_inv c (addon_msg script) unpack es _ (Inv_init c script conn)) as (_ & _ & _ & H).
  exact H.
Qed.

(* a reply sent to the client: some message, packed for the transport of the client, that an addon set
   or that has the id of a query the client sent and is either the SERVFAIL made from that query
   or a message received from upstream *)
Definition answers_query (c : cfg) (script : list act) (cq sm : list message) (data : bytes) : Prop :=
  exists m, data = pack_message m (ctcp c) /\
    (addon_msg script m \/ exists q, In q cq /\ m_id q = m_id m /\ (m = fail q \/ In m sm)).

(* a flow as a hook shows it: the request is a query the client sent; a response is set by an addon or is
   an upstream message with the id of that query *)
Definition carries_query (script : list act) (cq sm : list message) (o : out) : Prop :=
  match o with
  | OHook _ _ rq rs _ =>
      exists q, rq = Some q /\ In q cq /\
        forall r, rs = Some r -> addon_msg script r \/ (In r sm /\ m_id r = m_id q)
  | _ => True
  end.

Lemma no_orphan_fixed unpack c script conn es :
  fix_drop c = true ->
  let r := run unpack c (init script conn) es in
  forall k ord rs e, ~ In (OHook k ord None rs e) (snd r).
Proof.
  intros Hd r k ord rs e Hin. pose proof (run_good unpack c script conn es) as G. fold r in G.
  unfold good in G. rewrite Forall_forall in G. specialize (G _ Hin). cbn in G.
  destruct G as [G _]. congruence.
Qed.

Lemma hooks_carry_query unpack c script conn es :
  let r := run unpack c (init script conn) es in
  (forall k ord rs e, ~ In (OHook k ord None rs e) (snd r)) ->
  forall o, In o (snd r) -> carries_query script (s_cq (fst r)) (s_sm (fst r)) o.
Proof.
  intros r Hno o Hin. pose proof (run_good unpack c script conn es) as G. fold r in G.
  unfold good in G. rewrite Forall_forall in G. specialize (G _ Hin).
  destruct o as [k ord rq rs e| | | |]; cbn; try exact I.
  destruct rq as [q|]; [|exfalso; eapply Hno; exact Hin].
  cbn in G. destruct G as [G1 G2]. exists q. split; [reflexivity|]. split; [exact G1|].
  intros r0 Hr. destruct (G2 r0 Hr) as [Ha|Hb]; [left; exact Ha | right; exact Hb].
Qed.

Lemma replies_answer_query unpack c script conn es :
  let r := run unpack c (init script conn) es in
  (forall k ord rs e, ~ In (OHook k ord None rs e) (snd r)) ->
  forall data, In (OSend true data) (snd r) ->
  answers_query c script (s_cq (fst r)) (s_sm (fst r)) data.
Proof.
  intros r Hno data Hin. pose proof (run_good unpack c script conn es) as G. fold r in G.
  unfold good in G. rewrite Forall_forall in G. specialize (G _ Hin). cbn in G.
  destruct G as [G|(ord & rs & e & G)]; [exact G | exfalso; eapply Hno; exact G].
Qed.

(* ---------- a response hook while a client message is handled ---------- *)

Section Stale.
Variable c : cfg.

Definition resp_hooks_from (sc : list act) (outs : list out) : Prop :=
  forall ord rq rs e, In (OHook HResp ord rq rs e) outs ->
    exists r, rs = Some r /\
      (In (ASetResp r) sc \/ exists rc n an q, In (AResolve rc n an) sc /\ rq = Some q /\ r = resolved q rc n an).

Lemma handle_response_script s i f m :
  incl (s_script (fst (handle_response c s i f m))) (s_script s).
Proof.
  unfold handle_response. destruct (pop_act_incl s) as [P _]. destruct (pop_act s) as [a s1]. exact P.
Qed.

Lemma handle_error_script s i f :
  incl (s_script (fst (handle_error c s i f))) (s_script s)
  /\ resp_hooks_from (s_script s) (snd (handle_error c s i f)).
Proof.
  unfold handle_error. destruct (pop_act_incl s) as [P _]. destruct (pop_act s) as [a s1].
  cbn [fst snd] in *. destruct (f_req _); cbn [fst snd]; (split; [exact P|]);
    intros ord rq rs e [H|[H|[]]]; discriminate.
Qed.

Lemma resp_hooks_cons sc sc' h o :
  (forall ord rq rs e, h <> OHook HResp ord rq rs e) -> incl sc' sc ->
  resp_hooks_from sc' o -> resp_hooks_from sc (h :: o).
Proof.
  intros Hh Hi Ho ord rq rs e [H|H]; [exfalso; eapply Hh; exact H|].
  destruct (Ho _ _ _ _ H) as (r & R1 & R2). exists r. split; [exact R1|].
  destruct R2 as [R2|(rc & n & an & q & R2 & R3)]; [left; apply Hi; exact R2|].
  right. exists rc, n, an, q. split; [apply Hi; exact R2 | exact R3].
Qed.

(* a request handled on a flow without stored response: a response hook fires only for the
   response the addon sets at the request hook *)
Lemma handle_request_fresh s i f m :
  f_resp f = None ->
  incl (s_script (fst (handle_request c s i f m))) (s_script s)
  /\ resp_hooks_from (s_script s) (snd (handle_request c s i f m)).
Proof.
  intros Hn. unfold handle_request. destruct (pop_act_incl s) as [P Q]. destruct (pop_act s) as [a s1].
  cbn [fst snd] in *.
  set (f1 := mkFlow (f_ord f) (Some m) (f_resp f) (f_err f) (f_live f)).
  assert (Hh : forall ord rq rs e, hook_of HReq f1 <> OHook HResp ord rq rs e) by (intros; discriminate).
  assert (Ho : forall ord rq rs e, OOpen <> OHook HResp ord rq rs e) by (intros; discriminate).
  assert (Herr : forall s0, incl (s_script s0) (s_script s1) ->
     incl (s_script (fst (let (s2, o) := handle_error c s0 i (apply_act a f1) in (s2, hook_of HReq f1 :: o)))) (s_script s)
     /\ resp_hooks_from (s_script s) (snd (let (s2, o) := handle_error c s0 i (apply_act a f1) in (s2, hook_of HReq f1 :: o)))).
  { intros s0 H0. destruct (handle_error_script s0 i (apply_act a f1)) as [E1 E2].
    destruct (handle_error c s0 i (apply_act a f1)) as [s2 o]. cbn [fst snd] in *.
    assert (I0 : incl (s_script s0) (s_script s)) by (eapply incl_tran; eassumption).
    split; [eapply incl_tran; eassumption|].
    eapply resp_hooks_cons; [exact Hh | exact I0 | exact E2]. }
  destruct (f_resp (apply_act a f1)) as [r|] eqn:Er.
  { assert (Ha : a = ASetResp r \/ exists rc n an, a = AResolve rc n an /\ r = resolved m rc n an).
    { destruct a; cbn in Er; try (rewrite Hn in Er; discriminate); try discriminate.
      - left. congruence.
      - right. exists rc, n, an. split; [reflexivity | congruence]. }
    assert (Hin : In a (s_script s)).
    { destruct Q as [Q|Q]; [|exact Q]. destruct Ha as [Ha|(rc & n & an & Ha & _)]; congruence. }
    pose proof (handle_response_script s1 i (apply_act a f1) r) as E1.
    pose proof (apply_act_req a f1) as Erq.
    unfold handle_response in *. destruct (pop_act s1) as [a2 s2]. cbn [fst snd] in *.
    split; [eapply incl_tran; eassumption|].
    intros ord rq rs e [H|[H|H]]; [discriminate| |].
    - unfold hook_of in H. cbn [f_ord f_req f_resp f_err] in H. inversion H; subst ord rq rs e.
      exists r. split; [reflexivity|].
      destruct Ha as [Ha|(rc & n & an & Ha & Hr)].
      + left. rewrite <- Ha. exact Hin.
      + right. exists rc, n, an, m. split; [rewrite <- Ha; exact Hin|]. split; [rewrite Erq; reflexivity | exact Hr].
    - destruct (f_resp (apply_act a2 _)); [destruct H as [H|[]]; discriminate | destruct H]. }
  destruct (f_err (apply_act a f1)). { apply Herr. apply incl_refl. }
  destruct (negb (has_addr c)). { apply Herr. apply incl_refl. }
  destruct (s_srv s1).
  { cbn [fst snd]. split; [exact P|]. intros ord rq rs e [H|[H|[]]]; discriminate. }
  destruct (s_conn s1) as [|[|] cn].
  - destruct (handle_error_script s1 i (apply_act a f1)) as [E1 E2].
    destruct (handle_error c s1 i (apply_act a f1)) as [s2 o]. cbn [fst snd] in *.
    split; [eapply incl_tran; eassumption|].
    eapply resp_hooks_cons; [exact Hh | apply incl_refl|].
    eapply resp_hooks_cons; [exact Ho | exact P | exact E2].
  - cbn [fst snd]. split; [exact P|]. intros ord rq rs e [H|[H|[H|[]]]]; discriminate.
  - destruct (handle_error_script (with_srv s1 false cn) i (apply_act a f1)) as [E1 E2].
    destruct (handle_error c (with_srv s1 false cn) i (apply_act a f1)) as [s2 o]. cbn [fst snd] in *.
    split; [eapply incl_tran; eassumption|].
    eapply resp_hooks_cons; [exact Hh | apply incl_refl|].
    eapply resp_hooks_cons; [exact Ho | exact P | exact E2].
Qed.

(* the id of the message is new, or its flow has neither response nor error yet *)
Definition id_unanswered (s : st) (m : message) : Prop :=
  match find_flow (m_id m) (s_flows s) with Some f => answered f = false | None => True end.

Lemma handle_msg_client_fresh s m :
  fix_fresh c = true \/ id_unanswered s m ->
  incl (s_script (fst (handle_msg c true s m))) (s_script s)
  /\ resp_hooks_from (s_script s) (snd (handle_msg c true s m)).
Proof.
  intros Hg. unfold handle_msg.
  destruct (s_crashed s). { cbn. split; [apply incl_refl | intros ord rq rs e []]. }
  unfold id_unanswered in Hg.
  destruct (find_flow (m_id m) (s_flows s)) as [f|].
  - destruct (answered f) eqn:Ea.
    + destruct Hg as [Hg|Hg]; [|discriminate]. rewrite Hg. cbn [andb].
      change (new_flow (retire (note_msg s true m) f))
        with (mkFlow (s_next s) None None false true, snd (new_flow (retire (note_msg s true m) f))).
      apply (handle_request_fresh (snd (new_flow (retire (note_msg s true m) f)))). reflexivity.
    + rewrite andb_false_r.
      apply (handle_request_fresh (note_msg s true m)).
      unfold answered in Ea. destruct (f_resp f); [discriminate | reflexivity].
  - change (new_flow (note_msg s true m))
      with (mkFlow (s_next s) None None false true, snd (new_flow (note_msg s true m))).
    apply (handle_request_fresh (snd (new_flow (note_msg s true m)))). reflexivity.
Qed.

Lemma handle_msgs_client_fresh ms : forall s,
  fix_fresh c = true ->
  incl (s_script (fst (handle_msgs c true s ms))) (s_script s)
  /\ resp_hooks_from (s_script s) (snd (handle_msgs c true s ms)).
Proof.
  induction ms as [|m r IH]; intros s Hf.
  - cbn. split; [apply incl_refl | intros ord rq rs e []].
  - cbn [handle_msgs]. destruct (handle_msg_client_fresh s m (or_introl Hf)) as [A1 A2].
    destruct (handle_msg c true s m) as [s1 o1]. cbn [fst snd] in *.
    destruct (IH s1 Hf) as [B1 B2]. destruct (handle_msgs c true s1 r) as [s2 o2]. cbn [fst snd] in *.
    split; [eapply incl_tran; eassumption|].
    intros ord rq rs e Hin. apply in_app_or in Hin. destruct Hin as [Hin|Hin].
    + apply (A2 _ _ _ _ Hin).
    + destruct (B2 _ _ _ _ Hin) as (r0 & R1 & R2). exists r0. split; [exact R1|].
      destruct R2 as [R2|(rc & n & an & q & R2 & R3)]; [left; apply A1; exact R2|].
      right. exists rc, n, an, q. split; [apply A1; exact R2 | exact R3].
Qed.

Lemma step_client_fresh unpack s data :
  fix_fresh c = true ->
  resp_hooks_from (s_script s) (snd (step unpack c s (EData true data))).
Proof.
  intros Hf. unfold step.
  destruct (s_crashed s). { intros ord rq rs e []. }
  destruct (s_phase s); [|intros ord rq rs e []].
  destruct (unpack_message unpack c s true data) as [ms b| | |];
    try (intros ord rq rs e [H|[]]; discriminate).
  apply (handle_msgs_client_fresh ms (with_buf s true b) Hf).
Qed.

End Stale.
