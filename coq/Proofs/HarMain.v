(* Proofs/HarMain.v -- C41: the whole file (make_har, then FlowReader over the entries), a concrete library that
   satisfies the contracts (so the theorem is not vacuous), and the refutations of the unguarded statement. *)
From Coq Require Import List Bool NArith Lia.
From MV Require Import Base.Bytes Model.Headers Proofs.HeadersLaws Gen.HarTables Model.Har Proofs.HarBase Proofs.HarRoundtrip.
Import ListNotations.

(* the HTTP flows that have a response, in order *)
Fixpoint exchanges (flows : list flow) : list (request * response) :=
  match flows with
  | [] => []
  | HttpFlow rq (Some r) :: rest => (rq, r) :: exchanges rest
  | _ :: rest => exchanges rest
  end.

Definition contracts (L : lib) : Prop :=
  (forall v, l_encode L v IDENTITY = Ok v)
  /\ (forall b, exists s, l_b64enc L b = Ok (VS s) /\ l_b64dec L s = Ok (VB b))
  /\ (forall b, l_enc_se L (l_dec_se L b) = Ok (VB b)).

Definition flow_okF (L : lib) (se : bool) (f : flow) : Prop :=
  match f with
  | HttpFlow rq (Some r) => flow_ok L se rq r
  | HttpFlow _ None => False
  | OtherFlow => True
  end.

Theorem roundtrip_har L se flows : contracts L -> Forall (flow_okF L se) flows ->
  exists es imported,
    make_har L flows = Ok es
    /\ import_har se L es = (imported, Clean)
    /\ Forall2 (fun x i => same_exchange L (fst x) (snd x) i) (exchanges flows) imported.
Proof.
  intros (C1 & C2 & C3). induction 1 as [|f flows Hf _ IH].
  - exists [], []. repeat split. constructor.
  - destruct IH as (es & imps & Hm & Hi & Hall).
    destruct f as [rq [r|]|]; cbn [flow_okF] in Hf.
    + destruct (roundtrip_flow L se C1 C2 C3 rq r Hf) as (e & i & He & Hr & Hs).
      exists (e :: es), (i :: imps). cbn [make_har exchanges import_har]. rewrite He. cbn [bind]. rewrite Hm. cbn [bind].
      split; [reflexivity|]. rewrite Hr, Hi. split; [reflexivity|]. constructor; [exact Hs|exact Hall].
    + destruct Hf.
    + exists es, imps. cbn [make_har exchanges]. split; [exact Hm|]. split; [exact Hi|exact Hall].
Qed.

(* ---------------------------------------------------------------- a library satisfying the contracts *)
Definition latin (b : bytes) : str := map bN b.
Definition unlatin (s : str) : bytes := map Nb s.
Lemma unlatin_latin b : unlatin (latin b) = b.
Proof. unfold unlatin, latin. rewrite map_map. induction b as [|x b IH]; [reflexivity|]. cbn [map]. rewrite Nb_bN, IH. reflexivity. Qed.

Definition GZIP : bytes := [x67;x7a;x69;x70].
Definition LATIN1 : bytes := [x6c;x61;x74;x69;x6e;x2d;x31].
Definition is_coding (e : bytes) : bool := bytes_eqb e IDENTITY || bytes_eqb e GZIP.

(* latin-1 as the only charset, a content coding that does nothing, latin-1 as stand-in for base64 *)
Definition toy : lib :=
  mkLib (fun v e => if is_coding e then Ok v else match v with VB b => Ok (VS (latin b)) | VS _ => EOther end)
        (fun v e => if is_coding e then Ok v else match v with VS s => Ok (VB (unlatin s)) | VB _ => EOther end)
        (fun _ _ => LATIN1)
        (fun b => Ok (VS (latin b)))
        (fun s => Ok (VB (unlatin s)))
        (fun b => Ok (forallb (fun x => (bN x <? 128)%N) b))
        latin
        (fun s => Ok (VB (unlatin s)))
        (fun u => Ok ([x61], u))
        (fun ct => ct)
        (fun a => a)
        (fun hh => (hh, None))
        (fun scheme host port path => latin (scheme ++ [x3a;x2f;x2f] ++ host ++ path)).

Lemma toy_contracts : contracts toy.
Proof.
  split; [|split].
  - intros v. reflexivity.
  - intros b. exists (latin b). cbn. rewrite unlatin_latin. split; reflexivity.
  - intros b. cbn. rewrite unlatin_latin. reflexivity.
Qed.

(* POST /p with a JSON-ish body, answered 200 with a text body; several headers each *)
Definition H (k v : bytes) : field := (k, v).
Definition sample_rq (ver : bytes) : request :=
  mkRequest [x50;x4f;x53;x54] S_HTTP [x61] 80 [x2f;x70] [] ver
            [H [x48;x6f;x73;x74] [x61]; H [x43;x6f;x6e;x74;x65;x6e;x74;x2d;x4c;x65;x6e;x67;x74;x68] [x39];
             H [x41;x63;x63;x65;x70;x74] [x2a;x2f;x2a]]
            (Some [x7b;x7d]).
Definition sample_resp (ver : bytes) (hs : list field) : response :=
  mkResponse 200 ver hs (Some [x6f;x6b]).
Definition CL2 : field := H K_CL [x32].
Definition SERVER : field := H [x53;x65;x72;x76;x65;x72] [x78].

Lemma sample_ok : flow_ok toy false (sample_rq V11) (sample_resp V3 [SERVER; CL2]).
Proof.
  unfold flow_ok.
  split; [left; reflexivity|]. split; [right; right; reflexivity|].
  split; [repeat constructor; right; reflexivity|]. split; [repeat constructor; right; reflexivity|].
  split; [reflexivity|].
  split; [exists [x61]; split; [reflexivity|right; reflexivity]|].
  split; [reflexivity|].
  split.
  { exists [x7b;x7d]. split; [reflexivity|]. split; [reflexivity|]. exists [123;125]%N. split; reflexivity. }
  split; [reflexivity|]. split; [right; reflexivity|].
  right. split; [right; reflexivity|]. left. split; [reflexivity|]. exists [111;107]%N. split; reflexivity.
Qed.

Lemma sample_roundtrips :
  contracts toy /\ flow_ok toy false (sample_rq V11) (sample_resp V3 [SERVER; CL2])
  /\ exists e i, flow_entry toy (sample_rq V11) (Some (sample_resp V3 [SERVER; CL2])) = Ok e
                 /\ request_to_flow false toy e = Ok i
                 /\ i_rh i <> rq_headers (sample_rq V11)            (* Content-Length really is rewritten on the request *)
                 /\ e_post e = Some (Some [123;125]%N).
Proof.
  split; [exact toy_contracts|]. split; [exact sample_ok|].
  eexists. eexists. split; [vm_compute; reflexivity|]. split; [vm_compute; reflexivity|].
  split; [vm_compute; intros E; discriminate E|reflexivity].
Qed.

(* ---------------------------------------------------------------- refutations of the unguarded statement *)
(* An HTTP/2 exchange (mitmproxy spells it HTTP/2.0) comes back as HTTP/1.1, request and response. *)
Lemma refuted_http2 :
  exists e i, flow_entry toy (sample_rq V20) (Some (sample_resp V20 [SERVER; CL2])) = Ok e
              /\ request_to_flow false toy e = Ok i
              /\ rq_version (sample_rq V20) = V20 /\ i_version i = V11 /\ i_sversion i = V11.
Proof. eexists. eexists. split; [vm_compute; reflexivity|]. split; [vm_compute; reflexivity|]. repeat split. Qed.

(* A header value that is not valid UTF-8 makes the reader raise: no flow is imported at all. *)
Lemma refuted_non_utf8_header :
  exists es, make_har toy [HttpFlow (sample_rq V11) (Some (sample_resp V11 [H [x58] [xff]; CL2]))] = Ok es
             /\ import_har false toy es = ([], Raised).
Proof. eexists. split; vm_compute; reflexivity. Qed.

(* A response without Content-Length comes back with one. *)
Lemma refuted_content_length_added :
  exists e i, flow_entry toy (sample_rq V11) (Some (sample_resp V11 [SERVER])) = Ok e
              /\ request_to_flow false toy e = Ok i
              /\ i_sh i = [SERVER; CL2].
Proof. eexists. eexists. split; [vm_compute; reflexivity|]. split; vm_compute; reflexivity. Qed.

(* A response with a content coding comes back without its Content-Encoding header. *)
Lemma refuted_content_encoding_dropped :
  exists e i, flow_entry toy (sample_rq V11) (Some (sample_resp V11 [H K_CE GZIP; CL2])) = Ok e
              /\ request_to_flow false toy e = Ok i
              /\ i_sh i = [CL2].
Proof. eexists. eexists. split; [vm_compute; reflexivity|]. split; vm_compute; reflexivity. Qed.

(* With the header repair (surrogateescape in fix_headers) the non-UTF-8 header no longer stops the reader. *)
Lemma header_fix_effective :
  exists es i, make_har toy [HttpFlow (sample_rq V11) (Some (sample_resp V11 [H [x58] [xff]; CL2]))] = Ok es
               /\ import_har true toy es = ([i], Clean) /\ i_sh i = [H [x58] [xff]; CL2].
Proof. eexists. eexists. split; [vm_compute; reflexivity|]. split; vm_compute; reflexivity. Qed.

Lemma roundtrip_flow_c L se rq r : contracts L -> flow_ok L se rq r ->
  exists e i, flow_entry L rq (Some r) = Ok e /\ request_to_flow se L e = Ok i /\ same_exchange L rq r i.
Proof. intros (C1 & C2 & C3). apply roundtrip_flow; assumption. Qed.

Lemma refuted_http2_table : import_req_version V20 = V11 /\ import_resp_version V20 = V11 /\ ~ version_kept V20.
Proof. exact http2_not_kept. Qed.

(* ---------------------------------------------------------------- order of the entries *)
(* The HTTP flows of the list handed to the exporter, in list order. *)
Fixpoint http_flows (flows : list flow) : list (request * option response) :=
  match flows with
  | [] => []
  | HttpFlow rq rs :: rest => (rq, rs) :: http_flows rest
  | OtherFlow :: rest => http_flows rest
  end.

(* make_har walks the list it is given, front to back: whenever the export succeeds, entry number i is the entry of
   the i-th HTTP flow of that list.  Nothing else about the flows (creation or start times, completion order)
   has any influence: the model has no such input. *)
Lemma entry_order L flows es : make_har L flows = Ok es ->
  Forall2 (fun x e => flow_entry L (fst x) (snd x) = Ok e) (http_flows flows) es.
Proof.
  revert es. induction flows as [|f flows IH]; intros es Hm.
  - cbn in Hm. inversion Hm. constructor.
  - destruct f as [rq rs|]; cbn [make_har http_flows] in *.
    + destruct (flow_entry L rq rs) as [e| | |] eqn:He; cbn [bind] in Hm; try discriminate Hm.
      destruct (make_har L flows) as [es'| | |] eqn:Hr; cbn [bind] in Hm; try discriminate Hm.
      inversion Hm; subst es. constructor; [exact He|]. apply IH. reflexivity.
    + apply IH. exact Hm.
Qed.

(* exporting a concatenation = concatenating the exports *)
Lemma make_har_app L fs1 fs2 es1 es2 :
  make_har L fs1 = Ok es1 -> make_har L fs2 = Ok es2 -> make_har L (fs1 ++ fs2) = Ok (es1 ++ es2).
Proof.
  revert es1. induction fs1 as [|f fs1 IH]; intros es1 H1 H2.
  - cbn in H1. inversion H1. exact H2.
  - destruct f as [rq rs|]; cbn [make_har app] in *.
    + destruct (flow_entry L rq rs) as [e| | |]; cbn [bind] in *; try discriminate H1.
      destruct (make_har L fs1) as [es'| | |]; cbn [bind] in *; try discriminate H1.
      inversion H1; subst es1. rewrite (IH es' eq_refl H2). reflexivity.
    + apply IH; assumption.
Qed.

(* the reader keeps the order of the entries: the i-th imported flow is the import of the i-th entry *)
Lemma import_order se L es imported st : import_har se L es = (imported, st) ->
  Forall2 (fun e i => request_to_flow se L e = Ok i) (firstn (length imported) es) imported.
Proof.
  revert imported st. induction es as [|e es IH]; intros imported st H.
  - cbn in H. inversion H. constructor.
  - cbn [import_har] in H. destruct (request_to_flow se L e) as [i| | |] eqn:Hr.
    + destruct (import_har se L es) as [fs st'] eqn:Hi. inversion H; subst. cbn [length firstn].
      constructor; [exact Hr|]. eapply IH. reflexivity.
    + inversion H. constructor.
    + inversion H. constructor.
    + inversion H. constructor.
Qed.
