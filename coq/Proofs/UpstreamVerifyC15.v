(* Proofs/UpstreamVerifyC15.v -- C15: the decision taken by tls_start_server, composed with the layer
   invariant (Proofs/ServerTlsLayerInv.v) and the X.509 specification (Proofs/X509VerifyLemmas.v). *)
From Coq Require Import List Bool NArith ZArith.
From MV Require Import Base.Bytes Model.X509Verify Model.TlsStartServer Model.ServerTlsLayer.
From MV Require Import Proofs.X509VerifyLemmas Proofs.ServerTlsLayerInv Corr.C15.
Import ListNotations.

(* ---------- tls_start_server, all inputs ---------- *)

Lemma verify_mode i cf :
  o_res (tls_start_server i) = inr cf ->
  cf_verify cf = if ssl_insecure i then VERIFY_NONE else VERIFY_PEER.
Proof.
  unfold tls_start_server; simpl.
  destruct (nonempty _).
  - destruct (ip_address _); [intros E; inversion E; reflexivity|].
    destruct (encode_idna _ _); [|discriminate].
    destruct (has _ _); [discriminate|]. destruct (host_syntax_ok _); simpl; [|discriminate].
    intros E; inversion E; reflexivity.
  - destruct (ssl_insecure i); [intros E; inversion E; reflexivity|discriminate].
Qed.

(* the name that is verified: server.sni if preset, else client.sni, else the address *)
Lemma sni_source i :
  o_sni (tls_start_server i)
  = match preset_sni i with Some s => s | None => py_or (client_sni i) (address_host i) end.
Proof. reflexivity. Qed.

(* what a configured check is about *)
Definition target_of (i : ts_in) (t : target) : Prop :=
  let sni := o_sni (tls_start_server i) in
  (exists ip, ip_address sni = Some ip /\ t = TIp ip)
  \/ (ip_address sni = None
      /\ exists h, encode_idna (idna_hint i) sni = Some h /\ t = THost h
                   /\ host_syntax_ok h = true /\ has x00 h = false).

Lemma target_is_sni i cf t :
  o_res (tls_start_server i) = inr cf -> cf_target cf = Some t -> target_of i t.
Proof.
  unfold target_of, tls_start_server; simpl.
  destruct (nonempty _).
  - destruct (ip_address _) as [ip|] eqn:IP.
    + intros E; inversion E; subst; simpl. intros T; inversion T; subst. left; eauto.
    + destruct (encode_idna _ _) as [h|] eqn:EN; [|discriminate].
      destruct (has x00 h) eqn:NUL; [discriminate|]. destruct (host_syntax_ok h) eqn:SY; simpl; [|discriminate].
      intros E; inversion E; subst; simpl. intros T; inversion T; subst. right; split; [reflexivity|]. eauto 10.
  - destruct (ssl_insecure i); [|discriminate]. intros E; inversion E; subst; simpl. discriminate.
Qed.

(* with verification on there is never a configuration without a name to check *)
Lemma peer_has_target i cf :
  ssl_insecure i = false -> o_res (tls_start_server i) = inr cf ->
  cf_verify cf = VERIFY_PEER /\ exists t, cf_target cf = Some t /\ target_of i t.
Proof.
  intros Hi E. pose proof (verify_mode i cf E) as V. rewrite Hi in V. split; [exact V|].
  assert (X : exists t, cf_target cf = Some t).
  { revert E. unfold tls_start_server; simpl. rewrite Hi.
    destruct (nonempty _); [|discriminate].
    destruct (ip_address _); [intros E; inversion E; simpl; eauto|].
    destruct (encode_idna _ _); [|discriminate]. destruct (has _ _); [discriminate|].
    destruct (host_syntax_ok _); simpl; [|discriminate]. intros E; inversion E; simpl; eauto. }
  destruct X as [t Ht]. exists t; split; [exact Ht|]. eapply target_is_sni; eauto.
Qed.

(* for an ASCII name the reference identifier is the SNI itself, byte for byte *)
Lemma ascii_reference_is_sni hint s h : is_ascii s = true -> encode_idna hint s = Some h -> h = s.
Proof.
  unfold encode_idna, idna_ascii; intros A; rewrite A. destruct s; [intros E; inversion E; reflexivity|].
  destruct (_ && _); [intros E; inversion E; reflexivity|discriminate].
Qed.

Lemma insecure_accepts_everything i cf trust chain now :
  ssl_insecure i = true -> o_res (tls_start_server i) = inr cf -> peer_acceptable cf trust chain now = true.
Proof.
  intros Hi E. pose proof (verify_mode i cf E) as V. rewrite Hi in V. unfold peer_acceptable; rewrite V; reflexivity.
Qed.

(* ... but only if the hook can configure the name at all: a trailing dot is enough to make it raise *)
Definition trailing_dot_input : ts_in :=
  mkIn true None None [x65;x78;x61;x6d;x70;x6c;x65;x2e;x63;x6f;x6d;x2e] None.   (* example.com. *)

Lemma insecure_still_raises :
  exists i, ssl_insecure i = true /\ o_res (tls_start_server i) = inl SslError.
Proof. exists trailing_dot_input; split; vm_compute; reflexivity. Qed.

Lemma acceptable_means_verified i cf trust chain now :
  ssl_insecure i = false -> o_res (tls_start_server i) = inr cf ->
  peer_acceptable cf trust chain now = true ->
  exists t leaf extra n,
    target_of i t /\ chain = leaf :: extra
    /\ valid_path trust extra now n leaf 0%N /\ time_ok now leaf = true /\ name_ok leaf t = true.
Proof.
  intros Hi E A. destruct (peer_has_target i cf Hi E) as [V [t [Ht Tg]]].
  unfold peer_acceptable in A; rewrite V, Ht in A.
  destruct (x509_ok_sound _ _ _ _ A) as [leaf [extra [n [Hc [Vp [Tm Nm]]]]]].
  exists t, leaf, extra, n; auto.
Qed.

(* ---------- composition with the layer, all histories ---------- *)

Section Usable.
  Variable eng seg : Type.
  Variable hs_step : eng -> option seg -> eng * hs_result.
  Variable send_app : eng -> bytes -> eng * send_result.
  Variable recv_app : eng -> option seg -> eng * (bytes * bool).
  Variable got_shutdown : eng -> bool.
  Variable start_conn : option eng.
  Variable cst : Type.
  Variable child_step : cst -> bool -> cev -> cst * list ccmd.
  Notation run := (run eng seg hs_step send_app recv_app got_shutdown start_conn cst child_step).

  (* anything that means: the upstream connection is usable *)
  Definition usable (c : cst) (b : bool) (es : list (ev seg)) : Prop :=
    let r := run (init eng seg cst c b) es in
    In (CHook HEstablished) (snd r)
    \/ (exists p, In (CSendApp p) (snd r))
    \/ (exists est, In (CChild (CevOpenReply false) est) (snd r))
    \/ (exists e, In (CChild e true) (snd r))
    \/ tunnel_state _ _ _ (fst r) = OPEN
    \/ established _ _ _ (fst r) = true.

  Variable live : eng -> Prop.
  Variable ok_eng : eng -> bool.
  Variable acc : Prop.
  Hypothesis H_start : forall e, start_conn = Some e -> live e /\ ok_eng e = false.
  Hypothesis H_hs : forall e d e' r, live e -> hs_step e d = (e', r) ->
    live e' /\ (r = HsDone -> acc) /\ (ok_eng e' = true -> r = HsDone \/ ok_eng e = true).
  Hypothesis H_send : forall e d e' r, live e -> send_app e d = (e', r) ->
    live e' /\ (ok_eng e' = true -> ok_eng e = true) /\ (forall p, r = Sent p -> ok_eng e = true).
  Hypothesis H_recv : forall e d e' x, live e -> recv_app e d = (e', x) ->
    live e' /\ (ok_eng e' = true -> ok_eng e = true).

  Lemma usable_accept c b es : usable c b es -> acc.
  Proof.
    destruct (run_init_safe eng seg hs_step send_app recv_app got_shutdown start_conn cst child_step
                live ok_eng acc H_start H_hs H_send H_recv c b es) as [F [O Es]].
    rewrite Forall_forall in F.
    unfold usable. intros [H|[[p H]|[[est H]|[[e H]|[H|H]]]]]; auto.
    - exact (F _ H).
    - exact (F _ H).
    - exact (F _ H).
    - specialize (F _ H). destruct e as [| |err| |]; simpl in F; auto. destruct err; exact F.
  Qed.
End Usable.

(* the peer is acceptable for the configuration tls_start_server produced *)
Definition accept (i : ts_in) (trust chain : list cert) (now : Z) : Prop :=
  exists cf, o_res (tls_start_server i) = inr cf /\ peer_acceptable cf trust chain now = true.

(* openssl_verifies: the contract about the OpenSSL connection object that tls_start_server creates *)
Definition openssl_verifies (i : ts_in) (trust chain : list cert) (now : Z)
    (eng seg : Type) (hs_step : eng -> option seg -> eng * hs_result)
    (send_app : eng -> bytes -> eng * send_result) (recv_app : eng -> option seg -> eng * (bytes * bool))
    (start_conn : option eng) : Prop :=
  exists (live : eng -> Prop) (ok_eng : eng -> bool),
    (forall e, start_conn = Some e -> live e /\ ok_eng e = false)
    /\ (forall e d e' r, live e -> hs_step e d = (e', r) ->
          live e' /\ (r = HsDone -> accept i trust chain now)
          /\ (ok_eng e' = true -> r = HsDone \/ ok_eng e = true))
    /\ (forall e d e' r, live e -> send_app e d = (e', r) ->
          live e' /\ (ok_eng e' = true -> ok_eng e = true) /\ (forall p, r = Sent p -> ok_eng e = true))
    /\ (forall e d e' x, live e -> recv_app e d = (e', x) ->
          live e' /\ (ok_eng e' = true -> ok_eng e = true)).

Theorem verified_unless_disabled i trust chain now eng seg hs_step send_app recv_app got_shutdown start_conn
        cst child_step c b es :
  openssl_verifies i trust chain now eng seg hs_step send_app recv_app start_conn ->
  ssl_insecure i = false ->
  usable eng seg hs_step send_app recv_app got_shutdown start_conn cst child_step c b es ->
  exists t leaf extra n,
    target_of i t /\ chain = leaf :: extra
    /\ valid_path trust extra now n leaf 0%N /\ time_ok now leaf = true /\ name_ok leaf t = true.
Proof.
  intros [live [ok_eng [H1 [H2 [H3 H4]]]]] Hi U.
  destruct (usable_accept _ _ _ _ _ _ _ _ _ live ok_eng _ H1 H2 H3 H4 c b es U) as [cf [E A]].
  eapply acceptable_means_verified; eauto.
Qed.

Theorem unverifiable_never_usable i trust chain now eng seg hs_step send_app recv_app got_shutdown start_conn
        cst child_step c b es :
  openssl_verifies i trust chain now eng seg hs_step send_app recv_app start_conn ->
  ssl_insecure i = false ->
  (forall t, target_of i t -> x509_ok trust chain now t = false) ->
  ~ usable eng seg hs_step send_app recv_app got_shutdown start_conn cst child_step c b es.
Proof.
  intros [live [ok_eng [H1 [H2 [H3 H4]]]]] Hi Hn U.
  destruct (usable_accept _ _ _ _ _ _ _ _ _ live ok_eng _ H1 H2 H3 H4 c b es U) as [cf [E A]].
  destruct (peer_has_target i cf Hi E) as [V [t [Ht Tg]]].
  unfold peer_acceptable in A; rewrite V, Ht in A. rewrite (Hn t Tg) in A; discriminate.
Qed.

(* tls_start_server raised (after the repair no connection object is handed over): whatever the server,
   the child and the history do, nothing usable ever comes out; no OpenSSL contract is needed *)
Theorem no_context_never_usable (eng seg : Type) hs_step send_app recv_app got_shutdown cst child_step c b es :
  ~ usable eng seg hs_step send_app recv_app got_shutdown None cst child_step c b es.
Proof.
  intros U.
  refine (usable_accept eng seg hs_step send_app recv_app got_shutdown None cst child_step
            (fun _ => False) (fun _ => false) False _ _ _ _ c b es U).
  - intros e H; discriminate.
  - intros e d e' r [].
  - intros e d e' r [].
  - intros e d e' x [].
Qed.

(* ---------- which CAs are trusted: create_proxy_server_context ---------- *)

(* r is a CONFIGURED trusted certificate: in the CA file or the CA directory if either option is set;
   in the bundled default file only when neither is *)
Definition configured_root (tc : trust_cfg) (r : cert) : Prop :=
  match tc_file tc, tc_dir tc with
  | None, None => In r (tc_default tc)
  | f, d => In r (opt_list f) \/ In r (opt_list d)
  end.

Lemma loaded_trust_configured tc r : In r (loaded_trust tc) <-> configured_root tc r.
Proof.
  unfold loaded_trust, configured_root.
  destruct (tc_file tc), (tc_dir tc); simpl; rewrite ?in_app_iff; simpl; tauto.
Qed.

(* the default bundle plays no role as soon as a CA file or a CA directory is configured *)
Lemma default_bundle_ignored f d def1 def2 :
  (f <> None \/ d <> None) -> loaded_trust (mkTc f d def1) = loaded_trust (mkTc f d def2).
Proof. unfold loaded_trust; simpl. destruct f, d; intros [H|H]; try reflexivity; contradiction. Qed.

Theorem verified_by_configured_ca i tc chain now eng seg hs_step send_app recv_app got_shutdown start_conn
        cst child_step c b es :
  openssl_verifies i (loaded_trust tc) chain now eng seg hs_step send_app recv_app start_conn ->
  ssl_insecure i = false ->
  usable eng seg hs_step send_app recv_app got_shutdown start_conn cst child_step c b es ->
  exists t leaf extra n r,
    target_of i t /\ chain = leaf :: extra
    /\ valid_path (loaded_trust tc) extra now n leaf 0%N /\ time_ok now leaf = true /\ name_ok leaf t = true
    /\ configured_root tc r /\ self_issued r = true /\ time_ok now r = true.
Proof.
  intros Hc Hi U.
  destruct (verified_unless_disabled _ _ _ _ _ _ _ _ _ _ _ _ _ _ _ _ Hc Hi U)
    as [t [leaf [extra [n [Tg [Ch [Vp [Tm Nm]]]]]]]].
  destruct (valid_path_ends_in_trusted_root _ _ _ _ _ _ Vp) as [r [Hin [Ss Tr]]].
  exists t, leaf, extra, n, r. repeat split; auto. apply loaded_trust_configured; exact Hin.
Qed.

(* ---------- the contract is satisfiable: the specification engine of Corr/C15.v ---------- *)

Example spec_engine_contract (a : bool) (conn : option phase) :
  (forall e, conn = Some e -> e = Fresh) ->
  exists (live : phase -> Prop) (ok_eng : phase -> bool),
    (forall e, conn = Some e -> live e /\ ok_eng e = false)
    /\ (forall e d e' r, live e -> spec_hs a e d = (e', r) ->
          live e' /\ (r = HsDone -> a = true) /\ (ok_eng e' = true -> r = HsDone \/ ok_eng e = true))
    /\ (forall e d e' r, live e -> spec_send e d = (e', r) ->
          live e' /\ (ok_eng e' = true -> ok_eng e = true) /\ (forall p, r = Sent p -> ok_eng e = true))
    /\ (forall e d e' x, live e -> spec_recv e d = (e', x) ->
          live e' /\ (ok_eng e' = true -> ok_eng e = true)).
Proof.
  intros Hc. exists (fun _ => True), (fun e => phase_eqb e Done).
  split; [intros e H; split; [exact I|rewrite (Hc e H); reflexivity]|].
  split; [intros e d e' r _ H; split; [exact I|split]|].
  - intros R; subst r.
    destruct e, d as [[]|]; simpl in H; try discriminate; destruct a; try discriminate; reflexivity.
  - intros O.
    destruct e, d as [[]|]; simpl in H; try destruct a; inversion H; subst; simpl in O; try discriminate; auto.
  - split.
    + intros e d e' r _ H. unfold spec_send in H.
      destruct (phase_eqb e Done) eqn:D; inversion H; subst; repeat split; auto;
        [intros O; rewrite D in O; discriminate O|intros p R; discriminate R].
    + intros e d e' x _ H. unfold spec_recv in H. inversion H; subst; split; auto.
Qed.

(* a concrete accepted handshake: example.com, leaf with SAN example.com issued by a trusted root *)
Definition s_example : bytes := [x65;x78;x61;x6d;x70;x6c;x65;x2e;x63;x6f;x6d].
Definition sample_in : ts_in := mkIn false None None s_example None.
Definition sample_root : cert := mkCert 1 1 1 1 0 1000 true None [] [] None.
Definition sample_leaf : cert := mkCert 10 1 10 1 0 1000 false None [s_example] [] None.
Definition sample_trace : list cmd :=
  run_case (match o_res (tls_start_server sample_in) with
            | inr cf => peer_acceptable cf [sample_root] [sample_leaf] 500
            | inl _ => false end)
           (Some Fresh) 0 false 0 false.

Lemma sample_established :
  x509_ok [sample_root] [sample_leaf] 500 (THost s_example) = true
  /\ In (CHook HEstablished) sample_trace /\ In (CSendApp appdata) sample_trace
  /\ x509_ok [sample_root] [sample_leaf] 2000 (THost s_example) = false
  /\ x509_ok [] [sample_leaf] 500 (THost s_example) = false
  /\ x509_ok [sample_root] [sample_leaf] 500 (THost (x78 :: s_example)) = false.
Proof. vm_compute. repeat split; auto 10. Qed.
