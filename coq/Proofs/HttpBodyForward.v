(* Proofs/HttpBodyForward.v -- a body rejected for its size is never forwarded: in every history, if the request
   was rejected (ResponseProtocolError REQUEST_TOO_LARGE sent to the client) then no request head, data or
   end-of-message was ever sent to the server, before or after the decision; likewise a rejected response never
   reaches the client.  No hypothesis on the options. *)
From Coq Require Import List Bool NArith ZArith Lia.
From MV Require Import Base.Bytes Model.HttpBody Proofs.HttpBodyBase Proofs.HttpBodySteps.
Import ListNotations.
Open Scope Z_scope.

Section Forward.
Variable S : Type.
Variable fq fs : S -> bytes -> S * sres.
Variable cfg : config.

Notation st := (st S).
Notation handle_event := (handle_event S fq fs cfg).
Notation run := (run S fq fs cfg).

Definition early_q (s : st) : Prop := client_state s = WaitHeaders \/ client_state s = Consume.
Definition early_s (s : st) : Prop :=
  server_state s = Uninit \/ server_state s = WaitHeaders \/ server_state s = Consume.

Definition finv (s : st) (out : list cmd) : Prop :=
  (early_q s -> server_content out = [] /\ ~ rejq out)
  /\ (rejq out -> client_state s = Errored /\ server_content out = [])
  /\ (early_s s -> client_content out = [] /\ ~ rejs out)
  /\ (rejs out -> server_state s = Errored /\ client_state s = Errored /\ client_content out = [])
  /\ (client_state s = WaitHeaders -> request_body_buf s = [] /\ server_state s = Uninit)
  /\ (server_state s = Uninit \/ server_state s = WaitHeaders -> response_body_buf s = []).

Lemma rejq_app a b : rejq (a ++ b) <-> rejq a \/ rejq b.
Proof. unfold rejq. apply in_app_iff. Qed.
Lemma rejs_app a b : rejs (a ++ b) <-> rejs a \/ rejs b.
Proof. unfold rejs. apply in_app_iff. Qed.

(* assemble the invariant for the successor from per-step facts *)
Lemma finv_build (s s' : st) out c :
  finv s out ->
  (* request side *)
  (early_q s' -> early_q s /\ server_content c = [] /\ ~ rejq c) ->
  (rejq c -> early_q s /\ client_state s' = Errored /\ server_content c = []) ->
  (client_state s = Errored -> client_state s' = Errored /\ server_content c = []) ->
  (* response side *)
  (early_s s' -> early_s s /\ client_content c = [] /\ ~ rejs c) ->
  (rejs c -> early_s s /\ server_state s' = Errored /\ client_state s' = Errored /\ client_content c = []) ->
  (server_state s = Errored -> client_state s = Errored ->
   server_state s' = Errored /\ client_state s' = Errored /\ client_content c = []) ->
  (* couplings *)
  (client_state s' = WaitHeaders -> False) ->
  (server_state s' = Uninit \/ server_state s' = WaitHeaders -> response_body_buf s' = []) ->
  finv s' (out ++ c).
Proof.
  intros (J1 & J2 & K1 & K2 & CP & CR) A1 A2 A3 B1 B2 B3 N1 N2.
  unfold finv. rewrite !server_content_app, !client_content_app.
  split; [|split; [|split; [|split; [|split]]]].
  - intros E. destruct (A1 E) as (E0 & SC & NR). destruct (J1 E0) as (X & Y). rewrite X, SC.
    split; auto. rewrite rejq_app. tauto.
  - rewrite rejq_app. intros [R|R].
    + destruct (J2 R) as (X & Y). destruct (A3 X) as (X' & SC). rewrite Y, SC. auto.
    + destruct (A2 R) as (E0 & X & SC). destruct (J1 E0) as (Y & _). rewrite Y, SC. auto.
  - intros E. destruct (B1 E) as (E0 & CC & NR). destruct (K1 E0) as (X & Y). rewrite X, CC.
    split; auto. rewrite rejs_app. tauto.
  - rewrite rejs_app. intros [R|R].
    + destruct (K2 R) as (X & Y & Z). destruct (B3 X Y) as (X' & Y' & CC). rewrite Z, CC. auto.
    + destruct (B2 R) as (E0 & X & Y & CC). destruct (K1 E0) as (Z & _). rewrite Z, CC. auto.
  - intros W. destruct (N1 W).
  - exact N2.
Qed.

Theorem finv_step (s s' : st) e c out :
  handle_event s e = Some (s', c) -> finv s out -> finv s' (out ++ c).
Proof.
  intros H I. pose proof I as (J1 & J2 & K1 & K2 & CP & CR).
  destruct (is_request_event e) eqn:RQ.
  - destruct (client_state s) eqn:CS.
    + unfold HttpBody.handle_event in H. rewrite RQ, CS in H. discriminate.
    + (* WaitHeaders *)
      destruct (CP eq_refl) as (B & SU).
      destruct e; try (unfold HttpBody.handle_event in H; rewrite CS in H; cbn in H; discriminate).
      pose proof (step_wait_request_headers_cc S fq fs cfg _ _ _ _ _ CS B H) as CC.
      apply step_wait_request_headers in H; auto.
      destruct H as (B' & R' & NRS & OUTC).
      assert (RB : response_body_buf s = []) by (apply CR; auto).
      apply (finv_build s _ out _ I); unfold early_q, early_s; rewrite ?CS, ?SU.
      * intros E. split; [auto|].
        destruct OUTC as [(C1 & _)|(NR & _ & [(C1 & SC)|[(C1 & _)|(C1 & _)]])]; rewrite C1 in E;
          try (destruct E; discriminate). auto.
      * intros R. split; [auto|].
        destruct OUTC as [(C1 & _ & SC & _)|(NR & _)]; [auto|contradiction].
      * intros X; discriminate.
      * intros _. repeat split; auto.
      * intros R; contradiction.
      * intros X; discriminate.
      * destruct OUTC as [(C1 & _)|(_ & _ & [(C1 & _)|[(C1 & _)|(C1 & _)]])]; rewrite C1; discriminate.
      * intros _. congruence.
    + (* Consume *)
      destruct e; try discriminate.
      * unfold HttpBody.handle_event in H. rewrite CS in H. cbn in H. discriminate.
      * apply step_consume_request_data in H; auto. cbn zeta in H.
        destruct H as (R' & NRS & CC & OUTC).
        apply (finv_build s _ out _ I); unfold early_q, early_s; rewrite ?CS.
        -- intros E. split; [auto|].
           destruct OUTC as [(C1 & _ & -> & _)|[(C1 & _)|[(C1 & _)|(C1 & _)]]]; rewrite C1 in E;
             try (destruct E; discriminate). split; [reflexivity|]. unfold rejq; cbn; tauto.
        -- intros R. split; [auto|].
           destruct OUTC as [(C1 & _ & -> & _)|[(C1 & _ & SC & _)|[(C1 & NR & _)|(C1 & NR & _)]]];
             try contradiction; auto.
        -- intros X; discriminate.
        -- intros E. split; [|auto].
           destruct OUTC as [(_ & _ & _ & S1 & _)|[(_ & _ & _ & _ & S1 & _)|[(_ & _ & S1 & _)|(_ & _ & _ & _ & _ & S1)]]];
             rewrite S1 in E; auto. destruct E as [E|[E|E]]; discriminate.
        -- intros R; contradiction.
        -- intros X Y; discriminate.
        -- destruct OUTC as [(C1 & _)|[(C1 & _)|[(C1 & _)|(C1 & _)]]]; rewrite C1; discriminate.
        -- rewrite R'. intros E. apply CR.
           destruct OUTC as [(_ & _ & _ & S1 & _)|[(_ & _ & _ & _ & S1 & _)|[(_ & _ & S1 & _)|(_ & _ & _ & _ & _ & S1)]]];
             rewrite S1 in E; auto. destruct E; discriminate.
      * apply step_consume_request_eom in H; auto.
        destruct H as (R' & NRS & NRQ & CC & _ & C1 & _ & OK & KO).
        apply (finv_build s _ out _ I); unfold early_q, early_s; rewrite ?CS, ?C1.
        -- intros [E|E]; discriminate.
        -- intros R; contradiction.
        -- intros X; discriminate.
        -- intros E. split; [|auto].
           destruct (c_ok cfg); [destruct (OK eq_refl) as (S1 & _); rewrite S1 in E; auto|].
           destruct (KO eq_refl) as (S1 & _). rewrite S1 in E. destruct E as [E|[E|E]]; discriminate.
        -- intros R; contradiction.
        -- intros X Y; discriminate.
        -- discriminate.
        -- rewrite R'. intros E. apply CR.
           destruct (c_ok cfg); [destruct (OK eq_refl) as (S1 & _); rewrite S1 in E; auto|].
           destruct (KO eq_refl) as (S1 & _). rewrite S1 in E. destruct E; discriminate.
    + (* Streaming *)
      pose proof H as H0. apply step_stream_request in H; auto.
      destruct H as (R' & S1 & NRS & NRQ & _ & REST).
      assert (C1 : client_state s' = Streaming \/ client_state s' = Done).
      { destruct e; try discriminate; destruct REST as (X & _); auto. }
      apply (finv_build s _ out _ I); unfold early_q, early_s; rewrite ?CS.
      * intros [E|E]; destruct C1 as [C1|C1]; rewrite C1 in E; discriminate.
      * intros R; contradiction.
      * intros X; discriminate.
      * rewrite S1. intros E. split; [auto|]. split; [|auto].
        destruct e; try discriminate.
        -- unfold HttpBody.handle_event in H0. rewrite CS in H0. cbn in H0. discriminate.
        -- apply REST.
        -- apply REST. intros X. rewrite X in E. destruct E as [E|[E|E]]; discriminate.
      * intros R; contradiction.
      * intros X Y; discriminate.
      * destruct C1 as [C1|C1]; rewrite C1; discriminate.
      * rewrite R', S1. exact CR.
    + unfold HttpBody.handle_event in H. rewrite RQ, CS in H. discriminate.
    + (* Errored *)
      rewrite (step_request_errored S fq fs cfg s e CS RQ) in H. inversion H; subst. rewrite app_nil_r. exact I.
  - (* response events *)
    assert (NW : client_state s <> WaitHeaders).
    { intros CW. destruct (CP CW) as (_ & SU). unfold HttpBody.handle_event in H. rewrite RQ, SU in H. discriminate. }
    destruct (server_state s) eqn:SS.
    + unfold HttpBody.handle_event in H. rewrite RQ, SS in H. discriminate.
    + (* WaitHeaders *)
      assert (B : response_body_buf s = []) by (apply CR; auto).
      destruct e; try discriminate; try (unfold HttpBody.handle_event in H; rewrite SS in H; cbn in H; discriminate).
      apply step_wait_response_headers in H; auto.
      destruct H as (B' & R' & NRQ & SC & OUTC).
      apply (finv_build s _ out _ I); unfold early_q, early_s; rewrite ?SS.
      * intros E. split; [|auto].
        destruct OUTC as [(_ & C1 & _)|(_ & C1 & _)]; rewrite C1 in E; auto. destruct E; discriminate.
      * intros R; contradiction.
      * intros X. split; [|auto]. destruct OUTC as [(_ & C1 & _)|(_ & C1 & _)]; congruence.
      * intros E. split; [auto|].
        destruct OUTC as [(S1 & _)|(NR & _ & [(S1 & CC)|(S1 & _)])]; rewrite S1 in E;
          try (destruct E as [E|[E|E]]; discriminate). auto.
      * intros R. split; [auto|]. destruct OUTC as [(S1 & C1 & _ & CC)|(NR & _)]; [auto|contradiction].
      * intros X; discriminate.
      * destruct OUTC as [(_ & C1 & _)|(_ & C1 & _)]; rewrite C1; [discriminate|auto].
      * intros _. exact B'.
    + (* Consume *)
      destruct e; try discriminate.
      * unfold HttpBody.handle_event in H. rewrite SS in H. cbn in H. discriminate.
      * apply step_consume_response_data in H; auto. cbn zeta in H.
        destruct H as (R' & NRQ & SC & OUTC).
        apply (finv_build s _ out _ I); unfold early_q, early_s; rewrite ?SS.
        -- intros E. split; [|auto].
           destruct OUTC as [(_ & C1 & _)|[(_ & C1 & _)|(_ & C1 & _)]]; rewrite C1 in E; auto. destruct E; discriminate.
        -- intros R; contradiction.
        -- intros X. split; [|auto]. destruct OUTC as [(_ & C1 & _)|[(_ & C1 & _)|(_ & C1 & _)]]; congruence.
        -- intros E. split; [auto|].
           destruct OUTC as [(S1 & _ & _ & -> & _)|[(S1 & _)|(S1 & _)]]; rewrite S1 in E;
             try (destruct E as [E|[E|E]]; discriminate). split; [reflexivity|]. unfold rejs; cbn; tauto.
        -- intros R. split; [auto|].
           destruct OUTC as [(_ & _ & _ & -> & _)|[(S1 & C1 & _ & CC & _)|(_ & _ & NR & _)]];
             try contradiction; auto.
        -- intros X; discriminate.
        -- destruct OUTC as [(_ & C1 & _)|[(_ & C1 & _)|(_ & C1 & _)]]; rewrite C1; auto; discriminate.
        -- intros E. destruct OUTC as [(S1 & _)|[(S1 & _)|(S1 & _)]]; rewrite S1 in E; destruct E; discriminate.
      * apply step_consume_response_eom in H; auto.
        destruct H as (R' & C1 & NRS & NRQ & SC & B1 & S1 & _).
        apply (finv_build s _ out _ I); unfold early_q, early_s; rewrite ?SS, ?S1, ?C1.
        -- intros E. auto.
        -- intros R; contradiction.
        -- intros X; auto.
        -- intros [E|[E|E]]; discriminate.
        -- intros R; contradiction.
        -- intros X; discriminate.
        -- exact NW.
        -- intros [E|E]; discriminate.
    + (* Streaming *)
      pose proof H as H0. apply step_stream_response in H; auto.
      destruct H as (R' & C1 & NRS & NRQ & SC & _ & REST).
      assert (S1 : server_state s' = Streaming \/ server_state s' = Done).
      { destruct e; try discriminate; try (destruct REST as (X & _)); auto. }
      apply (finv_build s _ out _ I); unfold early_q, early_s; rewrite ?SS, ?C1.
      * intros E; auto.
      * intros R; contradiction.
      * intros X; auto.
      * intros [E|[E|E]]; destruct S1 as [S1|S1]; rewrite S1 in E; discriminate.
      * intros R; contradiction.
      * intros X; discriminate.
      * exact NW.
      * intros [E|E]; destruct S1 as [S1|S1]; rewrite S1 in E; discriminate.
    + unfold HttpBody.handle_event in H. rewrite RQ, SS in H. discriminate.
    + rewrite (step_response_errored S fq fs cfg s e SS RQ) in H. inversion H; subst. rewrite app_nil_r. exact I.
Qed.

Lemma finv_init q0 s0 : finv (init S q0 s0) [].
Proof.
  unfold finv, early_q, early_s, rejq, rejs; cbn. repeat split; auto; intros; try tauto; try discriminate.
Qed.

Theorem finv_run evs : forall (s s' : st) pre out cr,
  finv s pre -> run s evs = (s', out, cr) -> finv s' (pre ++ out).
Proof.
  induction evs as [|e r IH]; intros s s' pre out cr I R.
  - cbn in R. inversion R; subst. rewrite app_nil_r. exact I.
  - cbn in R. destruct (handle_event s e) as [[s1 c1]|] eqn:HE.
    + destruct (run s1 r) as [[s2 c2] cr2] eqn:RR. inversion R; subst.
      rewrite app_assoc. eapply IH; [|exact RR]. eapply finv_step; eauto.
    + inversion R; subst. rewrite app_nil_r. exact I.
Qed.

(* the statements *)
Theorem rejected_request_never_forwarded q0 s0 evs (s : st) out cr :
  run (init S q0 s0) evs = (s, out, cr) ->
  rejq out -> server_content out = [] /\ client_state s = Errored.
Proof.
  intros R RJ. pose proof (finv_run evs _ _ [] _ _ (finv_init q0 s0) R) as (_ & J2 & _). cbn in J2.
  destruct (J2 RJ); auto.
Qed.

Theorem rejected_response_never_forwarded q0 s0 evs (s : st) out cr :
  run (init S q0 s0) evs = (s, out, cr) ->
  rejs out -> client_content out = [] /\ server_state s = Errored /\ client_state s = Errored.
Proof.
  intros R RJ. pose proof (finv_run evs _ _ [] _ _ (finv_init q0 s0) R) as (_ & _ & _ & K2 & _). cbn in K2.
  destruct (K2 RJ) as (A & B & C); auto.
Qed.

(* nothing is forwarded while a body is merely being buffered *)
Theorem buffering_forwards_nothing q0 s0 evs (s : st) out cr :
  run (init S q0 s0) evs = (s, out, cr) ->
  (client_state s = Consume -> server_content out = [])
  /\ (server_state s = Consume -> client_content out = []).
Proof.
  intros R. pose proof (finv_run evs _ _ [] _ _ (finv_init q0 s0) R) as (J1 & _ & K1 & _). cbn in J1, K1.
  split; intros C.
  - apply J1. right; auto.
  - apply K1. right; right; auto.
Qed.

End Forward.
