(* Proofs/HeadersLaws.v -- the multimap laws transported to the line-by-line model of Headers,
   and case-insensitivity of whole histories: lower-casing every name in the state and in the
   operations commutes with running the model. *)
From Coq Require Import List Bool NArith ZArith Lia.
From MV Require Import Base.Bytes Model.Headers Model.MultimapSpec Proofs.HeadersRefine Proofs.MultimapLaws.
Import ListNotations.

(* the fields whose name differs from k ignoring case, as spelled and ordered in fs *)
Definition others (k : bytes) (fs : list field) : list field :=
  filter (fun f => negb (bytes_eqb (_kconv k) (_kconv (fst f)))) fs.

Lemma others_refines k fs : abs (others k fs) = s_others bytes_eqb (lower k) (abs fs).
Proof. symmetry. apply others_abs. Qed.

Lemma count_get_all fs k : s_count bytes_eqb (abs fs) (lower k) = length (get_all fs k).
Proof. rewrite get_all_refines. unfold s_count, s_get_all. rewrite map_length. reflexivity. Qed.

(* ---------------------------------------------------------------- assignment *)
Theorem set_all_get_all fs k vs k' :
  get_all (set_all fs k vs) k' = if bytes_eqb (lower k') (lower k) then vs else get_all fs k'.
Proof.
  rewrite !get_all_refines, set_all_refines.
  destruct (bytes_eqb (lower k') (lower k)) eqn:E.
  - apply bytes_eqb_eq in E. rewrite E. apply (get_all_set_all_same lower bytes_eqb bytes_eqb_eq).
  - apply (get_all_set_all_other lower bytes_eqb bytes_eqb_eq).
    intros H. rewrite H, bytes_eqb_refl in E. discriminate.
Qed.

Theorem set_all_untouched fs k vs : others k (set_all fs k vs) = others k fs.
Proof.
  apply abs_inj. rewrite !others_refines, set_all_refines.
  apply (others_set_all lower bytes_eqb bytes_eqb_eq).
Qed.

Theorem set_all_absent_appends fs k vs :
  contains fs k = false -> set_all fs k vs = fs ++ map (fun v => (k, v)) vs.
Proof.
  intros H. apply abs_inj. rewrite set_all_refines, abs_app. rewrite contains_refines in H.
  rewrite (set_all_absent lower bytes_eqb (abs fs) k vs H). f_equal.
  unfold abs. rewrite map_map. reflexivity.
Qed.

Theorem set_all_keeps_spelling fs k vs :
  length (get_all fs k) <= length vs ->
  exists tail, map fst (set_all fs k vs) = map fst fs ++ tail.
Proof.
  intros H. rewrite <- count_get_all in H.
  destruct (set_all_keeps_names lower bytes_eqb (abs fs) k vs H) as [tail Ht].
  rewrite <- set_all_refines in Ht. exists (map snd tail).
  assert (Hm : forall l, map fst l = map snd (map fst (abs l))).
  { intros l. unfold abs. rewrite !map_map. apply map_ext. intros [a b]. reflexivity. }
  rewrite (Hm (set_all fs k vs)), Ht, map_app, <- Hm. reflexivity.
Qed.

(* ---------------------------------------------------------------- deletion *)
Theorem delitem_law fs k :
  match delitem fs k with
  | None => contains fs k = false
  | Some fs' => contains fs k = true /\ contains fs' k = false /\ others k fs' = others k fs
                /\ forall k', lower k' <> lower k -> get_all fs' k' = get_all fs k'
  end.
Proof.
  pose proof (delitem_spec bytes_eqb bytes_eqb_eq (abs fs) (lower k)) as H.
  rewrite <- delitem_refines in H. destruct (delitem fs k) as [fs'|]; simpl in H.
  - destruct H as (H1 & H2 & H3 & H4). rewrite !contains_refines.
    split; [exact H1|]. split; [exact H2|]. split.
    + apply abs_inj. rewrite !others_refines. exact H3.
    + intros k' Hk. rewrite !get_all_refines. apply H4. exact Hk.
  - rewrite contains_refines. exact H.
Qed.

(* ---------------------------------------------------------------- insertion *)
Theorem insert_law fs i k v :
  exists p, p <= length fs
    /\ insert fs i k v = firstn p fs ++ (k, v) :: skipn p fs
    /\ ((0 <= i <= Z.of_nat (length fs))%Z -> p = Z.to_nat i)
    /\ ((- Z.of_nat (length fs) <= i < 0)%Z -> p = Z.to_nat (i + Z.of_nat (length fs))).
Proof.
  exists (slice_index i (length fs)). rewrite slice_index_pos. unfold s_pos.
  split; [destruct (Z.ltb_spec i 0); lia|]. split.
  - unfold insert. rewrite slice_index_pos. reflexivity.
  - split; intros H; destruct (Z.ltb_spec i 0); lia.
Qed.

(* ---------------------------------------------------------------- iteration / length *)
Lemma abs_wf fs e : In e (abs fs) -> e_canon e = lower (e_spelled e).
Proof. unfold abs. rewrite in_map_iff. intros [[a b] [H _]]. subst e. reflexivity. Qed.

Lemma iter_canon fs : map lower (iter fs) = map e_canon (s_firsts bytes_eqb [] (abs fs)).
Proof.
  rewrite iter_refines. unfold s_iter. rewrite map_map. apply map_ext_in.
  intros e He. symmetry. apply (abs_wf fs). eapply firsts_sub. exact He.
Qed.

Theorem iter_law fs :
  NoDup (map lower (iter fs))
  /\ (forall k, In (lower k) (map lower (iter fs)) <-> contains fs k = true)
  /\ len fs = N.of_nat (length (iter fs))
  /\ (forall k, In k (iter fs) -> In k (map fst fs)).
Proof.
  destruct (iter_spec bytes_eqb bytes_eqb_eq (abs fs)) as [H1 H2].
  rewrite iter_canon. split; [exact H1|]. split.
  - intros k. rewrite contains_refines. apply H2.
  - split; [apply len_iter|]. intros k. rewrite iter_refines. unfold s_iter.
    rewrite in_map_iff. intros [e [Hk He]]. apply firsts_sub in He.
    unfold abs in He. rewrite in_map_iff in He. destruct He as [[a b] [Hab Hin]]. subst e.
    unfold e_spelled in Hk. simpl in Hk. subst a. apply in_map_iff. exists (k, b). split; [reflexivity | exact Hin].
Qed.

(* ---------------------------------------------------------------- case-insensitivity *)
Lemma to_lower_idem b : to_lower (to_lower b) = to_lower b.
Proof.
  apply byte_eqb_eq. revert b. apply (forall_bytes (fun b => byte_eqb (to_lower (to_lower b)) (to_lower b))).
  vm_compute. reflexivity.
Qed.

Lemma lower_idem k : lower (lower k) = lower k.
Proof. unfold lower. rewrite map_map. apply map_ext. apply to_lower_idem. Qed.

Theorem lookup_case_insensitive fs k k' :
  lower k = lower k' ->
  get_all fs k = get_all fs k' /\ getitem fs k = getitem fs k'
  /\ contains fs k = contains fs k' /\ delitem fs k = delitem fs k'.
Proof.
  intros H. unfold delitem, contains, getitem, get_all, _kconv. rewrite H.
  repeat split; reflexivity.
Qed.

(* lower-casing all names of a fields tuple / a state / an operation / a result *)
Definition lf (fs : list field) : list field := map (fun f => (lower (fst f), snd f)) fs.
Definition lf2 (st : state) : state := (lf (fst st), lf (snd st)).
Definition lop (o : op) : op :=
  match o with
  | OGetItem t k => OGetItem t (lower k)
  | OContains t k => OContains t (lower k)
  | OSetItem t k v => OSetItem t (lower k) v
  | ODelItem t k => ODelItem t (lower k)
  | OGetAll t k => OGetAll t (lower k)
  | OSetAll t k vs => OSetAll t (lower k) vs
  | OAdd t k v => OAdd t (lower k) v
  | OInsert t i k v => OInsert t i (lower k) v
  | OIter t => OIter t
  | OLen t => OLen t
  | OEq => OEq
  | OCopy t => OCopy t
  end.
Definition ci_result (r : result) : result :=
  match r with RKeys ks => RKeys (map lower ks) | _ => r end.
Definition ci_obs (x : result * list field) : result * list field := (ci_result (fst x), lf (snd x)).
(* equality of two header objects compares spelling, so it is not part of the case-insensitive view *)
Definition no_eq (o : op) : bool := match o with OEq => false | _ => true end.

Lemma lf_app a b : lf (a ++ b) = lf a ++ lf b.
Proof. apply map_app. Qed.

Lemma filter_lf (P : bytes -> bool) fs :
  filter (fun f => P (_kconv (fst f))) (lf fs) = lf (filter (fun f => P (_kconv (fst f))) fs).
Proof.
  unfold lf. rewrite filter_map_comm. f_equal. apply filter_ext.
  intros [a b]. unfold _kconv. simpl. rewrite lower_idem. reflexivity.
Qed.

Lemma get_all_lf fs k : get_all (lf fs) (lower k) = get_all fs k.
Proof.
  unfold get_all, _kconv. rewrite lower_idem.
  rewrite (filter_lf (fun c => bytes_eqb c (lower k))). unfold lf. rewrite map_map.
  reflexivity.
Qed.

Lemma getitem_lf fs k : getitem (lf fs) (lower k) = getitem fs k.
Proof. unfold getitem. rewrite get_all_lf. reflexivity. Qed.

Lemma contains_lf fs k : contains (lf fs) (lower k) = contains fs k.
Proof. unfold contains. rewrite getitem_lf. reflexivity. Qed.

Lemma delitem_lf fs k : delitem (lf fs) (lower k) = option_map lf (delitem fs k).
Proof.
  unfold delitem. rewrite contains_lf. destruct (contains fs k); simpl; [|reflexivity].
  unfold _kconv at 1 3. rewrite lower_idem.
  rewrite (filter_lf (fun c => negb (bytes_eqb (lower k) c))). reflexivity.
Qed.

Lemma set_all_loop_lf c fs : forall vs acc,
  set_all_loop c (lf fs) vs (lf acc)
  = (lf (fst (set_all_loop c fs vs acc)), snd (set_all_loop c fs vs acc)).
Proof.
  induction fs as [|[k v] fs IH]; intros vs acc; simpl; [reflexivity|].
  unfold _kconv. rewrite lower_idem.
  destruct (bytes_eqb (lower k) c).
  - destruct vs as [|v0 vs]; [apply IH|].
    rewrite <- (IH vs (acc ++ [(k, v0)])), lf_app. reflexivity.
  - etransitivity; [|exact (IH vs (acc ++ [(k, v)]))]. rewrite lf_app. reflexivity.
Qed.

Lemma set_all_lf fs k vs : set_all (lf fs) (lower k) vs = lf (set_all fs k vs).
Proof.
  unfold set_all, _kconv. rewrite lower_idem.
  pose proof (set_all_loop_lf (lower k) fs vs []) as H.
  change (lf []) with (@nil field) in H.
  destruct (set_all_loop (lower k) fs vs []) as [nf rest].
  destruct (set_all_loop (lower k) (lf fs) vs []) as [nf' rest'].
  simpl in H. inversion H; subst nf' rest'.
  rewrite !set_all_rest_eq, lf_app. f_equal. unfold lf. rewrite map_map. reflexivity.
Qed.

Lemma insert_lf fs i k v : insert (lf fs) i (lower k) v = lf (insert fs i k v).
Proof.
  unfold insert. unfold lf at 1 3. rewrite map_length. fold (lf fs).
  rewrite !lf_app. unfold lf. rewrite firstn_map, skipn_map. reflexivity.
Qed.

Lemma add_lf fs k v : add (lf fs) (lower k) v = lf (add fs k v).
Proof. rewrite !add_eq, lf_app. reflexivity. Qed.

Lemma iter_loop_lf fs : forall seen, iter_loop (lf fs) seen = map lower (iter_loop fs seen).
Proof.
  induction fs as [|[k v] fs IH]; intros seen; simpl; [reflexivity|].
  unfold _kconv. rewrite lower_idem.
  destruct (mem (lower k) seen); simpl; rewrite IH; reflexivity.
Qed.

Lemma iter_lf fs : iter (lf fs) = map lower (iter fs).
Proof. apply iter_loop_lf. Qed.

Lemma len_lf fs : len (lf fs) = len fs.
Proof.
  unfold len. f_equal. f_equal. f_equal. unfold lf. rewrite map_map. apply map_ext.
  intros [a b]. unfold _kconv. simpl. apply lower_idem.
Qed.

Lemma reg_lf st t : reg (lf2 st) t = lf (reg st t).
Proof. destruct st, t; reflexivity. Qed.

Lemma set_reg_lf st t fs : set_reg (lf2 st) t (lf fs) = lf2 (set_reg st t fs).
Proof. destruct st, t; reflexivity. Qed.

Lemma step_ci st o : no_eq o = true ->
  step (lf2 st) (lop o) = (ci_result (fst (step st o)), lf2 (snd (step st o))).
Proof.
  intros Hne. destruct o; simpl; rewrite ?reg_lf; try discriminate.
  - rewrite getitem_lf. destruct (getitem (reg st t) key); reflexivity.
  - rewrite contains_lf. reflexivity.
  - unfold setitem. rewrite set_all_lf, set_reg_lf. reflexivity.
  - rewrite delitem_lf. destruct (delitem (reg st t) key); simpl; [|reflexivity].
    rewrite set_reg_lf. reflexivity.
  - rewrite get_all_lf. reflexivity.
  - rewrite set_all_lf, set_reg_lf. reflexivity.
  - rewrite add_lf, set_reg_lf. reflexivity.
  - rewrite insert_lf, set_reg_lf. reflexivity.
  - rewrite iter_lf. reflexivity.
  - rewrite len_lf. reflexivity.
  - unfold copy. rewrite set_reg_lf. reflexivity.
Qed.

Lemma target_lop o : target (lop o) = target o.
Proof. destruct o; reflexivity. Qed.

Theorem run_ci : forall ops st, forallb no_eq ops = true ->
  run_ops (lf2 st) (map lop ops)
  = (map ci_obs (fst (run_ops st ops)), lf2 (snd (run_ops st ops))).
Proof.
  induction ops as [|o ops IH]; intros st H; simpl; [reflexivity|].
  simpl in H. apply andb_true_iff in H as [Ho Hops].
  rewrite (step_ci st o Ho). destruct (step st o) as [r st'] eqn:E. simpl.
  rewrite (IH st' Hops). destruct (run_ops st' ops) as [obs st''] eqn:E2. simpl.
  rewrite target_lop, reg_lf. reflexivity.
Qed.

(* Two histories that differ only in the case of names (in the initial objects and in the
   operations) give the same results, the same fields up to case of names, at every step. *)
Theorem histories_case_insensitive : forall ops ops' st st',
  lf2 st = lf2 st' -> map lop ops = map lop ops' ->
  forallb no_eq ops = true -> forallb no_eq ops' = true ->
  map ci_obs (fst (run_ops st ops)) = map ci_obs (fst (run_ops st' ops'))
  /\ lf2 (snd (run_ops st ops)) = lf2 (snd (run_ops st' ops')).
Proof.
  intros ops ops' st st' Hst Hops H H'.
  pose proof (run_ci ops st H) as R. pose proof (run_ci ops' st' H') as R'.
  rewrite Hst, Hops, R' in R.
  split; [exact (eq_sym (f_equal fst R)) | exact (eq_sym (f_equal snd R))].
Qed.
