(* Proofs/Http1ParseInv.v -- parse_establishes_inv for the field section: every header list produced by
   _read_headers and accepted by the generated validate_headers satisfies the invariant of head_roundtrip. *)
From Coq Require Import List Bool NArith ZArith Lia.
From MV Require Import Base.Bytes Model.Http1Msg Model.BodySizePrelude Gen.BodySize Model.Rfc9112
  Proofs.Http1Regex Proofs.Http1Validate Proofs.Http1Framing Proofs.Http1FramingMain Proofs.Http1Lines Proofs.Http1Roundtrip.
Import ListNotations.

Lemma ows_pyspace b : is_ows b = true -> is_pyspace b = true.
Proof.
  intros H. assert (X : implb (is_ows b) (is_pyspace b) = true)
    by (revert b H; intros b _; revert b; apply (forall_bytes (fun b => implb (is_ows b) (is_pyspace b))); vm_compute; reflexivity).
  rewrite H in X. exact X.
Qed.

Lemma rtrim_rstrip t : rtrim_ows (rstrip t) = rstrip t.
Proof.
  induction t as [|x t IH]; simpl; auto.
  destruct (rstrip t) as [|y r] eqn:E.
  - destruct (is_pyspace x) eqn:P; simpl; auto.
    destruct (is_ows x) eqn:O; auto. rewrite (ows_pyspace _ O) in P. discriminate.
  - change (rtrim_ows (x :: y :: r)) with (match rtrim_ows (y :: r) with [] => if is_ows x then [] else [x] | t0 => x :: t0 end).
    rewrite IH. reflexivity.
Qed.

Lemma rstrip_head x t : rstrip (x :: t) = [] \/ exists r, rstrip (x :: t) = x :: r.
Proof. simpl. destruct (rstrip t); [destruct (is_pyspace x)|]; eauto. Qed.

Lemma strip_trim_stable s : trim_ows (strip s) = strip s.
Proof.
  unfold trim_ows, strip.
  assert (L : ltrim_ows (rstrip (lstrip s)) = rstrip (lstrip s)).
  { induction s as [|x s IH]; simpl; auto. destruct (is_pyspace x) eqn:P; auto.
    destruct (rstrip_head x s) as [E | [r E]]; rewrite E; auto.
    simpl. destruct (is_ows x) eqn:O; auto. rewrite (ows_pyspace _ O) in P. discriminate. }
  rewrite L. apply rtrim_rstrip.
Qed.

Definition vprop (f : header) : Prop := (exists x, snd f = strip x) \/ In CR (snd f).

Lemma read_headers_go_values lines : forall ret hs,
  Forall vprop ret -> _read_headers_go lines ret = Ok hs -> Forall vprop hs.
Proof.
  induction lines as [|l lines IH]; intros ret hs P H; simpl in H.
  - injection H as <-. apply Forall_rev, P.
  - destruct l as [|c l']; [discriminate|].
    destruct (byte_eqb c SP || byte_eqb c HT).
    + destruct ret as [|[n v] ret']; [discriminate|].
      refine (IH _ _ _ H). inversion P; subst. constructor; auto.
      right. simpl. apply in_or_app. right. left. reflexivity.
    + destruct (partition1 COLON (c :: l')) as [[name found] value].
      destruct found; [|discriminate]. destruct name; [discriminate|].
      refine (IH _ _ _ H). constructor; auto. left. simpl. eauto.
Qed.

Lemma not_bad_clean v : bad_value v = false -> clean v = true /\ ~ In CR v.
Proof.
  unfold bad_value. rewrite !contains1. intros H.
  apply orb_false_iff in H as [H H3]. apply orb_false_iff in H as [H1 H2].
  assert (NC : ~ In CR v).
  { intros Hin. assert (existsb (byte_eqb x0d) v = true) by (apply existsb_exists; exists CR; split; auto). congruence. }
  split; auto. unfold clean, no_lf. change rLF with x0a. rewrite H2. rewrite andb_true_r. apply negb_true_iff.
  clear -H1 H3. induction v as [|x v IH]; simpl in *; auto.
  apply orb_false_iff in H1 as [A1 B1]. apply orb_false_iff in H3 as [A3 B3].
  rewrite (IH B1 B3), orb_false_r. unfold is_cr_or_nul.
  destruct (byte_eqb x rCR) eqn:E1; [apply byte_eqb_eq in E1; subst; discriminate|].
  destruct (byte_eqb x x00) eqn:E2; [apply byte_eqb_eq in E2; subst; discriminate|]. reflexivity.
Qed.

Theorem parse_establishes_inv_fields lines hs m :
  _read_headers lines = Ok hs -> msg_headers m = hs -> validate_headers m = Ok tt ->
  Forall (fun f => existsb (byte_eqb LF) (fst f) = false) hs ->
  Forall field_inv hs.
Proof.
  intros R <- V NL. destruct (validate_accepts _ V) as [F _].
  pose proof (read_headers_go_values lines [] _ (Forall_nil _) R) as VP.
  rewrite forallb_forall in F. rewrite Forall_forall in *.
  intros [n v] Hin. specialize (F _ Hin). specialize (VP _ Hin). specialize (NL _ Hin).
  unfold field_ok in F. unfold field_inv. unfold vprop in VP. cbn [fst snd] in *. apply andb_true_iff in F as [F1 F2]. apply negb_true_iff in F2.
  destruct (not_bad_clean _ F2) as [C NC].
  rewrite (valid_name_token _ NL) in F1.
  split; [exact F1|]. split; [exact C|].
  destruct VP as [[x ->] | Hcr]; [apply strip_trim_stable | contradiction].
Qed.
