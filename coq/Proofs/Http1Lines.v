(* Proofs/Http1Lines.v -- the line layer of the reference parser on CRLF-terminated lines. *)
From Coq Require Import List Bool NArith ZArith Lia.
From MV Require Import Base.Bytes Model.Rfc9112.
Import ListNotations.

Definition no_lf (l : bytes) : bool := negb (existsb (byte_eqb rLF) l).
Definition clean (l : bytes) : bool := negb (existsb is_cr_or_nul l) && no_lf l.

Lemma read_raw_line_app l rest : no_lf l = true ->
  read_raw_line (l ++ [rCR; rLF] ++ rest) = Some (l ++ [rCR], rest).
Proof.
  unfold no_lf. induction l as [|x l IH]; simpl; intros H; auto.
  apply negb_true_iff in H. apply orb_false_iff in H as [A B].
  assert (byte_eqb x rLF = false).
  { destruct (byte_eqb x rLF) eqn:E; auto. apply byte_eqb_eq in E; subst. discriminate. }
  rewrite H. simpl in IH. rewrite IH; auto. apply negb_true_iff, B.
Qed.

Lemma strip_cr_app l : strip_cr (l ++ [rCR]) = Some l.
Proof.
  induction l as [|x l IH]; simpl; auto.
  rewrite IH. destruct (l ++ [rCR]) eqn:E; auto. destruct l; discriminate.
Qed.

Lemma clean_line_crlf o l : clean l = true -> clean_line o (l ++ [rCR]) = Some l.
Proof.
  unfold clean, clean_line. intros H. apply andb_true_iff in H as [A _]. apply negb_true_iff in A.
  rewrite strip_cr_app, A. reflexivity.
Qed.

Lemma read_line_crlf o l rest : clean l = true -> read_line o (l ++ [rCR; rLF] ++ rest) = Some (Some l, rest).
Proof.
  intros H. unfold read_line. rewrite read_raw_line_app.
  - rewrite clean_line_crlf; auto.
  - unfold clean in H. apply andb_true_iff in H as [_ B]. exact B.
Qed.

(* head_lines over CRLF-terminated clean non-empty lines followed by an empty line *)
Lemma head_lines_line l s cur : no_lf l = true ->
  head_lines (l ++ s) cur = head_lines s (rev l ++ cur).
Proof.
  unfold no_lf. revert cur. induction l as [|x l IH]; intros cur H; simpl; auto.
  simpl in H. apply negb_true_iff in H. apply orb_false_iff in H as [A B].
  assert (E : byte_eqb x rLF = false).
  { destruct (byte_eqb x rLF) eqn:E; auto. apply byte_eqb_eq in E; subst. discriminate. }
  rewrite E, IH by (apply negb_true_iff, B). rewrite <- app_assoc. reflexivity.
Qed.

Fixpoint wire (ls : list bytes) : bytes :=
  match ls with [] => [] | l :: ls' => l ++ [rCR; rLF] ++ wire ls' end.

Lemma head_lines_wire ls rest :
  forallb (fun l => no_lf l && match l with [] => false | _ => true end) ls = true ->
  head_lines (wire ls ++ [rCR; rLF] ++ rest) [] = Some (map (fun l => l ++ [rCR]) ls, [rCR], rest).
Proof.
  induction ls as [|l ls IH]; intros H.
  - reflexivity.
  - simpl in H. apply andb_true_iff in H as [A B]. apply andb_true_iff in A as [A1 A2].
    cbn [wire]. rewrite <- !app_assoc. rewrite head_lines_line by assumption.
    cbn [app head_lines]. change (byte_eqb rCR rLF) with false. cbv iota.
    cbn [head_lines]. change (byte_eqb rLF rLF) with true. cbv iota.
    assert (Hb : is_blank_raw (rev (rCR :: rev l ++ [])) = false).
    { rewrite app_nil_r. simpl. rewrite rev_involutive. destruct l as [|x [|y l]]; try discriminate; reflexivity. }
    rewrite Hb. specialize (IH B). cbn [app] in IH. rewrite IH.
    rewrite app_nil_r. simpl rev. rewrite rev_involutive. reflexivity.
Qed.

Lemma clean_lines_wire o ls : forallb clean ls = true -> clean_lines o (map (fun l => l ++ [rCR]) ls) = Some ls.
Proof.
  induction ls as [|l ls IH]; simpl; auto. intros H. apply andb_true_iff in H as [A B].
  rewrite clean_line_crlf, IH; auto.
Qed.

Lemma span_all p s rest : forallb p s = true -> (match rest with [] => true | c :: _ => negb (p c) end) = true ->
  span p (s ++ rest) = (s, rest).
Proof.
  induction s as [|x s IH]; simpl; intros H R.
  - destruct rest as [|c r]; auto. simpl. apply negb_true_iff in R. rewrite R. reflexivity.
  - apply andb_true_iff in H as [A B]. rewrite A, IH; auto.
Qed.
