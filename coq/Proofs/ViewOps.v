(* Proofs/ViewOps.v -- the invariant of the View, the guards that isolate the two findings, the meaning of
   the notifications, and the composite functions _refilter, set_order, _OrderKey.refresh. *)
From Coq Require Import List Bool Arith NArith ZArith Lia Permutation Sorted.
From MV Require Import Base.Bytes Model.View Proofs.ViewBase Proofs.ViewSpec Proofs.ViewPrim.
Import ListNotations.

Record Inv (s : state) : Prop := {
  i_core : CoreV s; i_sids : SidsOk s; i_focus : FocusOk s; i_m1 : M1 s; i_m2 : M2 s }.

(* the complement of finding stale-order-key: an update never leaves an outdated cached key behind *)
Definition fresh_ok (s : state) (o : op) : Prop :=
  match o with
  | Update f => In (fid f) (store s) -> forall o' k, cache_of s (fid f) o' = Some k -> k <> generate o' f ->
                o' = okey s /\ In (fid f) (raw_ids s) /\ shows s f = true
  | _ => True
  end.

(* what a listener can conclude from the signals of one call: starting from the shown ids [l] it arrives
   at the shown ids [l'] (as a set; position is given for removals) *)
Inductive notif : list N -> list sig -> list N -> Prop :=
| n_done l l' : Permutation l l' -> notif l [] l'
| n_add id l l1 evs l' : ~ In id l -> Permutation (id :: l) l1 -> notif l1 evs l' -> notif l (ViewAdd id :: evs) l'
| n_remove id idx l l1 evs l' : nth_error l idx = Some id -> Permutation l (id :: l1) -> ~ In id l1 ->
    notif l1 evs l' -> notif l (ViewRemove id idx :: evs) l'
| n_update id l l1 evs l' : In id l -> Permutation l l1 -> notif l1 evs l' -> notif l (ViewUpdate id :: evs) l'
| n_refresh l l1 evs l' : notif l1 evs l' -> notif l (ViewRefresh :: evs) l'
| n_sremove id l evs l' : notif l evs l' -> notif l (StoreRemove id :: evs) l'
| n_srefresh l evs l' : notif l evs l' -> notif l (StoreRefresh :: evs) l'.

(* ---------- transport ---------- *)
Lemma Inv_transfer s s' : updm s s' -> view s' = view s -> FocusOk s' -> Inv s -> Inv s'.
Proof.
  intros U V F [A B C D E]. pose proof (u_cfg _ _ (um_upd _ _ U)) as Cf. constructor.
  - eapply CoreV_updm; eauto.
  - eapply Sids_upd; [apply (um_upd _ _ U) | exact B].
  - exact F.
  - eapply M1_cfg; eauto.
  - eapply M2_cfg; eauto.
Qed.

Lemma sent_CoreV e s s' : sent e s s' -> CoreV s -> CoreV s'.
Proof. intros [U V _]. apply CoreV_updm; assumption. Qed.
Lemma sent_raw_ids e s s' : sent e s s' -> raw_ids s' = raw_ids s.
Proof. intros [_ V _]. unfold raw_ids. rewrite V. reflexivity. Qed.

Lemma forM_inv {A} (f : A -> M unit) (I : list A -> state -> Prop) (l0 : list A) :
  (forall done x rest s, l0 = done ++ x :: rest -> I done s -> exists s', f x s = Ok (tt, s') /\ I (done ++ [x]) s') ->
  forall l done s, l0 = done ++ l -> I done s -> exists s', forM l f s = Ok (tt, s') /\ I l0 s'.
Proof.
  intros Hf. induction l as [|x t IH]; intros done s E HI.
  - rewrite app_nil_r in E. subst. exists s. split; [reflexivity | exact HI].
  - destruct (Hf done x t s E HI) as (s1 & E1 & H1). simpl. rewrite (bind_ok _ _ _ _ _ E1).
    apply (IH (done ++ [x])); [rewrite <- app_assoc; exact E | exact H1].
Qed.

(* ---------- _refilter ---------- *)
Lemma wanted_cases s x :
  (show_marked s && negb (fmarked (attr s x)) = true -> wanted s x = false) /\
  (show_marked s && negb (fmarked (attr s x)) = false -> wanted s x = fmatches (filt s) (attr s x)).
Proof. unfold wanted. destruct (show_marked s), (fmarked (attr s x)), (fmatches (filt s) (attr s x)); simpl; auto. Qed.

Lemma refilter_spec s : NoDup (store s) ->
  exists s', _refilter s = Ok (tt, s') /\ updm s s' /\ log s' = log s ++ [ViewRefresh]
  /\ CoreV s' /\ FocusOk s' /\ M1 s' /\ M2 s' /\ M3 s'.
Proof.
  intros Nd. unfold _refilter. msimp.
  set (s0 := set_view [] s).
  assert (U0 : updm s s0) by (apply updm_same_settings; [constructor; reflexivity | reflexivity]).
  pose (I := fun (done : list N) (t : state) =>
    updm s0 t /\ focus t = focus s0 /\ log t = log s0 /\ CoreV t
    /\ forall id, In id (raw_ids t) <-> In id done /\ wanted s id = true).
  assert (I0 : I [] s0).
  { split; [apply updm_refl|]. split; [reflexivity|]. split; [reflexivity|]. split.
    - constructor; simpl; [exact Nd | apply ksorted_nil | intros k id [] | constructor].
    - intros id. simpl. tauto. }
  destruct (forM_inv
    (fun i => s1 <- gets (fun s1 => s1) ;;
       if show_marked s1 && negb (fmarked (attr s1 i)) then ret tt
       else if fmatches (filt s1) (attr s1 i) then _base_add i else ret tt) I (store s)) with (l := store s) (done := @nil N) (s := s0)
    as (s1 & E1 & (U1 & F1 & L1 & C1 & Hm)); [|reflexivity|exact I0|].
  { intros done x rest t Est (Ut & Ft & Lt & Ct & Hids). msimp.
    pose proof (u_cfg _ _ (um_upd _ _ (updm_trans _ _ _ U0 Ut))) as Cf.
    rewrite (attr_cfg _ _ x Cf), (ce_sm _ _ Cf), (ce_filt _ _ Cf).
    destruct (wanted_cases s x) as [W1 W2].
    assert (Hx : ~ In x done).
    { rewrite Est in Nd. apply NoDup_remove_2 in Nd. intros H. apply Nd. apply in_or_app. auto. }
    assert (Skip : I (done ++ [x]) t -> exists s', ret tt t = Ok (tt, s') /\ I (done ++ [x]) s') by (intros HI; exists t; split; [reflexivity | exact HI]).
    assert (Same : wanted s x = false -> I (done ++ [x]) t).
    { intros W. split; [exact Ut|]. split; [exact Ft|]. split; [exact Lt|]. split; [exact Ct|].
      intros id. rewrite Hids, in_app_iff. simpl. split; [tauto|].
      intros [[H|[H|[]]] Hw]; [tauto | subst; congruence]. }
    destruct (show_marked s && negb (fmarked (attr s x))) eqn:Eb.
    - apply Skip, Same, W1. reflexivity.
    - specialize (W2 eq_refl). destruct (fmatches (filt s) (attr s x)) eqn:Em.
      + assert (Hst : In x (store t)).
        { rewrite (ce_store _ _ Cf), Est. apply in_or_app. right. left. reflexivity. }
        assert (Hn : ~ In x (raw_ids t)) by (rewrite Hids; tauto).
        destruct (base_add_spec x t Ct Hst Hn) as (t' & E & U & F & L & C' & P).
        exists t'. split; [exact E|]. split; [eapply updm_trans; eauto|].
        split; [congruence|]. split; [congruence|]. split; [exact C'|].
        intros id. split.
        * intros H. apply (Permutation_in _ P) in H. rewrite in_app_iff. destruct H as [<-|H].
          { split; [right; left; reflexivity | exact W2]. }
          { apply Hids in H. tauto. }
        * intros [H Hw]. apply (Permutation_in _ (Permutation_sym P)). rewrite in_app_iff in H.
          destruct H as [H|[<-|[]]]; [right; apply Hids; tauto | left; reflexivity].
      + apply Skip, Same, W2. }
  rewrite (bind_ok _ _ _ _ _ E1).
  destruct (send_view_refresh_spec s1 C1) as (s2 & E2 & X2 & F2).
  exists s2. split; [exact E2|].
  assert (U : updm s s2) by (eapply updm_trans; [exact U0 | eapply updm_trans; [exact U1 | apply (sn_updm _ _ _ X2)]]).
  pose proof (u_cfg _ _ (um_upd _ _ U)) as Cf.
  split; [exact U|]. split; [rewrite (sn_log _ _ _ X2), L1; reflexivity|].
  split; [eapply sent_CoreV; eauto|]. split; [exact F2|].
  rewrite <- (sent_raw_ids _ _ _ X2) in Hm.
  split; [|split].
  - intros id H. apply Hm in H as [_ H]. rewrite (attr_cfg _ _ id Cf), (ce_filt _ _ Cf).
    unfold wanted in H. apply andb_true_iff in H. tauto.
  - intros id H Hw. apply Hm. rewrite (ce_store _ _ Cf) in H. rewrite (wanted_cfg _ _ id Cf) in Hw. auto.
  - intros Hs id H. apply Hm in H as [_ H]. rewrite (attr_cfg _ _ id Cf). rewrite (ce_sm _ _ Cf) in Hs.
    unfold wanted in H. rewrite Hs in H. apply andb_true_iff in H. simpl in H. tauto.
Qed.

(* ---------- set_order: keys of all shown flows under the new order ---------- *)
Lemma mapM_keys o ids s : (forall id, In id ids -> In id (store s)) ->
  exists kv s', mapM (fun id => k <- okey_call o id ;; ret (k, id)) ids s = Ok (kv, s') /\ ext s s'
  /\ map snd kv = ids /\ forall k id, In (k, id) kv -> cache_of s' id o = Some k.
Proof.
  revert s. induction ids as [|x t IH]; intros s Hst; simpl.
  - exists [], s. split; [reflexivity|]. split; [apply ext_refl|]. split; [reflexivity|]. intros k id [].
  - destruct (okey_call_spec o x s) as (k & s1 & E1 & X1 & _ & Hk & _).
    msimp. rewrite (bind_ok _ _ _ _ _ E1). msimp.
    assert (St1 : store s1 = store s) by apply (ce_store _ _ (u_cfg _ _ (um_upd _ _ (e_updm _ _ X1)))).
    destruct (IH s1) as (kv & s2 & E2 & X2 & Hm & Hc).
    { intros id H. rewrite St1. apply Hst. right. exact H. }
    rewrite (bind_ok _ _ _ _ _ E2). msimp.
    exists ((k, x) :: kv), s2. split; [reflexivity|]. split; [eapply ext_trans; eauto|].
    split; [simpl; congruence|].
    intros k' id [H|H]; [|auto]. inversion H; subst.
    apply (um_mono _ _ (e_updm _ _ X2)). apply Hk. apply Hst. left. reflexivity.
Qed.

(* ---------- overwriting one cached key with the current one (refresh) ---------- *)
Lemma upd_cache_set s id o c : In id (store s) -> sget (settings s) id = Some c ->
  let s' := set_settings (sset (settings s) id (cset o (generate o (attr s id)) c)) s in
  upd s s' /\ (forall id' o', id' <> id -> cache_of s' id' o' = cache_of s id' o')
  /\ cache_of s' id o = Some (generate o (attr s id)).
Proof.
  intros Hst Es s'. split; [|split].
  - constructor.
    + constructor; reflexivity.
    + intros id' o' k. unfold s'. rewrite cache_of_sset. destruct (N.eqb id id') eqn:E; [|auto].
      apply N.eqb_eq in E. subst id'. rewrite cget_cset. destruct (order_eqb o' o) eqn:E2.
      * apply order_eqb_eq in E2. subst. intros [= <-]. auto.
      * unfold cache_of. rewrite Es. auto.
    + intros id' H. unfold settings_ids, s' in H. simpl in H. apply sset_ids in H. destruct H as [->|H]; auto.
  - intros id' o' Hne. unfold s'. rewrite cache_of_sset.
    destruct (N.eqb id id') eqn:E; [apply N.eqb_eq in E; congruence | reflexivity].
  - unfold s'. rewrite cache_of_sset, N.eqb_refl, cget_cset.
    replace (order_eqb o o) with true by (symmetry; apply order_eqb_eq; reflexivity). reflexivity.
Qed.

Lemma NoDup_ids_split (l1 l2 : list (N * N)) k id :
  NoDup (map snd (l1 ++ (k, id) :: l2)) -> ~ In id (map snd (l1 ++ l2)) /\ NoDup (map snd (l1 ++ l2)).
Proof.
  rewrite !map_app. simpl. intros H. split; [apply NoDup_remove_2 in H; exact H | apply NoDup_remove_1 in H; exact H].
Qed.

Lemma okey_refresh_spec id s : CoreV s -> In id (raw_ids s) -> FocusOk s ->
  exists s', okey_refresh (okey s) id s = Ok (tt, s') /\ upd s s' /\ CoreV s'
  /\ Permutation (raw_ids s') (raw_ids s) /\ FocusOk s'
  /\ (log s' = log s \/ log s' = log s ++ [ViewRefresh])
  /\ cache_of s' id (okey s) = Some (generate (okey s) (attr s id)).
Proof.
  intros C Hin Fo. unfold okey_refresh.
  destruct (in_ids_split _ _ Hin) as [kold Hin0].
  destruct (c_cached _ C _ _ Hin0) as [Hst Hk].
  destruct (settings_getitem_spec id s Hst) as (c & s1 & E1 & X1 & Hs1 & Hc1).
  rewrite (bind_ok _ _ _ _ _ E1). rewrite Hc1, Hk. msimp.
  pose proof (u_cfg _ _ (um_upd _ _ (e_updm _ _ X1))) as Cf1.
  rewrite (attr_cfg _ _ id Cf1).
  assert (C1 : CoreV s1) by (apply (CoreV_updm s s1); [apply (e_updm _ _ X1) | apply (e_view _ _ X1) | exact C]).
  destruct (N.eqb kold (generate (okey s) (attr s id))) eqn:Eq.
  - apply N.eqb_eq in Eq. exists s1. split; [reflexivity|]. split; [apply (um_upd _ _ (e_updm _ _ X1))|].
    split; [exact C1|]. split; [unfold raw_ids; rewrite (e_view _ _ X1); reflexivity|].
    split; [eapply FocusOk_eq; [apply (e_view _ _ X1) | apply (e_focus _ _ X1) | exact Fo]|].
    split; [left; apply (e_log _ _ X1)|].
    rewrite <- Eq. apply (um_mono _ _ (e_updm _ _ X1)). exact Hk.
  - assert (Hin1 : In id (raw_ids s1)) by (unfold raw_ids; rewrite (e_view _ _ X1); exact Hin).
    destruct (view_remove_spec id s1 C1 Hin1) as (s2 & E2 & U2 & F2 & L2 & k2 & l1 & l2 & V1 & V2).
    rewrite (bind_ok _ _ _ _ _ E2).
    pose proof (u_cfg _ _ (um_upd _ _ U2)) as Cf2.
    assert (Hst2 : In id (store s2)) by (rewrite (ce_store _ _ Cf2), (ce_store _ _ Cf1); exact Hst).
    destruct (settings_getitem_spec id s2 Hst2) as (c' & s3 & E3 & X3 & Hs3 & Hc3).
    rewrite (bind_ok _ _ _ _ _ E3). msimp.
    pose proof (u_cfg _ _ (um_upd _ _ (e_updm _ _ X3))) as Cf3.
    assert (Hst3 : In id (store s3)) by (rewrite (ce_store _ _ Cf3); exact Hst2).
    assert (A3 : attr s3 id = attr s id).
    { rewrite (attr_cfg _ _ id Cf3), (attr_cfg _ _ id Cf2), (attr_cfg _ _ id Cf1). reflexivity. }
    assert (O3 : okey s3 = okey s) by (rewrite (ce_okey _ _ Cf3), (ce_okey _ _ Cf2), (ce_okey _ _ Cf1); reflexivity).
    destruct (upd_cache_set s3 id (okey s) c' Hst3 Hs3) as (U4 & Same4 & New4).
    rewrite A3 in *.
    set (s4 := set_settings (sset (settings s3) id (cset (okey s) (generate (okey s) (attr s id)) c')) s3) in *.
    (* the list without id is a consistent sorted list in s4 *)
    assert (V4 : view s4 = l1 ++ l2) by (simpl; rewrite (e_view _ _ X3); exact V2).
    assert (Nd1 : NoDup (map snd (l1 ++ (k2, id) :: l2))) by (rewrite <- V1; apply (c_nodup _ C1)).
    destruct (NoDup_ids_split _ _ _ _ Nd1) as [Hnid Nd4].
    assert (U14 : upd s1 s4).
    { eapply upd_trans; [apply (um_upd _ _ U2) | eapply upd_trans; [apply (um_upd _ _ (e_updm _ _ X3)) | exact U4]]. }
    assert (C4 : CoreV s4).
    { constructor.
      - rewrite (ce_store _ _ (u_cfg _ _ U14)). apply (c_store _ C1).
      - rewrite V4. apply (ksorted_app_remove l1 (k2, id) l2). rewrite <- V1. apply (c_sorted _ C1).
      - intros k' id' H. rewrite V4 in H.
        assert (H1 : In (k', id') (view s1)).
        { rewrite V1. apply in_app_iff in H. apply in_or_app. simpl. tauto. }
        destruct (c_cached _ C1 _ _ H1) as [A B].
        rewrite (ce_store _ _ (u_cfg _ _ U14)), (ce_okey _ _ (u_cfg _ _ U14)). split; [exact A|].
        assert (id' <> id) by (intros ->; apply Hnid; eapply in_ids; eauto).
        rewrite Same4 by assumption.
        apply (um_mono _ _ (e_updm _ _ X3)), (um_mono _ _ U2). exact B.
      - unfold raw_ids. rewrite V4. exact Nd4. }
    destruct (view_add_spec id s4) as (s5 & E5 & U5 & F5 & L5 & k5 & V5 & Hk5 & Hn5).
    rewrite (bind_ok _ _ _ _ _ E5).
    assert (O4 : okey s4 = okey s) by exact O3.
    assert (Hst4 : In id (store s4)) by exact Hst3.
    rewrite O4 in *.
    assert (k5 = generate (okey s) (attr s id)) by (apply (Hk5 Hst4 _ New4)). subst k5.
    assert (Hn4 : ~ In id (raw_ids s4)) by (unfold raw_ids; rewrite V4; exact Hnid).
    destruct (CoreV_add s4 s5 _ id C4 U5 V5 Hst4 Hn4) as [C5 P5]; [rewrite O4; auto|].
    destruct (send_view_refresh_spec s5 C5) as (s6 & E6 & X6 & F6).
    exists s6. split; [exact E6|].
    assert (U : upd s s6).
    { eapply upd_trans; [apply (um_upd _ _ (e_updm _ _ X1))|].
      eapply upd_trans; [exact U14|]. eapply upd_trans; [apply (um_upd _ _ U5) | apply (um_upd _ _ (sn_updm _ _ _ X6))]. }
    split; [exact U|]. split; [eapply sent_CoreV; eauto|].
    split.
    { rewrite (sent_raw_ids _ _ _ X6). rewrite P5. unfold raw_ids. rewrite V4.
      rewrite <- (e_view _ _ X1), V1. rewrite !map_app. simpl. apply Permutation_middle. }
    split; [exact F6|]. split.
    { right. rewrite (sn_log _ _ _ X6), L5. simpl. rewrite (e_log _ _ X3), L2, (e_log _ _ X1). reflexivity. }
    apply (um_mono _ _ (sn_updm _ _ _ X6)). apply Hn5. exact Hst4.
Qed.
