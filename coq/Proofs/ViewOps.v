(* Proofs/ViewOps.v -- the invariant of the View, the meaning of the notifications, and the composite
   functions regen/_base_add, _refilter, set_order (key part), _OrderKey.refresh. *)
From Coq Require Import List Bool Arith NArith ZArith Lia Permutation Sorted.
From MV Require Import Base.Bytes Model.View Proofs.ViewBase Proofs.ViewSpec Proofs.ViewPrim.
Import ListNotations.

Record Inv (s : state) : Prop := {
  i_core : CoreV s; i_sids : SidsOk s; i_focus : FocusOk s; i_m1 : M1 s; i_m2 : M2 s }.

(* the key under which a shown flow is filed is its current key for the selected order *)
Definition FreshV (s : state) : Prop := forall k id, In (k, id) (view s) -> k = generate (okey s) (attr s id).

(* what a listener can conclude from the signals of one call: starting from the shown ids [l] it arrives
   at the shown ids [l'] (as a set; position is given for removals) *)
Inductive notif : list N -> list sig -> list N -> Prop :=
| n_done l l' : Permutation l l' -> notif l [] l'
| n_add id l l1 evs l' : ~ In id l -> Permutation (id :: l) l1 -> notif l1 evs l' -> notif l (ViewAdd id :: evs) l'
| n_remove id idx l l1 evs l' : nth_error l idx = Some id -> Permutation l (id :: l1) -> ~ In id l1 ->
    notif l1 evs l' -> notif l (ViewRemove id idx :: evs) l'
| n_update id l l1 evs l' : In id l -> Permutation l l1 -> notif l1 evs l' -> notif l (ViewUpdate id :: evs) l'
| n_refresh l l1 evs l' : notif l1 evs l' -> notif l (ViewRefresh :: evs) l'
| n_sremove id l evs l' : notif l evs l' -> notif l (StoreRemove id :: evs) l'
| n_srefresh l evs l' : notif l evs l' -> notif l (StoreRefresh :: evs) l'.

(* ---------- transport ---------- *)
Lemma Inv_transfer s s' : upd s s' -> CoreV s' -> view s' = view s -> FocusOk s' -> Inv s -> Inv s'.
Proof.
  intros U C' V F [A B C D E]. pose proof (u_cfg _ _ U) as Cf. constructor.
  - exact C'.
  - eapply Sids_upd; [exact U | exact B].
  - exact F.
  - eapply M1_cfg; eauto.
  - eapply M2_cfg; eauto.
Qed.
Lemma FreshV_cfg s s' : cfg_eq s s' -> view s' = view s -> FreshV s -> FreshV s'.
Proof. intros C V H k id Hin. rewrite V in Hin. rewrite (ce_okey _ _ C), (attr_cfg _ _ id C). apply H. exact Hin. Qed.

Lemma sent_CoreV e s s' : sent e s s' -> CoreV s -> CoreV s'.
Proof. intros [U V _]. apply CoreV_updm; assumption. Qed.
Lemma sent_raw_ids e s s' : sent e s s' -> raw_ids s' = raw_ids s.
Proof. intros [_ V _]. unfold raw_ids. rewrite V. reflexivity. Qed.

Lemma forM_inv {A} (f : A -> M unit) (I : list A -> state -> Prop) (l0 : list A) :
  (forall done x rest s, l0 = done ++ x :: rest -> I done s -> exists s', f x s = Ok (tt, s') /\ I (done ++ [x]) s') ->
  forall l done s, l0 = done ++ l -> I done s -> exists s', forM l f s = Ok (tt, s') /\ I l0 s'.
Proof.
  intros Hf. induction l as [|x t IH]; intros done s E HI.
  - rewrite app_nil_r in E. subst. exists s. split; [reflexivity | exact HI].
  - destruct (Hf done x t s E HI) as (s1 & E1 & H1). simpl. rewrite (bind_ok _ _ _ _ _ E1).
    apply (IH (done ++ [x])); [rewrite <- app_assoc; exact E | exact H1].
Qed.

(* writing one fresh key into the settings entry obtained from Settings.__getitem__ *)
Lemma setkey_facts o id v c s s1 : In id (store s) -> ext s s1 -> sget (settings s1) id = Some c ->
  (forall o', cget o' c = cache_of s id o') -> (forall id' o', cache_of s1 id' o' = cache_of s id' o') ->
  v = generate o (attr s id) ->
  let s' := set_settings (sset (settings s1) id (cset o v c)) s1 in
  upd s s' /\ cache_of s' id o = Some v
  /\ (forall id' o', id' <> id \/ o' <> o -> cache_of s' id' o' = cache_of s id' o').
Proof.
  intros Hst X1 Hs1 Hc1 Same1 Hv s'. subst v.
  pose proof (um_upd _ _ (e_updm _ _ X1)) as U1. pose proof (u_cfg _ _ U1) as Cf1.
  assert (Q : forall id' o', cache_of s' id' o'
              = if N.eqb id id' then (if order_eqb o' o then Some (generate o (attr s id)) else cache_of s id o')
                else cache_of s1 id' o').
  { intros id' o'. unfold s'. rewrite cache_of_sset. destruct (N.eqb id id'); [|reflexivity]. rewrite cget_cset, Hc1. reflexivity. }
  split; [|split].
  - constructor.
    + destruct Cf1; constructor; assumption.
    + intros id' o' k. rewrite Q. destruct (N.eqb id id') eqn:Ee.
      * apply N.eqb_eq in Ee. subst id'. destruct (order_eqb o' o) eqn:Eo; [|auto].
        apply order_eqb_eq in Eo. subst. intros [= <-]. auto.
      * rewrite Same1. auto.
    + intros id' H. unfold settings_ids, s' in H. simpl in H. apply sset_ids in H. destruct H as [->|H]; [auto|].
      apply (u_ids _ _ U1). exact H.
  - rewrite Q, N.eqb_refl. replace (order_eqb o o) with true by (symmetry; apply order_eqb_eq; reflexivity). reflexivity.
  - intros id' o' Hne. rewrite Q. destruct (N.eqb id id') eqn:Ee.
    + apply N.eqb_eq in Ee. subst id'. destruct (order_eqb o' o) eqn:Eo; [|reflexivity].
      apply order_eqb_eq in Eo. destruct Hne; congruence.
    + apply Same1.
Qed.

(* ---------- regen: settings[f][key name] = generate(f) ---------- *)
Lemma regen_spec o id s : In id (store s) ->
  exists s', regen o id s = Ok (tt, s') /\ upd s s' /\ view s' = view s /\ focus s' = focus s /\ log s' = log s
  /\ cache_of s' id o = Some (generate o (attr s id))
  /\ (forall id' o', id' <> id \/ o' <> o -> cache_of s' id' o' = cache_of s id' o').
Proof.
  intros Hst. unfold regen. msimp.
  destruct (settings_getitem_spec id s Hst) as (c & s1 & E1 & X1 & Hs1 & Hc1 & Same1).
  rewrite (bind_ok _ _ _ _ _ E1). unfold modify. eexists. split; [reflexivity|].
  pose proof (um_upd _ _ (e_updm _ _ X1)) as U1. pose proof (u_cfg _ _ U1) as Cf1.
  assert (Q : forall id' o', cache_of (set_settings (sset (settings s1) id (cset o (generate o (attr s id)) c)) s1) id' o'
              = if N.eqb id id' then (if order_eqb o' o then Some (generate o (attr s id)) else cache_of s id o')
                else cache_of s1 id' o').
  { intros id' o'. rewrite cache_of_sset. destruct (N.eqb id id'); [|reflexivity]. rewrite cget_cset, Hc1. reflexivity. }
  split; [|split; [apply (e_view _ _ X1) | split; [apply (e_focus _ _ X1) | split; [apply (e_log _ _ X1) | split]]]].
  - constructor.
    + destruct Cf1; constructor; assumption.
    + intros id' o' k. rewrite Q. destruct (N.eqb id id') eqn:Ee.
      * apply N.eqb_eq in Ee. subst id'. destruct (order_eqb o' o) eqn:Eo; [|auto].
        apply order_eqb_eq in Eo. subst. intros [= <-]. auto.
      * rewrite Same1. auto.
    + intros id' H. unfold settings_ids in H. simpl in H. apply sset_ids in H. destruct H as [->|H]; [auto|].
      apply (u_ids _ _ U1). exact H.
  - rewrite Q, N.eqb_refl. replace (order_eqb o o) with true by (symmetry; apply order_eqb_eq; reflexivity). reflexivity.
  - intros id' o' Hne. rewrite Q. destruct (N.eqb id id') eqn:Ee.
    + apply N.eqb_eq in Ee. subst id'. destruct (order_eqb o' o) eqn:Eo; [|reflexivity].
      apply order_eqb_eq in Eo. destruct Hne; congruence.
    + apply Same1.
Qed.

Lemma CoreV_regen s s' id o : CoreV s -> upd s s' -> view s' = view s ->
  (forall id' o', id' <> id \/ o' <> o -> cache_of s' id' o' = cache_of s id' o') ->
  (~ In id (raw_ids s) \/ o <> okey s) -> CoreV s'.
Proof.
  intros C U V Same Hn. pose proof (u_cfg _ _ U) as Cf. destruct C as [H1 H2 H3 H4]. constructor.
  - rewrite (ce_store _ _ Cf). exact H1.
  - rewrite V. exact H2.
  - intros k x H. rewrite V in H. destruct (H3 _ _ H) as [A B]. rewrite (ce_store _ _ Cf), (ce_okey _ _ Cf).
    split; [exact A|]. rewrite Same; [exact B|].
    destruct Hn as [Hn|Hn]; [left; intros ->; apply Hn; eapply in_ids; eauto | right; congruence].
  - unfold raw_ids. rewrite V. exact H4.
Qed.

(* ---------- _base_add ---------- *)
Lemma base_add_spec id s : CoreV s -> In id (store s) -> ~ In id (raw_ids s) ->
  exists s', _base_add id s = Ok (tt, s') /\ upd s s' /\ focus s' = focus s /\ log s' = log s
  /\ CoreV s' /\ Permutation (raw_ids s') (id :: raw_ids s)
  /\ view s' = sl_add (generate (okey s) (attr s id)) id (view s).
Proof.
  intros C Hst Hn. unfold _base_add. msimp.
  destruct (regen_spec (okey s) id s Hst) as (s1 & E1 & U1 & V1 & F1 & L1 & K1 & Same1).
  rewrite (bind_ok _ _ _ _ _ E1).
  pose proof (u_cfg _ _ U1) as Cf1.
  assert (C1 : CoreV s1) by (eapply (CoreV_regen s s1 id (okey s)); eauto).
  destruct (view_add_spec id s1) as (s2 & E2 & U2 & F2 & L2 & k & V2 & Hk & Hn2).
  exists s2. split; [exact E2|].
  assert (Hst1 : In id (store s1)) by (rewrite (ce_store _ _ Cf1); exact Hst).
  rewrite (ce_okey _ _ Cf1) in *.
  assert (k = generate (okey s) (attr s id)) by (apply (Hk Hst1 _ K1)). subst k.
  split; [eapply upd_trans; [exact U1 | apply (um_upd _ _ U2)]|].
  split; [congruence|]. split; [congruence|].
  assert (Hn1 : ~ In id (raw_ids s1)) by (unfold raw_ids; rewrite V1; exact Hn).
  destruct (CoreV_add s1 s2 _ id C1 U2 V2 Hst1 Hn1) as [C2 P2]; [rewrite (ce_okey _ _ Cf1); auto|].
  split; [exact C2|]. split; [unfold raw_ids in *; rewrite V1 in P2; exact P2|]. rewrite V2, V1. reflexivity.
Qed.

Lemma FreshV_add s s' id : cfg_eq s s' -> view s' = sl_add (generate (okey s) (attr s id)) id (view s) ->
  FreshV s -> FreshV s'.
Proof.
  intros Cf V H k x Hin. rewrite V in Hin. apply (Permutation_in _ (sl_add_perm _ _ _)) in Hin.
  rewrite (ce_okey _ _ Cf), (attr_cfg _ _ x Cf). destruct Hin as [Hin|Hin]; [inversion Hin; subst; reflexivity | apply H; exact Hin].
Qed.

(* ---------- _refilter ---------- *)
Lemma wanted_cases s x :
  (show_marked s && negb (fmarked (attr s x)) = true -> wanted s x = false) /\
  (show_marked s && negb (fmarked (attr s x)) = false -> wanted s x = fmatches (filt s) (attr s x)).
Proof. unfold wanted. destruct (show_marked s), (fmarked (attr s x)), (fmatches (filt s) (attr s x)); simpl; auto. Qed.

Lemma refilter_spec s : NoDup (store s) ->
  exists s', _refilter s = Ok (tt, s') /\ upd s s' /\ log s' = log s ++ [ViewRefresh]
  /\ CoreV s' /\ FocusOk s' /\ M1 s' /\ M2 s' /\ M3 s' /\ FreshV s'.
Proof.
  intros Nd. unfold _refilter. msimp.
  set (s0 := set_view [] s).
  assert (U0 : upd s s0) by (apply um_upd, updm_same_settings; [constructor; reflexivity | reflexivity]).
  pose (I := fun (done : list N) (t : state) =>
    upd s0 t /\ focus t = focus s0 /\ log t = log s0 /\ CoreV t /\ FreshV t
    /\ forall id, In id (raw_ids t) <-> In id done /\ wanted s id = true).
  assert (I0 : I [] s0).
  { split; [apply upd_refl|]. split; [reflexivity|]. split; [reflexivity|]. split; [|split].
    - constructor; simpl; [exact Nd | apply ksorted_nil | intros k id [] | constructor].
    - intros k id [].
    - intros id. simpl. tauto. }
  destruct (forM_inv
    (fun i => s1 <- gets (fun s1 => s1) ;;
       if show_marked s1 && negb (fmarked (attr s1 i)) then ret tt
       else if fmatches (filt s1) (attr s1 i) then _base_add i else ret tt) I (store s)) with (l := store s) (done := @nil N) (s := s0)
    as (s1 & E1 & (U1 & F1 & L1 & C1 & Fv1 & Hm)); [|reflexivity|exact I0|].
  { intros done x rest t Est (Ut & Ft & Lt & Ct & Fvt & Hids). msimp.
    pose proof (u_cfg _ _ (upd_trans _ _ _ U0 Ut)) as Cf.
    rewrite (attr_cfg _ _ x Cf), (ce_sm _ _ Cf), (ce_filt _ _ Cf).
    destruct (wanted_cases s x) as [W1 W2].
    assert (Hx : ~ In x done).
    { rewrite Est in Nd. apply NoDup_remove_2 in Nd. intros H. apply Nd. apply in_or_app. auto. }
    assert (Skip : I (done ++ [x]) t -> exists s', ret tt t = Ok (tt, s') /\ I (done ++ [x]) s') by (intros HI; exists t; split; [reflexivity | exact HI]).
    assert (Same : wanted s x = false -> I (done ++ [x]) t).
    { intros W. split; [exact Ut|]. split; [exact Ft|]. split; [exact Lt|]. split; [exact Ct|]. split; [exact Fvt|].
      intros id. rewrite Hids, in_app_iff. simpl. split; [tauto|].
      intros [[H|[H|[]]] Hw]; [tauto | subst; congruence]. }
    destruct (show_marked s && negb (fmarked (attr s x))) eqn:Eb.
    - apply Skip, Same, W1. reflexivity.
    - specialize (W2 eq_refl). destruct (fmatches (filt s) (attr s x)) eqn:Em.
      + assert (Hst : In x (store t)).
        { rewrite (ce_store _ _ Cf), Est. apply in_or_app. right. left. reflexivity. }
        assert (Hn : ~ In x (raw_ids t)) by (rewrite Hids; tauto).
        destruct (base_add_spec x t Ct Hst Hn) as (t' & E & U & F & L & C' & P & V').
        exists t'. split; [exact E|]. split; [eapply upd_trans; eauto|].
        split; [congruence|]. split; [congruence|]. split; [exact C'|].
        split; [eapply FreshV_add; [apply (u_cfg _ _ U) | exact V' | exact Fvt]|].
        intros id. split.
        * intros H. apply (Permutation_in _ P) in H. rewrite in_app_iff. destruct H as [<-|H].
          { split; [right; left; reflexivity | exact W2]. }
          { apply Hids in H. tauto. }
        * intros [H Hw]. apply (Permutation_in _ (Permutation_sym P)). rewrite in_app_iff in H.
          destruct H as [H|[<-|[]]]; [right; apply Hids; tauto | left; reflexivity].
      + apply Skip, Same, W2. }
  rewrite (bind_ok _ _ _ _ _ E1).
  destruct (send_view_refresh_spec s1 C1) as (s2 & E2 & X2 & F2).
  exists s2. split; [exact E2|].
  assert (U : upd s s2) by (eapply upd_trans; [exact U0 | eapply upd_trans; [exact U1 | apply (um_upd _ _ (sn_updm _ _ _ X2))]]).
  pose proof (u_cfg _ _ U) as Cf.
  split; [exact U|]. split; [rewrite (sn_log _ _ _ X2), L1; reflexivity|].
  split; [eapply sent_CoreV; eauto|]. split; [exact F2|].
  rewrite <- (sent_raw_ids _ _ _ X2) in Hm.
  split; [|split; [|split]].
  - intros id H. apply Hm in H as [_ H]. rewrite (attr_cfg _ _ id Cf), (ce_filt _ _ Cf).
    unfold wanted in H. apply andb_true_iff in H. tauto.
  - intros id H Hw. apply Hm. rewrite (ce_store _ _ Cf) in H. rewrite (wanted_cfg _ _ id Cf) in Hw. auto.
  - intros Hs id H. apply Hm in H as [_ H]. rewrite (attr_cfg _ _ id Cf). rewrite (ce_sm _ _ Cf) in Hs.
    unfold wanted in H. rewrite Hs in H. apply andb_true_iff in H. simpl in H. tauto.
  - eapply FreshV_cfg; [apply (u_cfg _ _ (um_upd _ _ (sn_updm _ _ _ X2))) | apply (sn_view _ _ _ X2) | exact Fv1].
Qed.

(* ---------- set_order: regenerate, then read, the keys of all shown flows under the new order ---------- *)
Lemma regen_all o ids : forall s done, (forall id, In id ids -> In id (store s)) ->
  (forall id, In id done -> cache_of s id o = Some (generate o (attr s id))) ->
  exists s', forM ids (regen o) s = Ok (tt, s') /\ upd s s' /\ view s' = view s /\ focus s' = focus s /\ log s' = log s
  /\ forall id, In id done \/ In id ids -> cache_of s' id o = Some (generate o (attr s id)).
Proof.
  induction ids as [|x t IH]; intros s done Hst Hd; simpl.
  - exists s. split; [reflexivity|]. split; [apply upd_refl|]. repeat split; try reflexivity.
    intros id [H|[]]. auto.
  - destruct (regen_spec o x s (Hst x (or_introl eq_refl))) as (s1 & E1 & U1 & V1 & F1 & L1 & K1 & Same1).
    rewrite (bind_ok _ _ _ _ _ E1). pose proof (u_cfg _ _ U1) as Cf1.
    destruct (IH s1 (x :: done)) as (s2 & E2 & U2 & V2 & F2 & L2 & K2).
    { intros id H. rewrite (ce_store _ _ Cf1). apply Hst. right. exact H. }
    { intros id [<-|H]; rewrite (attr_cfg _ _ _ Cf1); [exact K1|].
      destruct (N.eq_dec id x) as [->|Hne]; [exact K1 | rewrite Same1; auto]. }
    exists s2. split; [exact E2|]. split; [eapply upd_trans; eauto|].
    split; [congruence|]. split; [congruence|]. split; [congruence|].
    intros id H. rewrite <- (attr_cfg _ _ id Cf1). apply K2. simpl. tauto.
Qed.

Lemma mapM_keys o ids s : (forall id, In id ids -> In id (store s)) ->
  exists kv s', mapM (fun id => k <- okey_call o id ;; ret (k, id)) ids s = Ok (kv, s') /\ ext s s'
  /\ map snd kv = ids /\ forall k id, In (k, id) kv -> cache_of s' id o = Some k.
Proof.
  revert s. induction ids as [|x t IH]; intros s Hst; simpl.
  - exists [], s. split; [reflexivity|]. split; [apply ext_refl|]. split; [reflexivity|]. intros k id [].
  - destruct (okey_call_spec o x s) as (k & s1 & E1 & X1 & _ & Hk & _).
    msimp. rewrite (bind_ok _ _ _ _ _ E1). msimp.
    assert (St1 : store s1 = store s) by apply (ce_store _ _ (u_cfg _ _ (um_upd _ _ (e_updm _ _ X1)))).
    destruct (IH s1) as (kv & s2 & E2 & X2 & Hm & Hc).
    { intros id H. rewrite St1. apply Hst. right. exact H. }
    rewrite (bind_ok _ _ _ _ _ E2). msimp.
    exists ((k, x) :: kv), s2. split; [reflexivity|]. split; [eapply ext_trans; eauto|].
    split; [simpl; congruence|].
    intros k' id [H|H]; [|auto]. inversion H; subst.
    apply (um_mono _ _ (e_updm _ _ X2)). apply Hk. apply Hst. left. reflexivity.
Qed.

Lemma NoDup_ids_split (l1 l2 : list (N * N)) k id :
  NoDup (map snd (l1 ++ (k, id) :: l2)) -> ~ In id (map snd (l1 ++ l2)) /\ NoDup (map snd (l1 ++ l2)).
Proof.
  rewrite !map_app. simpl. intros H. split; [apply NoDup_remove_2 in H; exact H | apply NoDup_remove_1 in H; exact H].
Qed.

(* ---------- _OrderKey.refresh ---------- *)
Lemma okey_refresh_spec id s : CoreV s -> In id (raw_ids s) -> FocusOk s ->
  exists s', okey_refresh (okey s) id s = Ok (tt, s') /\ upd s s' /\ CoreV s'
  /\ Permutation (raw_ids s') (raw_ids s) /\ FocusOk s'
  /\ (log s' = log s \/ log s' = log s ++ [ViewRefresh])
  /\ (forall k x, In (k, x) (view s') ->
        (x = id /\ k = generate (okey s) (attr s id)) \/ (x <> id /\ In (k, x) (view s))).
Proof.
  intros C Hin Fo. unfold okey_refresh.
  destruct (in_ids_split _ _ Hin) as [kold Hin0].
  destruct (c_cached _ C _ _ Hin0) as [Hst Hk].
  destruct (settings_getitem_spec id s Hst) as (c & s1 & E1 & X1 & Hs1 & Hc1 & _).
  rewrite (bind_ok _ _ _ _ _ E1). rewrite Hc1, Hk. msimp.
  pose proof (u_cfg _ _ (um_upd _ _ (e_updm _ _ X1))) as Cf1.
  rewrite (attr_cfg _ _ id Cf1).
  assert (C1 : CoreV s1) by (apply (CoreV_updm s s1); [apply (e_updm _ _ X1) | apply (e_view _ _ X1) | exact C]).
  destruct (N.eqb kold (generate (okey s) (attr s id))) eqn:Eq.
  - apply N.eqb_eq in Eq. exists s1. split; [reflexivity|]. split; [apply (um_upd _ _ (e_updm _ _ X1))|].
    split; [exact C1|]. split; [unfold raw_ids; rewrite (e_view _ _ X1); reflexivity|].
    split; [eapply FocusOk_eq; [apply (e_view _ _ X1) | apply (e_focus _ _ X1) | exact Fo]|].
    split; [left; apply (e_log _ _ X1)|].
    intros k x H. rewrite (e_view _ _ X1) in H. destruct (N.eq_dec x id) as [->|Hne]; [left | right; auto].
    split; [reflexivity|]. destruct (c_cached _ C _ _ H) as [_ Hk']. congruence.
  - assert (Hin1 : In id (raw_ids s1)) by (unfold raw_ids; rewrite (e_view _ _ X1); exact Hin).
    destruct (view_remove_spec id s1 C1 Hin1) as (s2 & E2 & U2 & F2 & L2 & k2 & l1 & l2 & V1 & V2).
    rewrite (bind_ok _ _ _ _ _ E2).
    pose proof (u_cfg _ _ (um_upd _ _ U2)) as Cf2.
    assert (Cf02 : cfg_eq s s2) by (eapply cfg_eq_trans; eauto).
    assert (Hst2 : In id (store s2)) by (rewrite (ce_store _ _ Cf02); exact Hst).
    assert (Nd1 : NoDup (map snd (l1 ++ (k2, id) :: l2))) by (rewrite <- V1; apply (c_nodup _ C1)).
    destruct (NoDup_ids_split _ _ _ _ Nd1) as [Hnid Nd4].
    assert (C2 : CoreV s2).
    { constructor.
      - rewrite (ce_store _ _ Cf2). apply (c_store _ C1).
      - rewrite V2. apply (ksorted_app_remove l1 (k2, id) l2). rewrite <- V1. apply (c_sorted _ C1).
      - intros k' id' H. rewrite V2 in H.
        assert (H1 : In (k', id') (view s1)) by (rewrite V1; apply in_app_iff in H; apply in_or_app; simpl; tauto).
        destruct (c_cached _ C1 _ _ H1) as [A B]. rewrite (ce_store _ _ Cf2), (ce_okey _ _ Cf2).
        split; [exact A | apply (um_mono _ _ U2); exact B].
      - unfold raw_ids. rewrite V2. exact Nd4. }
    assert (Hn2 : ~ In id (raw_ids s2)) by (unfold raw_ids; rewrite V2; exact Hnid).
    destruct (settings_getitem_spec id s2 Hst2) as (c' & s3 & E3 & X3 & Hs3 & Hc3 & Same3).
    rewrite (bind_ok _ _ _ _ _ E3). msimp.
    destruct (setkey_facts (okey s) id (generate (okey s) (attr s id)) c' s2 s3 Hst2 X3 Hs3 Hc3 Same3) as (U4 & K4 & Same4).
    { rewrite (attr_cfg _ _ id Cf02). reflexivity. }
    set (s4 := set_settings (sset (settings s3) id (cset (okey s) (generate (okey s) (attr s id)) c')) s3) in *.
    assert (V4 : view s4 = l1 ++ l2) by (simpl; rewrite (e_view _ _ X3); exact V2).
    assert (C4 : CoreV s4).
    { apply (CoreV_regen s2 s4 id (okey s) C2 U4); [simpl; apply (e_view _ _ X3) | exact Same4 | left; exact Hn2]. }
    pose proof (u_cfg _ _ U4) as Cf4. assert (Cf04 : cfg_eq s s4) by (eapply cfg_eq_trans; eauto).
    destruct (view_add_spec id s4) as (s5 & E5 & U5 & F5 & L5 & k5 & V5 & Hk5 & Hn5).
    rewrite (bind_ok _ _ _ _ _ E5).
    assert (Hst4 : In id (store s4)) by (rewrite (ce_store _ _ Cf04); exact Hst).
    rewrite (ce_okey _ _ Cf04) in *.
    assert (k5 = generate (okey s) (attr s id)) by (apply (Hk5 Hst4 _ K4)). subst k5.
    assert (Hn4 : ~ In id (raw_ids s4)) by (unfold raw_ids; rewrite V4; exact Hnid).
    destruct (CoreV_add s4 s5 _ id C4 U5 V5 Hst4 Hn4) as [C5 P5]; [rewrite (ce_okey _ _ Cf04); auto|].
    destruct (send_view_refresh_spec s5 C5) as (s6 & E6 & X6 & F6).
    exists s6. split; [exact E6|].
    assert (U : upd s s6).
    { eapply upd_trans; [apply (um_upd _ _ (e_updm _ _ X1))|]. eapply upd_trans; [apply (um_upd _ _ U2)|].
      eapply upd_trans; [exact U4|]. eapply upd_trans; [apply (um_upd _ _ U5) | apply (um_upd _ _ (sn_updm _ _ _ X6))]. }
    split; [exact U|]. split; [eapply sent_CoreV; eauto|].
    split.
    { rewrite (sent_raw_ids _ _ _ X6). rewrite P5. unfold raw_ids. rewrite V4.
      rewrite <- (e_view _ _ X1), V1. rewrite !map_app. simpl. apply Permutation_middle. }
    split; [exact F6|]. split.
    { right. rewrite (sn_log _ _ _ X6), L5. simpl. rewrite (e_log _ _ X3), L2, (e_log _ _ X1). reflexivity. }
    intros k x H. rewrite (sn_view _ _ _ X6), V5, V4 in H. apply (Permutation_in _ (sl_add_perm _ _ _)) in H.
    destruct H as [H|H]; [inversion H; subst; left; auto|]. right.
    split; [intros ->; apply Hnid; eapply in_ids; eauto|].
    rewrite <- (e_view _ _ X1), V1. apply in_app_iff in H. apply in_or_app. simpl. tauto.
Qed.
