(* Proofs/TlsTunnelC14.v -- the statements of property C14 in closed form: the record-layer
   contract as one proposition, the theorems of TlsTunnelBase / TlsTunnelData restated without
   section-local abbreviations. *)
From Coq Require Import List Bool Arith NArith Lia.
From MV Require Import Base.Bytes Model.TlsTunnel Proofs.TlsTunnelBase Proofs.TlsTunnelData Proofs.TlsTunnelToy.
Import ListNotations.

(* The contract of the OpenSSL connection object. win / pout / pin / wout are ghost views of a
   connection (wire bytes written into it, plaintext it returned, plaintext it accepted, wire
   bytes read out of it); plain / closed_in / bad describe the wire format of the peer-to-us
   direction, peer_plain what the peer decodes from our output. *)
Definition contract {R : Type}
  (bio_write : R -> bytes -> R) (recv : R -> R * recv_res) (bio_read : R -> R * option bytes)
  (sendall : R -> bytes -> R * send_res)
  (win pout pin wout : R -> bytes) (plain : bytes -> bytes) (closed_in : bytes -> bool)
  (bad : bytes -> Prop) (peer_plain : bytes -> bytes) : Prop :=
  (forall r d,
    win (bio_write r d) = win r ++ d /\ pout (bio_write r d) = pout r /\
    pin (bio_write r d) = pin r /\ wout (bio_write r d) = wout r) /\
  (forall r,
    win (fst (recv r)) = win r /\ pin (fst (recv r)) = pin r /\ wout (fst (recv r)) = wout r /\
    match snd (recv r) with
    | RData b => b <> [] /\ pout (fst (recv r)) = pout r ++ b
    | RWantRead => pout (fst (recv r)) = pout r /\ pout r = plain (win r) /\ closed_in (win r) = false
    | RZeroReturn => pout (fst (recv r)) = pout r /\ pout r = plain (win r) /\ closed_in (win r) = true
    | RError => pout (fst (recv r)) = pout r /\ bad (win r)
    | RRaise => True
    end) /\
  (forall r,
    win (fst (bio_read r)) = win r /\ pout (fst (bio_read r)) = pout r /\ pin (fst (bio_read r)) = pin r /\
    match snd (bio_read r) with
    | Some b => wout (fst (bio_read r)) = wout r ++ b
    | None => wout (fst (bio_read r)) = wout r /\ peer_plain (wout r) = pin r
    end) /\
  (forall r d,
    win (fst (sendall r d)) = win r /\ pout (fst (sendall r d)) = pout r /\ wout (fst (sendall r d)) = wout r /\
    match snd (sendall r d) with
    | SOk => pin (fst (sendall r d)) = pin r ++ d
    | SZeroReturn | SSysCall => pin (fst (sendall r d)) = pin r
    | SRaise => True
    end).

(* an established tunnel: TLS object attached, not (re-)establishing, client handshake not failed *)
Definition established {R CS} (s : st R CS) : Prop :=
  crashed s = None /\ has_tls s = true /\ tunnel_state s <> ESTABLISHING /\ errored s = false.

Section Closed.
  Variable R : Type.
  Variable bio_write : R -> bytes -> R.
  Variable recv : R -> R * recv_res.
  Variable bio_read : R -> R * option bytes.
  Variable sendall : R -> bytes -> R * send_res.
  Variable do_handshake : R -> R * hs_res.
  Variable parse_hello : bytes -> hello_res.
  Variable CS : Type.
  Variable child : CS -> event -> CS * list cmd * bool.
  Variable cf : cfg.
  Variable win pout pin wout : R -> bytes.
  Variable plain : bytes -> bytes.
  Variable closed_in : bytes -> bool.
  Variable bad : bytes -> Prop.
  Variable peer_plain : bytes -> bytes.
  Hypothesis Hc : contract bio_write recv bio_read sendall win pout pin wout plain closed_in bad peer_plain.

  Notation RUN := (run R bio_write recv bio_read sendall do_handshake parse_hello CS child cf).
  Notation STEP := (step R bio_write recv bio_read sendall do_handshake parse_hello CS child cf).

  Lemma inbound evs (s : st R CS) :
    established s -> ~ In EStart evs ->
    (bad (win (tls s)) \/ pout (tls s) = plain (win (tls s))) ->
    let s' := fst (RUN s evs) in let tr := snd (RUN s evs) in
    crashed s' = None -> has_open (me cf) tr = false ->
    win (tls s') = win (tls s) ++ tunnel_data (me cf) evs /\
    pout (tls s') = pout (tls s) ++ child_data (me cf) tr /\
    (~ bad (win (tls s')) -> pout (tls s) ++ child_data (me cf) tr = plain (win (tls s) ++ tunnel_data (me cf) evs)).
  Proof.
    destruct Hc as (A & B & C & D). intros (E1 & E2 & E3 & E4) Hns Hq.
    apply (inbound_transparent R bio_write recv bio_read sendall do_handshake parse_hello CS child cf
             win pout pin wout plain closed_in bad peer_plain A B C D evs s); auto. repeat split; auto.
  Qed.

  Lemma outbound evs (s : st R CS) :
    established s -> ~ In EStart evs -> peer_plain (wout (tls s)) = pin (tls s) ->
    let s' := fst (RUN s evs) in let tr := snd (RUN s evs) in
    crashed s' = None -> has_open (me cf) tr = false -> drops tr = 0 ->
    peer_plain (wout (tls s) ++ sent_wire (me cf) tr) = pin (tls s) ++ child_sends (me cf) tr.
  Proof.
    destruct Hc as (A & B & C & D). intros (E1 & E2 & E3 & E4) Hns Hq.
    apply (outbound_transparent R bio_write recv bio_read sendall do_handshake parse_hello CS child cf
             win pout pin wout plain closed_in bad peer_plain A B C D evs s); auto. repeat split; auto.
  Qed.

  Lemma close_after_data d (s : st R CS) :
    established s -> close_sent s = false ->
    let s' := fst (STEP s (EData (me cf) d)) in let tr := snd (STEP s (EData (me cf) d)) in
    crashed s' = None -> has_open (me cf) tr = false -> close_sent s' = true ->
    closed_in (win (tls s')) = true /\ pout (tls s) ++ child_data (me cf) tr = plain (win (tls s')) /\
    win (tls s') = win (tls s) ++ d.
  Proof.
    destruct Hc as (A & B & C & D). intros (E1 & E2 & E3 & E4) Hcs.
    apply (close_after_all_data R bio_write recv bio_read sendall do_handshake parse_hello CS child cf
             win pout pin wout plain closed_in bad peer_plain A B C D d s); auto. repeat split; auto.
  Qed.

  Lemma nothing_after_close evs (s : st R CS) :
    (forall w x, closed_in w = true -> plain (w ++ x) = plain w) ->
    established s -> ~ In EStart evs -> closed_in (win (tls s)) = true -> pout (tls s) = plain (win (tls s)) ->
    let s' := fst (RUN s evs) in let tr := snd (RUN s evs) in
    crashed s' = None -> has_open (me cf) tr = false -> ~ bad (win (tls s')) ->
    child_data (me cf) tr = [].
  Proof.
    destruct Hc as (A & B & C & D). intros Hf (E1 & E2 & E3 & E4) Hns Hcl Hpo.
    apply (no_data_after_close_notify R bio_write recv bio_read sendall do_handshake parse_hello CS child cf
             win pout pin wout plain closed_in bad peer_plain A B C D Hf evs s); auto. repeat split; auto.
  Qed.
End Closed.

(* the toy record layer satisfies the contract *)
Lemma toy_contract :
  contract toy_bio_write toy_recv toy_bio_read toy_sendall toy_win t_pout toy_pin t_wout idb (fun _ => false) toy_bad idb.
Proof.
  repeat split; try apply toy_bio_write_spec; try apply toy_recv_spec; try apply toy_bio_read_spec; try apply toy_sendall_spec.
Qed.

(* The unguarded statement (without crashed s' = None) is false: a record layer that satisfies the
   contract, an established tunnel, a child that sends two bytes; the layer dies in send_data. *)
Lemma send_after_error_refuted :
  exists (s : st toy (list event)) (evs : list event),
    established s /\ ~ In EStart evs /\
    let s' := fst (talk_run s evs) in let tr := snd (talk_run s evs) in
    has_open Client tr = false /\ drops tr = 0 /\ child_sends Client tr <> [] /\
    crashed s' = Some SendRaise /\ sent_wire Client tr = [].
Proof.
  exists (fst (talk_run toy_init [EStart; EData Client [x16]])), broken_evs.
  generalize toy_send_after_error. cbv zeta. intros (A & B & C & D & E & F & G & H & I & J).
  split; [|split].
  - repeat split; auto. rewrite B. discriminate.
  - unfold broken_evs. simpl. intros [X|[X|[]]]; discriminate.
  - repeat split; auto. rewrite E. discriminate.
Qed.
