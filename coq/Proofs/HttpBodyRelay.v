(* Proofs/HttpBodyRelay.v -- streamed bodies are relayed exactly: for every stream callable (any state-passing
   function), the data events sent to the peer are the callable's output for each received chunk, in order,
   followed by its output for the final empty flush; the flow keeps exactly those bytes iff store_streamed_bodies.
   Also: each data event is relayed at once (nothing is held back by mitmproxy), and the late switch to
   streaming flushes the buffered bytes as one data event. *)
From Coq Require Import List Bool NArith ZArith Lia.
From MV Require Import Base.Bytes Model.HttpBody Proofs.HttpBodyBase Proofs.HttpBodySteps.
Import ListNotations.
Open Scope Z_scope.

Lemma server_content_map_data l :
  server_content (map (fun c => CSend Server (MData c)) l) = map (fun c => CSend Server (MData c)) l.
Proof. unfold server_content. induction l; cbn; congruence. Qed.
Lemma client_content_map_data l :
  client_content (map (fun c => CSend Client (MData c)) l) = map (fun c => CSend Client (MData c)) l.
Proof. unfold client_content. induction l; cbn; congruence. Qed.

Section Relay.
Variable S : Type.
Variable fq fs : S -> bytes -> S * sres.
Variable cfg : config.

Notation st := (st S).
Notation handle_event := (handle_event S fq fs cfg).
Notation run := (run S fq fs cfg).

(* what a callable makes of a list of received chunks, threading its private state: the chunks to send *)
Fixpoint run_callable (f : S -> bytes -> S * sres) (q : S) (ds : list bytes) : S * list bytes :=
  match ds with
  | [] => (q, [])
  | d :: r =>
      let '(q1, res) := f q d in
      let '(q2, out) := run_callable f q1 r in
      (q2, data_chunks res ++ out)
  end.
(* ... including the final call with b"" when the message ends *)
Definition transformed (f : S -> bytes -> S * sres) (q : S) (ds : list bytes) : list bytes :=
  let '(q1, out) := run_callable f q ds in out ++ flush_chunks (snd (f q1 [])).

(* the chunks the peer must be sent for received chunks ds, given message.stream *)
Definition expected_pieces (a : sattr) (f : S -> bytes -> S * sres) (q : S) (ds : list bytes) : list bytes :=
  match a with SCall => transformed f q ds | _ => ds end.

Lemma expected_pieces_cons_call f q d ds :
  expected_pieces SCall f q (d :: ds) =
  data_chunks (snd (f q d)) ++ expected_pieces SCall f (fst (f q d)) ds.
Proof.
  unfold expected_pieces, transformed. cbn [run_callable]. destruct (f q d) as [q1 res]. cbn [fst snd].
  destruct (run_callable f q1 ds) as [q2 out]. rewrite app_assoc. reflexivity.
Qed.

Lemma data_to_server_tail tl :
  tl = [] \/ tl = [CDrop; CSend Client MEom] ->
  data_to Server ([CHook HRequest; CSend Server MEom] ++ tl) = [].
Proof. intros [->| ->]; reflexivity. Qed.

(* ---- request direction *)
Theorem stream_request_relay (ds : list bytes) :
  forall ss qb sb qf sf qs rs q1 q2 qc sc er lv,
  let s := mkSt Streaming ss qb sb qf sf qs rs q1 q2 qc sc er lv in
  let pieces := expected_pieces qs fq q1 ds in
  exists s' out,
    run s (map ReqData ds ++ [ReqEom]) = (s', out, false)
    /\ data_to Server out = pieces
    /\ server_content out = map (fun c => CSend Server (MData c)) pieces ++ [CSend Server MEom]
    /\ client_state s' = Done
    /\ req_content s' = (if o_store cfg then Some (qb ++ concat pieces) else qc)
    /\ request_body_buf s' = (if o_store cfg then [] else qb).
Proof.
  induction ds as [|d ds IH]; intros ss qb sb qf sf qs rs q1 q2 qc sc er lv s pieces; subst s pieces.
  - cbn [map app HttpBody.run]. unfold HttpBody.handle_event. cbn [is_request_event client_state].
    unfold state_stream_request_body. cbn [req_stream fq_st].
    destruct qs; cbn [expected_pieces transformed run_callable];
      try (destruct (fq q1 []) as [q r] eqn:EF; cbn [fst snd app]);
      rewrite relay_chunks_eq; unfold flow_done;
      destruct (o_store cfg); destruct ss; cbn;
      eexists; eexists; (split; [reflexivity|]); cbn;
      rewrite ?data_to_app, ?data_to_map_same, ?server_content_app, ?app_nil_r; cbn;
      repeat split; auto;
      rewrite ?server_content_map_data; reflexivity.
  - cbn [map app HttpBody.run]. unfold HttpBody.handle_event at 1. cbn [is_request_event client_state].
    unfold state_stream_request_body. cbn [req_stream fq_st].
    destruct qs.
    + (* stream = False cannot be in this state, but the code treats it like True *)
      rewrite relay_chunks_eq. cbn [expected_pieces].
      destruct (o_store cfg) eqn:ST; unfold set_reqbuf, set_fq_st; cbn -[HttpBody.run expected_pieces].
      * destruct (IH ss (qb ++ d ++ []) sb qf sf SFalse rs q1 q2 qc sc er lv) as (s' & out & R & D & SC & C & RC & RB).
        cbn [expected_pieces] in *. try rewrite ST in *.
        eexists; eexists. rewrite R. split; [reflexivity|].
        split; [cbn [data_to]; rewrite D; reflexivity|].
        split; [unfold server_content in *; cbn [filter is_server_content]; rewrite SC; reflexivity|].
        split; [exact C|]. split; [rewrite RC, app_nil_r, <- app_assoc; reflexivity|exact RB].
      * destruct (IH ss qb sb qf sf SFalse rs q1 q2 qc sc er lv) as (s' & out & R & D & SC & C & RC & RB).
        cbn [expected_pieces] in *. try rewrite ST in *.
        eexists; eexists. rewrite R. split; [reflexivity|].
        split; [cbn [data_to]; rewrite D; reflexivity|].
        split; [unfold server_content in *; cbn [filter is_server_content]; rewrite SC; reflexivity|].
        split; [exact C|]. split; [exact RC|exact RB].
    + rewrite relay_chunks_eq. cbn [expected_pieces].
      destruct (o_store cfg) eqn:ST; unfold set_reqbuf, set_fq_st; cbn -[HttpBody.run expected_pieces].
      * destruct (IH ss (qb ++ d ++ []) sb qf sf STrue rs q1 q2 qc sc er lv) as (s' & out & R & D & SC & C & RC & RB).
        cbn [expected_pieces] in *. try rewrite ST in *.
        eexists; eexists. rewrite R. split; [reflexivity|].
        split; [cbn [data_to]; rewrite D; reflexivity|].
        split; [unfold server_content in *; cbn [filter is_server_content]; rewrite SC; reflexivity|].
        split; [exact C|]. split; [rewrite RC, app_nil_r, <- app_assoc; reflexivity|exact RB].
      * destruct (IH ss qb sb qf sf STrue rs q1 q2 qc sc er lv) as (s' & out & R & D & SC & C & RC & RB).
        cbn [expected_pieces] in *. try rewrite ST in *.
        eexists; eexists. rewrite R. split; [reflexivity|].
        split; [cbn [data_to]; rewrite D; reflexivity|].
        split; [unfold server_content in *; cbn [filter is_server_content]; rewrite SC; reflexivity|].
        split; [exact C|]. split; [exact RC|exact RB].
    + rewrite expected_pieces_cons_call. destruct (fq q1 d) as [q r] eqn:EF. cbn [fst snd].
      rewrite relay_chunks_eq.
      destruct (o_store cfg) eqn:ST; unfold set_reqbuf, set_fq_st; cbn -[HttpBody.run expected_pieces].
      * destruct (IH ss (qb ++ concat (data_chunks r)) sb qf sf SCall rs q q2 qc sc er lv) as (s' & out & R & D & SC & C & RC & RB).
        try rewrite ST in *.
        eexists; eexists. rewrite R. split; [reflexivity|].
        rewrite data_to_app, data_to_map_same, D. split; [reflexivity|].
        split; [rewrite server_content_app, SC, map_app, <- app_assoc, server_content_map_data; reflexivity|].
        split; [exact C|]. split; [rewrite RC, concat_app, app_assoc; reflexivity|exact RB].
      * destruct (IH ss qb sb qf sf SCall rs q q2 qc sc er lv) as (s' & out & R & D & SC & C & RC & RB).
        try rewrite ST in *.
        eexists; eexists. rewrite R. split; [reflexivity|].
        rewrite data_to_app, data_to_map_same, D. split; [reflexivity|].
        split; [rewrite server_content_app, SC, map_app, <- app_assoc, server_content_map_data; reflexivity|].
        split; [exact C|]. split; [exact RC|exact RB].
Qed.

(* ---- response direction *)
Theorem stream_response_relay (ds : list bytes) :
  forall cs qb sb qf sf qs rs q1 q2 qc sc er lv,
  let s := mkSt cs Streaming qb sb qf sf qs rs q1 q2 qc sc er lv in
  let pieces := expected_pieces rs fs q2 ds in
  exists s' out,
    run s (map RespData ds ++ [RespEom]) = (s', out, false)
    /\ data_to Client out = pieces
    /\ client_content out = map (fun c => CSend Client (MData c)) pieces
                             ++ (if hstate_eqb cs Done then [CSend Client MEom] else [])
    /\ server_state s' = Done
    /\ resp_content s' = (if o_store cfg then Some (sb ++ concat pieces) else sc)
    /\ response_body_buf s' = (if o_store cfg then [] else sb).
Proof.
  induction ds as [|d ds IH]; intros cs qb sb qf sf qs rs q1 q2 qc sc er lv s pieces; subst s pieces.
  - cbn [map app HttpBody.run]. unfold HttpBody.handle_event. cbn [is_request_event server_state].
    unfold state_stream_response_body. cbn [resp_stream fs_st].
    destruct rs; cbn [expected_pieces transformed run_callable];
      try (destruct (fs q2 []) as [q r] eqn:EF; cbn [fst snd app]);
      rewrite relay_chunks_eq; unfold send_response, flow_done;
      destruct (o_store cfg); destruct cs; cbn;
      eexists; eexists; (split; [reflexivity|]); cbn;
      rewrite ?data_to_app, ?data_to_map_same, ?client_content_app, ?app_nil_r; cbn;
      repeat split; auto;
      rewrite ?client_content_map_data, ?app_nil_r; reflexivity.
  - cbn [map app HttpBody.run]. unfold HttpBody.handle_event at 1. cbn [is_request_event server_state].
    unfold state_stream_response_body. cbn [resp_stream fs_st].
    destruct rs.
    + (* stream = False cannot be in this state, but the code treats it like True *)
      rewrite relay_chunks_eq. cbn [expected_pieces].
      destruct (o_store cfg) eqn:ST; unfold set_respbuf, set_fs_st; cbn -[HttpBody.run expected_pieces].
      * destruct (IH cs qb (sb ++ d ++ []) qf sf qs SFalse q1 q2 qc sc er lv) as (s' & out & R & D & SC & C & RC & RB).
        cbn [expected_pieces] in *. try rewrite ST in *.
        eexists; eexists. rewrite R. split; [reflexivity|].
        split; [cbn [data_to]; rewrite D; reflexivity|].
        split; [unfold client_content in *; cbn [filter is_client_content]; rewrite SC; reflexivity|].
        split; [exact C|]. split; [rewrite RC, app_nil_r, <- app_assoc; reflexivity|exact RB].
      * destruct (IH cs qb sb qf sf qs SFalse q1 q2 qc sc er lv) as (s' & out & R & D & SC & C & RC & RB).
        cbn [expected_pieces] in *. try rewrite ST in *.
        eexists; eexists. rewrite R. split; [reflexivity|].
        split; [cbn [data_to]; rewrite D; reflexivity|].
        split; [unfold client_content in *; cbn [filter is_client_content]; rewrite SC; reflexivity|].
        split; [exact C|]. split; [exact RC|exact RB].
    + rewrite relay_chunks_eq. cbn [expected_pieces].
      destruct (o_store cfg) eqn:ST; unfold set_respbuf, set_fs_st; cbn -[HttpBody.run expected_pieces].
      * destruct (IH cs qb (sb ++ d ++ []) qf sf qs STrue q1 q2 qc sc er lv) as (s' & out & R & D & SC & C & RC & RB).
        cbn [expected_pieces] in *. try rewrite ST in *.
        eexists; eexists. rewrite R. split; [reflexivity|].
        split; [cbn [data_to]; rewrite D; reflexivity|].
        split; [unfold client_content in *; cbn [filter is_client_content]; rewrite SC; reflexivity|].
        split; [exact C|]. split; [rewrite RC, app_nil_r, <- app_assoc; reflexivity|exact RB].
      * destruct (IH cs qb sb qf sf qs STrue q1 q2 qc sc er lv) as (s' & out & R & D & SC & C & RC & RB).
        cbn [expected_pieces] in *. try rewrite ST in *.
        eexists; eexists. rewrite R. split; [reflexivity|].
        split; [cbn [data_to]; rewrite D; reflexivity|].
        split; [unfold client_content in *; cbn [filter is_client_content]; rewrite SC; reflexivity|].
        split; [exact C|]. split; [exact RC|exact RB].
    + rewrite expected_pieces_cons_call. destruct (fs q2 d) as [q r] eqn:EF. cbn [fst snd].
      rewrite relay_chunks_eq.
      destruct (o_store cfg) eqn:ST; unfold set_respbuf, set_fs_st; cbn -[HttpBody.run expected_pieces].
      * destruct (IH cs qb (sb ++ concat (data_chunks r)) qf sf qs SCall q1 q qc sc er lv) as (s' & out & R & D & SC & C & RC & RB).
        try rewrite ST in *.
        eexists; eexists. rewrite R. split; [reflexivity|].
        rewrite data_to_app, data_to_map_same, D. split; [reflexivity|].
        split; [rewrite client_content_app, SC, map_app, <- app_assoc, client_content_map_data; reflexivity|].
        split; [exact C|]. split; [rewrite RC, concat_app, app_assoc; reflexivity|exact RB].
      * destruct (IH cs qb sb qf sf qs SCall q1 q qc sc er lv) as (s' & out & R & D & SC & C & RC & RB).
        try rewrite ST in *.
        eexists; eexists. rewrite R. split; [reflexivity|].
        rewrite data_to_app, data_to_map_same, D. split; [reflexivity|].
        split; [rewrite client_content_app, SC, map_app, <- app_assoc, client_content_map_data; reflexivity|].
        split; [exact C|]. split; [exact RC|exact RB].
Qed.


(* ---- every received chunk is relayed at once: the commands of one data event are exactly the callable's chunks *)
Theorem stream_request_immediate (s : st) d :
  client_state s = Streaming ->
  let pieces := match req_stream s with SCall => data_chunks (snd (fq (fq_st s) d)) | _ => [d] end in
  exists s', handle_event s (ReqData d) = Some (s', map (fun c => CSend Server (MData c)) pieces)
    /\ client_state s' = Streaming
    /\ request_body_buf s' = (if o_store cfg then request_body_buf s ++ concat pieces else request_body_buf s).
Proof.
  intros Hc. unfold HttpBody.handle_event. cbn [is_request_event]. rewrite Hc.
  unfold state_stream_request_body.
  destruct s as [cs ss qb sb qf sf qs rs q1 q2 qc sc er lv]. cbn in Hc. subst cs. cbn.
  destruct qs; cbn; try (destruct (fq q1 d) as [q r]; cbn); rewrite ?relay_chunks_eq;
    destruct (o_store cfg); cbn; eexists; (split; [reflexivity|]); cbn; rewrite ?app_nil_r; split; reflexivity.
Qed.

Theorem stream_response_immediate (s : st) d :
  server_state s = Streaming ->
  let pieces := match resp_stream s with SCall => data_chunks (snd (fs (fs_st s) d)) | _ => [d] end in
  exists s', handle_event s (RespData d) = Some (s', map (fun c => CSend Client (MData c)) pieces)
    /\ server_state s' = Streaming
    /\ response_body_buf s' = (if o_store cfg then response_body_buf s ++ concat pieces else response_body_buf s).
Proof.
  intros Hc. unfold HttpBody.handle_event. cbn [is_request_event]. rewrite Hc.
  unfold state_stream_response_body.
  destruct s as [cs ss qb sb qf sf qs rs q1 q2 qc sc er lv]. cbn in Hc. subst ss. cbn.
  destruct rs; cbn; try (destruct (fs q2 d) as [q r]; cbn); rewrite ?relay_chunks_eq;
    destruct (o_store cfg); cbn; eexists; (split; [reflexivity|]); cbn; rewrite ?app_nil_r; split; reflexivity.
Qed.

(* ---- the late switch: once the buffered bytes exceed stream_large_bodies (and not body_size_limit), the stream
   connects, sends the head and flushes everything buffered so far as one data event; nothing is duplicated *)
Theorem late_switch_request (s : st) d T :
  client_state s = Consume -> c_ok cfg = true ->
  parse_size (o_stream cfg) = PVal T -> 0 <= T -> T < blen (request_body_buf s ++ d) ->
  parse_size (o_limit cfg) <> PErr -> over (parse_size (o_limit cfg)) (blen (request_body_buf s ++ d)) = false ->
  exists s', handle_event s (ReqData d)
             = Some (s', [CGetConn; CSend Server (MHeaders false); CSend Server (MData (request_body_buf s ++ d))])
    /\ client_state s' = Streaming /\ req_stream s' = STrue
    /\ request_body_buf s' = (if o_store cfg then request_body_buf s ++ d else []).
Proof.
  intros Hc OK PT T0 TL NE OV. unfold HttpBody.handle_event. cbn [is_request_event]. rewrite Hc.
  unfold state_consume_request_body, HttpBody.check_body_size.
  rewrite (parse_size_val_truthy _ _ PT). cbn [orb negb andb].
  destruct s as [cs ss qb sb qf sf qs rs q1 q2 qc sc er lv]. cbn [client_state request_body_buf set_reqbuf] in *. subst cs.
  cbn [client_state server_state request_body_buf response_body_buf req_framing resp_framing
    req_stream resp_stream fq_st fs_st req_content resp_content flow_error flow_live andb].
  assert (N : nonempty (qb ++ d) = true) by (apply blen_pos_nonempty; lia).
  rewrite N. replace (blen (qb ++ d) <=? 0) with false by (symmetry; apply Z.leb_gt; lia).
  rewrite PT. replace (T <? blen (qb ++ d)) with true by (symmetry; apply Z.ltb_lt; lia).
  assert (SW : switch_to_stream S fq fs cfg true
                 (mkSt Consume ss (qb ++ d) sb qf sf qs rs q1 q2 qc sc er lv)
               = Some (mkSt Streaming ss (if o_store cfg then qb ++ d else []) sb qf sf STrue rs q1 q2 qc sc er lv,
                       [CGetConn; CSend Server (MHeaders false); CSend Server (MData (qb ++ d))])).
  { unfold switch_to_stream. cbn [request_body_buf set_req_stream]. rewrite N.
    unfold start_request_stream, make_server_connection. rewrite OK.
    cbn -[nonempty HttpBody.relay_chunks]. rewrite relay_chunks_eq. cbn. rewrite app_nil_r.
    destruct (o_store cfg); reflexivity. }
  unfold set_reqbuf. cbn [client_state server_state request_body_buf response_body_buf req_framing resp_framing
    req_stream resp_stream fq_st fs_st req_content resp_content flow_error flow_live].
  destruct (parse_size (o_limit cfg)) as [| |l] eqn:PL; try congruence; cbn in OV; rewrite ?OV; rewrite SW;
    eexists; (split; [reflexivity|]); cbn; repeat split; reflexivity.
Qed.

(* ---- a whole chunked request from the initial state, an addon installing a stream callable in requestheaders:
   whatever the size options are, the server is sent exactly the callable's output, and the flow keeps it iff
   store_streamed_bodies *)
Theorem stream_request_end_to_end q0 s0 e100 (ds : list bytes) :
  p_req cfg = Some SCall -> c_ok cfg = true ->
  let pieces := transformed fq q0 ds in
  exists s' out,
    run (init S q0 s0) (ReqHeaders FChunked e100 :: map ReqData ds ++ [ReqEom]) = (s', out, false)
    /\ data_to Server out = pieces
    /\ server_content out = CSend Server (MHeaders false)
                             :: map (fun c => CSend Server (MData c)) pieces ++ [CSend Server MEom]
    /\ client_state s' = Done
    /\ req_content s' = (if o_store cfg then Some (concat pieces) else None)
    /\ request_body_buf s' = [].
Proof.
  intros PQ OK pieces. subst pieces.
  assert (HE : handle_event (init S q0 s0) (ReqHeaders FChunked e100)
               = Some (mkSt Streaming WaitHeaders [] [] FChunked None SCall SFalse q0 s0 None None false true,
                       CHook HRequestHeaders :: (if e100 then [CSend Client MContinue] else [])
                       ++ [CGetConn; CSend Server (MHeaders false)])).
  { unfold HttpBody.handle_event, state_wait_for_request_headers, HttpBody.check_body_size, hook_requestheaders,
      start_request_stream, make_server_connection, init.
    rewrite PQ, OK. cbn [is_request_event client_state end_stream_of expected_size].
    destruct (negb (opt_truthy (o_stream cfg) || opt_truthy (o_limit cfg))); reflexivity. }
  cbn [HttpBody.run]. rewrite HE.
  destruct (stream_request_relay ds WaitHeaders [] [] FChunked None SCall SFalse q0 s0 None None false true)
    as (s' & out & R & D & SC & C & RC & RB).
  cbn [expected_pieces] in *. rewrite R.
  eexists; eexists. split; [reflexivity|].
  split; [destruct e100; cbn [app data_to]; exact D|].
  split; [destruct e100; unfold server_content in *; cbn [app filter is_server_content]; rewrite SC; reflexivity|].
  split; [exact C|]. split; [rewrite RC; reflexivity|].
  rewrite RB; destruct (o_store cfg); reflexivity.
Qed.

End Relay.
