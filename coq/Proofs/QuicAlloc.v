(* Proofs/QuicAlloc.v -- any sequence of get_next_available_stream_id calls yields ids that are
   pairwise distinct, carry the requested initiator/direction bits and increase within a class. *)
From Coq Require Import NArith Arith List Bool Lia.
From MV Require Import Model.QuicIdsPrelude Gen.QuicIds Model.QuicDemux Proofs.QuicIds.
Import ListNotations.
Open Scope N_scope.

Definition fresh_pair (x y : N) : Prop := x <> y /\ (x mod 4 = y mod 4 -> x < y).
Definition bits_ok (call : bool * bool) (id : N) : Prop :=
  stream_is_client_initiated id = fst call /\ stream_is_unidirectional id = snd call.

Lemma alloc_seq_spec calls : forall nx, counters_ok nx ->
  exists ids final, alloc_seq nx calls = Some (ids, final) /\ counters_ok final /\
    Forall2 bits_ok calls ids /\
    (forall j, counter nx j <= counter final j) /\
    Forall (fun id => counter nx (id mod 4) <= id) ids /\
    ForallOrdPairs fresh_pair ids.
Proof.
  induction calls as [|[c u] t IH]; intros nx Hok.
  - exists [], nx. cbn. split; [reflexivity|]. split; [auto|]. split; [constructor|]. split; [intros; lia|]. split; constructor.
  - destruct (alloc_spec nx c u Hok) as (id & nx' & Hg & Hok' & Hid & Hm & Hb & Ho).
    destruct (IH nx' Hok') as (ids & final & Ha & Hokf & Hbits & Hmono & Hlow & Hord).
    exists (id :: ids), final. cbn. rewrite Hg, Ha.
    assert (Hstep : forall j, counter nx j <= counter nx' j).
    { intros j. destruct (N.eq_dec j (class_of c u)) as [->|Hn]; [rewrite Hb, Hid; lia | rewrite Ho; auto; lia]. }
    split; [reflexivity|]. split; [auto|]. split.
    { constructor; auto. unfold bits_ok; cbn. eapply (alloc_bits nx c u id nx'); eauto.
    }
    split. { intros j. eapply N.le_trans; [apply Hstep | apply Hmono]. }
    split.
    { constructor; [rewrite Hm, <- Hid; lia|].
      eapply Forall_impl; [|exact Hlow]. intros a Ha'. cbn in Ha'. eapply N.le_trans; [apply Hstep | exact Ha']. }
    constructor; auto.
    rewrite Forall_forall in Hlow |- *. intros y Hy. specialize (Hlow y Hy). cbn in Hlow.
    assert (Hlt : id mod 4 = y mod 4 -> id < y).
    { intros E. rewrite <- E, Hm, Hb in Hlow. lia. }
    split; auto. intros ->. specialize (Hlt eq_refl). lia.
Qed.

Lemma ord_pairs_nodup ids : ForallOrdPairs fresh_pair ids -> NoDup ids.
Proof.
  induction 1 as [|x l Hx _ IH]; constructor; auto.
  intros Hin. rewrite Forall_forall in Hx. destruct (Hx x Hin) as [Hne _]. congruence.
Qed.

Theorem alloc_seq_correct calls :
  exists ids final, alloc_seq NEXT_STREAM_ID_INIT calls = Some (ids, final) /\
    Forall2 bits_ok calls ids /\ NoDup ids /\ ForallOrdPairs fresh_pair ids.
Proof.
  destruct (alloc_seq_spec calls _ counters_ok_init) as (ids & final & Ha & _ & Hb & _ & _ & Ho).
  exists ids, final. repeat split; auto. apply ord_pairs_nodup; auto.
Qed.
