(* Proofs/Watchdog.v — invariants of the TimeoutWatchdog automaton for all schedules. *)
From Coq Require Import ZArith List Bool Lia ZifyBool.
From MV Require Import Gen.WatchdogCond Model.Watchdog.
Import ListNotations.
Local Open Scope Z_scope.

(* ---- what the schedule itself says, independently of the watcher ---- *)
Record spec := mkSpec { s_now : Z; s_last : Z; s_pending : Z }.
Definition spec_step (p : spec) (e : wevent) : spec :=
  match e with
  | Advance d => mkSpec (s_now p + Z.max 0 d) (s_last p) (s_pending p)
  | Activity => mkSpec (s_now p) (s_now p) (s_pending p)
  | HookStart => mkSpec (s_now p) (s_last p) (s_pending p + 1)
  | HookEnd =>
    if s_pending p <=? 0 then p
    else if s_pending p =? 1 then mkSpec (s_now p) (s_now p) 0   (* idle period restarts here *)
    else mkSpec (s_now p) (s_last p) (s_pending p - 1)
  | WatcherStep => p
  end.
Fixpoint spec_run (p : spec) (evs : list wevent) : spec :=
  match evs with [] => p | e :: evs' => spec_run (spec_step p e) evs' end.
Definition spec_init (t0 : Z) : spec := mkSpec t0 t0 0.

Definition agrees (s : wd) (p : spec) : Prop :=
  now s = s_now p /\ la s = s_last p /\ blocker s = s_pending p.

Definition inv (T : Z) (s : wd) : Prop :=
  timeout s = T /\ 0 <= blocker s /\ can_timeout s = (blocker s =? 0) /\ la s <= now s /\
  (pc s = Blocked -> 0 < blocker s) /\
  (forall tgt, pc s = Sleeping tgt -> tgt <= la s + T \/ tgt <= now s).

Lemma inv_init T t0 : inv T (init T t0).
Proof. unfold inv, init; simpl. repeat split; try lia; discriminate. Qed.

Lemma agrees_init T t0 : agrees (init T t0) (spec_init t0).
Proof. repeat split. Qed.

Lemma from_wait_sleep T s tgt :
  timeout s = T -> la s <= now s ->
  from_wait s true = Sleeping tgt -> tgt <= la s + T \/ tgt <= now s.
Proof.
  unfold from_wait, sleep_delay. intros HT Hla H. inversion H; subst. lia.
Qed.

Lemma watcher_step_inv T s : inv T s -> inv T (watcher_step s).
Proof.
  intros (HT & Hb & Hc & Hla & Hbl & Hsl). unfold watcher_step.
  destruct (pc s) as [| | |tgt|] eqn:Epc.
  - (* AtWait *)
    unfold inv; simpl. repeat split; try assumption.
    + unfold from_wait. destruct (can_timeout s) eqn:Ec; [discriminate|]. intros _. lia.
    + intros tgt H. unfold from_wait in H. destruct (can_timeout s); [|discriminate].
      apply (from_wait_sleep T s tgt HT Hla). unfold from_wait. exact H.
  - unfold inv. rewrite Epc. repeat split; try assumption; try (intros; discriminate).
  - (* Woken *)
    unfold inv; simpl. repeat split; try assumption.
    + unfold from_wait. discriminate.
    + intros tgt H. apply (from_wait_sleep T s tgt HT Hla). exact H.
  - destruct (tgt <=? now s) eqn:Edue.
    + destruct (fire_cond (la s) (timeout s) (now s) (blocker s) (can_timeout s)).
      * unfold inv; simpl. repeat split; try assumption; intros; discriminate.
      * unfold inv; simpl. repeat split; try assumption.
        -- unfold from_wait. destruct (can_timeout s) eqn:Ec; [discriminate|]. intros _. lia.
        -- intros tgt' H. unfold from_wait in H. destruct (can_timeout s); [|discriminate].
           apply (from_wait_sleep T s tgt' HT Hla). unfold from_wait. exact H.
    + unfold inv. rewrite Epc. repeat split; try assumption; try (intros; discriminate).
  - unfold inv. rewrite Epc. repeat split; try assumption; intros; discriminate.
Qed.

Lemma step_inv T s e : inv T s -> inv T (step s e).
Proof.
  intros Hinv. destruct e; [| | | |apply watcher_step_inv; exact Hinv].
  - (* Advance *)
    destruct Hinv as (HT & Hb & Hc & Hla & Hbl & Hsl). unfold inv, step; simpl.
    repeat split; try assumption; try lia.
    intros tgt H. destruct (Hsl tgt H); lia.
  - (* Activity *)
    destruct Hinv as (HT & Hb & Hc & Hla & Hbl & Hsl). unfold inv, step; simpl.
    repeat split; try assumption; try lia.
    intros tgt H. destruct (Hsl tgt H); lia.
  - (* HookStart *)
    destruct Hinv as (HT & Hb & Hc & Hla & Hbl & Hsl). unfold inv, step; simpl.
    repeat split; try assumption; try lia.
  - (* HookEnd *)
    destruct Hinv as (HT & Hb & Hc & Hla & Hbl & Hsl). unfold step.
    destruct (blocker s <=? 0) eqn:E0; [unfold inv; repeat split; assumption|].
    destruct (blocker s =? 1) eqn:E1.
    + unfold inv; simpl. repeat split; try assumption; try lia.
      * intros H. destruct (pc s); discriminate.
      * intros tgt H. destruct (pc s) as [| | |tg|] eqn:Epc; try discriminate.
        destruct (Hsl tgt H); lia.
    + unfold inv; simpl.
      split; [assumption|]. split; [lia|]. split; [rewrite Hc; lia|]. split; [assumption|].
      split; [intros H; specialize (Hbl H); lia|].
      intros tgt H. apply Hsl. exact H.
Qed.

Lemma step_agrees s p e : agrees s p -> agrees (step s e) (spec_step p e).
Proof.
  intros (Hn & Hl & Hb). destruct e; unfold step, spec_step; simpl.
  - repeat split; simpl; congruence.
  - repeat split; simpl; congruence.
  - repeat split; simpl; congruence.
  - rewrite <- Hb. destruct (blocker s <=? 0); [repeat split; assumption|].
    destruct (blocker s =? 1); repeat split; simpl; congruence.
  - unfold watcher_step. destruct (pc s) as [| | |tgt|]; try (repeat split; assumption).
    destruct (tgt <=? now s); [|repeat split; assumption].
    destruct (fire_cond _ _ _ _ _); repeat split; assumption.
Qed.

Lemma run_inv T evs : forall s p, inv T s -> agrees s p ->
  inv T (run s evs) /\ agrees (run s evs) (spec_run p evs).
Proof.
  induction evs as [|e evs IH]; intros s p Hi Ha; simpl; [split; assumption|].
  apply IH; [apply step_inv; exact Hi | apply step_agrees; exact Ha].
Qed.

(* ---- the firing transition ---- *)
Lemma fires_only_idle s e :
  is_fired s = false -> is_fired (step s e) = true ->
  blocker s = 0 /\ la s + timeout s < now s.
Proof.
  intros Hn Hf. destruct e; simpl in Hf; try (rewrite Hn in Hf; discriminate).
  - unfold is_fired in *. simpl in Hf. destruct (pc s); discriminate.
  - unfold is_fired in *. simpl in Hf. destruct (pc s); discriminate.
  - unfold is_fired in *. simpl in Hf. destruct (pc s); discriminate.
  - unfold is_fired in *. unfold step in Hf.
    destruct (blocker s <=? 0); [destruct (pc s); discriminate|].
    destruct (blocker s =? 1); simpl in Hf; destruct (pc s); discriminate.
  - unfold is_fired, watcher_step in *.
    destruct (pc s) as [| | |tgt|] eqn:Epc; simpl in Hf; try discriminate.
    + unfold from_wait in Hf. destruct (can_timeout s); discriminate.
    + rewrite Epc in Hf. discriminate.
    + destruct (tgt <=? now s); [|rewrite Epc in Hf; discriminate].
      destruct (fire_cond (la s) (timeout s) (now s) (blocker s) (can_timeout s)) eqn:Ef.
      * unfold fire_cond in Ef. lia.
      * simpl in Hf. unfold from_wait in Hf. destruct (can_timeout s); discriminate.
Qed.

(* (2)+(3)+(4): the callback fires only when no hook is pending and the last activity
   (an event, or the end of the last pending hook) is older than the timeout *)
Theorem fire_is_justified T t0 evs e :
  let s := run (init T t0) evs in
  let p := spec_run (spec_init t0) evs in
  is_fired s = false -> is_fired (step s e) = true ->
  s_pending p = 0 /\ s_last p + T < s_now p.
Proof.
  intros s p Hn Hf.
  destruct (run_inv T evs (init T t0) (spec_init t0) (inv_init T t0) (agrees_init T t0)) as [Hi Ha].
  fold s in Hi, Ha. fold p in Ha.
  destruct (fires_only_idle s e Hn Hf) as [Hb Hl].
  destruct Ha as (An & Al & Ab). destruct Hi as (HT & _).
  rewrite <- Ab, <- Al, <- An, <- HT. split; assumption.
Qed.

(* (1): an idle connection is closed: in every reachable state in which no hook is pending and the
   last activity is older than the timeout, running the watcher (at most twice) fires the callback *)
Theorem idle_fires T t0 evs :
  let s := run (init T t0) evs in
  is_fired s = false -> blocker s = 0 -> la s + T < now s ->
  is_fired (watcher_step (watcher_step s)) = true.
Proof.
  intros s Hn Hb Hidle.
  destruct (run_inv T evs (init T t0) (spec_init t0) (inv_init T t0) (agrees_init T t0)) as [Hi _].
  fold s in Hi. destruct Hi as (HT & Hb0 & Hc & Hla & Hbl & Hsl).
  assert (Hct : can_timeout s = true) by (rewrite Hc; lia).
  assert (Hfire : fire_cond (la s) (timeout s) (now s) (blocker s) (can_timeout s) = true)
    by (unfold fire_cond; lia).
  assert (Hfire' : fire_cond (la s) (timeout s) (now s) (blocker s) true = true)
    by (unfold fire_cond; lia).
  assert (Hsleep : from_wait s true = Sleeping (now s)).
  { unfold from_wait, sleep_delay. f_equal. lia. }
  unfold is_fired in Hn.
  destruct (pc s) as [| | |tgt|] eqn:Epc; try discriminate.
  - (* AtWait *)
    unfold watcher_step at 2. rewrite Epc, Hct, Hsleep.
    unfold watcher_step; simpl. rewrite Z.leb_refl, ?Hfire, ?Hfire'. reflexivity.
  - specialize (Hbl eq_refl). lia.
  - unfold watcher_step at 2. rewrite Epc, Hsleep.
    unfold watcher_step; simpl. rewrite Z.leb_refl, Hfire. reflexivity.
  - assert (Hdue : tgt <=? now s = true) by (destruct (Hsl tgt eq_refl); lia).
    unfold watcher_step at 2. rewrite Epc, Hdue, Hfire.
    unfold watcher_step; simpl. reflexivity.
Qed.

(* no timeout while there was activity within the timeout, stated on the state alone *)
Theorem active_not_fired s e :
  is_fired s = false -> now s <= la s + timeout s -> is_fired (step s e) = false.
Proof.
  intros Hn Hact. destruct (is_fired (step s e)) eqn:Hf; [|reflexivity].
  destruct (fires_only_idle s e Hn Hf). lia.
Qed.
