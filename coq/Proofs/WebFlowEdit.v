(* Proofs/WebFlowEdit.v -- lemmas about Model/WebFlowEdit.v (C47). *)
From Coq Require Import Strings.String.
From Coq Require Import List Bool NArith ZArith Lia.
From MV Require Import Base.Bytes Model.WebFlowEdit.
From MV Require Model.Headers.
Import ListNotations.

(* ------------------------------------------------------------------ all-or-nothing *)
Definition guard (vx vb : bool) (f : flow) (e : exn) : Prop :=
  (vx = true \/ e = EApi) /\ (vb = true \/ f_backup f = None).

Lemma put_failed_restores : forall vx vb body f f' e,
  put vx vb body f = (f', Failed e) -> guard vx vb f e -> f' = f.
Proof.
  intros vx vb body f f' e H [Hx Hb]. unfold put in H.
  destruct (put_body body (f_cur (backup f))) as [c'|e0 c'|] eqn:E; try discriminate.
  assert (Hcatch : vx || is_api e0 = true).
  { destruct (vx || is_api e0) eqn:C; [reflexivity|].
    inversion H; subst e0. apply orb_false_iff in C. destruct C as [C1 C2].
    destruct Hx as [Hx|Hx]; [congruence | subst e; discriminate]. }
  rewrite Hcatch in H. inversion H; subst e0. clear H.
  destruct vb; [reflexivity|].
  destruct Hb as [Hb|Hb]; [discriminate|].
  destruct f as [cur bk]. cbn in Hb. subst bk. reflexivity.
Qed.

Lemma put_failed_restores_repaired : forall body f f' e,
  put true true body f = (f', Failed e) -> f' = f.
Proof.
  intros body f f' e H. eapply put_failed_restores; [exact H|].
  split; left; reflexivity.
Qed.

(* whatever the outcome, the repaired handler returns either the fully edited flow or the flow as it was *)
Lemma put_all_or_nothing_repaired : forall body f,
  (exists c', put_body body (f_cur (backup f)) = Ok c'
              /\ put true true body f = (mkFlow c' (f_backup (backup f)), Done))
  \/ (fst (put true true body f) = f /\ snd (put true true body f) <> Done).
Proof.
  intros body f. unfold put.
  destruct (put_body body (f_cur (backup f))) as [c'|e c'|] eqn:E.
  - left. exists c'. split; reflexivity.
  - right. cbn. split; [reflexivity|discriminate].
  - right. cbn. split; [reflexivity|discriminate].
Qed.

(* the outcome (accepted / which exception) does not depend on the code variant *)
Lemma put_outcome_variant_independent : forall vx vb vx' vb' body f,
  snd (put vx vb body f) = snd (put vx' vb' body f).
Proof.
  intros. unfold put.
  destruct (put_body body (f_cur (backup f))) as [c'|e c'|]; cbn; try reflexivity.
  destruct (vx || is_api e), (vx' || is_api e); reflexivity.
Qed.

(* an accepted edit never depends on the variant either, and keeps the original for undo *)
Lemma put_done_backup : forall vx vb body f f',
  put vx vb body f = (f', Done) ->
  f_backup f' = Some (match f_backup f with Some b => b | None => f_cur f end).
Proof.
  intros vx vb body f f' H. unfold put in H.
  destruct (put_body body (f_cur (backup f))) as [c'|e c'|]; try discriminate.
  - inversion H; subst. destruct f as [cur bk]. destruct bk; reflexivity.
  - destruct (vx || is_api e); discriminate.
Qed.

Lemma put_done_revert : forall vx vb body f f',
  f_backup f = None -> put vx vb body f = (f', Done) -> revert f' = f.
Proof.
  intros vx vb body f f' Hb H. pose proof (put_done_backup _ _ _ _ _ H) as Hk.
  rewrite Hb in Hk. unfold revert. rewrite Hk. destruct f as [cur bk]. cbn in *. subst. reflexivity.
Qed.

(* ------------------------------------------------------------------ invalid parts are always refused *)
Definition never_ok {S : Type} (step : ustr -> jv -> S -> res S) (k : ustr) (v : jv) : Prop :=
  forall s s', step k v s <> Ok s'.

Lemma fold_fields_refuses : forall (S : Type) (step : ustr -> jv -> S -> res S) items k v,
  In (k, v) items -> never_ok step k v -> forall s s', fold_fields step items s <> Ok s'.
Proof.
  intros S step items k v Hin Hbad. induction items as [|[k0 v0] rest IH]; [destruct Hin|].
  intros s s'. cbn [fold_fields].
  destruct Hin as [Heq|Hin].
  - inversion Heq; subst. destruct (step k v s) as [s1|e s1|] eqn:E; try discriminate.
    exfalso. exact (Hbad _ _ E).
  - destruct (step k0 v0 s) as [s1|e s1|]; try discriminate. apply IH. exact Hin.
Qed.

Lemma res_map_ok : forall A B (f : A -> B) r b, res_map f r = Ok b -> exists a, r = Ok a.
Proof. intros A B f r b H. destruct r; try discriminate. eauto. Qed.

(* -- what the property statement calls invalid, as predicates on the submitted JSON *)
Definition known_request_key (k : ustr) : bool :=
  is_request_str_key k || ustr_eqb k k_port || ustr_eqb k k_headers || ustr_eqb k k_trailers
  || ustr_eqb k k_content.
Definition known_response_key (k : ustr) : bool :=
  ustr_eqb k k_reason || ustr_eqb k k_http_version || ustr_eqb k k_code || ustr_eqb k k_headers
  || ustr_eqb k k_trailers || ustr_eqb k k_content.
Definition known_top_key (a : ustr) : bool :=
  ustr_eqb a k_request || ustr_eqb a k_response || ustr_eqb a k_marked || ustr_eqb a k_comment.

(* int(v) raises *)
Definition malformed_int (v : jv) : Prop := exists e, py_int v = CErr e.

(* a header pair whose name or value is of the wrong type or cannot be encoded *)
Definition bad_component (a : jv) : Prop := exists e, hdr_bytes a = CErr e.
Definition malformed_entry (h : jv) : Prop :=
  match py_iter h with
  | Some [a; b] => bad_component a \/ (exists key, hdr_bytes a = COk key) /\ bad_component b
  | _ => True
  end.
(* not a list at all, or a list with a malformed entry before which every entry is a well-formed pair or malformed *)
Definition malformed_header_list (v : jv) : Prop :=
  match py_iter v with
  | None => True
  | Some l => exists h, In h l /\ malformed_entry h
  end.

Definition invalid_request_field (k : ustr) (v : jv) : Prop :=
  known_request_key k = false
  \/ (k = k_port /\ malformed_int v)
  \/ ((k = k_headers \/ k = k_trailers) /\ malformed_header_list v).

Definition invalid_response_field (k : ustr) (v : jv) : Prop :=
  known_response_key k = false
  \/ (k = k_code /\ malformed_int v)
  \/ ((k = k_headers \/ k = k_trailers) /\ malformed_header_list v).

Definition invalid_top (a : ustr) (b : jv) : Prop :=
  known_top_key a = false
  \/ (a = k_request /\
      match b with JDict items => exists k v, In (k, v) items /\ invalid_request_field k v | _ => True end)
  \/ (a = k_response /\
      match b with JDict items => exists k v, In (k, v) items /\ invalid_response_field k v | _ => True end).

Definition invalid_document (body : option jv) : Prop :=
  match body with
  | None => True
  | Some (JDict items) => exists a b, In (a, b) items /\ invalid_top a b
  | Some _ => True
  end.

(* -- header lists *)
Lemma add_header_malformed : forall h fields fields', malformed_entry h -> add_header h fields <> Ok fields'.
Proof.
  intros h fields fields' Hm. unfold add_header, malformed_entry in *.
  destruct (py_iter h) as [l|]; [|discriminate].
  destruct l as [|a [|b [|c l]]]; try discriminate.
  destruct Hm as [[e Ha]|[[key Ha] [e Hb]]].
  - rewrite Ha. discriminate.
  - rewrite Ha, Hb. discriminate.
Qed.

Lemma add_headers_malformed : forall l h, In h l -> malformed_entry h ->
  forall fields fields', add_headers l fields <> Ok fields'.
Proof.
  induction l as [|h0 l IH]; intros h Hin Hm fields fields'; [destruct Hin|].
  cbn [add_headers]. destruct Hin as [->|Hin].
  - destruct (add_header h fields) as [f1|e f1|] eqn:E; try discriminate.
    exfalso. exact (add_header_malformed _ _ _ Hm E).
  - destruct (add_header h0 fields) as [f1|e f1|]; try discriminate. eapply IH; eauto.
Qed.

Lemma fill_headers_malformed : forall v fields', malformed_header_list v -> fill_headers v <> Ok fields'.
Proof.
  intros v fields' Hm. unfold fill_headers, malformed_header_list in *.
  destruct (py_iter v) as [l|]; [|discriminate].
  destruct Hm as [h [Hin Hh]]. eapply add_headers_malformed; eauto.
Qed.

Lemma msg_set_headers_malformed : forall v m m', malformed_header_list v -> msg_set_headers v m <> Ok m'.
Proof.
  intros v m m' Hm H. unfold msg_set_headers in H. apply res_map_ok in H. destruct H as [a H].
  exact (fill_headers_malformed _ _ Hm H).
Qed.

Lemma msg_set_trailers_malformed : forall v m m', malformed_header_list v -> msg_set_trailers v m <> Ok m'.
Proof.
  intros v m m' Hm H. unfold msg_set_trailers in H. apply res_map_ok in H. destruct H as [a H].
  exact (fill_headers_malformed _ _ Hm H).
Qed.

(* -- dispatch on the literal keys (closed computations) *)
Lemma req_port : forall v r, put_request_field k_port v r =
  match py_int v with COk z => set_port z r | CErr e => Raise e r | CUn => Unmodelled end.
Proof. reflexivity. Qed.
Lemma req_headers : forall v r, put_request_field k_headers v r = res_map (q_with_msg r) (msg_set_headers v (q_msg r)).
Proof. reflexivity. Qed.
Lemma req_trailers : forall v r, put_request_field k_trailers v r = res_map (q_with_msg r) (msg_set_trailers v (q_msg r)).
Proof. reflexivity. Qed.
Lemma resp_code : forall v p, put_response_field k_code v p =
  match py_int v with COk z => Ok (mkResp (p_msg p) z (p_reason p)) | CErr e => Raise e p | CUn => Unmodelled end.
Proof. reflexivity. Qed.
Lemma resp_headers : forall v p, put_response_field k_headers v p = res_map (p_with_msg p) (msg_set_headers v (p_msg p)).
Proof. reflexivity. Qed.
Lemma resp_trailers : forall v p, put_response_field k_trailers v p = res_map (p_with_msg p) (msg_set_trailers v (p_msg p)).
Proof. reflexivity. Qed.

(* -- one field *)
Lemma request_field_refused : forall k v, invalid_request_field k v -> never_ok put_request_field k v.
Proof.
  intros k v Hinv r r' H.
  destruct Hinv as [Hunk|[[Hk [e He]]|[Hk Hm]]].
  - unfold put_request_field in H. unfold known_request_key in Hunk. repeat rewrite orb_false_iff in Hunk.
    destruct Hunk as [[[[H1 H2] H3] H4] H5]. rewrite H1, H2, H3, H4, H5 in H. discriminate.
  - subst k. rewrite req_port, He in H. discriminate.
  - destruct Hk as [Hk|Hk]; subst k.
    + rewrite req_headers in H. apply res_map_ok in H. destruct H as [m H]. exact (msg_set_headers_malformed _ _ _ Hm H).
    + rewrite req_trailers in H. apply res_map_ok in H. destruct H as [m H]. exact (msg_set_trailers_malformed _ _ _ Hm H).
Qed.

Lemma response_field_refused : forall k v, invalid_response_field k v -> never_ok put_response_field k v.
Proof.
  intros k v Hinv r r' H.
  destruct Hinv as [Hunk|[[Hk [e He]]|[Hk Hm]]].
  - unfold put_response_field in H. unfold known_response_key in Hunk. repeat rewrite orb_false_iff in Hunk.
    destruct Hunk as [[[[[H1 H2] H3] H4] H5] H6]. rewrite H1, H2, H3, H4, H5, H6 in H. discriminate.
  - subst k. rewrite resp_code, He in H. discriminate.
  - destruct Hk as [Hk|Hk]; subst k.
    + rewrite resp_headers in H. apply res_map_ok in H. destruct H as [m H]. exact (msg_set_headers_malformed _ _ _ Hm H).
    + rewrite resp_trailers in H. apply res_map_ok in H. destruct H as [m H]. exact (msg_set_trailers_malformed _ _ _ Hm H).
Qed.

(* with flow.response = None no field assignment can succeed at all *)
Lemma response_none_field_refused : forall k v, never_ok put_response_none_field k v.
Proof.
  intros k v u u' H. unfold put_response_none_field in H.
  repeat match type of H with
         | (if ?c then _ else _) = _ => destruct c; try discriminate
         end.
  destruct (py_int v); discriminate.
Qed.

Lemma top_request : forall b c, put_top k_request b c =
  match b with
  | JDict items => res_map (c_with_request c) (fold_fields put_request_field items (c_request c))
  | _ => Raise EAttr c
  end.
Proof. reflexivity. Qed.
Lemma top_response : forall b c, put_top k_response b c =
  match b with
  | JDict items =>
      match c_response c with
      | Some p => res_map (c_with_response c) (fold_fields put_response_field items p)
      | None => res_map (fun _ => c) (fold_fields put_response_none_field items tt)
      end
  | _ => Raise EAttr c
  end.
Proof. reflexivity. Qed.

Lemma top_refused : forall a b, invalid_top a b -> never_ok put_top a b.
Proof.
  intros a b Hinv c c' H.
  destruct Hinv as [Hunk|[[Ha Hb]|[Ha Hb]]].
  - unfold put_top in H. unfold known_top_key in Hunk. repeat rewrite orb_false_iff in Hunk.
    destruct Hunk as [[[H1 H2] H3] H4]. rewrite H1, H2, H3, H4 in H. discriminate.
  - subst a. rewrite top_request in H. destruct b; try discriminate.
    destruct Hb as [k [v [Hin Hf]]]. apply res_map_ok in H. destruct H as [r H].
    exact (fold_fields_refuses _ _ _ _ _ Hin (request_field_refused _ _ Hf) _ _ H).
  - subst a. rewrite top_response in H. destruct b; try discriminate.
    destruct Hb as [k [v [Hin Hf]]]. destruct (c_response c) as [p|].
    + apply res_map_ok in H. destruct H as [r H].
      exact (fold_fields_refuses _ _ _ _ _ Hin (response_field_refused _ _ Hf) _ _ H).
    + apply res_map_ok in H. destruct H as [r H].
      exact (fold_fields_refuses _ _ _ _ _ Hin (response_none_field_refused _ _) _ _ H).
Qed.

Lemma put_body_refused : forall body c c', invalid_document body -> put_body body c <> Ok c'.
Proof.
  intros body c c' Hinv. unfold put_body, invalid_document in *.
  destruct body as [[| | | | |items]|]; try discriminate.
  destruct Hinv as [a [b [Hin Ht]]].
  exact (fold_fields_refuses _ _ _ _ _ Hin (top_refused _ _ Ht) _ _).
Qed.

(* an edit with an invalid part is never accepted, by any variant, on any flow *)
Lemma put_invalid_not_done : forall vx vb body f, invalid_document body -> snd (put vx vb body f) <> Done.
Proof.
  intros vx vb body f Hinv. unfold put.
  destruct (put_body body (f_cur (backup f))) as [c'|e c'|] eqn:E.
  - exfalso. exact (put_body_refused _ _ _ Hinv E).
  - destruct (vx || is_api e); cbn; discriminate.
  - cbn. discriminate.
Qed.

(* ... and the repaired handler leaves the flow exactly as it was *)
Lemma put_invalid_unchanged_repaired : forall body f, invalid_document body ->
  fst (put true true body f) = f /\ snd (put true true body f) <> Done.
Proof.
  intros body f Hinv. destruct (put_all_or_nothing_repaired body f) as [[c' [E _]]|H]; [|exact H].
  exfalso. exact (put_body_refused _ _ _ Hinv E).
Qed.

(* the code as found: unchanged only when the invalid part raises APIError and no earlier backup exists *)
Lemma put_invalid_unchanged_partial : forall vx vb body f f' e,
  put vx vb body f = (f', Failed e) -> guard vx vb f e -> f' = f.
Proof. exact put_failed_restores. Qed.

(* ------------------------------------------------------------------ concrete witnesses *)
Definition sample_req : request :=
  mkReq (mkMsg (blit "HTTP/1.1") [(blit "header", blit "qvalue"); (blit "content-length", blit "7")] None
               (Some (blit "content")))
        (blit "GET") (blit "http") (lit "address") 22%Z (blit "/path") [].
Definition sample_resp : response :=
  mkResp (mkMsg (blit "HTTP/1.1") [(blit "header-response", blit "svalue"); (blit "content-length", blit "7")] None
                (Some (blit "message")))
         200%Z (blit "OK").
Definition sample_flow : flow := mkFlow (mkCore sample_req (Some sample_resp) (JStr []) (JStr [])) None.

(* {comment: x, request: {port: z}} *)
Definition doc_bad_port : jv :=
  JDict [(k_comment, JStr (lit "x")); (k_request, JDict [(k_port, JStr (lit "z"))])].
(* {comment: first} then {comment: second, zz: 1} *)
Definition doc_first : jv := JDict [(k_comment, JStr (lit "first"))].
Definition doc_second_unknown : jv := JDict [(k_comment, JStr (lit "second")); (lit "zz", JInt 1)].
(* {request: {method: PATCH, foo: 1}} *)
Definition doc_unknown_after_valid : jv :=
  JDict [(k_request, JDict [(k_method, JStr (lit "PATCH")); (lit "foo", JInt 1)])].

Lemma doc_bad_port_invalid : invalid_document (Some doc_bad_port).
Proof.
  cbn. exists k_request, (JDict [(k_port, JStr (lit "z"))]). split; [right; left; reflexivity|].
  right. left. split; [reflexivity|]. exists k_port, (JStr (lit "z")). split; [left; reflexivity|].
  right. left. split; [reflexivity|]. exists EValue. vm_compute. reflexivity.
Qed.

Lemma doc_second_unknown_invalid : invalid_document (Some doc_second_unknown).
Proof.
  cbn. exists (lit "zz"), (JInt 1). split; [right; left; reflexivity|]. left. vm_compute. reflexivity.
Qed.

(* the code as found (vx = vb = false): a ValueError leaves the partial edit in place *)
Lemma refuted_uncaught : exists body f f' e,
  f_backup f = None /\ invalid_document body /\ put false false body f = (f', Failed e) /\ e <> EApi
  /\ f_cur f' <> f_cur f.
Proof.
  exists (Some doc_bad_port), sample_flow, (fst (put false false (Some doc_bad_port) sample_flow)), EValue.
  split; [reflexivity|]. split; [exact doc_bad_port_invalid|]. split; [vm_compute; reflexivity|].
  split; [discriminate|]. intro H. apply (f_equal c_comment) in H. vm_compute in H. discriminate.
Qed.

(* the code as found: an accepted edit followed by a refused one (APIError) loses the accepted edit *)
Lemma refuted_earlier_backup : exists body1 body2 f0 f1 f2,
  f_backup f0 = None /\ put false false body1 f0 = (f1, Done)
  /\ invalid_document body2 /\ put false false body2 f1 = (f2, Failed EApi) /\ f2 = f0 /\ f2 <> f1.
Proof.
  exists (Some doc_first), (Some doc_second_unknown), sample_flow,
         (fst (put false false (Some doc_first) sample_flow)),
         (fst (put false false (Some doc_second_unknown) (fst (put false false (Some doc_first) sample_flow)))).
  split; [reflexivity|]. split; [vm_compute; reflexivity|]. split; [exact doc_second_unknown_invalid|].
  split; [vm_compute; reflexivity|]. split; [vm_compute; reflexivity|].
  intro H. apply (f_equal f_backup) in H. vm_compute in H. discriminate.
Qed.

(* hypotheses of the partial theorem are satisfiable on a non-trivial run: the method was already
   assigned when the unknown field raised, and the handler undid it *)
Lemma nonvacuous : exists c',
  put_body (Some doc_unknown_after_valid) (f_cur (backup sample_flow)) = Raise EApi c'
  /\ c' <> f_cur sample_flow
  /\ put false false (Some doc_unknown_after_valid) sample_flow = (sample_flow, Failed EApi)
  /\ guard false false sample_flow EApi
  /\ invalid_document (Some doc_unknown_after_valid).
Proof.
  eexists. split; [vm_compute; reflexivity|].
  split; [intro H; apply (f_equal (fun c => q_method (c_request c))) in H; vm_compute in H; discriminate|].
  split; [vm_compute; reflexivity|]. split; [split; right; reflexivity|].
  cbn. eexists _, _. split; [left; reflexivity|]. right. left. split; [reflexivity|].
  exists (lit "foo"), (JInt 1). split; [right; left; reflexivity|]. left. vm_compute. reflexivity.
Qed.
