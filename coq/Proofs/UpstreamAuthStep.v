(* Proofs/UpstreamAuthStep.v -- C24, one client connection: the layer invariant and the per-event soundness lemma. *)
From Coq Require Import List Bool NArith Lia.
From MV Require Import Base.Bytes Model.UpstreamAuth.
Import ListNotations.
Open Scope N_scope.

(* ------------------------------------------------------------------ specification vocabulary *)
(* a head carries the credential: some header field has exactly that value *)
Definition carries (cred : bytes) (fs : list field) : Prop := exists k, In (k, cred) fs.
(* the client did not send it *)
Definition clean (cred : bytes) (fs : list field) : Prop := forall k v, In (k, v) fs -> v <> cred.

(* where a head may carry the credential: written to the upstream proxy itself, outside any CONNECT tunnel,
   on a connection of an upstream-mode client; or written to the reverse target of a reverse-mode client *)
Definition good (w : write) : Prop :=
  (w.(w_via) = true /\ w.(w_tunnelled) = false /\ is_upstream w.(w_pm) = true /\ w.(w_hop) = proxy_addr w.(w_pm))
  \/ (w.(w_via) = false /\ exists t tls, w.(w_pm) = PReverse t tls /\ w.(w_hop) = t).

Definition event_clean (cred : bytes) (ev : event) : Prop :=
  match ev with EReq _ _ hs _ => clean cred hs | _ => True end.

(* the request event that the code as found mishandles: plain HTTP inside an accepted CONNECT tunnel, upstream mode *)
Definition leaky (st : cstate) (ev : event) : bool :=
  match ev with
  | EReq _ _ _ _ =>
      st.(cs_tunnel) && is_upstream st.(cs_pm)
      && match st.(cs_layer).(hl_ctx) with Some (_, tls) => negb tls | None => false end
  | _ => false
  end.

(* ------------------------------------------------------------------ small facts *)
Lemma addr_eqb_eq a b : addr_eqb a b = true <-> a = b.
Proof.
  unfold addr_eqb. destruct a as [h p], b as [h' p']. cbn [fst snd].
  rewrite andb_true_iff, bytes_eqb_eq, N.eqb_eq. split.
  - intros [-> ->]. reflexivity.
  - intros E. inversion E. auto.
Qed.

Lemma set_all1_in key value fs pending k v :
  In (k, v) (set_all1 key value fs pending) -> In (k, v) fs \/ v = value.
Proof.
  revert pending. induction fs as [|[k0 v0] r IH]; intros pending H; cbn [set_all1] in H.
  - destruct pending; cbn in H.
    + destruct H as [H|[]]. inversion H. right. reflexivity.
    + destruct H.
  - destruct (name_eqb k0 key).
    + destruct pending.
      * destruct H as [H|H].
        -- inversion H. right. reflexivity.
        -- apply IH in H. destruct H; [left; right; assumption | right; assumption].
      * apply IH in H. destruct H; [left; right; assumption | right; assumption].
    + destruct H as [H|H].
      * left. left. assumption.
      * apply IH in H. destruct H; [left; right; assumption | right; assumption].
Qed.

Lemma set_item_in key value fs k v : In (k, v) (set_item key value fs) -> In (k, v) fs \/ v = value.
Proof. apply set_all1_in. Qed.

(* set_item always leaves a field with the new value *)
Lemma set_all1_has key value fs : exists k, In (k, value) (set_all1 key value fs true).
Proof.
  induction fs as [|[k0 v0] r IH]; cbn [set_all1].
  - exists key. left. reflexivity.
  - destruct (name_eqb k0 key).
    + exists k0. left. reflexivity.
    + destruct IH as [k H]. exists k. right. assumption.
Qed.

Lemma truthy_some a x : truthy a = Some x -> a = Some x.
Proof. destruct a as [[|b r]|]; cbn; intros H; inversion H; reflexivity. Qed.

(* the requestheaders hook adds the credential only in the two situations it tests for *)
Lemma requestheaders_carries cfg cred pm https in_set hs :
  clean cred hs ->
  carries cred (requestheaders cfg pm https in_set hs) ->
  (is_upstream pm = true /\ https = false /\ (cfg.(c_fixed) && in_set) = false) \/ is_reverse pm = true.
Proof.
  intros Hc [k Hk]. unfold requestheaders in Hk.
  destruct (truthy (c_auth cfg)) as [a|] eqn:Et.
  - destruct (is_upstream pm && negb https && negb (c_fixed cfg && in_set)) eqn:E1.
    + left. apply andb_true_iff in E1. destruct E1 as [E1 E3]. apply andb_true_iff in E1. destruct E1 as [E1 E2].
      apply negb_true_iff in E2, E3. auto.
    + destruct (is_reverse pm) eqn:E2.
      * right. reflexivity.
      * exfalso. exact (Hc _ _ Hk eq_refl).
  - exfalso. exact (Hc _ _ Hk eq_refl).
Qed.

Lemma find_reusable_some a tls via cs c :
  find_reusable a tls via cs = Some c -> In c cs /\ c.(sc_addr) = a /\ c.(sc_tls) = tls /\ c.(sc_via) = via.
Proof.
  induction cs as [|x r IH]; cbn [find_reusable]; intros H.
  - discriminate.
  - destruct (spec_matches a tls via x && sc_alive x) eqn:E.
    + inversion H; subst x. apply andb_true_iff in E. destruct E as [E _]. unfold spec_matches in E.
      apply andb_true_iff in E. destruct E as [E E3]. apply andb_true_iff in E. destruct E as [E1 E2].
      apply addr_eqb_eq in E1. apply Bool.eqb_prop in E2, E3. split; [left; reflexivity|]. auto.
    + apply IH in H. destruct H as [H1 H2]. split; [right; assumption | assumption].
Qed.

(* ------------------------------------------------------------------ invariant of one client connection *)
Definition conns_ok (l : hlayer) : Prop :=
  forall c, In c l.(hl_conns) -> c.(sc_connect) = c.(sc_via) && send_connect l.(hl_mode) c.(sc_tls).

Definition shape_ok (st : cstate) : Prop :=
  let l := st.(cs_layer) in
  match l.(hl_mode) with
  | HUpstream => is_upstream st.(cs_pm) = true /\ l.(hl_via) = true /\ st.(cs_tunnel) = false
  | HRegular => st.(cs_pm) = PRegular /\ l.(hl_via) = false
  | HTransparent =>
      (l.(hl_via) = true -> is_upstream st.(cs_pm) = true /\ st.(cs_tunnel) = true)
      /\ (forall t tls, st.(cs_pm) = PReverse t tls -> l.(hl_via) = false /\ exists tl, l.(hl_ctx) = Some (t, tl))
  end.

Definition inv (st : cstate) : Prop :=
  conns_ok st.(cs_layer) /\ shape_ok st
  /\ (is_upstream st.(cs_pm) = true -> st.(cs_tunnel) = false -> st.(cs_layer).(hl_mode) = HUpstream).

Lemma transparent_layer_conns cfg a tls via next l n :
  transparent_layer cfg a tls via next = (l, n) ->
  l.(hl_mode) = HTransparent /\ l.(hl_ctx) = Some (a, tls) /\ l.(hl_via) = via /\ conns_ok l.
Proof.
  unfold transparent_layer. destruct (c_eager cfg && negb via) eqn:E; intros H; inversion H; subst; cbn.
  - repeat split. intros c [<-|[]]. reflexivity.
  - repeat split. intros c [].
Qed.

Lemma inv_init cfg pm : inv (init_cstate cfg pm) /\ (init_cstate cfg pm).(cs_tunnel) = false
                        /\ (init_cstate cfg pm).(cs_pm) = pm.
Proof.
  destruct pm as [|p|t tls|t tls|t tls]; cbn [init_cstate].
  - repeat split; cbn; try (intros c []); try discriminate.
  - repeat split; cbn; try (intros c []); try discriminate.
  - destruct (transparent_layer cfg t tls false 1) as [l n] eqn:E.
    apply transparent_layer_conns in E. destruct E as (E1 & E2 & E3 & E4).
    unfold inv, shape_ok. cbn. rewrite E1, E3. repeat split; try assumption; try discriminate.
    + inversion H; subst. exists tls0. assumption.
  - destruct (transparent_layer cfg t tls false 1) as [l n] eqn:E.
    apply transparent_layer_conns in E. destruct E as (E1 & E2 & E3 & E4).
    unfold inv, shape_ok. cbn. rewrite E1, E3. repeat split; try assumption; try discriminate.
  - destruct (transparent_layer cfg t tls false 1) as [l n] eqn:E.
    apply transparent_layer_conns in E. destruct E as (E1 & E2 & E3 & E4).
    unfold inv, shape_ok. cbn. rewrite E1, E3. repeat split; try assumption; try discriminate.
Qed.

Lemma inv_dead st : inv st -> inv (dead st).
Proof. intros H. exact H. Qed.

(* ------------------------------------------------------------------ send_request *)
Lemma send_request_state cfg st tls a hs ok st' wr :
  inv st -> send_request cfg st tls a hs ok = (st', wr) ->
  inv st' /\ st'.(cs_pm) = st.(cs_pm) /\ st'.(cs_tunnel) = st.(cs_tunnel).
Proof.
  intros (Hc & Hs & Hu) H. unfold send_request in H.
  destruct (find_reusable a tls (hl_via (cs_layer st)) (hl_conns (cs_layer st))) as [c|] eqn:Ef.
  - inversion H; subst. repeat split; assumption.
  - set (sc := hl_via (cs_layer st) && send_connect (hl_mode (cs_layer st)) tls) in *.
    assert (Hconns : forall x, conns_ok (with_conns (cs_layer st) (hl_conns (cs_layer st) ++ [x])) <->
                               (sc_connect x = sc_via x && send_connect (hl_mode (cs_layer st)) (sc_tls x))).
    { intros x. unfold conns_ok. cbn. split.
      - intros Hx. apply Hx. apply in_or_app. right. left. reflexivity.
      - intros Hx c Hin. apply in_app_or in Hin. destruct Hin as [Hin|[<-|[]]]; [apply Hc; assumption | assumption]. }
    destruct (sc && negb ok); inversion H; subst; cbn.
    + repeat split; try assumption. apply Hconns. reflexivity.
    + repeat split; try assumption. apply Hconns. reflexivity.
Qed.

(* every write of send_request goes to a connection that obeys the connect rule *)
Lemma send_request_writes cfg st tls a hs ok st' wr w :
  inv st -> send_request cfg st tls a hs ok = (st', wr) -> In w wr ->
  w.(w_pm) = st.(cs_pm)
  /\ ((w.(w_kind) = WConnect /\ w.(w_via) = true /\ w.(w_tunnelled) = false /\ st.(cs_layer).(hl_via) = true
       /\ w.(w_hop) = proxy_addr st.(cs_pm))
      \/ (w.(w_kind) = WRequest /\ w.(w_fields) = hs /\ w.(w_via) = st.(cs_layer).(hl_via)
          /\ w.(w_tunnelled) = st.(cs_layer).(hl_via) && send_connect st.(cs_layer).(hl_mode) tls
          /\ w.(w_hop) = if st.(cs_layer).(hl_via) then proxy_addr st.(cs_pm) else a)).
Proof.
  intros (Hc & Hs & Hu) H Hin. unfold send_request in H.
  destruct (find_reusable a tls (hl_via (cs_layer st)) (hl_conns (cs_layer st))) as [c|] eqn:Ef.
  - inversion H; subst. destruct Hin as [<-|[]]. apply find_reusable_some in Ef.
    destruct Ef as (Hi & Ea & Et & Ev). split; [reflexivity|]. right. cbn. unfold hop_of.
    rewrite (Hc c Hi), Ea, Et, Ev. repeat split.
  - set (sc := hl_via (cs_layer st) && send_connect (hl_mode (cs_layer st)) tls) in *.
    destruct (sc && negb ok) eqn:E1; inversion H; subst; clear H.
    + destruct Hin as [<-|[]]. split; [reflexivity|]. left. cbn. unfold hop_of. cbn.
      apply andb_true_iff in E1. destruct E1 as [E1 _]. unfold sc in E1. apply andb_true_iff in E1.
      destruct E1 as [E1 _]. rewrite E1. repeat split.
    + apply in_app_or in Hin. destruct Hin as [Hin|[<-|[]]].
      * destruct sc eqn:E2; [|destruct Hin]. destruct Hin as [<-|[]]. split; [reflexivity|]. left. cbn. unfold hop_of. cbn.
        unfold sc in E2. apply andb_true_iff in E2. destruct E2 as [E2 _]. rewrite E2. repeat split.
      * split; [reflexivity|]. right. cbn. unfold hop_of. cbn. repeat split.
Qed.

(* ------------------------------------------------------------------ one event *)
Ltac splits := repeat match goal with |- _ /\ _ => split end.
Ltac tun_facts := try (intros [?|?]; [assumption|discriminate]); try (intros ?; left; assumption); auto.

Lemma step_state cfg in_set st ev st' wr conn :
  inv st -> step cfg in_set st ev = (st', wr, conn) ->
  inv st' /\ st'.(cs_pm) = st.(cs_pm)
  /\ (st'.(cs_tunnel) = true -> st.(cs_tunnel) = true \/ conn = true)
  /\ (st.(cs_tunnel) = true \/ conn = true -> st'.(cs_tunnel) = true).
Proof.
  intros Hi H. unfold step in H. destruct (negb (cs_alive st)).
  { inversion H; subst. splits; tun_facts. }
  destruct ev as [tgt hh hs ok|a itls ok|ord].
  - destruct (resolve (cs_layer st) tgt hh) as [[tls a]|].
    + destruct (send_request cfg st tls a (requestheaders cfg (cs_pm st) tls in_set hs) ok) as [s2 w2] eqn:E.
      inversion H; subst. apply send_request_state in E; [|assumption]. destruct E as (E1 & E2 & E3).
      splits; try assumption; rewrite E3; tun_facts.
    + inversion H; subst. splits; try apply Hi; cbn; tun_facts.
  - destruct Hi as (Hc & Hs & Hu). unfold shape_ok in Hs.
    destruct (hl_mode (cs_layer st)) eqn:Em.
    + (* regular *)
      destruct (transparent_layer cfg a itls false (cs_next st)) as [l n] eqn:E. inversion H; subst.
      apply transparent_layer_conns in E. destruct E as (E1 & E2 & E3 & E4). destruct Hs as [Hp Hv].
      unfold inv, shape_ok. cbn. rewrite E1, E3, Hp. splits; try assumption; try discriminate; auto.
    + (* upstream *)
      destruct Hs as (Hp & Hv & Ht).
      destruct (c_eager cfg && itls); inversion H; subst; unfold inv, shape_ok; cbn.
      * splits; try assumption; try discriminate; auto.
        -- intros c [<-|[]]. reflexivity.
        -- intros t tls E. rewrite E in Hp. discriminate.
      * splits; try assumption; try discriminate; auto.
        -- intros c [].
        -- intros t tls E. rewrite E in Hp. discriminate.
    + inversion H; subst. unfold inv, shape_ok. cbn. rewrite Em. splits; try assumption; try apply Hs; tun_facts.
  - inversion H; subst. destruct Hi as (Hc & Hs & Hu). unfold inv, shape_ok in *. cbn.
    splits; try assumption; tun_facts.
    intros c Hin. apply in_map_iff in Hin. destruct Hin as (x & Hx & Hin).
    destruct (sc_ord x =? ord); subst c; cbn; apply Hc; assumption.
Qed.

(* The per-event soundness lemma, for any value cred and whatever UpstreamAuth.auth is. The side condition says that this client is known to be tunnelled (repaired code),
   or is not in a tunnel, or the event is not the one the code as found mishandles. *)
Lemma step_sound cfg cred in_set st ev st' wr conn w :
  inv st -> event_clean cred ev ->
  ((cfg.(c_fixed) && in_set) = true \/ st.(cs_tunnel) = false \/ leaky st ev = false) ->
  step cfg in_set st ev = (st', wr, conn) ->
  In w wr -> carries cred w.(w_fields) -> good w.
Proof.
  intros Hi Hcl Hsafe H Hin Hcar. unfold step in H. destruct (negb (cs_alive st)).
  { inversion H; subst. destruct Hin. }
  assert (Hi' := Hi). destruct Hi' as (Hc & Hs & Hu).
  destruct ev as [tgt hh hs ok|a itls ok|ord].
  - destruct (resolve (cs_layer st) tgt hh) as [[tls a]|] eqn:Er; [|inversion H; subst; destruct Hin].
    destruct (send_request cfg st tls a (requestheaders cfg (cs_pm st) tls in_set hs) ok) as [s2 w2] eqn:E.
    inversion H; subst. destruct (send_request_writes _ _ _ _ _ _ _ _ _ Hi E Hin) as [Hpm Hw].
    destruct Hw as [(Hk & Hv & Ht & Hlv & Hh)|(Hk & Hf & Hv & Ht & Hh)].
    + (* the CONNECT head, to the proxy *)
      left. rewrite Hpm. repeat split; try assumption.
      unfold shape_ok in Hs. destruct (hl_mode (cs_layer st)).
      * destruct Hs as [_ Hs]. rewrite Hs in Hlv. discriminate.
      * apply Hs.
      * apply Hs. assumption.
    + (* the request head *)
      rewrite Hf in Hcar. cbn in Hcl.
      destruct (requestheaders_carries _ _ _ _ _ _ Hcl Hcar) as [(Hup & Htls & Hfs)|Hrev].
      * (* upstream mode, plain http *)
        assert (Hnt : cs_tunnel st = false).
        { destruct Hsafe as [Hsafe|[Hsafe|Hsafe]].
          - rewrite Hsafe in Hfs. discriminate.
          - assumption.
          - destruct (cs_tunnel st) eqn:Et; [|reflexivity]. exfalso.
            unfold leaky in Hsafe. rewrite Et, Hup in Hsafe. cbn in Hsafe.
            unfold shape_ok in Hs. unfold resolve in Er. destruct (hl_mode (cs_layer st)).
            + destruct Hs as [Hp _]. rewrite Hp in Hup. discriminate.
            + destruct Hs as (_ & _ & Hs). rewrite Et in Hs. discriminate.
            + destruct (hl_ctx (cs_layer st)) as [[a0 t0]|]; [|discriminate].
              inversion Er; subst. cbn in Hsafe. discriminate. }
        specialize (Hu Hup Hnt). unfold shape_ok in Hs. rewrite Hu in Hs, Ht. destruct Hs as (_ & Hvia & _).
        rewrite Hvia in *. rewrite Htls in Ht. cbn in Ht.
        left. rewrite Hpm. repeat split; assumption.
      * (* reverse mode *)
        destruct (cs_pm st) as [|p|t rtls|t rtls|t rtls] eqn:Epm; try discriminate.
        unfold shape_ok in Hs. rewrite Epm in Hs. unfold resolve in Er. destruct (hl_mode (cs_layer st)).
        -- destruct Hs as [Hs _]. discriminate.
        -- destruct Hs as [Hs _]. cbn in Hs. discriminate.
        -- destruct Hs as [_ Hs]. destruct (Hs t rtls eq_refl) as [Hvia [tl Hctx]].
           rewrite Hctx in Er. inversion Er; subst. rewrite Hvia in *.
           right. split; [assumption|]. exists a, rtls. split; assumption.
  - (* CONNECT from the client *)
    unfold shape_ok in Hs. destruct (hl_mode (cs_layer st)) eqn:Em.
    + destruct (transparent_layer cfg a itls false (cs_next st)) as [l n]. inversion H; subst. destruct Hin.
    + destruct Hs as (Hp & Hv & Ht).
      destruct (c_eager cfg && itls); inversion H; subst; [|destruct Hin].
      destruct Hin as [<-|[]]. left. cbn. repeat split. assumption.
    + inversion H; subst. destruct Hin.
  - inversion H; subst. destruct Hin.
Qed.

(* what is sent where the statement says it is: every CONNECT head carries the credential *)
Lemma connect_head_carries cfg cred a : cfg.(c_auth) = Some cred -> cred <> [] -> carries cred (connect_head cfg a).
Proof.
  intros Ha Hne. unfold connect_head, http_connect_upstream. rewrite Ha.
  destruct cred as [|x r]; [contradiction|]. cbn [truthy]. apply set_all1_has.
Qed.
