(* Proofs/FlowBackup.v -- theorems about Model/FlowBackup.v for every content lens that satisfies
   the contract  get_c (set_c c o) = c  (what set_state writes, get_state reads back) and every
   decidable content equality; edits are arbitrary functions on the live content. *)
From Coq Require Import List Bool NArith Arith Lia.
From MV Require Import Model.FlowBackup.
Import ListNotations.
Open Scope N_scope.

Section Proofs.
  Variable Obj C : Type.
  Variable get_c : Obj -> C.
  Variable set_c : C -> Obj -> Obj.
  Variable new_o : Obj.
  Variable C_eqb : C -> C -> bool.
  Hypothesis set_get : forall c o, get_c (set_c c o) = c.
  Hypothesis C_eqb_spec : forall a b, C_eqb a b = true <-> a = b.

  Notation flowT := (flow Obj C).
  Notation gs := (get_state Obj C get_c).
  Notation ss := (set_state Obj C set_c).
  Notation cp := (copy Obj C get_c set_c new_o).
  Notation md := (modified Obj C get_c C_eqb).
  Notation mdu := (modified_unrepaired Obj C get_c C_eqb).
  Notation bk := (backup Obj C get_c).
  Notation rv := (revert Obj C set_c).
  Notation fs := (fstep Obj C get_c set_c).
  Notation fr := (frun Obj C get_c set_c).
  Notation stp := (step Obj C get_c set_c new_o).
  Notation rn := (run Obj C get_c set_c new_o).
  Notation updT := (upd Obj C).

  (* ---------- state level lens law ---------- *)
  Lemma get_set_state : forall s f, gs (ss s f) = s.
  Proof. intros [i c b] f. unfold get_state, set_state; simpl. rewrite set_get. reflexivity. Qed.

  Lemma set_state_live : forall s f, flive (ss s f) = flive f.
  Proof. intros [i c b] f. reflexivity. Qed.

  (* ---------- backup / revert on one flow ---------- *)
  Lemma backup_idem : forall f, bk (bk f) = bk f.
  Proof. intros f. unfold backup. destruct (fbackup f) eqn:E; simpl; rewrite ?E; reflexivity. Qed.

  Lemma backup_pending : forall f b, fbackup f = Some b -> bk f = f.
  Proof. intros f b E. unfold backup. rewrite E. reflexivity. Qed.

  Lemma backup_state : forall f, fbackup f = None -> fbackup (bk f) = Some (gs f).
  Proof. intros f E. unfold backup. rewrite E. reflexivity. Qed.

  Lemma backup_keeps : forall f, fid (bk f) = fid f /\ fo (bk f) = fo f /\ flive (bk f) = flive f.
  Proof. intros f. unfold backup. destruct (fbackup f); simpl; auto. Qed.

  Lemma revert_noop : forall f, fbackup f = None -> rv f = f.
  Proof. intros f E. unfold revert. rewrite E. reflexivity. Qed.

  Lemma revert_clears : forall f, fbackup (rv f) = None.
  Proof. intros f. unfold revert. destruct (fbackup f) eqn:E; simpl; auto. Qed.

  Lemma revert_live : forall f, flive (rv f) = flive f.
  Proof. intros f. unfold revert. destruct (fbackup f) as [[i c b]|]; reflexivity. Qed.

  Lemma revert_state : forall f b, fbackup f = Some b -> gs (rv f) = St (sid b) (sc b) None.
  Proof.
    intros f [i c b] E. unfold revert. rewrite E. unfold get_state, set_state; simpl.
    rewrite set_get. reflexivity.
  Qed.

  Definition no_revert (h : list (fop Obj)) : Prop := ~ In FRevert h.

  Lemma no_revert_cons : forall o h, no_revert (o :: h) -> o <> FRevert /\ no_revert h.
  Proof. unfold no_revert. intros o h H. split; intro X; apply H; simpl; auto. Qed.

  (* without a revert a pending backup, and the id, survive every history *)
  Lemma frun_keeps_backup : forall h f b, fbackup f = Some b -> no_revert h ->
    fbackup (fr f h) = Some b /\ fid (fr f h) = fid f.
  Proof.
    induction h as [|o h IH]; intros f b E NR; [simpl; auto|].
    apply no_revert_cons in NR as [No NR]. unfold frun in *. simpl.
    assert (K : fbackup (fs f o) = Some b /\ fid (fs f o) = fid f).
    { destruct o; simpl; auto.
      - rewrite (backup_pending f b E). auto.
      - congruence. }
    destruct K as [K1 K2]. destruct (IH (fs f o) b K1 NR) as [A B]. split; [exact A | congruence].
  Qed.

  (* T1: backup, any revert-free history of edits / live toggles / repeated backups / reloads,
     revert: the state is exactly the one that was backed up and the backup is cleared.  If a
     backup was already pending, backup is a no-op and that earlier state is the one restored. *)
  Theorem revert_restores : forall f h, no_revert h ->
    let g := fr (bk f) h in
    gs (rv g) = match fbackup f with
                | None => gs f
                | Some b => St (sid b) (sc b) None
                end
    /\ fbackup (rv g) = None /\ flive (rv g) = flive g.
  Proof.
    intros f h NR g. split; [|split; [apply revert_clears | apply revert_live]].
    destruct (fbackup f) as [b|] eqn:E.
    - subst g. rewrite (backup_pending f b E).
      destruct (frun_keeps_backup h f b E NR) as [A _]. apply revert_state. exact A.
    - pose proof (backup_state f E) as B.
      destruct (frun_keeps_backup h (bk f) (gs f) B NR) as [A _]. subst g.
      rewrite (revert_state _ _ A). unfold get_state. simpl. rewrite E. reflexivity.
  Qed.

  (* the same after an arbitrary earlier history (with reverts) that left no backup pending: the
     segments  backup ; revert-free edits ; revert  compose, because each one ends with no backup *)
  Theorem revert_restores_in_history : forall f0 h1 h2,
    fbackup (fr f0 h1) = None -> no_revert h2 ->
    let g := fr f0 (h1 ++ [FBackup] ++ h2 ++ [FRevert]) in
    gs g = gs (fr f0 h1) /\ fbackup g = None.
  Proof.
    intros f0 h1 h2 E NR g. subst g. unfold frun. rewrite !fold_left_app. simpl.
    fold (fr f0 h1). set (f := fr f0 h1) in *.
    pose proof (revert_restores f h2 NR) as R. simpl in R. rewrite E in R.
    destruct R as [R1 [R2 _]]. unfold frun in R1, R2. split; assumption.
  Qed.

  (* invariant of ALL histories (reverts included): the saved state is flat and carries the id *)
  Definition flat (f : flowT) : Prop :=
    match fbackup f with None => True | Some b => sb b = None /\ sid b = fid f end.

  Lemma fstep_flat : forall f o, flat f -> flat (fs f o) /\ fid (fs f o) = fid f.
  Proof.
    intros f o F. unfold flat in *. destruct o; simpl; auto.
    - unfold backup. destruct (fbackup f) as [b|] eqn:E; simpl; [rewrite E; auto|].
      unfold get_state; simpl. rewrite E. auto.
    - unfold revert. destruct (fbackup f) as [[i c b]|] eqn:E; simpl in *; [|rewrite E; auto].
      destruct F as [_ F]. auto.
  Qed.

  Theorem history_flat : forall h f, flat f -> flat (fr f h) /\ fid (fr f h) = fid f.
  Proof.
    induction h as [|o h IH]; intros f F; [simpl; auto|].
    destruct (fstep_flat f o F) as [F1 I1]. unfold frun in *. simpl.
    destruct (IH _ F1) as [A B]. split; [exact A | congruence].
  Qed.

  (* ---------- modified ---------- *)
  Lemma neqb_ident : forall a b : N, N.eqb a b = false <-> a <> b.
  Proof. intros a b. apply N.eqb_neq. Qed.

  (* T2: modified exactly when a backup is pending and the state (id, content) differs from it *)
  Theorem modified_iff : forall f,
    md f = true <->
    exists b, fbackup f = Some b /\ (sid b, sc b) <> (fid f, get_c (fo f)).
  Proof.
    intros f. unfold modified. destruct (fbackup f) as [b|] eqn:E.
    - rewrite negb_true_iff, andb_false_iff. split.
      + intros H. exists b. split; [reflexivity|]. intros X. inversion X as [[X1 X2]].
        destruct H as [H|H].
        * rewrite X1, N.eqb_refl in H. discriminate.
        * rewrite X2 in H. assert (K : C_eqb (get_c (fo f)) (get_c (fo f)) = true) by (apply C_eqb_spec; reflexivity).
          rewrite K in H. discriminate.
      + intros [b' [Eb N]]. inversion Eb; subst b'.
        destruct (N.eqb (sid b) (fid f)) eqn:E1; [|auto]. right.
        destruct (C_eqb (sc b) (get_c (fo f))) eqn:E2; [|auto].
        apply N.eqb_eq in E1. apply C_eqb_spec in E2. exfalso. apply N. congruence.
    - split; [discriminate|]. intros [b [X _]]. discriminate.
  Qed.

  Theorem modified_after_backup : forall f, fbackup f = None -> md (bk f) = false.
  Proof.
    intros f E. destruct (md (bk f)) eqn:M; [|reflexivity].
    apply modified_iff in M as [b [B N]]. rewrite (backup_state f E) in B. inversion B; subst b.
    destruct (backup_keeps f) as [K1 [K2 _]]. exfalso. apply N. unfold get_state; simpl.
    rewrite K1, K2. reflexivity.
  Qed.

  Theorem modified_after_revert : forall f, md (rv f) = false.
  Proof. intros f. unfold modified. rewrite revert_clears. reflexivity. Qed.

  (* after backup and any revert-free history: modified iff the content now differs from the
     content at the time of the backup (the id cannot change) *)
  Theorem modified_in_history : forall f h, fbackup f = None -> no_revert h ->
    (md (fr (bk f) h) = true <-> get_c (fo (fr (bk f) h)) <> get_c (fo f)).
  Proof.
    intros f h E NR. pose proof (backup_state f E) as B.
    destruct (frun_keeps_backup h (bk f) (gs f) B NR) as [A I].
    destruct (backup_keeps f) as [K1 _]. rewrite modified_iff. split.
    - intros [b [Eb N]] X. rewrite A in Eb. inversion Eb; subst b. apply N.
      unfold get_state; simpl. rewrite I, K1, X. reflexivity.
    - intros N. exists (gs f). split; [exact A|]. intros X. apply N.
      unfold get_state in X; simpl in X. inversion X. congruence.
  Qed.

  (* the defect that was repaired: a saved state never equals a state that embeds it, so the
     comparison self._backup != self.get_state() was True whenever a backup existed *)
  Fixpoint depth (s : state C) : nat :=
    match s with St _ _ None => 0%nat | St _ _ (Some b) => S (depth b) end.

  Lemma state_eqb_depth : forall a b, state_eqb C C_eqb a b = true -> depth a = depth b.
  Proof.
    fix IH 1. intros [i c x] [j d y] H. simpl in H.
    destruct x as [x1|], y as [y1|]; simpl;
      try (rewrite andb_false_r in H; discriminate); auto.
    apply andb_true_iff in H as [_ H]. f_equal. apply IH. exact H.
  Qed.

  Theorem unrepaired_modified_constant : forall f b, fbackup f = Some b -> mdu f = true.
  Proof.
    intros f b E. unfold modified_unrepaired. rewrite E. apply negb_true_iff.
    destruct (state_eqb C C_eqb b (gs f)) eqn:X; [|reflexivity].
    apply state_eqb_depth in X. unfold get_state in X; simpl in X. rewrite E in X. simpl in X. lia.
  Qed.

  (* ---------- copy ---------- *)
  Notation cpu := (copy_unrepaired Obj C get_c set_c new_o).
  Definition reid (i : ident) (b : state C) : state C := St i (sc b) (sb b).

  (* T3a: fresh id, equal content, an equal pending backup that carries the id of the copy,
     not live *)
  Theorem copy_spec : forall nid f,
    gs (cp nid f) = St nid (get_c (fo f)) (option_map (reid nid) (fbackup f))
    /\ fid (cp nid f) = nid /\ flive (cp nid f) = false.
  Proof.
    intros nid f. unfold copy, serializable_copy, from_state, new_flow, get_state, set_state; simpl.
    rewrite set_get. destruct (fbackup f) as [[j c b]|]; simpl; auto.
  Qed.

  Definition own (f : flowT) : Prop := forall b, fbackup f = Some b -> sid b = fid f.

  Lemma copy_own : forall nid f, own (cp nid f).
  Proof.
    intros nid f b. unfold copy, serializable_copy, from_state, new_flow, get_state, set_state; simpl.
    destruct (fbackup f) as [[j c x]|]; simpl; intros E; inversion E; reflexivity.
  Qed.

  Lemma revert_id_own : forall f, own f -> fid (rv f) = fid f.
  Proof.
    intros f W. unfold revert. destruct (fbackup f) as [[j c b]|] eqn:B; [|reflexivity].
    simpl. apply (W (St j c b) B).
  Qed.

  (* reverting a copy keeps the id of the copy, whatever was pending in the original *)
  Theorem copy_revert_keeps_id : forall nid f, fid (rv (cp nid f)) = nid.
  Proof.
    intros nid f. rewrite (revert_id_own _ (copy_own nid f)).
    destruct (copy_spec nid f) as [_ [I _]]. exact I.
  Qed.

  (* the defect that was repaired: the copy of a flow with a pending backup, once reverted, had
     the id of the original *)
  Theorem unrepaired_copy_revert_collides : forall nid f,
    fbackup f = None -> fid (rv (cpu nid (bk f))) = fid f.
  Proof.
    intros nid f E. unfold backup. rewrite E.
    unfold copy_unrepaired, serializable_copy, from_state, new_flow, get_state, set_state, revert; simpl.
    reflexivity.
  Qed.

  (* ---------- the store: operations on one flow leave the others alone ---------- *)
  Definition fop_of (o : op Obj) : option (nat * fop Obj) :=
    match o with
    | Edit i e => Some (i, FEdit e)
    | SetLive i b => Some (i, FLive b)
    | Backup i => Some (i, FBackup)
    | Revert i => Some (i, FRevert)
    | Reload i => Some (i, FReload)
    | Copy _ _ => None
    end.

  Lemma step_local : forall s o i p, fop_of o = Some (i, p) -> stp s o = updT i (fun f => fs f p) s.
  Proof. intros s o i p H. destruct o; simpl in H; inversion H; subst; reflexivity. Qed.

  Lemma upd_length : forall s i g, length (updT i g s) = length s.
  Proof. induction s as [|f r IH]; intros [|i] g; simpl; auto. Qed.

  Lemma upd_nth_other : forall s i j g, i <> j -> nth_error (updT i g s) j = nth_error s j.
  Proof.
    induction s as [|f r IH]; intros [|i] [|j] g N; simpl; auto; try congruence.
  Qed.

  Lemma upd_nth_same : forall s i g, nth_error (updT i g s) i = option_map g (nth_error s i).
  Proof. induction s as [|f r IH]; intros [|i] g; simpl; auto. Qed.

  Lemma step_length : forall s o, (length s <= length (stp s o))%nat.
  Proof.
    intros s o. destruct (fop_of o) as [[i p]|] eqn:E.
    - rewrite (step_local s o i p E), upd_length. lia.
    - destruct o; simpl in E; try discriminate. simpl. destruct (nth_error s i); [|lia].
      rewrite app_length. simpl. lia.
  Qed.

  (* T3b: an operation on flow i changes no other flow; a copy changes no existing flow and
     appends the copy *)
  Theorem step_independent : forall s o j, (j < length s)%nat ->
    (forall i p, fop_of o = Some (i, p) -> i <> j) ->
    nth_error (stp s o) j = nth_error s j.
  Proof.
    intros s o j L H. destruct (fop_of o) as [[i p]|] eqn:E.
    - rewrite (step_local s o i p E). apply upd_nth_other. apply (H i p). reflexivity.
    - destruct o; simpl in E; try discriminate. simpl. destruct (nth_error s i); [|reflexivity].
      apply nth_error_app1. exact L.
  Qed.

  Theorem step_on_target : forall s o i p, fop_of o = Some (i, p) ->
    nth_error (stp s o) i = option_map (fun f => fs f p) (nth_error s i).
  Proof. intros s o i p E. rewrite (step_local s o i p E). apply upd_nth_same. Qed.

  Theorem step_copy : forall s i nid f, nth_error s i = Some f ->
    stp s (Copy i nid) = s ++ [cp nid f].
  Proof. intros s i nid f E. simpl. rewrite E. reflexivity. Qed.

  (* over whole histories: a flow that no operation of the history targets is unchanged,
     whatever is done to the others (copies of it included) *)
  Theorem run_independent : forall h s j, (j < length s)%nat ->
    (forall o i p, In o h -> fop_of o = Some (i, p) -> i <> j) ->
    nth_error (rn s h) j = nth_error s j.
  Proof.
    induction h as [|o h IH]; intros s j L H; [reflexivity|].
    unfold run in *. simpl. rewrite IH.
    - apply step_independent; [exact L|]. intros i p E. apply (H o i p); simpl; auto.
    - pose proof (step_length s o). lia.
    - intros o' i p I E. apply (H o' i p); simpl; auto.
  Qed.

  (* ---------- ids stay distinct ---------- *)
  (* every copy receives an id not in use *)
  Definition fresh_op (s : list flowT) (o : op Obj) : Prop :=
    match o with Copy _ nid => ~ In nid (map fid s) | _ => True end.

  Fixpoint hist_ok (P : list flowT -> op Obj -> Prop) (s : list flowT) (h : list (op Obj)) : Prop :=
    match h with
    | [] => True
    | o :: r => P s o /\ hist_ok P (stp s o) r
    end.

  Lemma fstep_own : forall f p, own f -> own (fs f p) /\ fid (fs f p) = fid f.
  Proof.
    intros f p W. destruct p as [e|lv| | |]; simpl.
    - split; [|reflexivity]. intros b E. simpl in E. apply (W b E).
    - split; [|reflexivity]. intros b E. simpl in E. apply (W b E).
    - split; [|apply backup_keeps]. unfold backup. destruct (fbackup f) as [x|] eqn:B.
      + exact W.
      + intros b E. simpl in E. inversion E. reflexivity.
    - split; [|apply revert_id_own; exact W]. intros b E. rewrite revert_clears in E. discriminate.
    - split; [|reflexivity]. intros b E. unfold set_state, get_state in E. simpl in E.
      apply (W b E).
  Qed.

  Lemma upd_own : forall s i g,
    (forall f, own f -> own (g f) /\ fid (g f) = fid f) ->
    Forall own s -> map fid (updT i g s) = map fid s /\ Forall own (updT i g s).
  Proof.
    induction s as [|f r IH]; intros i g H W; [destruct i; simpl; auto|].
    inversion W as [|x l Wf Wr]; subst. destruct i as [|i]; simpl.
    - destruct (H f Wf) as [A B]. rewrite B. split; [reflexivity|constructor; assumption].
    - destruct (IH i g H Wr) as [A B]. rewrite A. split; [reflexivity|constructor; assumption].
  Qed.

  Lemma step_ids : forall s o, fresh_op s o ->
    NoDup (map fid s) -> Forall own s ->
    NoDup (map fid (stp s o)) /\ Forall own (stp s o).
  Proof.
    intros s o Fr ND W. destruct (fop_of o) as [[i p]|] eqn:E.
    - rewrite (step_local s o i p E).
      destruct (upd_own s i (fun f => fs f p) (fun f Wf => fstep_own f p Wf) W) as [A B].
      rewrite A. split; assumption.
    - destruct o; simpl in E; try discriminate. simpl in *.
      destruct (nth_error s i) as [f|]; [|split; assumption]. split.
      + rewrite map_app. destruct (copy_spec nid f) as [_ [I _]]. cbn [map]. rewrite I.
        apply NoDup_rev in ND. rewrite <- (rev_involutive (map fid s ++ [nid])).
        apply NoDup_rev. rewrite rev_app_distr. simpl. constructor; [|exact ND].
        rewrite <- in_rev. exact Fr.
      + apply Forall_app. split; [exact W|]. constructor; [apply copy_own|constructor].
  Qed.

  (* T3c: with fresh copy ids, ids stay pairwise distinct (and every saved state keeps carrying
     the id of its own flow) through EVERY history of edits, backups, reverts, reloads and copies,
     from any store in which that holds (e.g. any store of flows without pending backup) *)
  Theorem ids_distinct : forall h s,
    NoDup (map fid s) -> Forall own s ->
    hist_ok fresh_op s h ->
    NoDup (map fid (rn s h)) /\ Forall own (rn s h).
  Proof.
    induction h as [|o h IH]; intros s ND W H; [split; assumption|].
    destruct H as [Fr H]. unfold run in *. simpl.
    destruct (step_ids s o Fr ND W) as [A B]. apply IH; assumption.
  Qed.
End Proofs.

(* ---------- the token instance satisfies the contract; concrete witnesses ---------- *)
Example token_contract : forall c o, tget (tset c o) = c.
Proof. reflexivity. Qed.

Example token_eqb_spec : forall a b : N, N.eqb a b = true <-> a = b.
Proof. exact N.eqb_eq. Qed.

Definition sample_flow : tflow := Flow 5 10 true None.
Definition sample_hist : list (fop N) :=
  [FBackup; FEdit (fun _ => 11); FBackup; FLive false; FEdit (fun c => c + 1)].

(* the hypotheses of revert_restores hold on a history that really edits, and the conclusion is
   not trivial: the state before the revert differs and modified flips *)
Lemma sample_nonvacuous :
  no_revert N sample_hist /\ fbackup sample_flow = None
  /\ let g := frun N N tget tset (backup N N tget sample_flow) (tl sample_hist) in
     tget_state g <> tget_state sample_flow
     /\ tmodified g = true
     /\ tget_state (revert N N tset g) = tget_state sample_flow
     /\ tmodified (revert N N tset g) = false
     /\ tmodified (backup N N tget sample_flow) = false.
Proof.
  split; [|split; [reflexivity|]].
  - unfold no_revert, sample_hist. simpl. intros [H|[H|[H|[H|[H|[]]]]]]; discriminate.
  - vm_compute. repeat split; try reflexivity. discriminate.
Qed.

(* the history that used to end with two flows sharing one id: backup flow 0, copy it, revert the
   copy *)
Definition collide_store : list tflow := [Flow 0 0 true None].
Definition collide_hist : list (op N) := [Backup 0; Copy 0 1; Revert 1].

Lemma collide_hist_now_distinct :
  map fid (run N N tget tset 0 collide_store collide_hist) = [0; 1]
  /\ fid (revert N N tset (copy_unrepaired N N tget tset 0 1 (backup N N tget (Flow 0 0 true None)))) = 0.
Proof. vm_compute. split; reflexivity. Qed.
