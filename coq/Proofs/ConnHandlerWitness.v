(* Proofs/ConnHandlerWitness.v -- concrete schedules on which the faithful model violates the
   full-strength property (each corresponds to a known finding reproduced on the real class). *)
From Coq Require Import List Bool Arith.
From MV Require Import Model.ConnHandler Proofs.ConnHandlerPair Proofs.ConnHandlerSem.
Import ListNotations.

Definition start : list item := [Run TMain false; AHook TMain false; Run TMain false].
Definition client_gone : list item :=
  [ATimeout; Run (TConn 0) true; Run TMain false; AHook TMain false; Run TMain false].
Definition six : list (list cmd) := [[COpen (Some 0); COpen (Some 0); COpen (Some 0); COpen (Some 0); COpen (Some 0); COpen (Some 0)]].
Definition runs (l : list nat) : list item := map (fun c => Run (TConn c) false) l.
Definition hook_run (l : list nat) : list item := flat_map (fun c => [AHook (TConn c) false; Run (TConn c) false]) l.

(* 1. six connections to one address; the sixth waits for the semaphore when the client goes away *)
Definition w_sem : list item :=
  start ++ runs [1;2;3;4;5;6;0] ++ hook_run [1;2;3;4;5;6] ++ client_gone ++ [Run (TConn 6) true].
Lemma w_sem_ok :
  let s := run (init six) w_sem in
  c_pc (getc s 6) = PDone XLostSem /\ proj 6 (trace s) = [HServerConnect].
Proof. vm_compute. auto. Qed.

(* 2. the server_connect hook is still running when the client goes away *)
Definition w_connect_hook : list item :=
  start ++ runs [1;0] ++ client_gone ++ [Run (TConn 1) true; Run TMain false].
Lemma w_connect_hook_ok :
  let s := run (init [[COpen (Some 0)]]) w_connect_hook in
  c_pc (getc s 1) = PDone XLostConnectHook /\ proj 1 (trace s) = [HServerConnect] /\ mainpc s = MDone 0.
Proof. vm_compute. auto. Qed.

(* 3. the server_connected hook is still running when the client goes away: no server_disconnected,
      the writer is never closed, handle_client returns *)
Definition w_connected_hook : list item :=
  start ++ runs [1;0] ++ hook_run [1] ++ [AConn 1 true; Run (TConn 1) false] ++ client_gone ++
  [Run (TConn 1) true; Run TMain false].
Lemma w_connected_hook_ok :
  let s := run (init [[COpen (Some 0)]]) w_connected_hook in
  c_pc (getc s 1) = PDone XLostConnectedHook /\ proj 1 (trace s) = [HServerConnected; HServerConnect] /\
  mainpc s = MDone 0 /\ teardown_n s = Some 2 /\ c_writer (getc s 1) = WOpen.
Proof. vm_compute. auto. Qed.

(* 4. six sockets to one address open at once: connection 1 is closed by the layer while its
      server_connected hook runs; its socket leaks but its semaphore slot is released *)
Definition w_six_open : list item :=
  start ++ runs [1;2;3;4;5;6;0] ++ hook_run [1;2;3;4;5;6] ++
  [AConn 1 true; Run (TConn 1) false; AConn 2 true; Run (TConn 2) false] ++ hook_run [2] ++
  [Run (TConn 1) true; Run (TConn 6) false] ++
  [AConn 3 true; Run (TConn 3) false; AConn 4 true; Run (TConn 4) false;
   AConn 5 true; Run (TConn 5) false; AConn 6 true; Run (TConn 6) false].
Lemma w_six_open_ok :
  let s := run (init (six ++ [[CClose 1]])) w_six_open in
  open_writers 0 s = 6 /\ leaked 0 s = 1 /\ open_count 0 s = 5.
Proof. vm_compute. auto. Qed.

(* 5. a hook completes after handle_client has returned and the layer opens a connection *)
Definition w_late_open : list item :=
  start ++ [Run (THook 0) false; Run (TConn 0) false] ++ client_gone ++
  [AHook (THook 0) false; Run (THook 0) false; Run (TConn 1) false] ++ hook_run [1] ++
  [AConn 1 true; Run (TConn 1) false] ++ hook_run [1].
Lemma w_late_open_ok :
  let s := run (init [[CHook]; []; [COpen (Some 0)]]) w_late_open in
  mainpc s = MDone 0 /\ teardown_n s = Some 1 /\ c_writer (getc s 1) = WOpen /\ c_pc (getc s 1) = PRead.
Proof. vm_compute. auto. Qed.

(* non-vacuity: a clean run with one refused, one successful connection and a clean shutdown *)
Definition w_clean : list item :=
  start ++ runs [1;2;0] ++ hook_run [1;2] ++ [AConn 1 false; Run (TConn 1) false; AConn 2 true; Run (TConn 2) false] ++
  hook_run [1;2] ++ [ARead 2 RData; Run (TConn 2) false; ARead 2 REof; Run (TConn 2) false] ++ client_gone ++
  [Run (TConn 2) true] ++ hook_run [2] ++ [Run TMain false].
Lemma w_clean_ok :
  let s := run (init [[COpen (Some 0); COpen (Some 1)]]) w_clean in
  mainpc s = MDone 0 /\ rev (cproj (trace s)) = [HClientConnected; HClientDisconnected] /\
  rev (proj 1 (trace s)) = [HServerConnect; HServerConnectError] /\
  rev (proj 2 (trace s)) = [HServerConnect; HServerConnected; HServerDisconnected] /\
  c_pc (getc s 1) = PDone (XErr false) /\ c_pc (getc s 2) = PDone (XClosed true) /\
  c_writer (getc s 2) = WClosed /\ semval s 0 = 5 /\ semval s 1 = 5.
Proof. vm_compute. auto 20. Qed.
