(* Proofs/Http1SegBuf.v -- facts about the ReceiveBuffer model of Model/Http1Seg.v:
   the two search-offset caches never change a result (buf_inv), results are determined by a prefix of the data
   (appending bytes to the buffer does not change a successful extraction), and how maybe_extract_at_most
   distributes over appended data. *)
From Coq Require Import List Bool NArith ZArith Arith Lia.
From MV Require Import Base.Bytes Model.Http1Seg.
Import ListNotations.

Lemma option_map_map {A B C} (f : A -> B) (g : B -> C) (o : option A) :
  option_map g (option_map f o) = option_map (fun x => g (f x)) o.
Proof. destruct o; reflexivity. Qed.

Lemma option_map_ext {A B} (f g : A -> B) (o : option A) : (forall x, f x = g x) -> option_map f o = option_map g o.
Proof. intros H; destruct o; simpl; [rewrite H|]; reflexivity. Qed.

Lemma option_map_id {A} (o : option A) : option_map (fun x => x) o = o.
Proof. destruct o; reflexivity. Qed.

(* ---------------------------------------------------------------- find_crlf *)
Lemma find_crlf_cons2 a b t :
  find_crlf (a :: b :: t) = if byte_eqb a CR && byte_eqb b LF then Some 0 else option_map S (find_crlf (b :: t)).
Proof. reflexivity. Qed.

Lemma find_crlf_bound d : forall i, find_crlf d = Some i -> i + 2 <= length d.
Proof.
  induction d as [|a t IH]; intros i H; [discriminate|].
  destruct t as [|b t']; [discriminate|]. rewrite find_crlf_cons2 in H.
  destruct (byte_eqb a CR && byte_eqb b LF).
  - inversion H; subst; simpl; lia.
  - destruct (find_crlf (b :: t')) eqn:E; [|discriminate]. inversion H; subst.
    specialize (IH _ eq_refl). simpl in *; lia.
Qed.

Lemma find_crlf_app d x : forall i, find_crlf d = Some i -> find_crlf (d ++ x) = Some i.
Proof.
  induction d as [|a t IH]; intros i H; [discriminate|].
  destruct t as [|b t']; [discriminate|].
  change ((a :: b :: t') ++ x) with (a :: b :: (t' ++ x)).
  rewrite find_crlf_cons2 in *. destruct (byte_eqb a CR && byte_eqb b LF); [exact H|].
  destruct (find_crlf (b :: t')) eqn:E; [|discriminate].
  change (b :: t' ++ x) with ((b :: t') ++ x). rewrite (IH _ eq_refl). exact H.
Qed.

Definition nls_ok (d : bytes) (n : nat) : Prop := n <= length d /\ find_crlf (firstn n d) = None.

Lemma find_crlf_from_ok d : forall n, find_crlf (firstn n d) = None -> find_crlf_from (n - 1) d = find_crlf d.
Proof.
  unfold find_crlf_from. induction d as [|a t IH]; intros n H.
  - rewrite skipn_nil. reflexivity.
  - destruct n as [|[|k]].
    + simpl. apply option_map_id.
    + simpl. apply option_map_id.
    + change (S (S k) - 1) with (S k). change (skipn (S k) (a :: t)) with (skipn k t).
      change (firstn (S (S k)) (a :: t)) with (a :: firstn (S k) t) in H.
      specialize (IH (S k)). replace (S k - 1) with k in IH by lia.
      destruct t as [|b t'].
      * rewrite skipn_nil. reflexivity.
      * change (firstn (S k) (b :: t')) with (b :: firstn k t') in H. rewrite find_crlf_cons2 in H.
        rewrite find_crlf_cons2. destruct (byte_eqb a CR && byte_eqb b LF); [discriminate|].
        destruct (find_crlf (b :: firstn k t')) eqn:E; [discriminate|].
        change (b :: firstn k t') with (firstn (S k) (b :: t')) in E.
        rewrite <- (IH E). rewrite option_map_map. apply option_map_ext. intros; lia.
Qed.

Lemma nls_ok_app d x n : nls_ok d n -> nls_ok (d ++ x) n.
Proof.
  intros [Hl Hf]. split; [rewrite app_length; lia|].
  rewrite firstn_app. replace (n - length d) with 0 by lia. simpl. rewrite app_nil_r. exact Hf.
Qed.

(* ---------------------------------------------------------------- blank_search *)
Lemma blank_at_bound d k : blank_at d = Some k -> 2 <= k /\ k <= length d.
Proof.
  destruct d as [|a [|b t]]; simpl; try discriminate.
  destruct (byte_eqb a LF); [|discriminate].
  destruct (byte_eqb b LF); [intros H; inversion H; simpl; lia|].
  destruct (byte_eqb b CR); [|discriminate].
  destruct t as [|c t']; [discriminate|]. destruct (byte_eqb c LF); [|discriminate].
  intros H; inversion H; simpl; lia.
Qed.

Lemma blank_at_app_some d x k : blank_at d = Some k -> blank_at (d ++ x) = Some k.
Proof.
  destruct d as [|a [|b t]]; simpl; try discriminate.
  destruct (byte_eqb a LF); [|discriminate].
  destruct (byte_eqb b LF); [auto|].
  destruct (byte_eqb b CR); [|discriminate].
  destruct t as [|c t']; [discriminate|]. simpl. auto.
Qed.

Lemma blank_at_app3 d x : 3 <= length d -> blank_at (d ++ x) = blank_at d.
Proof. destruct d as [|a [|b [|c t]]]; simpl; intros; try lia. reflexivity. Qed.

Lemma blank_at_firstn d n : 3 <= n -> blank_at (firstn n d) = blank_at d.
Proof.
  intros H. destruct n as [|[|[|n]]]; try lia.
  destruct d as [|a [|b [|c t]]]; reflexivity.
Qed.

Lemma blank_search_cons a t :
  blank_search (a :: t) = match blank_at (a :: t) with Some k => Some k | None => option_map S (blank_search t) end.
Proof. reflexivity. Qed.

Lemma blank_search_bound d : forall k, blank_search d = Some k -> 2 <= k /\ k <= length d.
Proof.
  induction d as [|a t IH]; intros k H.
  - simpl in H. discriminate.
  - rewrite blank_search_cons in H. destruct (blank_at (a :: t)) eqn:E.
    + inversion H; subst. apply blank_at_bound in E. exact E.
    + destruct (blank_search t) eqn:E2; [|discriminate]. inversion H; subst.
      destruct (IH _ eq_refl). simpl. lia.
Qed.

Lemma blank_search_app d x : forall k, blank_search d = Some k -> blank_search (d ++ x) = Some k.
Proof.
  induction d as [|a t IH]; intros k H; [simpl in H; discriminate|].
  change ((a :: t) ++ x) with (a :: (t ++ x)). rewrite blank_search_cons in *.
  destruct (blank_at (a :: t)) eqn:E.
  - change (a :: t ++ x) with ((a :: t) ++ x). rewrite (blank_at_app_some _ _ _ E). exact H.
  - destruct (blank_search t) eqn:E2; [|discriminate].
    destruct (blank_search_bound _ _ E2) as [? ?].
    change (a :: t ++ x) with ((a :: t) ++ x). rewrite blank_at_app3 by (simpl; lia). rewrite E.
    rewrite (IH _ eq_refl). exact H.
Qed.

Definition mls_ok (d : bytes) (m : nat) : Prop :=
  m = 0 \/ (m + 2 <= length d /\ blank_search (firstn (m + 2) d) = None).

Lemma blank_search_from_ok : forall m d, blank_search (firstn (m + 2) d) = None -> blank_search_from m d = blank_search d.
Proof.
  unfold blank_search_from. induction m as [|m IH]; intros d H.
  - simpl. apply option_map_id.
  - destruct d as [|a t]; [reflexivity|].
    change (skipn (S m) (a :: t)) with (skipn m t).
    change (firstn (S m + 2) (a :: t)) with (a :: firstn (m + 2) t) in H.
    rewrite blank_search_cons in H.
    destruct (blank_at (a :: firstn (m + 2) t)) eqn:E; [discriminate|].
    destruct (blank_search (firstn (m + 2) t)) eqn:E2; [discriminate|].
    change (a :: firstn (m + 2) t) with (firstn (S (m + 2)) (a :: t)) in E.
    rewrite blank_at_firstn in E by lia.
    rewrite blank_search_cons, E. rewrite <- (IH _ E2).
    rewrite option_map_map. apply option_map_ext. intros; lia.
Qed.

Lemma mls_ok_app d x m : mls_ok d m -> mls_ok (d ++ x) m.
Proof.
  intros [H|[Hl Hs]]; [left; exact H|right].
  split; [rewrite app_length; lia|].
  rewrite firstn_app. replace (m + 2 - length d) with 0 by lia. simpl. rewrite app_nil_r. exact Hs.
Qed.

(* ---------------------------------------------------------------- the invariant of the two caches *)
Definition buf_inv (b : rbuf) : Prop := nls_ok (b_data b) (b_nls b) /\ mls_ok (b_data b) (b_mls b).

Lemma buf_inv_zero d : buf_inv (mkBuf d 0 0).
Proof. split; [split; simpl; [lia|reflexivity]|left; reflexivity]. Qed.

Lemma buf_inv_add b x : buf_inv b -> buf_inv (buf_add b x).
Proof. intros [H1 H2]. split; simpl; [apply nls_ok_app|apply mls_ok_app]; assumption. Qed.

(* ---------------------------------------------------------------- the three operations in terms of the data only *)
Lemma next_line_spec b : buf_inv b ->
  maybe_extract_next_line b =
  match find_crlf (b_data b) with
  | Some i => (Some (firstn (i + 2) (b_data b)), mkBuf (skipn (i + 2) (b_data b)) 0 0)
  | None => (None, mkBuf (b_data b) (length (b_data b)) (b_mls b))
  end.
Proof.
  intros [[_ H1] _]. unfold maybe_extract_next_line. rewrite Nat.max_0_l.
  rewrite (find_crlf_from_ok _ _ H1). destruct (find_crlf (b_data b)); reflexivity.
Qed.

Lemma next_line_inv b : buf_inv b -> buf_inv (snd (maybe_extract_next_line b)).
Proof.
  intros H. rewrite (next_line_spec _ H). destruct H as [_ H2].
  destruct (find_crlf (b_data b)) eqn:E; simpl; [apply buf_inv_zero|].
  split; simpl; [split; [lia|rewrite firstn_all; exact E]|exact H2].
Qed.

Lemma lines_spec b : buf_inv b ->
  maybe_extract_lines b =
  let d := b_data b in
  if starts_with [LF] d then (Some [], mkBuf (skipn 1 d) 0 0)
  else if starts_with CRLF d then (Some [], mkBuf (skipn 2 d) 0 0)
  else match blank_search d with
       | None => (None, mkBuf d (b_nls b) (length d - 2))
       | Some idx => (Some (lines_of (firstn idx d)), mkBuf (skipn idx d) 0 0)
       end.
Proof.
  intros [_ H2]. unfold maybe_extract_lines. cbv zeta.
  destruct (starts_with [LF] (b_data b)); [reflexivity|].
  destruct (starts_with CRLF (b_data b)); [reflexivity|].
  assert (E : blank_search_from (b_mls b) (b_data b) = blank_search (b_data b)).
  { destruct H2 as [H|[_ H]]; [rewrite H; unfold blank_search_from; simpl; apply option_map_id|].
    apply blank_search_from_ok; exact H. }
  rewrite E. destruct (blank_search (b_data b)); reflexivity.
Qed.

Lemma lines_inv b : buf_inv b -> buf_inv (snd (maybe_extract_lines b)).
Proof.
  intros H. rewrite (lines_spec _ H). cbv zeta. destruct H as [H1 _].
  destruct (starts_with [LF] (b_data b)); [apply buf_inv_zero|].
  destruct (starts_with CRLF (b_data b)); [apply buf_inv_zero|].
  destruct (blank_search (b_data b)) eqn:E; simpl; [apply buf_inv_zero|].
  split; simpl; [exact H1|].
  destruct (le_lt_dec 2 (length (b_data b))) as [Hl|Hl].
  - right. split; [lia|]. replace (length (b_data b) - 2 + 2) with (length (b_data b)) by lia.
    rewrite firstn_all. exact E.
  - left. lia.
Qed.

Lemma at_most_inv b n : buf_inv b -> buf_inv (snd (maybe_extract_at_most b n)).
Proof.
  intros H. unfold maybe_extract_at_most. destruct (splitN (b_data b) n) as [[|a o] r]; simpl; [exact H|apply buf_inv_zero].
Qed.

(* ---------------------------------------------------------------- splitN *)
Lemma splitN_0 d : splitN d 0 = ([], d).
Proof. destruct d; reflexivity. Qed.

Lemma splitN_app : forall d x n,
  splitN (d ++ x) n =
  let (a, r) := splitN d n in let (a', r') := splitN x (n - N.of_nat (length a)) in (a ++ a', r ++ r').
Proof.
  induction d as [|y t IH]; intros x n.
  - simpl. rewrite N.sub_0_r. destruct (splitN x n); reflexivity.
  - simpl. destruct (N.eqb n 0) eqn:E.
    + apply N.eqb_eq in E; subst. simpl. rewrite splitN_0. reflexivity.
    + rewrite IH. destruct (splitN t (N.pred n)) as [a r] eqn:E2.
      apply N.eqb_neq in E.
      replace (N.pred n - N.of_nat (length a))%N with (n - N.of_nat (length (y :: a)))%N
        by (simpl length; lia).
      destruct (splitN x (n - N.of_nat (length (y :: a)))); reflexivity.
Qed.

Lemma splitN_concat : forall d n a r, splitN d n = (a, r) -> a ++ r = d.
Proof.
  induction d as [|y t IH]; intros n a r H; simpl in H.
  - inversion H; reflexivity.
  - destruct (N.eqb n 0); [inversion H; reflexivity|].
    destruct (splitN t (N.pred n)) as [a' r'] eqn:E. inversion H; subst. simpl. f_equal. eapply IH; eauto.
Qed.

(* either everything asked for was there, or the whole data was taken *)
Lemma splitN_cases : forall d n a r, splitN d n = (a, r) ->
  (N.of_nat (length a) = n) \/ (r = [] /\ (N.of_nat (length a) < n)%N).
Proof.
  induction d as [|y t IH]; intros n a r H; simpl in H.
  - inversion H; subst. simpl. destruct n; [left; reflexivity|right; split; [reflexivity|lia]].
  - destruct (N.eqb n 0) eqn:E.
    + apply N.eqb_eq in E. inversion H; subst. left; reflexivity.
    + apply N.eqb_neq in E. destruct (splitN t (N.pred n)) as [a' r'] eqn:E2. inversion H; subst.
      destruct (IH _ _ _ E2) as [Hc|[Hc1 Hc2]].
      * left. simpl length. lia.
      * right. split; [exact Hc1|simpl length; lia].
Qed.

Lemma splitN_nonempty d n a r : splitN d n = (a, r) -> d <> [] -> n <> 0%N -> a <> [].
Proof.
  destruct d as [|y t]; [congruence|]. intros H _ Hn. simpl in H.
  destruct (N.eqb n 0) eqn:E; [apply N.eqb_eq in E; congruence|].
  destruct (splitN t (N.pred n)). inversion H. discriminate.
Qed.

(* ---------------------------------------------------------------- starts_with / lstrip *)
Lemma starts_with_app p d x : starts_with p d = true -> starts_with p (d ++ x) = true.
Proof.
  revert d; induction p as [|a p IH]; intros d H; [reflexivity|].
  destruct d as [|b d]; [discriminate|]. simpl in *.
  destruct (byte_eqb a b); [simpl in *; auto|discriminate].
Qed.

Lemma starts_with_app_long p d x : length p <= length d -> starts_with p (d ++ x) = starts_with p d.
Proof.
  revert d; induction p as [|a p IH]; intros d H; [reflexivity|].
  destruct d as [|b d]; [simpl in H; lia|]. simpl in *.
  destruct (byte_eqb a b); [simpl; apply IH; lia|reflexivity].
Qed.

Lemma lstrip_app_nonempty d x : lstrip_crlf d <> [] -> lstrip_crlf (d ++ x) = lstrip_crlf d ++ x.
Proof.
  induction d as [|a t IH]; intros H; [simpl in H; congruence|].
  simpl in *. destruct (byte_eqb a CR || byte_eqb a LF); [auto|reflexivity].
Qed.

Lemma lstrip_app_empty d x : lstrip_crlf d = [] -> lstrip_crlf (d ++ x) = lstrip_crlf x.
Proof.
  induction d as [|a t IH]; intros H; [reflexivity|].
  simpl in *. destruct (byte_eqb a CR || byte_eqb a LF); [auto|discriminate].
Qed.
