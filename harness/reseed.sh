#!/bin/bash
# reseed.sh Cxx [name] : re-run ./check Cxx against current HEAD + seeded/<name>/patch.diff and refresh its meta.json
pid=$1; name=${2:-$1}; wt=/var/tmp/reseed-$name; out=/verif/seeded/$name
git -C /repo worktree add --detach $wt HEAD -q && cd $wt && git apply $out/patch.diff || { echo "patch no longer applies"; git -C /repo worktree remove --force $wt; exit 2; }
cd /verif && VERIF_REPO=$wt ./check $pid --tier quick > $out/check.log 2>&1; chk=$?
grep -v "^KNOWN" $out/check.log | tail -3
viol=$(grep -m1 '^VIOLATION' $out/check.log)
rp=$(echo "$viol" | sed -n 's/.*replay=\([^ ]*\).*/\1/p'); [ -n "$rp" ] && cp "$rp" $out/replay.json 2>/dev/null
python3 - <<PY
import json
p="$out/meta.json"; m=json.load(open(p))
m.update({"check_exit":$chk,"check_line":"""$viol""","caught":bool($chk==1 and """$viol""".startswith("VIOLATION"))})
json.dump(m,open(p,"w"),indent=1)
PY
git -C /repo worktree remove --force $wt
