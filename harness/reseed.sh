#!/bin/bash
# reseed.sh Cxx : re-run ./check Cxx against current HEAD + seeded/Cxx/patch.diff
pid=$1; wt=/var/tmp/reseed-$pid
git -C /repo worktree add --detach $wt HEAD -q && cd $wt && git apply /verif/seeded/$pid/patch.diff || { echo "patch no longer applies"; git -C /repo worktree remove --force $wt; exit 2; }
cd /verif && VERIF_REPO=$wt ./check $pid --tier quick 2>&1 | grep -v "^KNOWN" | tail -3
rp=$(ls -t /verif/replays/$pid-*.json 2>/dev/null | head -1); [ -n "$rp" ] && cp $rp /verif/seeded/$pid/replay.json
git -C /repo worktree remove --force $wt
