#!/venv/bin/python
"""Run the pinned suite (guard OFF) and compare with /root/.vp/BASELINE.json stable_pass."""
import json, subprocess, sys, xml.etree.ElementTree as ET, os, tempfile
base = json.load(open("/root/.vp/BASELINE.json"))
out = tempfile.mktemp(suffix=".xml", dir="/var/tmp")
env = dict(os.environ); env.pop("MITMPROXY_VERIF", None)
jobs = sys.argv[1] if len(sys.argv) > 1 else "8"
cmd = ["/venv/bin/python", "-m", "pytest", "-q", "-p", "no:cacheprovider", "--timeout=900",
       "--continue-on-collection-errors", f"--junitxml={out}"] + (["-n", jobs] if jobs != "0" else [])
subprocess.run(cmd, cwd=os.environ.get("REPO_DIR", "/repo"), env=env, stdout=subprocess.DEVNULL, stderr=subprocess.DEVNULL)
passed = set()
for tc in ET.parse(out).getroot().iter("testcase"):
    if not any(ch.tag in ("failure", "error", "skipped") for ch in tc):
        passed.add(f"{tc.get('classname')}::{tc.get('name')}")
os.unlink(out)
missing = [t for t in base["stable_pass"] if t not in passed]
if 0 < len(missing) <= 8:
    # load-sensitive tests (wall-clock assertions, 5 s websocket timeouts) fail under -n 8 on a busy machine:
    # re-run the files of the missing tests serially once and count what passes then
    repo_dir = os.environ.get("REPO_DIR", "/repo")
    def test_file(t):
        mod = t.split("::")[0]
        for cand in (mod, mod.rsplit(".", 1)[0]):   # module-level tests: classname is the module; methods: module.Class
            f = cand.replace(".", "/") + ".py"
            if os.path.exists(os.path.join(repo_dir, f)):
                return f
        return mod.replace(".", "/") + ".py"
    files = sorted({test_file(t) for t in missing})
    out2 = tempfile.mktemp(suffix=".xml", dir="/var/tmp")
    subprocess.run(["/venv/bin/python", "-m", "pytest", "-q", "-p", "no:cacheprovider", "--timeout=900", f"--junitxml={out2}"] + files,
                   cwd=os.environ.get("REPO_DIR", "/repo"), env=env, stdout=subprocess.DEVNULL, stderr=subprocess.DEVNULL)
    try:
        for tc in ET.parse(out2).getroot().iter("testcase"):
            if not any(ch.tag in ("failure", "error", "skipped") for ch in tc):
                passed.add(f"{tc.get('classname')}::{tc.get('name')}")
        os.unlink(out2)
    except Exception:
        pass
    still = [t for t in missing if t not in passed]
    print(f"re-ran {files} serially: {len(missing) - len(still)} of {len(missing)} missing tests pass alone")
    missing = still
print(f"stable_pass={len(base['stable_pass'])} passed_now={len(passed)} missing={len(missing)}")
for t in missing[:30]:
    print("  MISSING", t)
sys.exit(1 if missing else 0)
