#!/venv/bin/python
"""Regenerate every translated model (Gen/*.v) from /repo and (re)write _CoqProject + Makefile."""
import importlib, os, pkgutil, sys
sys.path.insert(0, os.path.dirname(os.path.abspath(__file__)))
import check
import translators
for m in pkgutil.iter_modules(translators.__path__):
    tr = importlib.import_module("translators." + m.name)
    if not hasattr(tr, "translate"):
        continue
    try:
        text = tr.translate(check.REPO)
        out = os.path.join(check.COQ, "Gen", tr.OUT)
        os.makedirs(os.path.dirname(out), exist_ok=True)
        if not os.path.exists(out) or open(out).read() != text:
            open(out, "w").write(text)
        print("translated", m.name, "->", "Gen/" + tr.OUT)
    except Exception as e:
        print("translator", m.name, "FAILED:", type(e).__name__, e)
check.ensure_makefile()
