#!/bin/bash
# integrate.sh Cxx... : run the quick check; when green, validate evidence and add to props/claimed.txt
cd /verif
for pid in "$@"; do
  out=$(./check $pid --tier quick 2>&1); rc=$?
  echo "$out" | tail -4
  if [ $rc -eq 0 ] && python3-vt - <<PY
import json,jsonschema,sys
jsonschema.validate(json.load(open('/verif/evidence/$pid.json')), json.load(open('/root/.vp/EVIDENCE.schema.json')))
e=json.load(open('/verif/evidence/$pid.json'))['coverage']
assert e['obligations']==e['discharged']>0, 'obligations'
PY
  then
    grep -qw $pid props/claimed.txt || sed -i "s/\$/ $pid/" props/claimed.txt
    echo "== $pid APPROVED"
  else
    echo "== $pid NOT GREEN (rc=$rc)"
  fi
done
/venv/bin/python harness/mkmanifest.py
