#!/venv/bin/python
"""Merge props/Cxx.json fragments into MANIFEST.json (kept valid at all times)."""
import json, os, glob, sys
V = os.path.dirname(os.path.dirname(os.path.abspath(__file__)))
props = [json.loads(l) for l in open(os.path.join(V, "properties.jsonl"))]
checks, claimed = [], set()
approved = set(open(os.path.join(V, "props", "claimed.txt")).read().split())
for f in sorted(glob.glob(os.path.join(V, "props", "C*.json"))):
    d = json.load(open(f))
    if d["property_id"] not in approved:
        continue  # fragment exists but the integrator has not yet seen its check green on the unchanged tree
    pid = d["property_id"]
    d.setdefault("quick_cmd", f"./check {pid} --tier quick")
    d.setdefault("thorough_cmd", f"./check {pid} --tier thorough")
    d.setdefault("replay_cmd_template", f"./check {pid} --replay {{path}}")
    d.setdefault("evidence_file", f"/verif/evidence/{pid}.json")
    d.setdefault("engine", "coq+correspondence")
    checks.append(d); claimed.add(pid)
na_file = os.path.join(V, "props", "not_applicable.json")
na_reasons = json.load(open(na_file)) if os.path.exists(na_file) else {}
na = []
for p in props:
    if p["id"] not in claimed:
        na.append({"property_id": p["id"], "reason": na_reasons.get(p["id"], "not claimed yet: model/theorem/correspondence for this property are not built (design in DESIGN.md section 6); no check is registered rather than a weaker technique substituted")})
man = {
    "version": 1,
    "setup_cmd": "./setup.sh",
    "hooks": {"guard": "MITMPROXY_VERIF", "enable": "none needed: checks import /repo's working tree via PYTHONPATH=/repo and drive the sans-io layers directly; no source hooks exist",
              "baseline_off_cmd": "cd /repo && /venv/bin/python -m pytest -q -p no:cacheprovider --timeout=900",
              "source_commits": [], "add_only": True},
    "engines": [{"name": "coq+correspondence", "path": "harness/check.py",
                 "serves_properties": sorted(claimed),
                 "kind_free_text": "Coq 8.16.1 theorems about Gallina models (coq/); models tied to /repo on every run by translators (coq/Gen regenerated from source) and/or by executing the model (coqc vm_compute) against the implementation on generated inputs"}],
    "checks": checks,
    "notes": "See DESIGN.md. known_findings.jsonl lists recorded/fixed defects. All checks: ./check <id> --tier quick|thorough.",
    "not_applicable": na,
}
lines = []
for f in sorted(glob.glob(os.path.join(V, "findings", "C*.jsonl"))):
    lines += [l.strip() for l in open(f) if l.strip()]
open(os.path.join(V, "known_findings.jsonl"), "w").write("\n".join(lines) + ("\n" if lines else ""))
json.dump(man, open(os.path.join(V, "MANIFEST.json"), "w"), indent=1)
print(f"MANIFEST.json: {len(checks)} checks, {len(na)} not claimed")
