#!/usr/bin/env python3
"""Regenerate the generated sections of DESIGN.md: section 12 (seeded changes) and section 13 (status per property)."""
import json, os, glob, re
V='/verif'
props=[json.loads(l) for l in open(f'{V}/properties.jsonl')]
claimed=set(open(f'{V}/props/claimed.txt').read().split())
def findings(pid):
    p=f'{V}/findings/{pid}.jsonl'; out=[]
    if os.path.exists(p):
        for l in open(p):
            if l.strip(): out.append(json.loads(l))
    return out
lines=["## 12. Seeded changes: which checks catch which changes\n",
"Each row is a change to mitmproxy written by an independent sub-agent that was given only the property text and its own",
"scratch worktree (nothing from /verif). Kept only after confirming: the demonstration fails with the change and passes",
"without it, and the pinned stable suite still passes with it (`harness/baseline.py`). `seeded/<id>/` holds patch.diff,",
"demo.py, meta.json and the replay the check produced. \"first run\" is the check as it was before it saw the change.\n",
"| Property | Seeded change (summary) | What it needs to manifest | First run | Now | How it is caught |","|---|---|---|---|---|---|"]
for d in sorted(glob.glob(f'{V}/seeded/C*')):
    try: m=json.load(open(d+'/meta.json'))
    except Exception: continue
    pid=os.path.basename(d)
    first = "caught" if m.get('first_run_caught', m.get('caught')) else "MISSED"
    now = "caught" if m.get('caught') else "MISSED"
    how=""
    rp=d+'/replay.json'
    if os.path.exists(rp):
        try:
            r=json.load(open(rp)); how = ("failing input, key `%s`"%r.get('key')) if r.get('kind')=='failing-input' else "proof/correspondence broke, no-failing-input-found"
            if r.get('broken'): how += "; " + "; ".join(str(b)[:70] for b in r['broken'][:1])
        except Exception: pass
    if m.get('strengthening'): how += " — " + m['strengthening'][:260]
    esc=lambda s: str(s).replace('|','/').replace('\n',' ')
    lines.append(f"| {m.get('property',pid)} | {esc(m.get('summary',''))[:220]} | {esc(m.get('needs',''))[:200]} | {first} | {now} | {esc(how)} |")
sec12="\n".join(lines)+"\n"
lines=["## 13. Status per property (generated)\n",
"| Property | Claimed | Theorems in Props | Findings fixed in /repo | Findings recorded as known |","|---|---|---|---|---|"]
for p in props:
    pid=p['id']; f=findings(pid)
    thm=0
    pv=f'{V}/coq/Props/{pid}.v'
    if os.path.exists(pv): thm=len(re.findall(r'^\s*Theorem\s', open(pv).read(), re.M))
    fx=sorted({(x['key'],x.get('commit','')) for x in f if x['kind']=='fixed'})
    kn=sorted({x['key'] for x in f if x['kind']=='known'})
    lines.append(f"| {pid} | {'yes' if pid in claimed else 'no'} | {thm} | {', '.join(k+' ('+c+')' for k,c in fx) or '-'} | {', '.join(kn) or '-'} |")
sec13="\n".join(lines)+"\n"
s=open(f'{V}/DESIGN.md').read()
m=re.search(r'\n## 12\. Seeded changes', s)
if m: s=s[:m.start()+1]
s=s.rstrip('\n')+"\n\n"+sec12+"\n"+sec13
open(f'{V}/DESIGN.md','w').write(s)
print("DESIGN.md sections 12/13 regenerated")
