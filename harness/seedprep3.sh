#!/bin/bash
# seedprep3.sh Cxx... : third-round scratch worktrees /var/tmp/seed-Cxx-3 with an adapted prompt
for p in "$@"; do wt=/var/tmp/seed-$p-3; git -C /repo worktree add --detach $wt HEAD -q && sed "s#/var/tmp/seed-$p#$wt#g; s# -n 8 # -n 4 #g" /verif/harness/prompts/seed_$p.txt > $wt/PROMPT.txt && cat >> $wt/PROMPT.txt <<'EOT'

Additional steer for this round: the most obvious functions named in the anchors have been mutated before. Prefer a change in the GLUE around the anchored mechanism: a caller or callee in another file, option handling or reconfiguration at runtime, an error / cleanup / rollback path, state carried across two operations (a cache, memoisation, reuse of an object or buffer, a counter), or the interaction with a neighbouring feature (streaming, upgrades, replay, IDN / IPv6 / ports, several clients or listeners, non-HTTP flow types). The violation must still be a violation of THIS property as stated. Keep the machine usable for others: run the full suite at most twice and with `-n 4`; never use `git stash` (all scratch worktrees share one stash) - use `git apply -R patch.diff` / `git apply patch.diff`; never run broad kill commands.
EOT
echo -n "$p-3 "; done; echo
