"""Printers for Coq terms used in generated cases files. Always parenthesised / scoped so
they can be dropped anywhere."""


def cbool(b) -> str:
    return "true" if b else "false"


def cnat(n: int) -> str:
    assert 0 <= n < 5000, "nat literals must stay small; use cN/cZ"
    return f"{n}%nat"


def cN(n: int) -> str:
    assert n >= 0
    return f"{n}%N"


def cZ(n: int) -> str:
    return f"({n})%Z"


def cbytes(b: bytes) -> str:
    if not b:
        return "(@nil byte)"
    return "[" + ";".join("x%02x" % c for c in b) + "]"


def cstr_utf8(s: str) -> str:
    return cbytes(s.encode("utf-8", "surrogateescape"))


def clist(items, ty=None) -> str:
    items = list(items)
    if not items:
        return f"(@nil {ty})" if ty else "nil"
    return "[" + "; ".join(items) + "]"


def copt(x, f=lambda v: v, ty=None) -> str:
    if x is None:
        return f"(@None {ty})" if ty else "None"
    return f"(Some {f(x)})"


def cpair(a, b) -> str:
    return f"({a}, {b})"


def ccodepoints(s: str) -> str:
    """str -> list N of code points"""
    return clist((cN(ord(c)) for c in s), "N")


def hx(b: bytes) -> str:
    return b.hex()


def unhx(s: str) -> bytes:
    return bytes.fromhex(s)
