"""Generic sans-io driver for real mitmproxy layers (shared by the HTTP/TLS/mode properties).

It plays the role of proxy/server.py's ConnectionHandler without asyncio: events are fed to the top
layer, the command generator is consumed completely, then commands are executed in order exactly like
server_event does (connection state changes included) and the completions of blocking commands are
queued as new events (FIFO), which is what the event loop does with hook and open-connection tasks.

    from lib.sansio import Driver, DEFER
    d = Driver(lambda ctx: http.HttpLayer(ctx, HTTPMode.regular), policy=my_policy, connect=my_connect)
    d.start()                                   # events.Start()
    d.data(0, b"GET http://example.com/ HTTP/1.1\r\nHost: example.com\r\n\r\n")   # 0 = client
    d.data(1, b"HTTP/1.1 200 OK\r\nContent-Length: 0\r\n\r\n")                   # 1 = first server connection
    d.close(0)
    d.trace  -> [("hook", "requestheaders", 0), ("open", 1, ["example.com", 80]), ("send", 1, "4745..."), ...]
    d.sent(1) -> bytes written to connection 1 (concatenated)

policy(hook, driver) is called for every StartHook (blocking or not) and may mutate the hook's data
object (flow.response = ..., flow.kill(), flow.request.headers[...] = ..., data.layer = ...).  If it returns
DEFER the completion is not queued; complete it later with d.complete(hook).  connect(conn, driver) is
called for every OpenConnection and returns None (success), an error string, or DEFER.
All ordinals (connections, flows) are assigned in order of first appearance, so traces are canonical.
"""
from __future__ import annotations

import collections

DEFER = object()


def make_context(options_overrides=None, client_kwargs=None):
    from mitmproxy import connection, options
    from mitmproxy.addons.proxyserver import Proxyserver
    from mitmproxy.proxy import context
    opts = options.Options()
    Proxyserver().load(opts)
    for k, v in (options_overrides or {}).items():
        if k not in opts:
            # options owned by addons that are not loaded here (e.g. body_size_limit lives in Proxyserver; others may not)
            opts.add_option(k, type(v), v, "")
        else:
            opts.update(**{k: v})
    kw = dict(peername=("client", 1234), sockname=("127.0.0.1", 8080), timestamp_start=1605699329,
              state=connection.ConnectionState.OPEN)
    kw.update(client_kwargs or {})
    return context.Context(connection.Client(**kw), opts)


class Driver:
    def __init__(self, layer_factory, options_overrides=None, policy=None, connect=None, client_kwargs=None, ctx=None):
        from mitmproxy.proxy import commands, events
        from mitmproxy.connection import ConnectionState
        self.commands, self.events, self.CS = commands, events, ConnectionState
        self.ctx = ctx or make_context(options_overrides, client_kwargs)
        self.layer = layer_factory(self.ctx)
        self.policy = policy or (lambda hook, drv: None)
        self.connect = connect or (lambda conn, drv: None)
        self.conns = [self.ctx.client]
        self.flows = []
        self.trace = []
        self.hooks = []            # hook command objects in emission order
        self.deferred = []         # hooks / open commands whose completion was deferred
        self.wakeups = []
        self.logs = []
        self.crashed = None        # exception escaping the layer, if any (type name, message)
        self._q = collections.deque()
        self._busy = False

    # ---- ordinals
    def conn_ord(self, conn):
        for i, c in enumerate(self.conns):
            if c is conn:
                return i
        self.conns.append(conn)
        return len(self.conns) - 1

    def flow_ord(self, obj):
        for i, f in enumerate(self.flows):
            if f is obj:
                return i
        self.flows.append(obj)
        return len(self.flows) - 1

    # ---- feeding events
    def start(self):
        self.event(self.events.Start())

    def data(self, conn, data: bytes):
        c = self.conns[conn]
        self.event(self.events.DataReceived(c, data))

    def close(self, conn, tcp_half_close=True):
        c = self.conns[conn]
        if tcp_half_close and c.transport_protocol == "tcp":
            c.state &= ~self.CS.CAN_READ
        else:
            c.state = self.CS.CLOSED
        self.event(self.events.ConnectionClosed(c))

    def complete(self, cmd, reply=None):
        """complete a deferred hook / open-connection command"""
        self.deferred = [d for d in self.deferred if d is not cmd]
        if isinstance(cmd, self.commands.OpenConnection):
            if not reply:
                cmd.connection.state = self.CS.OPEN
                cmd.connection.timestamp_start = 1624544785
            self.event(self.events.OpenConnectionCompleted(cmd, reply))
        else:
            self.event(self.events.HookCompleted(cmd))

    def wakeup(self, i=0):
        cmd = self.wakeups.pop(i)
        self.event(self.events.Wakeup(cmd))

    def event(self, ev):
        self._q.append(ev)
        if self._busy:
            return
        self._busy = True
        try:
            while self._q and self.crashed is None:
                e = self._q.popleft()
                try:
                    cmds = list(self.layer.handle_event(e))
                except Exception as exc:  # server_event logs "mitmproxy has crashed!" and carries on
                    self.crashed = (type(exc).__name__, str(exc)[:200])
                    self.trace.append(("crash", type(exc).__name__))
                    break
                for c in cmds:
                    self._execute(c)
        finally:
            self._busy = False

    # ---- executing commands like server_event
    def _execute(self, c):
        cm = self.commands
        if isinstance(c, cm.OpenConnection):
            o = self.conn_ord(c.connection)
            addr = list(c.connection.address) if c.connection.address else None
            self.trace.append(("open", o, addr))
            r = self.connect(c.connection, self)
            if r is DEFER:
                self.deferred.append(c)
            else:
                if not r:
                    c.connection.state = self.CS.OPEN
                    c.connection.timestamp_start = 1624544785
                self._q.append(self.events.OpenConnectionCompleted(c, r))
        elif isinstance(c, cm.RequestWakeup):
            self.wakeups.append(c)
        elif isinstance(c, cm.SendData):
            o = self.conn_ord(c.connection)
            self.trace.append(("send", o, bytes(c.data).hex()))
        elif isinstance(c, cm.CloseTcpConnection):
            o = self.conn_ord(c.connection)
            self.trace.append(("close", o, bool(c.half_close)))
            if c.half_close:
                if c.connection.state & self.CS.CAN_WRITE:
                    c.connection.state &= ~self.CS.CAN_WRITE
            else:
                c.connection.state = self.CS.CLOSED
        elif isinstance(c, cm.CloseConnection):
            o = self.conn_ord(c.connection)
            self.trace.append(("close", o, False))
            c.connection.state = self.CS.CLOSED
        elif isinstance(c, cm.StartHook):
            args = c.args()
            obj = args[0] if args else None
            self.hooks.append(c)
            self.trace.append(("hook", c.name, self.flow_ord(obj)))
            r = self.policy(c, self)
            if c.blocking:
                if r is DEFER:
                    self.deferred.append(c)
                else:
                    self._q.append(self.events.HookCompleted(c))
        elif isinstance(c, cm.Log):
            self.logs.append((c.level, str(c.message)[:300]))
        else:
            self.trace.append(("cmd", type(c).__name__))

    # ---- observations
    def sent(self, conn) -> bytes:
        return b"".join(bytes.fromhex(t[2]) for t in self.trace if t[0] == "send" and t[1] == conn)

    def hook_names(self, flow=None):
        return [t[1] for t in self.trace if t[0] == "hook" and (flow is None or t[2] == flow)]
