"""Single deterministic PRNG (splitmix64): every random choice of a check derives from one
state seeded by VERIF_SEED, so disagreements replay exactly."""
MASK = (1 << 64) - 1


class Rng:
    def __init__(self, seed: int):
        self.s = seed & MASK

    def next(self) -> int:
        self.s = (self.s + 0x9E3779B97F4A7C15) & MASK
        z = self.s
        z = ((z ^ (z >> 30)) * 0xBF58476D1CE4E5B9) & MASK
        z = ((z ^ (z >> 27)) * 0x94D049BB133111EB) & MASK
        return z ^ (z >> 31)

    def below(self, n: int) -> int:
        return self.next() % n if n > 0 else 0

    def randint(self, a: int, b: int) -> int:
        return a + self.below(b - a + 1)

    def random(self) -> float:
        return (self.next() >> 11) / float(1 << 53)

    def chance(self, p: float) -> bool:
        return self.random() < p

    def choice(self, seq):
        return seq[self.below(len(seq))]

    def weighted(self, pairs):
        """pairs: [(weight, value), ...]"""
        tot = sum(w for w, _ in pairs)
        x = self.random() * tot
        for w, v in pairs:
            x -= w
            if x < 0:
                return v
        return pairs[-1][1]

    def bytes(self, n: int, alphabet=None) -> bytes:
        if alphabet is None:
            return bytes(self.below(256) for _ in range(n))
        return bytes(alphabet[self.below(len(alphabet))] for _ in range(n))

    def shuffle(self, lst):
        for i in range(len(lst) - 1, 0, -1):
            j = self.below(i + 1)
            lst[i], lst[j] = lst[j], lst[i]
        return lst

    def sample(self, seq, k):
        l = list(seq)
        self.shuffle(l)
        return l[:k]

    def fork(self) -> "Rng":
        return Rng(self.next())
