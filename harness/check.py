#!/venv/bin/python
"""Generic driver: ./check <Cxx> [--tier quick|thorough] [--replay FILE] [--n N]

Stages (DESIGN.md §2.1): regenerate translated models -> prove (make + Print Assumptions +
forbidden-token scan) -> correspond (implementation vs Gallina model, evaluated by coqc
vm_compute) -> known findings -> decide -> evidence.  Exit 0 iff the property is shown to
hold on everything explored; exit 1 with `VIOLATION property=<id> replay=<path>` otherwise.
"""
from __future__ import annotations

import argparse
import concurrent.futures as cf
import fcntl
import hashlib
import importlib
import json
import os
import re
import shutil
import subprocess
import sys
import time
import traceback

VERIF = os.path.dirname(os.path.dirname(os.path.abspath(__file__)))
COQ = os.path.join(VERIF, "coq")
REPO = os.environ.get("VERIF_REPO", "/repo")
sys.path.insert(0, os.path.join(VERIF, "harness"))
sys.path.insert(0, REPO)
os.environ.setdefault("PYTHONHASHSEED", "0")

from lib import prng  # noqa: E402

FORBIDDEN = [
    r"\bAdmitted\b", r"\badmit\b", r"\bAxiom\b", r"\bAxioms\b", r"\bParameter\b", r"\bParameters\b",
    r"\bConjecture\b", r"Unset\s+Guard", r"Unset\s+Positivity", r"Unset\s+Universe", r"bypass_check",
    r"type-in-type", r"impredicative-set", r"\bAdmit\s+Obligations\b", r"\bgive_up\b",
]


def sh(cmd, cwd=None, timeout=None, env=None):
    p = subprocess.run(cmd, cwd=cwd, shell=isinstance(cmd, str), stdout=subprocess.PIPE,
                       stderr=subprocess.STDOUT, timeout=timeout, env=env)
    return p.returncode, p.stdout.decode("utf-8", "replace")


def strip_comments(src: str) -> str:
    out, depth, i, n = [], 0, 0, len(src)
    while i < n:
        if src.startswith("(*", i):
            depth += 1; i += 2
        elif src.startswith("*)", i) and depth:
            depth -= 1; i += 2
        else:
            if not depth:
                out.append(src[i])
            i += 1
    return "".join(out)


def cone(roots):
    """Transitive closure of MV.* dependencies of the given .v files (paths relative to coq/)."""
    seen, todo = [], list(roots)
    while todo:
        f = todo.pop()
        if f in seen or not os.path.exists(os.path.join(COQ, f)):
            continue
        seen.append(f)
        src = strip_comments(open(os.path.join(COQ, f)).read())
        toks = src.split()
        k = 0
        while k < len(toks):
            pref = None
            if toks[k] == "From" and k + 2 < len(toks) and toks[k + 2] == "Require":
                pref = toks[k + 1]
                k += 3
            elif toks[k] == "Require":
                pref = ""
                k += 1
            else:
                k += 1
                continue
            if k < len(toks) and toks[k] in ("Import", "Export"):
                k += 1
            while k < len(toks):
                t = toks[k]
                k += 1
                last = t.endswith(".")
                name = t[:-1] if last else t
                full = (pref + "." + name) if pref else name
                if full.startswith("MV."):
                    todo.append(full[3:].replace(".", "/") + ".v")
                if last:
                    break
    return sorted(seen)


def scan_forbidden(files):
    bad = []
    for f in files:
        src = strip_comments(open(os.path.join(COQ, f)).read())
        for pat in FORBIDDEN:
            for m in re.finditer(pat, src):
                bad.append(f"{f}: {m.group(0)}")
        depth = 0
        for line in src.splitlines():
            s = line.strip()
            if re.match(r"(Section|Module\s+Type)\s+\w+", s):
                depth += 1
            elif re.match(r"End\s+\w+\s*\.", s) and depth:
                depth -= 1
            elif depth == 0 and re.match(r"(Variable|Variables|Hypothesis|Hypotheses|Context)\b", s):
                bad.append(f"{f}: {s[:40]} (outside Section)")
    return bad


def count_obligations(files):
    n = 0
    for f in files:
        src = strip_comments(open(os.path.join(COQ, f)).read())
        n += len(re.findall(r"\b(Qed|Defined)\s*\.", src))
    return n


def ensure_makefile():
    files = []
    for d in ("Base", "Model", "Gen", "Proofs", "Props", "Corr"):
        p = os.path.join(COQ, d)
        if os.path.isdir(p):
            files += sorted(os.path.join(d, x) for x in os.listdir(p) if x.endswith(".v"))
    text = "-Q . MV\n-arg -w -arg -all\n" + "\n".join(files) + "\n"
    cp = os.path.join(COQ, "_CoqProject")
    old = open(cp).read() if os.path.exists(cp) else None
    if old != text or not os.path.exists(os.path.join(COQ, "Makefile")):
        open(cp, "w").write(text)
        sh("coq_makefile -f _CoqProject -o Makefile", cwd=COQ, timeout=120)


class Lock:
    def __enter__(self):
        self.f = open(os.path.join(COQ, ".lock"), "w")
        fcntl.flock(self.f, fcntl.LOCK_EX)
        return self

    def __exit__(self, *a):
        fcntl.flock(self.f, fcntl.LOCK_UN)
        self.f.close()


def run_translators(mod, log):
    """Regenerate Gen/*.v from /repo. Returns (ok, messages)."""
    msgs = []
    ok = True
    for name in getattr(mod, "TRANSLATORS", []):
        try:
            tr = importlib.import_module(f"translators.{name}")
            text = tr.translate(REPO)
            out = os.path.join(COQ, "Gen", tr.OUT)
            old = open(out).read() if os.path.exists(out) else None
            if old != text:
                os.makedirs(os.path.dirname(out), exist_ok=True)
                open(out, "w").write(text)
                msgs.append(f"translator {name}: Gen/{tr.OUT} regenerated (changed)")
            else:
                msgs.append(f"translator {name}: Gen/{tr.OUT} unchanged")
        except Exception as e:  # fail closed
            ok = False
            msgs.append(f"translator {name} failed closed: {type(e).__name__}: {e}")
    return ok, msgs


def prove(pid, mod, tier, log):
    res = {"ok": True, "broken": [], "axioms": {}, "obligations": 0, "discharged": 0, "msgs": []}
    props_v = f"Props/{pid}.v"
    corr_v = f"Corr/{pid}.v"
    with Lock():
        tok, msgs = run_translators(mod, log)
        res["msgs"] += msgs
        if not tok:
            res["ok"] = False
            res["broken"].append("translator: " + "; ".join(m for m in msgs if "failed" in m))
        ensure_makefile()
        targets = [t.replace(".v", ".vo") for t in (props_v, corr_v) if os.path.exists(os.path.join(COQ, t))]
        t0 = time.time()
        rc, out = sh(["timeout", "3000", "make", "-j16", "-k"] + targets, cwd=COQ)
        res["make_s"] = round(time.time() - t0, 1)
        if rc != 0:
            res["ok"] = False
            errs = re.findall(r'File "\./([^"]+)", line (\d+)[^\n]*\n(Error:[^\n]*(?:\n[^\n]+){0,3})', out)
            for f, ln, e in errs[:5]:
                res["broken"].append(f"{f}:{ln}: {' '.join(e.split())[:300]}")
            if not errs:
                res["broken"].append("make failed: " + out[-400:])
    files = cone([props_v, corr_v])
    res["cone"] = files
    res["obligations"] = count_obligations(files)
    compiled = [f for f in files if os.path.exists(os.path.join(COQ, f[:-2] + ".vo"))
                and os.path.getmtime(os.path.join(COQ, f[:-2] + ".vo")) >= os.path.getmtime(os.path.join(COQ, f))]
    res["discharged"] = count_obligations(compiled) if rc != 0 else res["obligations"]
    bad = scan_forbidden(files)
    if bad:
        res["ok"] = False
        res["broken"] += ["forbidden: " + b for b in bad]
    # Print Assumptions: recompile the Props file (cheap: only `exact lemma`)
    if rc == 0:
        rc2, out2 = sh(["timeout", "600", "coqc", "-Q", ".", "MV", "-w", "-all", props_v], cwd=COQ)
        if rc2 != 0:
            res["ok"] = False
            res["broken"].append("Props recompile failed: " + out2[-300:])
        thms = re.findall(r"^\s*(?:Theorem|Lemma|Example|Corollary)\s+(\w+)", strip_comments(open(os.path.join(COQ, props_v)).read()), re.M)
        printed = re.findall(r"Print\s+Assumptions\s+(\w+)", strip_comments(open(os.path.join(COQ, props_v)).read()))
        res["theorems"] = thms
        missing = [t for t in thms if t not in printed]
        if missing:
            res["ok"] = False
            res["broken"].append("no Print Assumptions for: " + ", ".join(missing))
        blocks = re.split(r"(?=Closed under the global context|Axioms:)", out2)
        axioms = []
        nclosed = 0
        for b in blocks:
            if b.startswith("Closed under"):
                nclosed += 1
            elif b.startswith("Axioms:"):
                axioms += re.findall(r"^([\w.']+)\s*:", b[len("Axioms:"):], re.M)
        allowed = set(getattr(mod, "ALLOWED_AXIOMS", []))
        res["axioms"] = {"closed": nclosed, "axioms": sorted(set(axioms))}
        extra = sorted(set(a for a in axioms if a.split(".")[-1] not in allowed and a not in allowed))
        if extra:
            res["ok"] = False
            res["broken"].append("unexpected axioms: " + ", ".join(extra))
        if tier == "thorough" and getattr(mod, "COQCHK", True):
            t0 = time.time()
            rc3, out3 = sh(["timeout", "1800", "coqchk", "-silent", "-o", "-Q", ".", "MV", f"MV.Props.{pid}"], cwd=COQ)
            res["coqchk_s"] = round(time.time() - t0, 1)
            res["coqchk"] = "ok" if rc3 == 0 else "FAILED"
            m = re.search(r"\* Axioms:(.*?)(?:\n\s*\*|\Z)", out3, re.S)
            res["coqchk_axioms"] = " ".join(m.group(1).split()) if m else out3[-300:]
            if rc3 != 0:
                res["ok"] = False
                res["broken"].append("coqchk failed: " + out3[-300:])
    return res


def eval_cases_in_coq(pid, mod, terms, workdir, tag="cases"):
    """terms: list of Coq terms of the Corr module's case type. Returns (mismatch indices, errors)."""
    shard = getattr(mod, "SHARD", 300)
    os.makedirs(workdir, exist_ok=True)
    jobs = []
    for k in range(0, len(terms), shard):
        name = f"{tag}_{pid}_{k // shard}"
        path = os.path.join(workdir, name + ".v")
        with open(path, "w") as f:
            f.write(f"From Coq Require Import List NArith ZArith Strings.String.\nFrom MV Require Import Base.Bytes Corr.{pid}.\n")
            f.write(getattr(mod, "COQ_PRELUDE", ""))
            f.write("Import ListNotations.\nOpen Scope list_scope.\n")
            f.write(f"Definition cases : list {getattr(mod, 'CASE_TYPE', 'case')} := [\n")
            f.write(";\n".join(terms[k:k + shard]))
            f.write("\n].\nEval vm_compute in (mismatches check_case cases).\n")
        jobs.append((k, path))

    def one(job, limit="1200"):
        k, path = job
        rc, out = sh(["timeout", limit, "coqc", "-Q", COQ, "MV", "-w", "-all", path], cwd=workdir)
        if rc != 0:
            return k, None, (out[-600:] or f"coqc exit {rc} (time limit {limit}s?) on {os.path.basename(path)}")
        m = re.search(r"=\s*\[(.*?)\]\s*:\s*list nat", out, re.S)
        if not m:
            return k, None, "unparsable coqc output: " + out[-300:]
        idx = [int(x) for x in re.findall(r"\d+", m.group(1))]
        return k, idx, None

    mism, errs, retry = [], [], []
    with cf.ThreadPoolExecutor(max_workers=int(os.environ.get("VERIF_JOBS", "12"))) as ex:
        for job, (k, idx, err) in zip(jobs, ex.map(one, jobs)):
            if idx is None:
                retry.append(job)
            else:
                mism += [k + i for i in idx]
    # a shard that failed (on a loaded machine: the time limit) is evaluated once more, alone and with a longer limit
    for job in retry:
        k, idx, err = one(job, "3600")
        if idx is None:
            errs.append(err or "coqc failed")
        else:
            mism += [k + i for i in idx]
    return sorted(mism), errs


def canon(x):
    return json.dumps(x, sort_keys=True, separators=(",", ":"), default=str)


def load_known(pid):
    """findings/<pid>.jsonl: one JSON object per line, kind = known | fixed. Never written at run time.
    (known_findings.jsonl at the top level is the concatenation of these files, kept for readers.)"""
    known, fixed = {}, {}
    p = os.path.join(VERIF, "findings", pid + ".jsonl")
    if os.path.exists(p):
        for line in open(p):
            line = line.strip()
            if not line or line.startswith("#"):
                continue
            e = json.loads(line)
            if e.get("property") != pid:
                continue
            (known if e.get("kind") == "known" else fixed)[e["key"]] = e
    return known, fixed


def load_corpus(pid):
    p = os.path.join(VERIF, "corpus", pid + ".jsonl")
    out = []
    if os.path.exists(p):
        for line in open(p):
            line = line.strip()
            if line and not line.startswith("#"):
                out.append(json.loads(line))
    return out


def run_impl_safe(mod, case):
    try:
        return mod.run_impl(case)
    except Exception as e:  # an exception escaping the documented behaviour is itself an observable
        return {"__harness_exc__": f"{type(e).__name__}: {e}", "__tb__": traceback.format_exc()[-800:]}


def main():
    ap = argparse.ArgumentParser()
    ap.add_argument("pid")
    ap.add_argument("--tier", default=os.environ.get("VERIF_TIER", "quick"), choices=["quick", "thorough"])
    ap.add_argument("--replay")
    ap.add_argument("--n", type=int)
    args = ap.parse_args()
    pid, tier = args.pid, args.tier
    seed = int(os.environ.get("VERIF_SEED", "20260921"))
    t_start = time.time()
    mod = importlib.import_module(f"props.{pid}")
    workdir = os.path.join(VERIF, ".work", f"{pid}-{os.getpid()}")  # per process: concurrent runs of one check must not share scratch
    shutil.rmtree(workdir, ignore_errors=True)
    os.makedirs(workdir, exist_ok=True)
    os.makedirs(os.path.join(VERIF, "evidence"), exist_ok=True)
    os.makedirs(os.path.join(VERIF, "replays"), exist_ok=True)
    log = []
    known, fixed = load_known(pid)

    if args.replay:
        return replay(pid, mod, args.replay, workdir)

    # ---- stage 1+2: regenerate + prove
    pr = prove(pid, mod, tier, log)

    # ---- stage 3: correspondence
    n = args.n or (mod.QUICK_N if tier == "quick" else mod.THOROUGH_N)
    rng = prng.Rng(seed)
    corpus = load_corpus(pid)
    cases = list(corpus) + list(mod.gen(rng, n, tier))
    t0 = time.time()
    if hasattr(mod, "setup_impl"):
        mod.setup_impl()
    obs = [run_impl_safe(mod, c) for c in cases]
    impl_s = time.time() - t0
    harness_errs = [(i, o) for i, o in enumerate(obs) if isinstance(o, dict) and "__harness_exc__" in o]
    terms, term_idx = [], []
    for i, (c, o) in enumerate(zip(cases, obs)):
        if isinstance(o, dict) and "__harness_exc__" in o:
            continue
        try:
            t = mod.coq_case(c, o)
        except Exception as e:  # the observation has a shape the model cannot even express: counts as a disagreement
            obs[i] = o = {"__harness_exc__": f"coq_case: {type(e).__name__}: {e}", "__tb__": traceback.format_exc()[-800:], "observed": o}
            harness_errs.append((i, o))
            continue
        if t is not None:
            terms.append(t); term_idx.append(i)
    t0 = time.time()
    corr_ok_build = os.path.exists(os.path.join(COQ, "Corr", pid + ".vo"))
    mism, coq_errs = ([], ["Corr module not built"]) if not corr_ok_build else eval_cases_in_coq(pid, mod, terms, workdir)
    coq_s = time.time() - t0
    disagreements = [term_idx[i] for i in mism] + [i for i, _ in harness_errs]

    # ---- oracle on every case (the property itself, on the implementation)
    viol = []  # (index, key, what)
    for i, (c, o) in enumerate(zip(cases, obs)):
        if isinstance(o, dict) and "__harness_exc__" in o:
            o = o.get("observed")
            if o is None:
                continue
        try:
            vs0 = mod.oracle(c, o) or []
        except Exception as e:
            if i not in disagreements:
                disagreements.append(i)
            obs[i] = {"__harness_exc__": f"oracle: {type(e).__name__}: {e}", "__tb__": traceback.format_exc()[-800:], "observed": o}
            continue
        for v in vs0:
            viol.append((i, v["key"], v["what"]))

    broken = list(pr["broken"])
    if coq_errs:
        broken += ["correspondence evaluation failed: " + e for e in coq_errs[:3]]
    if disagreements:
        broken.append(f"correspondence: model and implementation differ on {len(disagreements)} of {len(cases)} cases")

    # ---- search for a failing input when something broke and the oracle has nothing new yet
    new_viol = [(i, k, w) for (i, k, w) in viol if k not in known]
    search_n = 0
    if broken and not new_viol and hasattr(mod, "gen"):
        rng2 = prng.Rng(seed ^ 0x5EA4C4)
        extra = list(mod.gen(rng2, max(10 * n, 2000) if tier == "quick" else 3 * n, tier))
        search_n = len(extra)
        for j, c in enumerate(extra):
            o = run_impl_safe(mod, c)
            if isinstance(o, dict) and "__harness_exc__" in o:
                continue
            try:
                vs = [v for v in (mod.oracle(c, o) or []) if v["key"] not in known]
            except Exception:
                continue
            if vs:
                cases.append(c); obs.append(o)
                new_viol.append((len(cases) - 1, vs[0]["key"], vs[0]["what"]))
                break

    # ---- known findings
    seen_known = {}
    for i, k, w in viol:
        if k in known and k not in seen_known:
            seen_known[k] = (i, w)
    # also replay the recorded inputs of known findings
    for k, e in known.items():
        if k in seen_known or "case" not in e:
            continue
        o = run_impl_safe(mod, e["case"])
        if not (isinstance(o, dict) and "__harness_exc__" in o):
            for v in (mod.oracle(e["case"], o) or []):
                if v["key"] == k:
                    seen_known[k] = (-1, v["what"]); break
    for k, (i, w) in sorted(seen_known.items()):
        print(f"KNOWN-FINDING: property={pid} {k}: {known[k].get('what', w)}")

    # ---- decide
    status = 0
    replay_path = None
    if new_viol:
        i, k, w = new_viol[0]
        replay_path = os.path.join(VERIF, "replays", f"{pid}-{seed}.json")
        json.dump({"property": pid, "kind": "failing-input", "seed": seed, "key": k, "what": w,
                   "case": cases[i], "observed": obs[i], "broken": broken,
                   "cmd": f"./check {pid} --replay {replay_path}"}, open(replay_path, "w"), indent=1, default=str)
        print(f"VIOLATION property={pid} replay={replay_path}")
        status = 1
    elif broken:
        replay_path = os.path.join(VERIF, "replays", f"{pid}-{seed}.json")
        d = {"property": pid, "kind": "no-failing-input-found", "seed": seed, "broken": broken,
             "searched_cases": len(cases) + search_n,
             "cmd": f"./check {pid} --replay {replay_path}"}
        if disagreements:
            i = disagreements[0]
            d["case"] = cases[i]; d["observed"] = obs[i]
            d["disagreeing_cases"] = [cases[j] for j in disagreements[:5]]
        json.dump(d, open(replay_path, "w"), indent=1, default=str)
        print(f"VIOLATION property={pid} replay={replay_path} no-failing-input-found")
        status = 1

    # ---- evidence
    distinct = {}
    for c, o in zip(cases, obs):
        try:
            nt = bool(mod.nontrivial(c, o))
        except Exception:
            nt = False
        if nt:
            distinct[hashlib.sha1(canon(c).encode()).hexdigest()] = 1
    dist = {}
    if hasattr(mod, "classify"):
        for c, o in zip(cases, obs):
            try:
                for tag in mod.classify(c, o):
                    dist[tag] = dist.get(tag, 0) + 1
            except Exception:
                pass
    ev = {
        "property_id": pid, "tier": tier, "seed": seed, "level": "proof",
        "coverage": {
            "obligations": pr["obligations"], "discharged": pr["discharged"],
            "checker_cmd": f"make -C coq Props/{pid}.vo Corr/{pid}.vo && coqc Props/{pid}.v (Print Assumptions)"
                           + (" && coqchk -o MV.Props.%s" % pid if tier == "thorough" else ""),
            "trusted_base": getattr(mod, "TRUSTED", []),
            "theorems": pr.get("theorems", []),
            "print_assumptions": pr.get("axioms", {}),
            "proof_cone_files": pr.get("cone", []),
            "proof_messages": pr.get("msgs", []),
            "broken": broken,
            "evaluations": len(cases),
            "distinct_nontrivial": len(distinct),
            "rule": getattr(mod, "RULE", ""),
            "samples": [{"case": c, "observed": o} for c, o in list(zip(cases, obs))[len(corpus):len(corpus) + 3]],
            "traces_validated_against_impl": len(terms),
            "correspondence_disagreements": len(disagreements),
            "input_distribution": dist,
            "corpus_cases": len(corpus),
            "oracle_violations_total": len(viol),
            "known_findings_replayed": sorted(seen_known),
            "search_cases": search_n,
            "exhaustive": bool(getattr(mod, "EXHAUSTIVE", False)),
            "timing": {"make_s": pr.get("make_s"), "impl_s": round(impl_s, 2), "coq_eval_s": round(coq_s, 2),
                       "coqchk_s": pr.get("coqchk_s")},
        },
        "assumptions": getattr(mod, "ASSUMPTIONS", []),
        "wall_s": round(time.time() - t_start, 2),
        "violations": len(new_viol) + (1 if (broken and not new_viol) else 0),
    }
    if "coqchk" in pr:
        ev["coverage"]["coqchk"] = pr["coqchk"]
        ev["coverage"]["coqchk_axioms"] = pr.get("coqchk_axioms")
    json.dump(ev, open(os.path.join(VERIF, "evidence", pid + ".json"), "w"), indent=1, default=str)
    print(f"[{pid}] tier={tier} seed={seed} obligations={pr['obligations']}/{pr['discharged']} "
          f"cases={len(cases)} nontrivial={len(distinct)} disagreements={len(disagreements)} "
          f"oracle_violations={len(viol)} known={len(seen_known)} wall={ev['wall_s']}s status={status}")
    for b in broken[:8]:
        print("  broken:", b)
    if not os.environ.get("VERIF_KEEP"):
        shutil.rmtree(workdir, ignore_errors=True)
    return status


def replay(pid, mod, path, workdir):
    d = json.load(open(path))
    cases = [d["case"]] if "case" in d else []
    cases += [c for c in d.get("disagreeing_cases", []) if c not in cases]
    if not cases:
        print("replay file names only broken obligations:", d.get("broken"))
        pr = prove(pid, mod, "quick", [])
        print("proof stage now:", "ok" if pr["ok"] else pr["broken"])
        return 0 if pr["ok"] else 1
    known, _ = load_known(pid)
    if hasattr(mod, "setup_impl"):
        mod.setup_impl()
    ensure_makefile()
    sh(["make", "-j16", f"Corr/{pid}.vo"], cwd=COQ)
    status = 0
    for c in cases:
        o = run_impl_safe(mod, c)
        print("case:", canon(c)[:2000])
        print("implementation:", canon(o)[:2000])
        if isinstance(o, dict) and "__harness_exc__" in o:
            status = 1
            continue
        t = mod.coq_case(c, o)
        if t is not None:
            mism, errs = eval_cases_in_coq(pid, mod, [t], workdir, tag="replay")
            print("model agrees with implementation:", not mism and not errs, errs[:1] if errs else "")
            if mism or errs:
                status = 1
        vs = mod.oracle(c, o) or []
        print("oracle (property on implementation):", vs if vs else "holds")
        if any(v["key"] not in known for v in vs):
            status = 1
    return status


if __name__ == "__main__":
    sys.exit(main())
