#!/bin/bash
# usage: goal.sh <file.v> <line>   — shows the goals just before <line> (1-based) of the file
f=$1; n=$2; tmp=$(mktemp -d); base=$(basename $f .v)
head -n $((n-1)) $f > $tmp/G_$base.v; echo "Show. Admitted." >> $tmp/G_$base.v
cd /verif/coq && timeout 120 coqc -Q . MV $tmp/G_$base.v 2>&1 | tail -n ${3:-60}; rm -rf $tmp
