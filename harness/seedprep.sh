#!/bin/bash
# seedprep.sh Cxx... : create scratch worktrees with the seed prompt
for p in "$@"; do git -C /repo worktree add --detach /var/tmp/seed-$p HEAD -q && cp /verif/harness/prompts/seed_$p.txt /var/tmp/seed-$p/PROMPT.txt && echo "prepared $p"; done
