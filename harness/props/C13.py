"""C13 — ClientHello parsing is total and independent of segmentation.
mitmproxy/proxy/layers/tls.py (handshake_record_contents, get_client_hello, parse_client_hello, DTLS twins,
ClientTLSLayer.receive_handshake_data), mitmproxy/tls.py ClientHello, kaitai {tls,dtls}_client_hello.py,
mitmproxy/net/check.py is_valid_host (through ClientHello.sni)."""
from lib.coqterm import cbytes, cbool, copt, cN, clist, cpair, hx, unhx

ID = "C13"
QUICK_N = 2000
THOROUGH_N = 15000
SHARD = 100
RULE = ("55% generated ClientHellos (TLS and DTLS; versions, session ids, cookies, GREASE and ordinary cipher lists, "
        "no/empty/filled extension block, SNI hosts from a token dictionary incl. IDNA, IP literals, over-long and "
        "malformed names, ALPN lists, GREASE/unknown/empty extensions) wrapped into 1..6 records (TLS: payload split; "
        "DTLS: single record, RFC 6347 handshake fragmentation, or mitmproxy-style payload split) and cut into 1..6 "
        "segments/datagrams; 25% mutations of such streams (byte flips, length-field edits, truncation, zero-length "
        "records, wrong record type/version, trailing records/garbage, duplicated extensions, multi-name SNI lists, odd "
        "cipher length, handshake type != 1); 8% raw bytes; 12% direct is_valid_host inputs; a handful of hellos from "
        "the real OpenSSL client (pyOpenSSL memory BIO: TLS, DTLS, DTLS fragmented at MTU 256). Non-trivial = the input "
        "reaches the kaitai parser, spans several records/segments, or is a host reaching the label/IP logic.")
TRUSTED = ["Coq 8.16.1 kernel (coqc), vm_compute for case evaluation",
           "harness/props/C13.py generator, strict reference parser used as oracle, comparison glue (Corr/C13.v)",
           "hand model of KaitaiStream (read_u1/u2be/u4be/read_bytes raise EOFError on a short read; is_eof), of the "
           "idna codec fast path / label splitting and of ipaddress.IPv4Address/IPv6Address string parsing (CPython 3.12); "
           "tied by correspondence only",
           "encodings.idna.ToUnicode on ACE-prefixed labels is a parameter of the model (ace_ok); the harness tabulates it "
           "per case from the real codec; theorems quantify over it"]
ASSUMPTIONS = ["parse_client_hello is called with the whole recv_buffer after every DataReceived (ClientTLSLayer); "
               "segments are non-empty",
               "model describes the tree with fixes/C13-dtls-record-version.diff applied"]
COQ_PRELUDE = ""
ALLOWED_AXIOMS = []

# ------------------------------------------------------------------ building hellos
GREASE = [0x0A0A, 0x1A1A, 0x2A2A, 0x3A3A, 0xFAFA]
CIPHERS = [0x1301, 0x1302, 0x1303, 0xC02B, 0xC02F, 0xC02C, 0xC030, 0xCCA9, 0xCCA8, 0xC013, 0xC014, 0x009C, 0x002F,
           0x0035, 0x00FF, 0x5600, 0x0000, 0xFFFF]
HOSTS = [b"example.com", b"a", b"www.sub.example.org", b"UPPER.Example.COM", b"under_score.example.com",
         b"a" * 63 + b".com", b"a" * 64 + b".com", b"-", b"a-.b-", b"123.456", b"1.2.3.4", b"localhost",
         b"xn--mnchen-3ya.de", b"xn--fa-hia.de", b"xn--ls8h.la", b"xn--a", b"xn--", b"www.xn--80ak6aa92e.com",
         b"axn--b.com", b"XN--MNCHEN-3YA.de", b"example.com.", b"example.com..", b".", b"", b"a..b", b".a",
         b"example.com\n", b"a\n.b", b"\n", b"ex ample.com", b"ex\x00ample.com", b"\xc3\xa9xample.com", b"\xff",
         b"::1", b"::", b":::", b"2001:db8::1", b"fe80::1%eth0", b"fe80::1%", b"fe80::1%a%b", b"::ffff:1.2.3.4",
         b"::ffff:1.2.3.256", b"::ffff:01.2.3.4", b"1:2:3:4:5:6:7:8", b"1:2:3:4:5:6:7:8:9", b"1:2:3:4:5:6:7::",
         b"::2:3:4:5:6:7:8", b"1::3:4:5:6:7:8", b"1:2:3:4:5:6:7", b":1:2:3:4:5:6:7", b"1:2:3:4:5:6:7:", b"1::2::3",
         b"12345::", b"g::", b"::1.", b"[::1]", b"::1/64", b"1:2:3:4:5:6:1.2.3.4", b"::1.2.3", b"0::0",
         (b"a" * 50 + b".") * 4 + b"a" * 49, (b"a" * 50 + b".") * 5 + b"a", (b"a" * 50 + b".") * 5 + b"abc",
         b"a.b.c.d.e.f.g.h.i.j.k", b"A1-_", b"a.xn--zz", b"x" * 300]
HOST_TOK = [b"a", b"b1", b"-", b"_", b".", b"..", b":", b"::", b"%", b"1", b"0", b"255", b"256", b"01", b"ffff", b"fffff",
            b"g", b"xn--", b"xn--a-", b"mnchen-3ya", b"\n", b"/", b"\x80", b" ", b"A", b"Z", b"eth0", b"1.2.3.4", b"com"]
ALPNS = [b"h2", b"http/1.1", b"http/1.0", b"h3", b"spdy/3.1", b"acme-tls/1", b"\x00", b"x" * 255, b"\x8a\x8a"]


def u8(n): return bytes([n & 0xFF])
def u16(n): return bytes([(n >> 8) & 0xFF, n & 0xFF])
def u24(n): return bytes([(n >> 16) & 0xFF, (n >> 8) & 0xFF, n & 0xFF])
def v8(b): return u8(len(b)) + b
def v16(b): return u16(len(b)) + b


def ext_sni(host): return u16(0) + v16(v16(b"\x00" + v16(host)))
def ext_alpn(protos): return u16(16) + v16(v16(b"".join(v8(p) for p in protos)))
def ext_raw(ty, body): return u16(ty) + v16(body)


def gen_host(rng):
    r = rng.random()
    if r < 0.6:
        return rng.choice(HOSTS)
    if r < 0.8:
        n = rng.randint(1, 4)
        return b".".join(rng.bytes(rng.randint(1, 8), alphabet=b"abcxyz019-") for _ in range(n))
    return b"".join(rng.choice(HOST_TOK) for _ in range(rng.randint(1, 7)))


def gen_exts(rng):
    """list of encoded extensions, mostly well-formed and without duplicate types"""
    pool = []
    if rng.chance(0.7):
        pool.append(ext_sni(gen_host(rng) if rng.chance(0.45) else rng.choice(HOSTS[:4])))
    if rng.chance(0.6):
        pool.append(ext_alpn([rng.choice(ALPNS) for _ in range(rng.randint(1, 3))]))
    misc = [ext_raw(rng.choice(GREASE), rng.choice([b"", b"\x00"])), ext_raw(43, b"\x04\x03\x04\x03\x03"),
            ext_raw(23, b""), ext_raw(35, b""), ext_raw(0xFF01, b"\x00"), ext_raw(10, b"\x00\x04\x00\x1d\x00\x17"),
            ext_raw(11, b"\x01\x00"), ext_raw(13, b"\x00\x04\x04\x03\x08\x04"), ext_raw(21, b"\x00" * rng.randint(0, 12)),
            ext_raw(51, b"\x00\x06\x00\x1d\x00\x02\xab\xcd"), ext_raw(rng.randint(60, 65000), rng.bytes(rng.randint(0, 6))),
            ext_raw(5, b"\x01\x00\x00\x00\x00"), ext_raw(0x0F, b"\x01"), ext_raw(17, b"\x00\x01\x00")]
    for _ in range(rng.randint(0, 4)):
        e = rng.choice(misc)
        if e[:2] not in [p[:2] for p in pool]:
            pool.append(e)
    rng.shuffle(pool)
    return pool


def gen_hello_body(rng, dtls, exts=None, want_exts=True):
    if dtls:
        ver = rng.choice([b"\xfe\xfd", b"\xfe\xfd", b"\xfe\xff"])
    else:
        ver = rng.choice([b"\x03\x03", b"\x03\x03", b"\x03\x01", b"\x03\x02", b"\x03\x00"])
    sid = rng.choice([b"", rng.bytes(32), rng.bytes(rng.randint(1, 31))])
    cs = [rng.choice(CIPHERS) for _ in range(rng.randint(1, 6))]
    if rng.chance(0.3):
        cs.insert(0, rng.choice(GREASE))
    body = ver + rng.bytes(32) + v8(sid)
    if dtls:
        body += v8(rng.choice([b"", rng.bytes(20), rng.bytes(rng.randint(1, 8))]))
    body += v16(b"".join(u16(c) for c in cs)) + v8(rng.choice([b"\x00", b"\x00", b"\x01\x00"]))
    if exts is None:
        r = rng.random()
        exts = None if r < 0.1 else ([] if r < 0.2 else gen_exts(rng))
    if exts is not None:
        body += v16(b"".join(exts))
    return body


def hs_message(dtls, body, mseq=0, mtype=1):
    if dtls:
        return u8(mtype) + u24(len(body)) + u16(mseq) + u24(0) + u24(len(body)) + body
    return u8(mtype) + u24(len(body)) + body


def rec(dtls, payload, ver=None, seq=0, rtype=0x16, epoch=0):
    if dtls:
        return u8(rtype) + (ver or b"\xfe\xfd") + u16(epoch) + seq.to_bytes(6, "big") + v16(payload)
    return u8(rtype) + (ver or b"\x03\x01") + v16(payload)


def cuts(rng, n, k):
    """k-1 distinct cut points in 1..n-1, sorted -> list of (start, end)"""
    k = max(1, min(k, n))
    pts = sorted(rng.sample(list(range(1, n)), k - 1)) if k > 1 else []
    b = [0] + pts + [n]
    return [(b[i], b[i + 1]) for i in range(len(b) - 1)]


def split_records(rng, dtls, body, mode):
    """-> list of encoded records. mode: 'one', 'payload' (split the handshake message bytes), 'frag' (DTLS RFC 6347)."""
    ver = rng.choice([b"\xfe\xfd", b"\xfe\xff"]) if dtls else rng.choice([b"\x03\x01", b"\x03\x03", b"\x03\x00", b"\x03\x02"])
    mseq = rng.choice([0, 0, 1])
    if mode == "frag":
        out = []
        for i, (a, b) in enumerate(cuts(rng, len(body), rng.randint(2, 4))):
            frag = u8(1) + u24(len(body)) + u16(mseq) + u24(a) + u24(b - a) + body[a:b]
            out.append(rec(True, frag, ver, seq=i))
        return out
    msg = hs_message(dtls, body, mseq)
    k = 1 if mode == "one" else rng.choice([2, 2, 3, 4, 6])
    if mode == "payload" and rng.chance(0.3):   # cut inside the handshake header
        first = rng.randint(1, min(13, len(msg) - 1))
        parts = [(0, first)] + [(first + a, first + b) for a, b in cuts(rng, len(msg) - first, k - 1)]
    else:
        parts = cuts(rng, len(msg), k)
    return [rec(dtls, msg[a:b], ver, seq=i) for i, (a, b) in enumerate(parts)]


def segment(rng, recs, dtls):
    stream = b"".join(recs)
    r = rng.random()
    if r < 0.3:
        return [stream]
    if dtls and r < 0.6:          # datagrams holding whole records
        out, cur = [], b""
        for x in recs:
            cur += x
            if rng.chance(0.6):
                out.append(cur); cur = b""
        if cur:
            out.append(cur)
        return out
    if r < 0.75:                 # one segment per record
        return list(recs)
    return [stream[a:b] for a, b in cuts(rng, len(stream), rng.randint(2, 6))]


def mutate(rng, dtls, tags):
    """a stream that is (mostly) not a well-formed hello"""
    m = rng.choice([0, 1, 1, 1, 2, 3, 4, 5, 6, 7, 8, 9, 10, 11, 12, 13, 14, 15])
    body = gen_hello_body(rng, dtls)
    recs = None
    if m == 0:      # duplicated SNI / ALPN extension, second one different
        e = [ext_sni(b"first.example"), ext_raw(23, b""), ext_sni(b"second.example"), ext_alpn([b"h2"]), ext_alpn([b"h3"])]
        if rng.chance(0.5):
            e[0] = ext_sni(rng.choice([b"bad host", b"", b"a..b"]))
        body = gen_hello_body(rng, dtls, exts=e); tags.append("m-dup-ext")
    elif m == 1:    # SNI list with several names / other name types / bad inner lengths
        inner = rng.choice([b"\x00" + v16(b"a.example") + b"\x00" + v16(b"b.example"),
                            b"\x01" + v16(b"a.example"), b"\x00" + v16(b"a.example") + b"\x01" + v16(b"zz"),
                            b"", b"\x00", b"\x00\x00", b"\x00\x00\x09abc"])
        ll = rng.choice([len(inner), 0, 65535])
        body = gen_hello_body(rng, dtls, exts=[u16(0) + v16(u16(ll) + inner), ext_alpn([b"h2"])]); tags.append("m-sni-list")
    elif m == 2:    # ALPN oddities
        inner = rng.choice([b"", b"\x00", b"\x02h", b"\x02h2\x00", b"\x02h2\x05abc"])
        raw = rng.choice([u16(len(inner)) + inner, b"", b"\x00"])
        body = gen_hello_body(rng, dtls, exts=[ext_sni(b"example.com"), u16(16) + v16(raw)]); tags.append("m-alpn")
    elif m == 3:    # extension block length field wrong / trailing bytes after the block
        e = b"".join(gen_exts(rng))
        base = gen_hello_body(rng, dtls, exts=[])[:-2]
        body = base + rng.choice([u16(len(e) + 5) + e, u16(0) + e, v16(e) + b"\x00", v16(e) + rng.bytes(3), b"\x00", u16(len(e)) + e[:-1] if e else b"\x00"])
        tags.append("m-ext-len")
    elif m == 4:    # odd cipher length / empty ciphers / empty compression
        ver = b"\xfe\xfd" if dtls else b"\x03\x03"
        cs = rng.choice([b"\x13\x01\x13", b"", b"\x13"])
        body = ver + rng.bytes(32) + v8(b"") + (v8(b"") if dtls else b"") + v16(cs) + v8(rng.choice([b"", b"\x00"])) + v16(ext_sni(b"example.com"))
        tags.append("m-ciphers")
    elif m == 5:    # truncated body with consistent handshake length (kaitai EOF)
        body = body[:rng.randint(0, len(body) - 1)]; tags.append("m-short-body")
    elif m == 6:    # handshake type != 1
        recs = [rec(dtls, hs_message(dtls, body, mtype=rng.choice([0, 2, 11, 255])))]; tags.append("m-hs-type")
    elif m == 7:    # handshake length field larger / smaller than the body
        msg = bytearray(hs_message(dtls, body)); d = rng.choice([-3, -1, 1, 2, 300])
        off = 9 if dtls else 1
        n = max(0, int.from_bytes(msg[off:off + 3], "big") + d); msg[off:off + 3] = u24(n)
        recs = [rec(dtls, bytes(msg))]; tags.append("m-hs-len")
    if recs is None:
        recs = split_records(rng, dtls, body, rng.choice(["one", "payload"]))
    if m == 8:      # zero-length record somewhere
        recs.insert(rng.randint(0, len(recs)), rec(dtls, b"")); tags.append("m-empty-record")
    elif m == 9:    # wrong record type / version on some record
        i = rng.below(len(recs)); r0 = bytearray(recs[i])
        if rng.chance(0.5):
            r0[0] = rng.choice([0x14, 0x15, 0x17, 0x00, 0x80])
        else:
            r0[1:3] = rng.choice([b"\x03\x04", b"\x02\x00", b"\xfe\xfc", b"\xfe\xfe", b"\xfe\xff", b"\xfe\xfd", b"\x03\x03", b"\xff\xfd"])
        recs[i] = bytes(r0); tags.append("m-rec-hdr")
    elif m == 10:   # trailing records / garbage after a complete hello
        recs.append(rng.choice([rec(dtls, b"\x01", rtype=0x14), rec(dtls, b""), b"GET / HTTP/1.1\r\n", rng.bytes(4),
                                rec(dtls, hs_message(dtls, gen_hello_body(rng, dtls)))]))
        tags.append("m-trailing")
    elif m == 11:   # strict prefix of a good stream
        s = b"".join(recs); recs = [s[:rng.randint(0, len(s) - 1)]]; tags.append("m-prefix")
    elif m == 12:   # record length field edited
        i = rng.below(len(recs)); r0 = bytearray(recs[i]); off = 11 if dtls else 3
        n = max(0, int.from_bytes(r0[off:off + 2], "big") + rng.choice([-2, -1, 1, 7]))
        r0[off:off + 2] = u16(n & 0xFFFF); recs[i] = bytes(r0); tags.append("m-rec-len")
    elif m >= 13:   # random byte edits
        s = bytearray(b"".join(recs))
        for _ in range(rng.randint(1, 3)):
            p = rng.below(len(s))
            if rng.chance(0.7):
                s[p] = rng.choice([0, 1, 0xFF, s[p] ^ 0x80, rng.below(256)])
            elif rng.chance(0.5):
                del s[p]
            else:
                s.insert(p, rng.below(256))
        recs = [bytes(s)] if s else [b"\x16"]; tags.append("m-bytes")
    return recs


def real_hellos():
    """hellos produced by the real OpenSSL client through pyOpenSSL memory BIOs (random contents come from OpenSSL)"""
    out = []
    try:
        from OpenSSL import SSL
    except Exception:
        return out
    confs = [("tls", None, None, None), ("tls", b"example.com", [b"h2", b"http/1.1"], None),
             ("tls12", b"www.example.org", [b"http/1.1"], None), ("dtls", b"example.com", None, None),
             ("dtls", None, [b"h3"], None),
             ("dtls", b"example.com", [b"proto-%02d-xxxxxxxxxxxxxxxx" % i for i in range(8)], 256)]
    for kind, host, alpn, mtu in confs:
        try:
            dtls = kind == "dtls"
            ctx = SSL.Context(SSL.DTLS_CLIENT_METHOD if dtls else SSL.TLS_CLIENT_METHOD)
            if kind == "tls12":
                ctx.set_max_proto_version(SSL.TLS1_2_VERSION)
            if alpn:
                ctx.set_alpn_protos(alpn)
            if mtu:
                ctx.set_options(SSL.OP_NO_QUERY_MTU)
            c = SSL.Connection(ctx)
            c.set_connect_state()
            if host:
                c.set_tlsext_host_name(host)
            if mtu:
                c.set_ciphertext_mtu(mtu)
            try:
                c.do_handshake()
            except SSL.WantReadError:
                pass
            data = b""
            while True:
                try:
                    data += c.bio_read(65536)
                except SSL.WantReadError:
                    break
            if data:
                out.append((dtls, data, "real-" + kind + ("-frag" if mtu else "")))
        except Exception:
            continue
    return out


def records_of(dtls, data):
    """split a well-framed stream into its encoded records (for segmenting real hellos)"""
    out, off, hl = [], 0, 13 if dtls else 5
    while off + hl <= len(data):
        n = int.from_bytes(data[off + hl - 2:off + hl], "big")
        out.append(data[off:off + hl + n]); off += hl + n
    return out


def gen(rng, n, tier):
    out = []
    for dtls, data, tag in real_hellos():
        recs = records_of(dtls, data)
        out.append({"k": "parse", "dtls": dtls, "segs": [hx(data)], "tags": [tag]})
        out.append({"k": "parse", "dtls": dtls, "segs": [hx(r) for r in recs], "tags": [tag, "per-record"]})
        out.append({"k": "parse", "dtls": dtls, "segs": [hx(data[a:b]) for a, b in cuts(rng, len(data), 4)], "tags": [tag, "cut"]})
    for _ in range(n):
        r = rng.random()
        dtls = rng.chance(0.4)
        tags = []
        if r < 0.55:
            body = gen_hello_body(rng, dtls)
            mode = rng.choice(["one", "frag", "payload"]) if dtls else rng.choice(["one", "payload", "payload"])
            recs = split_records(rng, dtls, body, mode)
            tags.append("gen-" + mode)
            segs = segment(rng, recs, dtls)
        elif r < 0.80:
            recs = mutate(rng, dtls, tags)
            segs = segment(rng, recs, dtls)
        elif r < 0.88:
            pre = rng.choice([b"", b"\x16", b"\x16\x03", b"\x16\x03\x01", b"\x16\x03\x01\x00\x05\x01\x00\x00\x01",
                              b"\x16\xfe\xfd" + b"\x00" * 8, b"\x16\xfe\xff" + b"\x00" * 8 + b"\x00\x10\x01\x00\x00\x04",
                              b"GET / HTTP/1.1\r\n", b"\x16\x03\x01\x00\x04\x01\x00\x00\x00", b"\x16\x03\x03\x00\x00"])
            s = pre + rng.bytes(rng.randint(0, 60))
            segs = [s[a:b] for a, b in cuts(rng, len(s), rng.randint(1, 3))] if s else [b"\x00"]
            tags.append("raw")
        else:
            out.append({"k": "host", "host": hx(gen_host(rng))})
            continue
        segs = [s for s in segs if s] or [b"\x16"]
        out.append({"k": "parse", "dtls": dtls, "segs": [hx(s) for s in segs], "tags": tags})
    return out


# ------------------------------------------------------------------ running the implementation
def setup_impl():
    global tls_layer, check, idna, Driver
    from mitmproxy.proxy.layers import tls as tls_layer  # noqa
    from mitmproxy.net import check  # noqa
    import encodings.idna as idna  # noqa
    from lib.sansio import Driver  # noqa


def _hello_obs(ch):
    """read the four reported attributes; any exception is an observable of its own"""
    try:
        sni = ch.sni
        return {"k": "hello", "sni": None if sni is None else hx(sni.encode("utf-8", "surrogateescape")),
                "alpn": [hx(p) for p in ch.alpn_protocols], "ciphers": list(ch.cipher_suites),
                "exts": [[t, hx(b)] for t, b in ch.extensions]}
    except Exception as e:  # noqa
        return {"k": "other", "exc": type(e).__name__}


def _hosts_of(ch):
    hosts = []
    try:
        ext = getattr(ch._client_hello, "extensions", None)
        for e in (ext.extensions if ext else []):
            if e.type == 0:
                hosts += [bytes(n.host_name) for n in e.body.server_names]
    except Exception:  # noqa
        pass
    return hosts


def _ace_table(hosts):
    t = {}
    for h in hosts:
        for label in h.split(b"."):
            if label.startswith(b"xn--") and len(label) <= 1024:
                try:
                    idna.ToUnicode(label); ok = True
                except UnicodeError:
                    ok = False
                t[hx(label)] = ok
    return sorted(t.items())


def _direct(dtls, data):
    f = tls_layer.dtls_parse_client_hello if dtls else tls_layer.parse_client_hello
    try:
        ch = f(data)
    except ValueError as e:
        if type(e) is ValueError:
            return {"k": "invalid"}, []
        return {"k": "other", "exc": type(e).__name__}, []
    except Exception as e:  # noqa
        return {"k": "other", "exc": type(e).__name__}, []
    if ch is None:
        return {"k": "incomplete"}, []
    return _hello_obs(ch), _hosts_of(ch)


def _layer(dtls, segs):
    seen = {}

    def policy(hook, drv):
        if hook.name == "tls_clienthello":
            seen["ch"] = hook.data.client_hello
            hook.data.ignore_connection = True

    def factory(ctx):
        server_layer = tls_layer.ServerTLSLayer(ctx)
        client_layer = tls_layer.ClientTLSLayer(ctx)
        server_layer.child_layer = client_layer
        return server_layer

    d = Driver(factory, policy=policy, client_kwargs={"transport_protocol": "udp"} if dtls else None)
    d.start()
    for i, s in enumerate(segs):
        d.data(0, s)
        if d.crashed:
            return i, {"k": "other", "exc": d.crashed[0]}
        if "ch" in seen:
            return i, _hello_obs(seen["ch"])
        if any("Cannot parse ClientHello" in m for _, m in d.logs):
            return i, {"k": "invalid"}
    return len(segs), {"k": "incomplete"}


def run_impl(case):
    if case["k"] == "host":
        h = unhx(case["host"])
        try:
            v = bool(check.is_valid_host(h))
        except Exception as e:  # noqa
            v = "exc:" + type(e).__name__
        return {"valid": v, "ace": _ace_table([h])}
    dtls = case["dtls"]
    segs = [unhx(s) for s in case["segs"]]
    data = b"".join(segs)
    direct, hosts = _direct(dtls, data)
    idx, layer = _layer(dtls, segs)
    # every cut of the stream into a strict prefix, as seen by the parser (used by the oracle for well-formed streams)
    pref = []
    ref = ref_parse(dtls, data)
    if ref is not None:
        for cut in sorted(set([0, 1, 4, 5, 12, 13, len(data) // 2, len(data) - 1] + [sum(len(s) for s in segs[:j]) for j in range(len(segs))])):
            if 0 <= cut < len(data):
                pref.append([cut, _direct(dtls, data[:cut])[0]["k"]])
    return {"direct": direct, "idx": idx, "layer": layer, "ace": _ace_table(hosts), "prefixes": pref,
            "acecolon": any(b":" in h and any(l.startswith(b"xn--") for l in h.split(b".")) for h in hosts)}


# ------------------------------------------------------------------ Coq terms
def _cobs(o):
    if o["k"] == "incomplete":
        return "OIncomplete"
    if o["k"] == "invalid":
        return "OInvalid"
    if o["k"] == "other":
        return "OOther"
    sni = copt(o["sni"], lambda h: cbytes(unhx(h)), "bytes")
    alpn = clist((cbytes(unhx(p)) for p in o["alpn"]), "bytes")
    cs = clist((cN(c) for c in o["ciphers"]), "N")
    ex = clist((cpair(cN(t), cbytes(unhx(b))) for t, b in o["exts"]), "(N * bytes)")
    return f"(OHello {sni} {alpn} {cs} {ex})"


def _cace(t):
    return clist((cpair(cbytes(unhx(k)), cbool(v)) for k, v in t), "(bytes * bool)")


def coq_case(case, obs):
    if case["k"] == "host":
        if not isinstance(obs["valid"], bool):
            return None
        h = unhx(case["host"])
        if b":" in h and any(l.startswith(b"xn--") for l in h.split(b".")):
            return None     # decoded text of an ACE label inside an IP literal: outside the model
        return f"Host {_cace(obs['ace'])} {cbytes(h)} {cbool(obs['valid'])}"
    if obs["acecolon"]:
        return None
    segs = clist((cbytes(unhx(s)) for s in case["segs"]), "bytes")
    lay = "(@None obs)" if obs["layer"] == obs["direct"] else f"(Some {_cobs(obs['layer'])})"
    return f"Parse {cbool(case['dtls'])} {_cace(obs['ace'])} {segs} {_cobs(obs['direct'])} {cN(obs['idx'])} {lay}"


# ------------------------------------------------------------------ oracle: strict, independent reference parser
class _Bad(Exception):
    pass


class _R:
    def __init__(self, b): self.b, self.p = b, 0
    def take(self, n):
        if self.p + n > len(self.b):
            raise _Bad("short")
        r = self.b[self.p:self.p + n]; self.p += n
        return r
    def u(self, n): return int.from_bytes(self.take(n), "big")
    def vec(self, n, lo=0, hi=None):
        ln = self.u(n)
        if ln < lo or (hi is not None and ln > hi):
            raise _Bad("vector bounds")
        return self.take(ln)
    def end(self): return self.p == len(self.b)


import re as _re
_REF_LABEL = _re.compile(rb"\A[A-Za-z0-9_-]{1,63}\Z")


def ref_hostname(h: bytes) -> bool:
    """RFC 6066 HostName: ASCII DNS host name, no trailing dot, at most 253 bytes"""
    return 0 < len(h) <= 253 and all(_REF_LABEL.match(l) for l in h.split(b"."))


def ref_hello_body(dtls, body):
    """RFC 8446 4.1.2 (and RFC 6347 4.2.1 cookie), RFC 6066 section 3, RFC 7301 3.1, strict. -> dict or raises _Bad"""
    r = _R(body)
    ver = r.take(2)
    if dtls:
        if ver not in (b"\xfe\xff", b"\xfe\xfd"):
            raise _Bad("version")
    elif ver[0] != 3:
        raise _Bad("version")
    r.take(32)
    r.vec(1, 0, 32)
    if dtls:
        r.vec(1, 0, 255)
    cs = r.vec(2, 2, 65534)
    if len(cs) % 2:
        raise _Bad("odd cipher vector")
    ciphers = [int.from_bytes(cs[i:i + 2], "big") for i in range(0, len(cs), 2)]
    r.vec(1, 1, 255)
    exts, sni, alpn, has_sni = [], None, [], False
    if not r.end():
        er = _R(r.vec(2))
        if not r.end():
            raise _Bad("trailing bytes after extensions")
        seen = set()
        while not er.end():
            ty = er.u(2)
            eb = er.vec(2)
            if ty in seen:
                raise _Bad("duplicate extension")
            seen.add(ty)
            exts.append([ty, eb])
            if ty == 0:
                x = _R(eb); lst = _R(x.vec(2, 1))
                if not x.end():
                    raise _Bad("sni trailing")
                names = []
                while not lst.end():
                    nt = lst.u(1); names.append((nt, lst.vec(2, 1)))
                if len(names) != 1 or names[0][0] != 0:
                    raise _Bad("server_name_list must hold exactly one host_name")
                sni, has_sni = names[0][1], True
            elif ty == 16:
                x = _R(eb); lst = _R(x.vec(2, 2))
                if not x.end():
                    raise _Bad("alpn trailing")
                while not lst.end():
                    alpn.append(lst.vec(1, 1))
    return {"sni": sni, "alpn": alpn, "ciphers": ciphers, "exts": exts}


def ref_parse(dtls, data):
    """strict record layer + handshake reassembly. -> (dict, fragmented: bool) for a stream that is exactly one
    well-formed ClientHello flight, None otherwise"""
    try:
        r = _R(data); payloads = []
        while not r.end():
            if r.u(1) != 0x16:
                raise _Bad("record type")
            ver = r.take(2)
            if dtls:
                if ver not in (b"\xfe\xff", b"\xfe\xfd"):
                    raise _Bad("record version")
                r.take(8)
            elif ver[0] != 3 or ver[1] > 3:
                raise _Bad("record version")
            payloads.append(r.vec(2, 1, 16384))
        if not payloads:
            raise _Bad("empty")
        if not dtls:
            m = _R(b"".join(payloads))
            if m.u(1) != 1:
                raise _Bad("not a ClientHello")
            body = m.vec(3)
            if not m.end():
                raise _Bad("trailing handshake data")
            return ref_hello_body(False, body), False
        total, buf, have, nfr = None, None, None, 0
        for p in payloads:            # a DTLS record holds whole handshake fragments
            m = _R(p)
            while not m.end():
                mt, ln, _seq, off, fl = m.u(1), m.u(3), m.u(2), m.u(3), m.u(3)
                frag = m.take(fl)
                if mt != 1 or off + fl > ln:
                    raise _Bad("fragment")
                if total is None:
                    total, buf, have = ln, bytearray(ln), [False] * ln
                if ln != total:
                    raise _Bad("fragment length mismatch")
                buf[off:off + fl] = frag
                for i in range(off, off + fl):
                    have[i] = True
                nfr += 1
        if total is None or not all(have):
            raise _Bad("incomplete")
        return ref_hello_body(True, bytes(buf)), nfr > 1
    except _Bad:
        return None


def oracle(case, obs):
    v = []
    if case["k"] == "host":
        if not isinstance(obs["valid"], bool):
            v.append({"key": "other-exception", "what": f"is_valid_host({case['host']}) raised {obs['valid']}"})
        return v
    d, l = obs["direct"], obs["layer"]
    data = b"".join(unhx(s) for s in case["segs"])
    for name, o in (("parse_client_hello", d), ("ClientTLSLayer", l)):
        if o["k"] == "other":
            v.append({"key": "other-exception", "what": f"{name} failed with {o['exc']} on {data.hex()[:120]} dtls={case['dtls']}"})
    if v:
        return v
    # segmentation independence for arbitrary bytes: the layer fed piecewise decides what the parser says on the whole
    if l != d:
        v.append({"key": "segmentation-changes-result", "what": f"layer fed {len(case['segs'])} segments -> {l['k']}, whole input -> {d['k']} ({data.hex()[:120]})"})
        return v
    ref = ref_parse(case["dtls"], data)
    if ref is None:
        return v
    want, fragmented = ref
    fam = "dtls-fragmented-hello" if fragmented else None
    if d["k"] != "hello":
        v.append({"key": fam or ("dtls-record-version-feff" if case["dtls"] and b"\x16\xfe\xff" in data else "valid-hello-rejected"),
                  "what": f"well-formed ClientHello reported as {d['k']}: dtls={case['dtls']} {data.hex()[:160]}"})
        return v
    if obs["idx"] != len(case["segs"]) - 1:
        v.append({"key": fam or "decided-early", "what": f"decided at segment {obs['idx']} of {len(case['segs'])}"})
    for cut, k in obs["prefixes"]:
        if k != "incomplete":
            v.append({"key": fam or "prefix-not-incomplete", "what": f"prefix of length {cut} of a well-formed stream -> {k}: {data.hex()[:120]}"})
            break
    if d["ciphers"] != want["ciphers"]:
        v.append({"key": fam or "ciphers-differ", "what": f"cipher suites {d['ciphers']} vs reference {want['ciphers']}"})
    if d["exts"] != [[t, hx(b)] for t, b in want["exts"]]:
        v.append({"key": fam or "extensions-differ", "what": f"extensions differ from reference on {data.hex()[:120]}"})
    if d["alpn"] != [hx(p) for p in want["alpn"]]:
        v.append({"key": fam or "alpn-differ", "what": f"alpn {d['alpn']} vs reference {[hx(p) for p in want['alpn']]}"})
    host = want["sni"]
    if host is None:
        if d["sni"] is not None:
            v.append({"key": fam or "sni-invented", "what": f"sni {d['sni']} reported without server_name extension"})
    elif ref_hostname(host):
        if d["sni"] != hx(host):
            ace = any(lb.startswith(b"xn--") for lb in host.split(b"."))
            v.append({"key": fam or ("sni-ace-label-rejected" if ace and d["sni"] is None else "sni-differ"),
                      "what": f"server_name {host!r} reported as {d['sni']}"})
    elif d["sni"] not in (None, hx(host)):
        v.append({"key": fam or "sni-differ", "what": f"server_name {host!r} reported as {d['sni']}"})
    return v


def nontrivial(case, obs):
    if case["k"] == "host":
        return len(case["host"]) > 2
    return obs["direct"]["k"] != "incomplete" or len(case["segs"]) > 1


def classify(case, obs):
    if case["k"] == "host":
        return ["host", f"host-valid={obs['valid']}", "host-ace" if obs["ace"] else "host-plain",
                "host-colon" if "3a" in case["host"] else "host-nocolon"]
    d = obs["direct"]
    t = ["dtls" if case["dtls"] else "tls", "direct-" + d["k"], f"segs={min(len(case['segs']), 4)}"] + list(case.get("tags", []))
    data = b"".join(unhx(s) for s in case["segs"])
    ref = ref_parse(case["dtls"], data)
    t.append("ref-wellformed" if ref else "ref-rejects")
    if ref and ref[1]:
        t.append("ref-fragmented")
    if d["k"] == "hello":
        t.append("sni" if d["sni"] is not None else "no-sni")
        t.append("alpn" if d["alpn"] else "no-alpn")
        t.append("exts" if d["exts"] else "no-exts")
    if obs["idx"] < len(case["segs"]) - 1:
        t.append("decided-before-last-segment")
    return t
