"""C06 -- Translating between HTTP versions preserves message semantics
(mitmproxy/proxy/layers/http/_http2.py, _http3.py, _http1.py, net/http/http1/assemble.py)."""
from lib.coqterm import cbytes, cbool, copt, cZ, clist, hx, unhx

ID = "C06"
QUICK_N = 3600
THOROUGH_N = 28800
SHARD = 300
TRANSLATORS = ["status_reasons"]
COQ_PRELUDE = "From Coq Require Import ZArith.\nFrom MV Require Import Model.Http1Msg Model.HttpTranslate.\n"
RULE = ("22% HTTP/2 requests sent by a real h2 client connection (validation and normalisation off on the peer) through the real "
        "HttpLayer (transparent mode) to an HTTP/1 upstream, whose generated HTTP/1 response comes back over HTTP/2; 18% HTTP/1 requests "
        "through the real HttpLayer to a real h2 server connection that answers with a generated header block, body and trailers, after which the same flow object is sent again as clientplayback does (MockServer + HttpLayer) to a second h2 server; request state snapshotted at the request hook and after emission; "
        "the rest direct calls: h2.utilities.validate_headers (request / response / trailer flags), parse_h2_request_headers, "
        "parse_h2_response_headers, format_h2_request_headers (called twice on the same request object), format_h2_response_headers (HTTP/1.x, HTTP/2.0 and HTTP/3 messages, "
        "normalize_outbound_headers on/off), validate_headers. Header blocks: 65% well-formed (method/scheme/authority/path or status, "
        "0-5 fields from a dictionary, body with or without matching content-length), 35% mutated from an adversarial dictionary "
        "(CR/LF/NUL/SP/HTAB in pseudo-headers, names and values, upper-case names, connection-specific fields, duplicate / late / "
        "unknown / missing pseudo-headers, several cookie / host / content-length fields, odd integers). 3% of the layer cases run "
        "with validate_inbound_headers off (oracle only). Non-trivial = something was forwarded / formatted / parsed (not a bare "
        "rejection); distinct by canonical JSON.")
TRUSTED = ["Coq 8.16.1 kernel; vm_compute for case evaluation",
           "harness/props/C06.py (generator, drivers of the real layers over harness/lib/sansio.py, comparison glue Corr/C06.v)",
           "hand model Model/HttpTranslate.v of the anchored functions and of h2.utilities.validate_headers + H2Stream content-length "
           "bookkeeping (hyper-h2 4.4.1): tied by correspondence only",
           "harness/translators/status_reasons.py (status_codes.RESPONSES literal -> Gen/StatusReasons.v)",
           "the reference HTTP/1 reader: Model/Rfc9112.v (C01) and its Python port in harness/props/C01.py used by the oracle",
           "HPACK coding and HTTP/2 framing of hyper-h2 / hpack (the header lists the peers decode are taken as what was sent)"]
ASSUMPTIONS = ["one request per client connection, request and response buffered (not streamed), HTTPMode.transparent with a preset "
               "server address; the frames of one message arrive in one read",
               "url.parse_authority(check=True) is a parameter of the model (its observed verdict is an input of the case)",
               "HTTP/3 shares format_h2_*_headers / parse_h2_*_headers with HTTP/2; aioquic's own inbound validation is not modelled",
               "str header values are the utf-8/surrogateescape decoding of the bytes"]

# ---------------------------------------------------------------------------------------------------------------------
METHODS = [b"GET", b"GET", b"POST", b"POST", b"PUT", b"HEAD", b"OPTIONS", b"DELETE", b"M-SEARCH", b"get"]
BAD_METHODS = [b"GET /x HTTP/1.1", b"G T", b"", b"GE\tT", b"P@ST", b"GET\r\nX: y", b"CONNECT", b"connect", b"GET\x00", b"G\xc3\xa9T", b"GET "]
SCHEMES = [b"http", b"https"]
BAD_SCHEMES = [b"", b"ftp", b"HTTP", b"http\r\nx: y", b"h ttp"]
AUTHS = [b"example.com", b"example.com", b"example.com:8080", b"xn--bcher-kva.example", b"[::1]:443", b"EXAMPLE.com", b"10.0.0.1"]
BAD_AUTHS = [b"", b"exa mple.com", b"example.com\r\nX: y", b"a:b", b"example.com:99999", b"user@example.com", b"b\xc3\xbccher.example",
             b"example.com\n", b" example.com", b"example.com\x00"]
PATHS = [b"/", b"/a/b?c=d", b"*", b"/%20x", b"//x", b"/\xc3\xa9", b"/a;b=c"]
BAD_PATHS = [b"/a b", b"", b"/\x7f", b"/a\r\nX: y", b"/a\x00", b"/ HTTP/1.1", b"/a\tb", b"/a\nb", b"a", b"/a#f"]
NAMES = [b"x-a", b"accept", b"cookie", b"cookie", b"user-agent", b"content-type", b"te", b"expect", b"x-b", b"set-cookie", b"accept-encoding"]
BAD_NAMES = [b"X-Upper", b"x a", b"x:a", b"", b"connection", b"transfer-encoding", b"keep-alive", b"upgrade", b"proxy-connection",
             b"x\n", b"x\x7f", b"\xc3\xa9", b"host", b"content-length", b":late", b"x(y)", b"Cookie", b"Host", b"x\x00", b" x"]
VALUES = [b"a", b"a b", b"a=1", b"b=2", b"c=3; d=4", b"text/html", b"trailers", b"gzip", b"100-continue", b"x" * 20, b"a,b", b"\xc3\xa9", b"example.com"]
BAD_VALUES = [b"", b" a", b"a ", b"\ta", b"a\t", b"a\r\nX: y", b"a\rb", b"a\nb", b"a\x00b", b"Trailers", b"chunked", b"100-Continue", b"\xff",
              b"a\x0bb", b"a\r\n\r\nGET /admin HTTP/1.1\r\nHost: x\r\n\r\n", b" "]
CL_ODD = [b"+3", b" 3", b"3 ", b"03", b"3_0", b"3,3", b"abc", b"-1", b"", b"3\n", b"1_0", b"0", b"5"]
BODIES = [b"abc", b"0123456789", b"GET /admin HTTP/1.1\r\nHost: x\r\n\r\n", b"0\r\n\r\n", b"x" * 40, b"\x00\xff"]
STATUSES = [b"200", b"200", b"200", b"204", b"304", b"404", b"500", b"301", b"201", b"418", b"599"]
BAD_STATUSES = [b"100", b"103", b"2_00", b"+200", b" 200", b"0200", b"99999", b"-5", b"abc", b"", b"200 OK", b"600", b"99", b"1000", b"2e2", b"1xx",
                b"200\r\nx: y", b"20\xc2\xb2"]
TRAILERS = [[(b"x-t", b"1")], [(b"x-t", b"1"), (b"grpc-status", b"0")], [(b":path", b"/")], [(b"X-T", b"1")], [(b"x-t", b"a\r\nb")]]
H1_REQS = [  # (method, target, extra header lines)
    (b"GET", b"/x", [b"Host: example.com"]),
    (b"GET", b"/x?y=1", [b"Host: example.com:8080", b"Cookie: a=1; b=2", b"Connection: keep-alive", b"X-Up:  v "]),
    (b"HEAD", b"/h", [b"Host: example.com", b"Accept: */*"]),
    (b"GET", b"/c", [b"host: a.example", b"Cookie: a=1", b"Cookie: b=2", b"Keep-Alive: timeout=5", b"Upgrade: foo", b"TE: trailers"]),
    (b"GET", b"/n", [b"X-No-Host: 1"]),
    (b"GET", b"/2", [b"Host: a.example", b"Host: b.example"]),
    (b"OPTIONS", b"*", [b"Host: example.com", b"Proxy-Connection: keep-alive"]),
    (b"GET", b"/u", [b"Host: \xc3\xa9.example", b"X-Bin: \xff"]),
]
H1_RESPS = [  # (status line, header lines, body on the wire, chunked?)
    (b"HTTP/1.1 200 OK", [b"Content-Length: 2", b"X-Upper: V"], b"ok"),
    (b"HTTP/1.1 404 Not Found", [b"Content-Length: 0", b"Connection: close", b"Set-Cookie: a=1", b"Set-Cookie: b=2"], b""),
    (b"HTTP/1.1 200 OK", [b"Transfer-Encoding: chunked", b"Keep-Alive: x", b"X-Ws:  v\t"], b"3\r\nabc\r\n0\r\n\r\n"),
    (b"HTTP/1.1 204 No Content", [b"Upgrade: h2c", b"Proxy-Connection: x"], b""),
    (b"HTTP/1.0 200 OK", [b"Content-Length: 3", b"Server: s"], b"abc"),
    (b"HTTP/1.1 200 ", [b"content-length: 1", b"X-Empty:"], b"z"),
]


def _fields(rng, lo=0, hi=5, bad=0.0):
    out = []
    for _ in range(rng.randint(lo, hi)):
        n = rng.choice(BAD_NAMES) if rng.chance(bad) else rng.choice(NAMES)
        if n.lower() == b"content-length":
            v = rng.choice(CL_ODD)
        else:
            v = rng.choice(BAD_VALUES) if rng.chance(bad) else rng.choice(VALUES)
        out.append([hx(n), hx(v)])
    return out


def _mutate_block(rng, block, response):
    """structural mutations of a header block (list of [name, value] hex pairs)"""
    b = [list(x) for x in block]
    for _ in range(rng.randint(1, 2)):
        k = rng.below(9)
        if k == 0 and b:
            i = rng.below(len(b)); b.insert(rng.below(len(b) + 1), list(b[i]))          # duplicate a header (maybe a pseudo-header)
        elif k == 1 and b:
            b.pop(rng.below(len(b)))                                                      # drop one
        elif k == 2 and len(b) > 1:
            i, j = rng.below(len(b)), rng.below(len(b)); b[i], b[j] = b[j], b[i]          # reorder (pseudo after regular)
        elif k == 3:
            extra = rng.choice([b":status", b":protocol", b":foo", b":method", b":path", b":authority", b":scheme"])
            b.insert(rng.below(len(b) + 1), [hx(extra), hx(rng.choice([b"200", b"websocket", b"x", b"GET", b"/"]))])
        elif k == 4 and b:
            i = rng.below(len(b)); b[i][1] = hx(rng.choice(BAD_VALUES))
        elif k == 5:
            b.append([hx(rng.choice(BAD_NAMES)), hx(rng.choice(VALUES + BAD_VALUES))])
        elif k == 6:
            b.append([hx(b"content-length"), hx(rng.choice(CL_ODD))])
        elif k == 7 and b:
            i = rng.below(len(b)); b[i][0] = hx(unhx(b[i][0]).upper() if rng.chance(0.5) else unhx(b[i][0]) + rng.choice([b" ", b":", b"\n", b"\x00"]))
        elif k == 8 and not response:
            pool = {b":method": BAD_METHODS, b":scheme": BAD_SCHEMES, b":authority": BAD_AUTHS, b":path": BAD_PATHS}
            for h in b:
                if unhx(h[0]) in pool and rng.chance(0.5):
                    h[1] = hx(rng.choice(pool[unhx(h[0])]))
        if response and rng.chance(0.4):
            for h in b:
                if unhx(h[0]) == b":status":
                    h[1] = hx(rng.choice(BAD_STATUSES))
    return b


def gen_req_block(rng):
    """-> (block, body, trailers)"""
    method = rng.choice(METHODS)
    block = [[hx(b":method"), hx(method)], [hx(b":scheme"), hx(rng.choice(SCHEMES))]]
    auth = rng.choice(AUTHS)
    tail = [[hx(b":path"), hx(rng.choice(PATHS))]]
    if rng.chance(0.85):
        tail.insert(rng.below(2), [hx(b":authority"), hx(auth)])
    block += tail
    fields = _fields(rng)
    if rng.chance(0.2):
        fields.insert(rng.below(len(fields) + 1), [hx(b"host"), hx(auth if rng.chance(0.8) else b"other.example")])
    body = None
    if method in (b"POST", b"PUT") or rng.chance(0.15):
        body = rng.choice(BODIES) if rng.chance(0.9) else b""
        if rng.chance(0.6):
            n = len(body) if rng.chance(0.85) else rng.choice([0, 1, len(body) + 1, 5])
            fields.insert(rng.below(len(fields) + 1), [hx(b"content-length"), hx(b"%d" % n)])
    elif rng.chance(0.1):
        fields.append([hx(b"content-length"), hx(rng.choice([b"0", b"5"]))])
    block += fields
    trailers = None
    if rng.chance(0.08):
        trailers = [[hx(n), hx(v)] for n, v in rng.choice(TRAILERS)]
        if body is None:
            body = rng.choice(BODIES)
    if rng.chance(0.35):
        block = _mutate_block(rng, block, False) or block
    return block, body, trailers


def gen_resp_block(rng):
    st = rng.choice(STATUSES)
    block = [[hx(b":status"), hx(st)]]
    fields = _fields(rng)
    body = None
    if rng.chance(0.7):
        body = rng.choice(BODIES) if rng.chance(0.9) else b""
        if rng.chance(0.6):
            n = len(body) if rng.chance(0.85) else rng.choice([0, 1, len(body) + 1, 5])
            fields.insert(rng.below(len(fields) + 1), [hx(b"content-length"), hx(b"%d" % n)])
    elif rng.chance(0.15):
        fields.append([hx(b"content-length"), hx(rng.choice([b"0", b"5"]))])
    block += fields
    trailers = None
    if rng.chance(0.08):
        trailers = [[hx(n), hx(v)] for n, v in rng.choice(TRAILERS)]
        if body is None:
            body = rng.choice(BODIES)
    if rng.chance(0.35):
        block = _mutate_block(rng, block, True) or block
    return block, body, trailers


def gen_h1_fields(rng):
    names = [b"Host", b"host", b"Cookie", b"cookie", b"X-Upper", b"x-lower", b"Connection", b"Keep-Alive", b"Transfer-Encoding", b"Upgrade",
             b"Proxy-Connection", b"TE", b"Content-Length", b" x-ws ", b"Set-Cookie", b"\xff", b"CONNECTION"]
    vals = [b"example.com", b"a=1; b=2", b"a=1", b" v ", b"v\t", b"\x0bv\x0c", b"close", b"chunked", b"3", b"", b"\xff", b"\xc3\xa9", b"keep-alive, x-a"]
    return [[hx(rng.choice(names)), hx(rng.choice(vals))] for _ in range(rng.randint(0, 6))]


def gen(rng, n, tier):
    out = []
    for _ in range(n):
        r = rng.random()
        if r < 0.22:
            block, body, tr = gen_req_block(rng)
            out.append({"k": "downreq", "h": block, "body": None if body is None else hx(body), "tr": tr,
                        "resp": rng.below(len(H1_RESPS)), "v": not rng.chance(0.03)})
        elif r < 0.40:
            block, body, tr = gen_resp_block(rng)
            out.append({"k": "downresp", "req": rng.below(len(H1_REQS)), "h": block, "body": None if body is None else hx(body), "tr": tr,
                        "v": not rng.chance(0.03)})
        elif r < 0.58:
            which = rng.below(3)
            if which == 0:
                block = gen_req_block(rng)[0]
            elif which == 1:
                block = gen_resp_block(rng)[0]
            else:
                block = _fields(rng, 0, 4, 0.15)
                if rng.chance(0.3):
                    block = _mutate_block(rng, block, False)
            out.append({"k": "h2val", "resp": which == 1, "trailer": which == 2, "h": block})
        elif r < 0.68:
            out.append({"k": "parsereq", "h": gen_req_block(rng)[0]})
        elif r < 0.74:
            out.append({"k": "parseresp", "h": gen_resp_block(rng)[0]})
        elif r < 0.86:
            ver = rng.choice(["HTTP/1.1", "HTTP/1.1", "HTTP/1.0", "HTTP/2.0", "HTTP/3"])
            fields = gen_h1_fields(rng) if ver.startswith("HTTP/1") or rng.chance(0.5) else _fields(rng, 0, 5, 0.2)
            out.append({"k": "fmtreq", "ver": ver, "norm": rng.chance(0.7), "method": hx(rng.choice(METHODS)), "scheme": hx(rng.choice(SCHEMES)),
                        "authority": hx(rng.choice(AUTHS) if rng.chance(0.4) else b""), "path": hx(rng.choice(PATHS)), "fields": fields})
        elif r < 0.94:
            ver = rng.choice(["HTTP/1.1", "HTTP/1.1", "HTTP/1.0", "HTTP/2.0", "HTTP/3"])
            fields = gen_h1_fields(rng) if ver.startswith("HTTP/1") or rng.chance(0.5) else _fields(rng, 0, 5, 0.2)
            out.append({"k": "fmtresp", "ver": ver, "norm": rng.chance(0.7), "status": rng.choice([200, 204, 304, 404, 99, 1000, 0, 599]), "fields": fields})
        else:
            fields = _fields(rng, 0, 5, 0.25)
            if rng.chance(0.4):
                fields.append([hx(rng.choice([b"content-length", b"Content-Length"])), hx(rng.choice(CL_ODD + [b"3", b"10", b"0"]))])
            out.append({"k": "valhdr", "h": fields})
    return out


# ---------------------------------------------------------------------------------------------------------------------
def setup_impl():
    global h2, h2c, h2cfg, h2ev, h2exc, h2util, mhttp, http_layer, HTTPMode, Driver, make_context, _http2, url, validate, ctx_mod, ref
    import h2.connection as h2c, h2.config as h2cfg, h2.events as h2ev, h2.exceptions as h2exc, h2.utilities as h2util  # noqa
    import h2  # noqa
    from mitmproxy import http as mhttp  # noqa
    from mitmproxy.proxy.layers import http as http_layer  # noqa
    from mitmproxy.proxy.layers.http import HTTPMode, _http2  # noqa
    from mitmproxy.net.http import url, validate  # noqa
    from lib.sansio import Driver, make_context  # noqa
    from props import C01 as ref  # noqa  (the Python port of Model/Rfc9112.v: the independent HTTP/1 reader)


def _blk(h):
    return [(unhx(n), unhx(v)) for n, v in h]


def _hexblk(fields):
    return [[hx(bytes(n)), hx(bytes(v))] for n, v in fields]


def _peer(client_side):
    return h2c.H2Connection(h2cfg.H2Configuration(client_side=client_side, header_encoding=False, validate_outbound_headers=False,
                                                  normalize_outbound_headers=False, validate_inbound_headers=False,
                                                  normalize_inbound_headers=False))


def _send_msg(conn, sid, block, body, tr, informational=False):
    if informational:
        conn.send_headers(sid, block, end_stream=False)
        return
    conn.send_headers(sid, block, end_stream=(body is None and tr is None))
    if body is not None:
        conn.send_data(sid, body, end_stream=tr is None)
    if tr is not None:
        conn.send_headers(sid, tr, end_stream=True)


def _pa_ok(block):
    """verdict of url.parse_authority(check=True) on the (first) :authority value, as parse_h2_request_headers would ask"""
    for n, v in block:
        if not n.startswith(b":"):
            break
        if n == b":authority":
            if not v:
                return True
            try:
                url.parse_authority(v, check=True)
                return True
            except ValueError:
                return False
    return True


def _req_state(rq):
    """the property-relevant state of a live request object"""
    return {"method": hx(rq.data.method), "scheme": hx(rq.data.scheme), "authority": hx(rq.data.authority), "path": hx(rq.data.path),
            "fields": _hexblk(rq.headers.fields)}


def _snap_policy(store):
    """remember the request as it is when the `request` hook fires: the last moment before it is emitted upstream"""
    def policy(hook, drv):
        if hook.name == "request" and "pre" not in store:
            store["pre"] = _req_state(hook.args()[0].request)
    return policy


def _replay(flow, validate):
    """send the same flow object again the way mitmproxy.addons.clientplayback.ReplayHandler does (MockServer in an
    HttpLayer in transparent mode) towards an HTTP/2 server; -> header list the h2 server decodes (hex) or a string tag"""
    from mitmproxy.addons.clientplayback import MockServer
    from mitmproxy.connection import ConnectionState, Server
    flow.backup()
    flow.is_replay = "request"
    flow.response = None
    flow.error = None
    ctx = make_context({"validate_inbound_headers": validate})
    ctx.server = Server(address=("upstream.test", 443))
    layer = http_layer.HttpLayer(ctx, HTTPMode.transparent)
    layer.connections[ctx.client] = MockServer(flow, ctx.fork())

    def connect(conn, drv):
        conn.alpn = b"h2"
        return None
    d = Driver(lambda cx: layer, ctx=ctx, connect=connect)
    d.start()
    if d.crashed:
        return "crash:" + d.crashed[0]
    if len(d.conns) < 2:
        return "not-sent"
    peer = _peer(False)
    peer.initiate_connection()
    try:
        reqs = [e for e in peer.receive_data(d.sent(1)) if isinstance(e, h2ev.RequestReceived)]
    except Exception as e:
        return "peer:" + type(e).__name__
    return _hexblk(reqs[0].headers) if reqs else "not-sent"


def run_downreq(c):
    block, body, tr = _blk(c["h"]), (None if c["body"] is None else unhx(c["body"])), (None if c["tr"] is None else _blk(c["tr"]))
    ctx = make_context({"validate_inbound_headers": c["v"]}, {"alpn": b"h2"})
    ctx.server.address = ("upstream.test", 80)
    snap = {}
    d = Driver(lambda cx: http_layer.HttpLayer(cx, HTTPMode.transparent), ctx=ctx, policy=_snap_policy(snap))
    d.start()
    peer = _peer(True)
    peer.initiate_connection()
    _send_msg(peer, 1, block, body, tr)
    d.data(0, peer.data_to_send())
    o = {"pa": _pa_ok(block), "crash": d.crashed[0] if d.crashed else None, "up": None, "status": None, "goaway": False,
         "resp_h": None, "resp_body": None, "flow_resp": None}
    evs = []
    try:
        evs = peer.receive_data(d.sent(0))
    except Exception as e:  # the peer does not validate; anything here is an observation
        o["peer_exc"] = type(e).__name__
    if len(d.conns) > 1 and not d.crashed:
        o["up"] = hx(d.sent(1))
        if d.sent(1) and d.flows and "pre" in snap:
            o["req_pre"], o["req_post"] = snap["pre"], _req_state(d.flows[0].request)
        if d.sent(1):
            line, hdrs, wire = H1_RESPS[c["resp"]]
            n = len(d.sent(0))
            d.data(1, line + b"\r\n" + b"".join(h + b"\r\n" for h in hdrs) + b"\r\n" + wire)
            d.close(1)
            try:
                evs += peer.receive_data(d.sent(0)[n:])
            except Exception as e:
                o["peer_exc"] = type(e).__name__
            if d.crashed:
                o["crash2"] = d.crashed[0]
            f = d.flows[0] if d.flows else None
            if f is not None and getattr(f, "response", None) is not None and f.error is None:
                o["flow_resp"] = {"status": f.response.status_code, "fields": _hexblk(f.response.headers.fields),
                                  "body": hx(f.response.raw_content or b"")}
    rbody = b""
    for e in evs:
        if isinstance(e, h2ev.ConnectionTerminated):
            o["goaway"] = True
        elif isinstance(e, h2ev.ResponseReceived):
            o["resp_h"] = _hexblk(e.headers)
            for k, v in e.headers:
                if bytes(k) == b":status":
                    o["status"] = bytes(v).decode("latin-1")
        elif isinstance(e, h2ev.DataReceived):
            rbody += e.data
    o["resp_body"] = hx(rbody)
    return o


def run_downresp(c):
    block, body, tr = _blk(c["h"]), (None if c["body"] is None else unhx(c["body"])), (None if c["tr"] is None else _blk(c["tr"]))
    method, target, lines = H1_REQS[c["req"]]
    ctx = make_context({"validate_inbound_headers": c["v"]})
    ctx.server.address = ("upstream.test", 443)

    def connect(conn, drv):
        conn.alpn = b"h2"
        return None
    snap = {}
    d = Driver(lambda cx: http_layer.HttpLayer(cx, HTTPMode.transparent), ctx=ctx, connect=connect, policy=_snap_policy(snap))
    d.start()
    d.data(0, method + b" " + target + b" HTTP/1.1\r\n" + b"".join(l + b"\r\n" for l in lines) + b"\r\n")
    o = {"crash": d.crashed[0] if d.crashed else None, "down": None, "req_h": None, "flow_req": None, "goaway": False, "closed": False,
         "error": None, "method": hx(method)}
    if len(d.conns) < 2 or d.crashed:
        o["down"] = hx(d.sent(0))
        return o
    peer = _peer(False)
    peer.initiate_connection()
    try:
        evs = peer.receive_data(d.sent(1))
    except Exception as e:
        o["peer_exc"] = type(e).__name__
        return o
    reqs = [e for e in evs if isinstance(e, h2ev.RequestReceived)]
    f = d.flows[0] if d.flows else None
    if not reqs:
        o["down"] = hx(d.sent(0))
        return o
    o["req_h"] = _hexblk(reqs[0].headers)
    o["flow_req"] = snap.get("pre") or _req_state(f.request)      # the request as it was just before the first emission
    o["req_post"] = _req_state(f.request)                          # ... and the live object after it
    sid = reqs[0].stream_id
    informational = any(n == b":status" and v.startswith(b"1") for n, v in block)
    _send_msg(peer, sid, block, body, tr, informational)
    n1 = len(d.sent(1))
    d.data(1, peer.data_to_send())
    o["crash"] = d.crashed[0] if d.crashed else None
    o["down"] = hx(d.sent(0))
    o["closed"] = any(t[0] == "close" and t[1] == 0 for t in d.trace)
    o["error"] = bool(f.error is not None)
    try:
        for e in peer.receive_data(d.sent(1)[n1:]):
            if isinstance(e, h2ev.ConnectionTerminated):
                o["goaway"] = True
    except Exception as e:
        o["peer_exc"] = type(e).__name__
    # second emission of the very same flow object (client replay), again towards an HTTP/2 server
    if not d.crashed and not o.get("peer_exc"):
        try:
            o["req_h2"] = _replay(f, c["v"])
        except Exception as e:
            o["req_h2"] = "exc:" + type(e).__name__
    return o


def _mk_request(c):
    return mhttp.Request(host="h", port=80, method=unhx(c["method"]), scheme=unhx(c["scheme"]), authority=unhx(c["authority"]),
                         path=unhx(c["path"]), http_version=c["ver"].encode(), headers=mhttp.Headers(_blk(c["fields"])), content=None,
                         trailers=None, timestamp_start=0, timestamp_end=None)


def _drain(gen):
    try:
        while True:
            next(gen)
    except StopIteration as e:
        return e.value


def _enc(headers):
    """what h2 send_headers does with the returned list: str values are encoded as utf-8"""
    out = []
    for n, v in headers:
        n = n.encode("utf-8") if isinstance(n, str) else bytes(n)
        v = v.encode("utf-8") if isinstance(v, str) else bytes(v)
        out.append((n, v))
    return out


def run_impl(case):
    k = case["k"]
    if k == "downreq":
        return run_downreq(case)
    if k == "downresp":
        return run_downresp(case)
    if k == "h2val":
        flags = h2util.HeaderValidationFlags(is_client=case["resp"], is_trailer=case["trailer"], is_response_header=case["resp"], is_push_promise=False)
        try:
            list(h2util.validate_headers(_blk(case["h"]), flags))
            return {"ok": True}
        except h2exc.ProtocolError:
            return {"ok": False}
        except Exception as e:
            return {"ok": None, "exc": type(e).__name__}
    if k == "parsereq":
        block = _blk(case["h"])
        try:
            host, port, method, scheme, authority, path, headers = _http2.parse_h2_request_headers(block)
            return {"pa": _pa_ok(block), "res": [hx(method), hx(scheme), hx(authority), hx(path), _hexblk(headers.fields)]}
        except ValueError:
            return {"pa": _pa_ok(block), "res": None}
        except Exception as e:
            return {"pa": _pa_ok(block), "res": None, "exc": type(e).__name__}
    if k == "parseresp":
        try:
            st, headers = _http2.parse_h2_response_headers(_blk(case["h"]))
            return {"res": [st, _hexblk(headers.fields)]}
        except ValueError:
            return {"res": None}
        except Exception as e:
            return {"res": None, "exc": type(e).__name__}
    if k in ("fmtreq", "fmtresp"):
        ctx = make_context({"normalize_outbound_headers": case["norm"]})
        if k == "fmtreq":
            ev = http_layer.RequestHeaders(1, _mk_request(case), True)
            g = _http2.format_h2_request_headers(ctx, ev)
        else:
            resp = mhttp.Response(http_version=case["ver"].encode(), status_code=case["status"], reason=b"x", headers=mhttp.Headers(_blk(case["fields"])),
                                  content=None, trailers=None, timestamp_start=0, timestamp_end=None)
            ev = http_layer.ResponseHeaders(1, resp, True)
            g = _http2.format_h2_response_headers(ctx, ev)
        try:
            o = {"res": _hexblk(_enc(_drain(g)))}
            if k == "fmtreq":
                o["after"] = _hexblk(ev.request.headers.fields)
                o["res2"] = _hexblk(_enc(_drain(_http2.format_h2_request_headers(ctx, http_layer.RequestHeaders(1, ev.request, True)))))
            return o
        except UnicodeEncodeError:
            return {"res": None, "exc": "UnicodeEncodeError"}
        except Exception as e:
            return {"res": None, "exc": type(e).__name__}
    if k == "valhdr":
        fields = _blk(case["h"])
        if any(n.lower() == b"transfer-encoding" for n, _ in fields):
            return {"skip": True}
        msg = mhttp.Response(http_version=b"HTTP/1.1", status_code=200, reason=b"", headers=mhttp.Headers(fields), content=None, trailers=None,
                             timestamp_start=0, timestamp_end=None)
        try:
            validate.validate_headers(msg)
            return {"ok": True}
        except ValueError:
            return {"ok": False}
    raise AssertionError(k)


# ---------------------------------------------------------------------------------------------------------------------
def chdrs(h):
    return clist(("(%s, %s)" % (cbytes(unhx(n)), cbytes(unhx(v))) for n, v in h), "header")


def cobytes(x):
    return copt(x, lambda s: cbytes(unhx(s)), "bytes")


def cohdrs(x):
    return copt(x, chdrs, "headers")


def _outcome_req(o):
    if o["crash"]:
        return "OCrashTrailers" if o["crash"] == "AssertionError" else None
    if o["up"] is not None and o["up"] != "":
        return f"(OForward {cbytes(unhx(o['up']))} false)"
    if o["goaway"]:
        return "OConnError"
    if o["status"] == "400":
        return "OInvalid"
    return None


def _outcome_resp(o):
    if o["crash"]:
        return "OCrashTrailers" if o["crash"] == "AssertionError" else None
    if o.get("req_h") is None or o.get("error") is None:
        return None
    if o["goaway"]:
        return "OConnError"
    if o["error"]:
        return "OInvalid"
    if o["down"] == "":
        return "OInformational"
    return f"(OForward {cbytes(unhx(o['down']))} {cbool(o['closed'])})"


def coq_case(case, obs):
    k = case["k"]
    if obs.get("exc") or obs.get("peer_exc") or obs.get("skip"):
        return None
    if k == "h2val":
        return f"H2Val {cbool(case['resp'])} {cbool(case['trailer'])} {chdrs(case['h'])} {cbool(obs['ok'])}"
    if k == "parsereq":
        r = obs["res"]
        impl = "None" if r is None else "(Some (%s, %s, %s, %s, %s))" % (*[cbytes(unhx(x)) for x in r[:4]], chdrs(r[4]))
        return f"ParseReq {cbool(obs['pa'])} {chdrs(case['h'])} {impl}"
    if k == "parseresp":
        r = obs["res"]
        impl = "None" if r is None else "(Some (%s, %s))" % (cZ(r[0]), chdrs(r[1]))
        return f"ParseResp {chdrs(case['h'])} {impl}"
    if k == "fmtreq":
        is_h2 = not case["ver"].startswith("HTTP/1")
        return (f"EmitTwice {cbool(case['norm'])} {cbool(is_h2)} {cbytes(unhx(case['method']))} {cbytes(unhx(case['scheme']))} "
                f"{cbytes(unhx(case['authority']))} {cbytes(unhx(case['path']))} {chdrs(case['fields'])} {chdrs(obs['res'])} "
                f"{chdrs(obs['res2'])} {chdrs(obs['after'])}")
    if k == "fmtresp":
        is_h2 = not case["ver"].startswith("HTTP/1")
        return f"FmtResp {cbool(case['norm'])} {cbool(is_h2)} {cZ(case['status'])} {chdrs(case['fields'])} {chdrs(obs['res'])}"
    if k == "valhdr":
        return f"ValHdr {chdrs(case['h'])} {cbool(obs['ok'])}"
    if not case["v"]:
        return None                       # validate_inbound_headers off: outside the model (oracle only)
    tr = cohdrs(case["tr"])
    if k == "downreq":
        oc = _outcome_req(obs)
        if oc is None:
            oc = "OUndecided"             # an observation the model cannot produce: reported as a disagreement
        main = f"DownReq {cbool(obs['pa'])} {chdrs(case['h'])} {cobytes(case['body'])} {tr} {oc}"
        if obs.get("req_pre"):
            main = f"Both ({main}) (EmitH1State {chdrs(obs['req_pre']['fields'])} {chdrs(obs['req_post']['fields'])})"
        fr = obs.get("flow_resp")
        if fr and obs.get("resp_h") is not None and not obs.get("crash2"):
            second = f"FmtResp true false {cZ(fr['status'])} {chdrs(fr['fields'])} {chdrs(obs['resp_h'])}"
            return f"Both ({main}) ({second})"
        return main
    if k == "downresp":
        if obs.get("req_h") is None:
            return None
        oc = _outcome_resp(obs) or "OUndecided"
        main = f"DownResp {cbytes(unhx(obs['method']))} {chdrs(case['h'])} {cobytes(case['body'])} {tr} {oc}"
        q = obs["flow_req"]
        args = (f"true false {cbytes(unhx(q['method']))} {cbytes(unhx(q['scheme']))} {cbytes(unhx(q['authority']))} "
                f"{cbytes(unhx(q['path']))} {chdrs(q['fields'])} {chdrs(obs['req_h'])}")
        if isinstance(obs.get("req_h2"), list):
            second = f"EmitTwice {args} {chdrs(obs['req_h2'])} {chdrs(obs['req_post']['fields'])}"
        else:
            second = f"FmtReq {args}"
        return f"Both ({main}) ({second})"
    raise AssertionError(k)


# ---------------------------------------------------------------------------------------------------------------------
# the oracle: the property itself on what the real layers wrote, read back by the independent HTTP/1 reader
HOP = {b"connection", b"proxy-connection", b"keep-alive", b"transfer-encoding", b"upgrade"}


def _lc(fs):
    return [(ref.ascii_lower(bytes(n)), bytes(v)) for n, v in fs]


def _sem(fields, drop):
    """end-to-end fields, names lower-cased, cookie fields joined as HTTP/1 requires"""
    out, cookies = [], []
    for n, v in _lc(fields):
        if n == b"cookie":
            cookies.append(v)
        elif n not in drop:
            out.append((n, v))
    return out, (b"; ".join(cookies) if cookies else None)


def _pseudo(block):
    """the leading run of pseudo-headers (what precedes the first regular field)"""
    d = {}
    for n, v in block:
        if not n.startswith(b":"):
            break
        d.setdefault(n, v)
    return d


def _regular(block):
    for i, (n, _) in enumerate(block):
        if not n.startswith(b":"):
            return block[i:]
    return []


def _show(b):
    return repr(bytes(b))[:160]


def oracle_downreq(c, o):
    pre = "" if c["v"] else "validation-off:"
    v = []

    def bad(key, what):
        v.append({"key": ("validate-inbound-headers-off" if pre else key), "what": pre + what})
    if o["crash"]:
        if o["crash"] == "AssertionError" and c["tr"] is not None:
            bad("request-trailers-crash", "HTTP/2 request with trailers forwarded to an HTTP/1 server: Http1Client.send raises AssertionError")
        else:
            bad("layer-crash-" + o["crash"], f"layer crashed on header block {[(_show(n), _show(x)) for n, x in _blk(c['h'])]}")
        return v
    if o.get("crash2"):
        bad("layer-crash-" + o["crash2"], "layer crashed while relaying the HTTP/1 response over HTTP/2")
    if not o["up"]:
        return v
    up = unhx(o["up"])
    block, body = _blk(c["h"]), (unhx(c["body"]) if c["body"] is not None else b"")
    ps = _pseudo(block)
    regular = _regular(block)
    # known family: a non-empty body that no content-length announces is written after the head as it is
    unframed = bool(body) and not any(n.lower() == b"content-length" for n, _ in regular)

    def bad_framing(key, what):
        if unframed:
            bad("request-body-without-content-length", f"HTTP/2 request body {_show(body)} without content-length forwarded unframed: " + what)
        else:
            bad(key, what)
    for name, opts in (("strict", ref.STRICT), ("lenient", ref.LENIENT)):
        try:
            qs = ref.ref_parse_requests(opts, up)
        except ref.RefErr as e:
            if e.kind == ref.INCOMPLETE and c["body"] is None:
                bad("request-content-length-without-body", f"END_STREAM on HEADERS with a non-zero content-length: {name} reader waits for a body: {_show(up)}")
            elif e.kind == ref.INCOMPLETE:
                bad_framing("h1-request-incomplete", f"{name} reader waits for more body than was sent: {_show(up)}")
            else:
                bad_framing("h1-request-unparsable", f"{name} reader rejects {_show(up)}")
            continue
        if len(qs) != 1:
            bad_framing("h1-request-split", f"{name} reader finds {len(qs)} HTTP/1 requests in {_show(up)}")
            continue
        q = qs[0]
        if q["method"] != ps.get(b":method") or q["target"] != ps.get(b":path") or q["version"] != b"HTTP/1.1":
            bad("request-line-changed", f":method {_show(ps.get(b':method', b''))} :path {_show(ps.get(b':path', b''))} became {_show(up[:80])}")
        hosts = ref.field_values(b"host", q["fields"])
        want_host = ps.get(b":authority") or next((x for n, x in regular if n.lower() == b"host"), None)
        if hosts != ([want_host] if want_host else []):
            bad("host-changed", f":authority {_show(ps.get(b':authority', b''))} became Host {hosts}")
        # Expect: 100-continue is answered by the proxy itself (hop-level): whether or not it is also forwarded is not judged
        exp_drop = {b"expect"} if any(n.lower() == b"expect" and x.lower() == b"100-continue" for n, x in regular) else set()
        want, want_cookie = _sem(regular, {b"host"} | exp_drop)
        got, got_cookie = _sem(q["fields"], {b"host", b"transfer-encoding"} | exp_drop)
        if want != got:
            bad("fields-changed", f"end-to-end fields {want} became {got}")
        if want_cookie != got_cookie:
            bad("cookie-changed", f"cookies {want_cookie} became {got_cookie}")
        if q["body"] != body:
            bad_framing("body-changed", f"body {_show(body)} read as {_show(q['body'])}")
    # writing the request as HTTP/1 must not change the live request object
    if o.get("req_pre") and o["req_pre"] != o["req_post"]:
        bad("translation-mutates-request", f"flow.request changed by its emission over HTTP/1: {o['req_pre']} -> {o['req_post']}")
    # the HTTP/1 response relayed over HTTP/2
    fr = o.get("flow_resp")
    if fr and o.get("resp_h") is not None:
        rh = _blk(o["resp_h"])
        if _pseudo(rh).get(b":status") != b"%d" % fr["status"]:
            bad("status-changed", f"status {fr['status']} became {_pseudo(rh).get(b':status')}")
        want = [(n, x.strip(b" \t")) for n, x in _lc(_blk(fr["fields"])) if n not in HOP]
        got = _regular(rh)
        if want != got:
            bad("response-fields-changed", f"HTTP/1 response fields {want} became {got}")
        if fr["status"] not in (204, 304) and unhx(o["resp_body"]) != unhx(fr["body"]):
            bad("response-body-changed", f"body {_show(unhx(fr['body']))} became {_show(unhx(o['resp_body']))}")
    return v


def oracle_downresp(c, o):
    pre = "" if c["v"] else "validation-off:"
    v = []

    def bad(key, what):
        v.append({"key": ("validate-inbound-headers-off" if pre else key), "what": pre + what})
    if o["crash"]:
        if o["crash"] == "AssertionError" and c["tr"] is not None:
            bad("response-trailers-crash", "HTTP/2 response with trailers relayed to an HTTP/1 client: Http1Server.send raises AssertionError")
        elif o["crash"] == "UnicodeEncodeError":
            bad("h1-host-not-utf8-crash", "HTTP/1 Host header that is not UTF-8 sent to an HTTP/2 server: h2 cannot encode the str :authority")
        else:
            bad("layer-crash-" + o["crash"], f"layer crashed on header block {[(_show(n), _show(x)) for n, x in _blk(c['h'])]}")
        return v
    method, target, lines = H1_REQS[c["req"]]
    # the HTTP/1 request as the h2 server decoded it
    if o.get("req_h") is not None:
        rh = _blk(o["req_h"])
        ps = _pseudo(rh)
        h1_fields = [tuple(x.strip(b" \t") for x in l.split(b":", 1)) for l in lines]
        h1_hosts = [x for n, x in _lc(h1_fields) if n == b"host"]
        if ps.get(b":method") != method or ps.get(b":path") != target:
            bad("up-request-line-changed", f"{_show(method)} {_show(target)} became {ps}")
        if h1_hosts and ps.get(b":authority") != b", ".join(h1_hosts):
            bad("up-host-changed", f"Host {h1_hosts} became :authority {ps.get(b':authority')}")
        want, want_cookie = _sem(h1_fields, HOP | {b"host"})
        got, got_cookie = _sem(_regular(rh), set())
        if want != got or want_cookie != got_cookie:
            bad("up-fields-changed", f"HTTP/1 request fields {want} {want_cookie} became {got} {got_cookie}")
        # purity: the emission leaves the live request as it was; a replay of the same flow says the same
        if o.get("flow_req") and o.get("req_post") and o["flow_req"] != o["req_post"]:
            lost = [x for x in o["flow_req"]["fields"] if x not in o["req_post"]["fields"]]
            bad("translation-mutates-request", f"flow.request changed by its emission over HTTP/2: fields {[(_show(unhx(n)), _show(unhx(x))) for n, x in lost]} "
                                               f"removed from the live request ({method.decode()} {target.decode()}, {lines})")
        r2 = o.get("req_h2")
        if isinstance(r2, str) and r2 != "not-sent":
            bad("replay-" + r2.replace(":", "-"), f"client replay of the flow {method.decode()} {target.decode()} {lines} failed: {r2}")
        elif isinstance(r2, list):
            auth = lambda hs: [x for n, x in _blk(hs) if n.lower() in (b":authority", b"host")]
            if auth(r2) != auth(o["req_h"]):
                bad("replay-authority-lost", f"first emission of {method.decode()} {target.decode()} {lines} carried authority {auth(o['req_h'])}, "
                                             f"client replay of the same flow carried {auth(r2)}")
            elif r2 != o["req_h"]:
                bad("replay-emission-differs", f"first emission {_blk(o['req_h'])}, client replay of the same flow {_blk(r2)}")
    if o.get("error") is not False or not o["down"]:
        return v
    down = unhx(o["down"])
    block, body = _blk(c["h"]), (unhx(c["body"]) if c["body"] is not None else b"")
    ps = _pseudo(block)
    regular = _regular(block)
    st = ps.get(b":status", b"")
    for name, opts in (("strict", ref.STRICT), ("lenient", ref.LENIENT)):
        try:
            p, rest = ref.ref_parse_response(opts, method, down)
        except ref.RefErr as e:
            if not (len(st) == 3 and st.isdigit()):
                bad("status-not-3-digits", f":status {_show(st)} relayed as {_show(down[:40])}: not a status line")
            elif e.kind == ref.INCOMPLETE and c["body"] is None:
                bad("response-content-length-without-body", f"END_STREAM on HEADERS with a non-zero content-length: {name} reader waits for a body: {_show(down)}")
            elif e.kind == ref.INCOMPLETE:
                bad("h1-response-incomplete", f"{name} reader waits for more body than was sent: {_show(down)}")
            else:
                bad("h1-response-unparsable", f"{name} reader rejects {_show(down)}")
            continue
        if rest:
            if method == b"HEAD" or p["status"] in (204, 304):
                bad("body-after-bodiless-response", f"body bytes follow a response to {method.decode()} with status {p['status']}: {_show(down)}")
            else:
                bad("h1-response-split", f"{name} reader finds bytes after the response: {_show(down)}")
            continue
        try:
            st_int = int(st)
        except ValueError:
            st_int = None
        if st_int != p["status"] or p["version"] != b"HTTP/1.1":
            bad("status-changed", f":status {_show(st)} became {_show(down[:40])}")
        want, wc = _sem(regular, set())
        got, gc = _sem(p["fields"], set())
        if want + ([(b"cookie", wc)] if wc else []) != got + ([(b"cookie", gc)] if gc else []):
            bad("response-fields-changed", f"fields {want} became {got}")
        if not (method == b"HEAD" or p["status"] in (204, 304)) and p["body"] != body:
            bad("response-body-changed", f"body {_show(body)} read as {_show(p['body'])}")
        if p["close"] and not o["closed"]:
            bad("close-delimited-not-closed", "response without framing relayed but the client connection was not closed")
    return v


def oracle(case, obs):
    k = case["k"]
    if obs.get("exc"):
        if k == "fmtreq" and obs["exc"] == "UnicodeEncodeError":
            return [{"key": "h1-host-not-utf8-crash", "what": "format_h2_request_headers returns a str :authority that h2 cannot encode"}]
        return [{"key": "unexpected-exception-" + obs["exc"], "what": f"{k}: {obs['exc']}"}]
    if obs.get("peer_exc") == "InvalidBodyLengthError" and k == "downreq" and not obs.get("up") and _pseudo(_blk(case["h"])).get(b":method") == b"HEAD":
        return [{"key": "error-page-body-on-head-over-h2", "what": "mitmproxy answers a refused HTTP/2 HEAD request with its own error page including DATA"}]
    if obs.get("peer_exc"):
        return [{"key": "peer-exception-" + obs["peer_exc"], "what": f"{k}: the h2 peer could not decode what mitmproxy sent"}]
    if k == "downreq":
        return oracle_downreq(case, obs)
    if k == "downresp":
        return oracle_downresp(case, obs)
    if k == "parsereq" and obs["res"] is not None:
        # round trip: what parse_h2_request_headers returns, formatted again for HTTP/2, is the same block
        ps = _pseudo(_blk(case["h"]))
        m, s, a, p, fields = obs["res"]
        if (unhx(m), unhx(s), unhx(p)) != (ps.get(b":method"), ps.get(b":scheme"), ps.get(b":path")) or unhx(a) != ps.get(b":authority", b""):
            return [{"key": "parse-changes-pseudo-headers", "what": f"{ps} parsed as {obs['res'][:4]}"}]
        if _blk(fields) != _regular(_blk(case["h"])):
            return [{"key": "parse-changes-fields", "what": "regular fields changed by parse_h2_request_headers"}]
    if k == "fmtresp" and obs["res"] is not None:
        rh = _blk(obs["res"])
        if not rh or rh[0] != (b":status", b"%d" % case["status"]):
            return [{"key": "status-changed", "what": f"status {case['status']} formatted as {rh[:1]}"}]
    if k == "fmtreq" and obs["res"] is not None:
        if obs["after"] != case["fields"]:
            return [{"key": "translation-mutates-request", "what": f"format_h2_request_headers changed event.request.headers: {_blk(case['fields'])} -> {_blk(obs['after'])}"}]
        if obs["res2"] != obs["res"]:
            return [{"key": "replay-emission-differs", "what": f"second format_h2_request_headers call on the same request: {_blk(obs['res'])} then {_blk(obs['res2'])}"}]
        ps = _pseudo(_blk(obs["res"]))
        if (ps.get(b":method"), ps.get(b":scheme"), ps.get(b":path")) != (unhx(case["method"]), unhx(case["scheme"]), unhx(case["path"])):
            return [{"key": "up-request-line-changed", "what": f"pseudo-headers {ps}"}]
    return []


def nontrivial(case, obs):
    k = case["k"]
    if k == "downreq":
        return bool(obs.get("up"))
    if k == "downresp":
        return obs.get("error") is False and bool(obs.get("down"))
    if k == "h2val":
        return obs.get("ok") is True
    if k == "valhdr":
        return bool(obs.get("ok"))
    return obs.get("res") is not None


def classify(case, obs):
    k = case["k"]
    tags = [k]
    if k == "downreq":
        oc = _outcome_req(obs) or "other"
        tags.append("downreq:" + oc.split(" ")[0].strip("("))
        if obs.get("up") and case["body"]:
            tags.append("downreq:with-body")
        if case["tr"] is not None:
            tags.append("trailers")
        if not case["v"]:
            tags.append("validate-off")
    elif k == "downresp":
        oc = _outcome_resp(obs) or "other"
        tags.append("downresp:" + oc.split(" ")[0].strip("("))
        if obs.get("closed"):
            tags.append("downresp:closed")
        tags.append("downresp:replayed" if isinstance(obs.get("req_h2"), list) else "downresp:no-replay")
    elif k == "h2val":
        tags.append(("h2val-resp" if case["resp"] else "h2val-trailer" if case["trailer"] else "h2val-req") + (":ok" if obs.get("ok") else ":rejected"))
    elif k in ("parsereq", "parseresp", "fmtreq", "fmtresp"):
        tags.append(k + (":ok" if obs.get("res") is not None else ":error"))
        if k.startswith("fmt"):
            tags.append(k + ":" + case["ver"])
    elif k == "valhdr":
        tags.append("valhdr:" + ("skip" if obs.get("skip") else "ok" if obs.get("ok") else "rejected"))
    return tags
