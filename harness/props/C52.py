"""C52 — Server replay serves recorded responses only to matching requests, in order
(mitmproxy/addons/serverplayback.py)."""
from lib.coqterm import cbytes, cbool, cN, clist, copt, cpair, hx, unhx

ID = "C52"
QUICK_N = 1000
THOROUGH_N = 5000
SHARD = 100
COQ_PRELUDE = "From MV Require Import Model.ServerPlayback.\n"
RULE = ("85% histories: a random option set, a load of 1-8 recordings (about 15% without response, 5% non-http "
        "flows) drawn from a tiny universe of methods/schemes/hosts/ports/paths/query params/bodies/forms/headers so "
        "that keys collide and near-collide, then 3-14 operations: requests (70%, mostly copies or one-field "
        "mutations of a recording), option updates (20%, hash options and reuse/extra options), add/load/clear; "
        "15% single _hash cases comparing the key list built by the real _hash (captured before SHA-256) with the "
        "model key. Non-trivial = at least one recording was served or skipped, or the key has an optional part; "
        "distinct by canonical JSON.")
TRUSTED = ["Coq 8.16.1 kernel (coqc), vm_compute for case evaluation",
           "harness/props/C52.py generator, field extraction from the real Request object (urlparse, parse_qsl, "
           "pretty_host, multipart_form, urlencoded_form, str(raw_content)) and comparison glue (Corr/C52.v)",
           "SHA-256 collision freedom and injectivity of repr on lists of str/int/tuples/lists: the model key is the "
           "key list itself (for hash cases hashlib.sha256 is replaced by the identity to read the list back)"]
ASSUMPTIONS = ["recordings keep their response attribute between load and replay (no concurrent user edits)",
               "server_replay_refresh and reading flows from files are out of scope",
               "strings are compared by their UTF-8 encoding"]

METHODS = ["GET", "POST", "PUT"]
SCHEMES = ["http", "https"]
HOSTS = ["a", "b", "c.example", "b'x'"]
PORTS = [80, 81, 443]
PATHS = ["/p", "/q", "/p;v=1", "/"]
PARAMS = ["a", "b", "c", "A"]
VALUES = ["1", "2", "", "x y", "a", "b"]
BODIES = [b"", b"x", b"a=1&b=2", b"a=1&b=3", b"a=2&b=2", b"c=1", None, b"\xff\x00'"]
HDR_NAMES = ["X-A", "x-a", "X-B", "Host", "Cookie"]
HDR_VALUES = ["1", "2", "", "a, b", "hé"]
HASH_OPTS = ["server_replay_ignore_content", "server_replay_ignore_host", "server_replay_ignore_params",
             "server_replay_ignore_payload_params", "server_replay_ignore_port", "server_replay_use_headers"]
EXTRAS = ["forward", "kill", "204", "400", "404", "500"]
DEFAULTS = {"server_replay_ignore_content": False, "server_replay_ignore_host": False,
            "server_replay_ignore_port": False, "server_replay_ignore_params": [],
            "server_replay_ignore_payload_params": [], "server_replay_use_headers": [],
            "server_replay_reuse": False, "server_replay_nopop": False, "server_replay_kill_extra": False,
            "server_replay_extra": "forward"}


# ------------------------------------------------------------------ generator

def _multipart(fields):
    out = b""
    for k, v in fields:
        out += b'--BB\r\nContent-Disposition: form-data; name="' + k.encode() + b'"\r\n\r\n' + v.encode() + b"\r\n"
    return out + b"--BB--\r\n"


UE_GARBAGE = [b"%zz&&==&a", b"\xff=\xfe&a=1", b"a", b"=", b"&", b"a=1;b=2", b"a=%", b"\x00=\x00", None]


def _malformed_multipart(rng, fields, headers):
    """truncated / aborted uploads and broken framing for the multipart key component"""
    part = lambda k, v: b'--BB\r\nContent-Disposition: form-data; name="' + k.encode() + b'"\r\n\r\n' + v.encode() + b"\r\n"
    k, v = fields[0] if fields else ("a", "1")
    good = b"".join(part(a, b) for a, b in fields[1:])
    hdr = b'--BB\r\nContent-Disposition: form-data; name="' + k.encode() + b'"'
    kind = rng.choice(["noblank", "hdr-only", "hdr-crlf", "hdr-ctype-noblank", "mid-value", "no-name", "extra-header",
                       "no-boundary-param", "nonascii-boundary", "other-boundary", "empty", "none", "lf-only", "prefix-cut"])
    if kind == "noblank":              # name line directly followed by the value: no empty line
        c = good + hdr + b"\r\n" + v.encode() + b"\r\n--BB--\r\n"
    elif kind == "hdr-only":           # upload aborted right after the name header
        c = good + hdr
    elif kind == "hdr-crlf":
        c = good + hdr + b"\r\n"
    elif kind == "hdr-ctype-noblank":  # second part header, then cut
        c = good + hdr + b"\r\nContent-Type: text/plain\r\n"
    elif kind == "mid-value":
        c = good + hdr + b"\r\n\r\n" + v.encode()[:1]
    elif kind == "no-name":
        c = good + b"--BB\r\nContent-Disposition: form-data\r\n\r\n" + v.encode() + b"\r\n--BB--\r\n"
    elif kind == "extra-header":       # valid: a Content-Type line before the empty line
        c = good + hdr + b"\r\nContent-Type: text/plain\r\n\r\n" + v.encode() + b"\r\n--BB--\r\n"
    elif kind == "lf-only":
        c = (good + hdr + b"\r\n\r\n" + v.encode() + b"\r\n--BB--\r\n").replace(b"\r\n", b"\n")
    elif kind == "prefix-cut":
        full = _multipart(fields or [(k, v)])
        c = full[: rng.randint(0, len(full))]
    elif kind == "empty":
        c = b""
    elif kind == "none":
        c = None
    else:
        c = _multipart(fields or [(k, v)])
        ct = {"no-boundary-param": "multipart/form-data", "nonascii-boundary": "multipart/form-data; boundary=\u00e9",
              "other-boundary": "multipart/form-data; boundary=CC"}[kind]
        headers = [h for h in headers if h[0].lower() != "content-type"] + [["Content-Type", ct]]
    return c, headers


def gen_req(rng):
    q = [(rng.choice(PARAMS), rng.choice(VALUES)) for _ in range(rng.weighted([(4, 0), (3, 1), (2, 2), (1, 3)]))]
    path = rng.choice(PATHS)
    if q:
        path += "?" + "&".join(k + "=" + v.replace(" ", "+") for k, v in q)
    if rng.chance(0.05):
        path += "#frag"
    headers = [[rng.choice(HDR_NAMES), rng.choice(HDR_VALUES)] for _ in range(rng.weighted([(4, 0), (3, 1), (2, 2), (1, 3)]))]
    content = rng.choice(BODIES)
    kind = rng.weighted([(5, "raw"), (3, "urlenc"), (2, "multipart")])
    if kind == "urlenc":
        headers.append(["Content-Type", "application/x-www-form-urlencoded"])
        if rng.chance(0.5):
            fields = [(rng.choice(PARAMS), rng.choice(VALUES)) for _ in range(rng.randint(0, 3))]
            content = "&".join(k + "=" + v.replace(" ", "+") for k, v in fields).encode()
        if rng.chance(0.2):
            content = rng.choice(UE_GARBAGE)
    elif kind == "multipart":
        headers.append(["content-type", "multipart/form-data; boundary=BB"])
        fields = [(rng.choice(PARAMS), rng.choice(VALUES)) for _ in range(rng.randint(0, 3))]
        content = _multipart(fields)
        if rng.chance(0.45):
            content, headers = _malformed_multipart(rng, fields, headers)
    if rng.chance(0.06):
        # undecodable content-encoding (with multipart + ignore_payload_params: known finding hash-raises-encoding)
        headers.append(["Content-Encoding", rng.choice(["gzip", "deflate", "br", "nope"])])
    headers = [h for h in headers if h[0] != "Host" or h[1] not in ("", "a, b")]
    return {"method": rng.choice(METHODS), "scheme": rng.choice(SCHEMES), "host": rng.choice(HOSTS),
            "port": rng.choice(PORTS), "path": path, "headers": headers,
            "content": None if content is None else hx(content)}


def mutate_req(rng, r):
    r = {**r, "headers": [list(h) for h in r["headers"]]}
    what = rng.weighted([(5, "same"), (3, "host"), (2, "port"), (1, "method"), (1, "scheme"), (2, "path"),
                         (2, "content"), (2, "headers"), (1, "fresh")])
    if what == "host":
        r["host"] = rng.choice(HOSTS)
    elif what == "port":
        r["port"] = rng.choice(PORTS)
    elif what == "method":
        r["method"] = rng.choice(METHODS)
    elif what == "scheme":
        r["scheme"] = rng.choice(SCHEMES)
    elif what == "path":
        f = gen_req(rng)
        r["path"] = f["path"]
    elif what == "content":
        f = gen_req(rng)
        r["content"] = f["content"]
        r["headers"] = [h for h in r["headers"] if h[0].lower() != "content-type"] + \
                       [h for h in f["headers"] if h[0].lower() == "content-type"]
    elif what == "headers":
        if r["headers"] and rng.chance(0.5):
            r["headers"].pop(rng.below(len(r["headers"])))
        else:
            r["headers"].insert(0, [rng.choice(HDR_NAMES[:3]), rng.choice(HDR_VALUES)])
    elif what == "fresh":
        r = gen_req(rng)
    return r


def gen_opts(rng, p=0.3):
    o = {}
    for k in ("server_replay_ignore_content", "server_replay_ignore_host", "server_replay_ignore_port"):
        if rng.chance(p):
            o[k] = rng.chance(0.7)
    if rng.chance(p):
        o["server_replay_ignore_params"] = rng.sample(PARAMS, rng.randint(0, 2))
    if rng.chance(p):
        o["server_replay_ignore_payload_params"] = rng.sample(PARAMS, rng.randint(0, 2))
    if rng.chance(p):
        o["server_replay_use_headers"] = rng.sample(["x-a", "X-B", "cookie", "nope"], rng.randint(0, 2))
    if rng.chance(p * 0.6):
        o["server_replay_reuse"] = rng.chance(0.6)
    if rng.chance(p * 0.2):
        o["server_replay_nopop"] = rng.chance(0.6)
    if rng.chance(p * 0.3):
        o["server_replay_kill_extra"] = rng.chance(0.5)
    if rng.chance(p):
        o["server_replay_extra"] = rng.choice(EXTRAS)
    return o


def gen_flows(rng, nextid, n, pool):
    fl = []
    for _ in range(n):
        if rng.chance(0.05):
            fl.append({"other": True})
            continue
        req = mutate_req(rng, rng.choice(pool)) if pool and rng.chance(0.7) else gen_req(rng)
        pool.append(req)
        fl.append({"id": nextid[0], "req": req, "resp": not rng.chance(0.15)})
        nextid[0] += 1
    return fl


def gen_hist(rng):
    nextid = [0]
    pool = []
    ops = [{"op": "load", "flows": gen_flows(rng, nextid, rng.randint(1, 8), pool)}]
    for _ in range(rng.randint(3, 14)):
        w = rng.weighted([(70, "req"), (20, "conf"), (6, "add"), (2, "load"), (2, "clear")])
        if w == "req":
            ops.append({"op": "req", "req": mutate_req(rng, rng.choice(pool)) if pool else gen_req(rng)})
        elif w == "conf":
            upd = gen_opts(rng, 0.25)
            if not upd:
                upd = {"server_replay_ignore_host": rng.chance(0.7)}
            ops.append({"op": "conf", "upd": upd})
        elif w == "add":
            ops.append({"op": "add", "flows": gen_flows(rng, nextid, rng.randint(1, 3), pool)})
        elif w == "load":
            ops.append({"op": "load", "flows": gen_flows(rng, nextid, rng.randint(0, 4), pool)})
        else:
            ops.append({"op": "clear"})
    opts = gen_opts(rng, 0.3)
    if rng.chance(0.35):
        pp = {"server_replay_ignore_payload_params": rng.sample(PARAMS + ["zz"], rng.randint(1, 2))}
        if rng.chance(0.5):
            opts.update(pp)
            opts["server_replay_ignore_content"] = False
        else:   # turned on at runtime: a re-index that has to hash every pending recording's body
            ops.insert(rng.randint(1, len(ops)), {"op": "conf", "upd": {**pp, "server_replay_ignore_content": False}})
    return {"k": "hist", "opts": opts, "ops": ops}


def gen(rng, n, tier):
    out = []
    for _ in range(n):
        if rng.chance(0.85):
            out.append(gen_hist(rng))
        else:
            o = gen_opts(rng, 0.5)
            if rng.chance(0.5):
                o["server_replay_ignore_content"] = False
                o["server_replay_ignore_payload_params"] = rng.sample(PARAMS + ["zz"], rng.randint(1, 2))
            out.append({"k": "hash", "opts": o, "req": gen_req(rng)})
    return out


# ------------------------------------------------------------------ implementation runner

_hook_errors = []


class _IdentitySha:
    """stands in for hashlib while reading the key list back: digest() is the hashed text itself"""
    class _H:
        def __init__(self, data):
            self.data = data

        def digest(self):
            return self.data

    @classmethod
    def sha256(cls, data):
        return cls._H(data)


def setup_impl():
    global serverplayback, taddons, tflow, http, urllib, ast, _sp, _tctx
    import ast
    import logging
    import urllib.parse
    from mitmproxy import http
    from mitmproxy.addons import serverplayback
    from mitmproxy.test import taddons, tflow
    logging.getLogger().addHandler(logging.NullHandler())
    logging.disable(logging.CRITICAL)
    _sp = serverplayback.ServerPlayback()
    # the addon manager logs and swallows exceptions of the configure hook: make a failing re-index observable
    orig = _sp.recompute_hashes

    def recompute_hashes():
        try:
            orig()
        except Exception as e:
            _hook_errors.append(type(e).__name__)
            raise
    _sp.recompute_hashes = recompute_hashes
    _tctx = taddons.context(_sp)


def make_request(spec):
    return http.Request(
        host=spec["host"], port=spec["port"], method=spec["method"].encode(), scheme=spec["scheme"].encode(),
        authority=b"", path=spec["path"].encode("utf-8"), http_version=b"HTTP/1.1",
        headers=http.Headers([(k.encode("utf-8"), v.encode("utf-8")) for k, v in spec["headers"]]),
        content=None if spec["content"] is None else unhx(spec["content"]),
        trailers=None, timestamp_start=0.0, timestamp_end=0.0)


def make_flow(fs):
    if fs.get("other"):
        return tflow.ttcpflow()
    f = tflow.tflow(req=make_request(fs["req"]), resp=bool(fs["resp"]))
    f._c52_id = fs["id"]
    if fs["resp"]:
        f.response.content = b"rec-%d" % fs["id"]
    return f


def _s(x: str) -> str:
    return hx(x.encode("utf-8", "surrogateescape"))


def extract(r):
    """the values _hash reads from a request, through the same library accessors"""
    _, _, path, _, query, _ = urllib.parse.urlparse(r.url)
    qs = urllib.parse.parse_qsl(query, keep_blank_values=True)
    raised = {}
    try:
        mp = list(r.multipart_form.items(multi=True))
    except Exception as e:   # documented: malformed multipart = no form fields
        mp, raised["mp"] = [], type(e).__name__
    try:
        ue = list(r.urlencoded_form.items(multi=True))
    except Exception as e:
        ue, raised["ue"] = [], type(e).__name__
    undecodable = False
    try:
        r.content
    except ValueError:
        undecodable = True
    return {
        "raised": raised,
        "bad_mp_encoding": undecodable and "multipart/form-data" in r.headers.get("content-type", "").lower(),
        "scheme": _s(str(r.scheme)), "method": _s(str(r.method)), "path": _s(str(path)),
        "query": [[_s(k), _s(v)] for k, v in qs],
        "host": _s(r.pretty_host), "port": r.port, "content": _s(str(r.raw_content)),
        "mp": [[_s(k.decode(errors="replace")), hx(k), hx(v)] for k, v in mp],
        "ue": [[_s(k), _s(v)] for k, v in ue],
        "headers": [[hx(k), hx(v)] for k, v in r.headers.fields],
    }


def _reset(opts):
    _sp.flowmap = {}
    _tctx.options.update(**{**DEFAULTS, **opts})
    _sp.flowmap = {}


def _snapshot():
    return [[f._c52_id for f in lst] for lst in _sp.flowmap.values()]


def run_impl(case):
    if case["k"] == "hash":
        _reset(case["opts"])
        f = tflow.tflow(req=make_request(case["req"]))
        saved = serverplayback.hashlib
        serverplayback.hashlib = _IdentitySha
        try:
            text = _sp._hash(f)
        except Exception as e:
            return {"fields": extract(f.request), "key": None, "raised": type(e).__name__}
        finally:
            serverplayback.hashlib = saved
        keylist = ast.literal_eval(text.decode("utf8", "surrogateescape"))
        return {"fields": extract(f.request), "key": _jkey(keylist)}
    _reset(case["opts"])
    fields, steps = [], []
    for op in case["ops"]:
        out, is_replay = None, False
        try:
            if op["op"] in ("load", "add"):
                flows = [make_flow(fs) for fs in op["flows"]]
                fields.append([None if fs.get("other") else extract(f.request) for fs, f in zip(op["flows"], flows)])
                (_sp.load_flows if op["op"] == "load" else _sp.add_flows)(flows)
            elif op["op"] == "clear":
                fields.append(None)
                _sp.clear()
            elif op["op"] == "conf":
                fields.append(None)
                del _hook_errors[:]
                _tctx.options.update(**op["upd"])
                if _hook_errors:
                    out = ["exception", _hook_errors[0]]
            else:
                f = tflow.tflow(req=make_request(op["req"]))
                fields.append(extract(f.request))
                try:
                    _sp.request(f)
                    if f.error is not None:
                        out = ["killed"] if f.error.msg == f.error.KILLED_MESSAGE and f.response is None else ["other-error"]
                    elif f.response is None:
                        out = ["forward"]
                    elif f.response.content.startswith(b"rec-"):
                        out = ["served", int(f.response.content[4:])]
                    else:
                        out = ["status", f.response.status_code, hx(f.response.content)]
                    is_replay = f.is_replay == "response"
                    if f.is_replay not in (None, "response"):
                        out = ["other-is-replay"]
                except IndexError:
                    out = ["raised"]
        except Exception as e:  # anything undocumented becomes its own observable
            out = ["exception", type(e).__name__]
        steps.append({"out": out, "is_replay": is_replay, "count": _sp.count(), "map": _snapshot()})
    return {"fields": fields, "steps": steps}


def _jkey(keylist):
    out = []
    for e in keylist:
        if isinstance(e, str):
            out.append(["s", _s(e)])
        elif isinstance(e, int):
            out.append(["i", e])
        elif isinstance(e, tuple) and isinstance(e[0], bytes):
            out.append(["b", hx(e[0]), hx(e[1])])
        elif isinstance(e, tuple):
            out.append(["p", _s(e[0]), _s(e[1])])
        elif isinstance(e, list):
            out.append(["h", [[_s(k), None if v is None else _s(v)] for k, v in e]])
        else:
            out.append(["?", repr(e)])
    return out


# ------------------------------------------------------------------ Coq printers

def _b(h):
    return cbytes(unhx(h))


def _pairs(l):
    return clist((cpair(_b(k), _b(v)) for k, v in l), "(bytes * bytes)%type")


def c_request(fl):
    mp = clist((f"({_b(d)}, {_b(k)}, {_b(v)})" for d, k, v in fl["mp"]), "(bytes * bytes * bytes)%type")
    return (f"(Build_request {_b(fl['scheme'])} {_b(fl['method'])} {_b(fl['path'])} {_pairs(fl['query'])} "
            f"{_b(fl['host'])} {cN(fl['port'])} {_b(fl['content'])} {mp} {_pairs(fl['ue'])} {_pairs(fl['headers'])})")


def _strs(l):
    return clist((cbytes(s.encode("utf-8")) for s in l), "bytes")


def c_extra(e):
    return {"forward": "EForward", "kill": "EKill"}.get(e) or f"(ECode {cN(int(e))})"


def c_options(o):
    o = {**DEFAULTS, **o}
    g = lambda k: o["server_replay_" + k]
    return (f"(Build_options {cbool(g('ignore_content'))} {cbool(g('ignore_host'))} {cbool(g('ignore_port'))} "
            f"{_strs(g('ignore_params'))} {_strs(g('ignore_payload_params'))} {_strs(g('use_headers'))} "
            f"{cbool(g('reuse'))} {cbool(g('nopop'))} {cbool(g('kill_extra'))} {c_extra(g('extra'))})")


_SETTERS = {"server_replay_ignore_content": ("SetIgnoreContent", cbool), "server_replay_ignore_host": ("SetIgnoreHost", cbool),
            "server_replay_ignore_port": ("SetIgnorePort", cbool), "server_replay_ignore_params": ("SetIgnoreParams", _strs),
            "server_replay_ignore_payload_params": ("SetIgnorePayloadParams", _strs),
            "server_replay_use_headers": ("SetUseHeaders", _strs), "server_replay_reuse": ("SetReuse", cbool),
            "server_replay_nopop": ("SetNopop", cbool), "server_replay_kill_extra": ("SetKillExtra", cbool),
            "server_replay_extra": ("SetExtra", c_extra)}


def c_flows(flows, fields):
    items = []
    for fs, fl in zip(flows, fields):
        if fs.get("other"):
            items.append("FOther")
        else:
            items.append(f"(FHttp (Build_recording {cN(fs['id'])} {c_request(fl)} {cbool(fs['resp'])}))")
    return clist(items, "flow")


def c_out(out):
    if out is None:
        return "(@None oobs)"
    tag = out[0]
    if tag == "served":
        return f"(Some (OServed {cN(out[1])}))"
    if tag == "status" and out[2] == "":
        return f"(Some (OStatus {cN(out[1])}))"
    return {"killed": "(Some OKilled)", "forward": "(Some OForward)", "raised": "(Some ORaised)"}.get(tag)


def _known_encoding_raise(case, obs):
    """Known finding hash-raises-encoding: index of the first step at which _hash raised ValueError while a request
    with a multipart content type and an undecodable Content-Encoding was in play (Request.multipart_form evaluates
    self.content outside its try block). The model does not cover what happens from there on. None otherwise."""
    if case["k"] == "hash":
        return 0 if obs.get("raised") == "ValueError" and obs["fields"]["bad_mp_encoding"] else None
    seen = False
    for i, (fl, st) in enumerate(zip(obs["fields"], obs["steps"])):
        for x in (fl if isinstance(fl, list) else [fl]):
            seen = seen or bool(x and x["bad_mp_encoding"])
        if st["out"] == ["exception", "ValueError"] and seen:
            return i
    return None


def coq_case(case, obs):
    if _known_encoding_raise(case, obs) is not None:
        return None
    if case["k"] == "hash" and obs["key"] is None:
        return f"HashC {c_options(case['opts'])} {c_request(obs['fields'])} [KInt 4294967295%N; KInt 4294967295%N]"
    if case["k"] == "hash":
        ks = []
        for e in obs["key"]:
            t = e[0]
            if t == "s":
                ks.append(f"KStr {_b(e[1])}")
            elif t == "i":
                ks.append(f"KInt {cN(e[1])}")
            elif t == "b":
                ks.append(f"KBPair {_b(e[1])} {_b(e[2])}")
            elif t == "p":
                ks.append(f"KSPair {_b(e[1])} {_b(e[2])}")
            elif t == "h":
                hl = clist((cpair(_b(k), copt(v, _b, "bytes")) for k, v in e[1]), "(bytes * option bytes)%type")
                ks.append(f"KHeaders {hl}")
            else:
                raise ValueError("unexpected key element " + repr(e))
        return f"HashC {c_options(case['opts'])} {c_request(obs['fields'])} {clist(ks, 'kc')}"
    ops = []
    for op, fl in zip(case["ops"], obs["fields"]):
        if op["op"] == "load":
            ops.append(f"OLoad {c_flows(op['flows'], fl)}")
        elif op["op"] == "add":
            ops.append(f"OAdd {c_flows(op['flows'], fl)}")
        elif op["op"] == "clear":
            ops.append("OClear")
        elif op["op"] == "conf":
            sets = [f"{_SETTERS[k][0]} {_SETTERS[k][1](v)}" for k, v in op["upd"].items()]
            ops.append(f"OConfigure {clist(sets, 'optset')}")
        else:
            ops.append(f"ORequest {c_request(fl)}")
    steps = []
    for st in obs["steps"]:
        o = c_out(st["out"])
        if o is None:
            # an observation the model has no value for: print something that cannot match
            o = "(Some ORaised)" if st["out"][0] != "raised" else o
            steps.append(f"(Build_sobs {o} true 4294967295%N nil)")
            continue
        steps.append(f"(Build_sobs {o} {cbool(st['is_replay'])} {cN(st['count'])} "
                     f"{clist((clist((cN(i) for i in b), 'N') for b in st['map']), '(list N)')})")
    return f"Hist {c_options(case['opts'])} {clist(ops, 'op')} {clist(steps, 'sobs')}"


# ------------------------------------------------------------------ oracle (the property on the implementation)

def ref_key(o, fl):
    """The matching key of the property statement, written field by field (independent of _hash's list layout)."""
    if o["server_replay_ignore_content"]:
        body = None
    elif o["server_replay_ignore_payload_params"] and fl["mp"]:
        ign = [hx(p.encode()) for p in o["server_replay_ignore_payload_params"]]
        body = ("fields", tuple(("b", k, v) for d, k, v in fl["mp"] if d not in ign))
    elif o["server_replay_ignore_payload_params"] and fl["ue"]:
        ign = [hx(p.encode()) for p in o["server_replay_ignore_payload_params"]]
        body = ("fields", tuple(("s", k, v) for k, v in fl["ue"] if k not in ign))
    else:
        body = ("raw", fl["content"])
    ignq = [hx(p.encode()) for p in o["server_replay_ignore_params"]]
    hdrs = []
    for name in o["server_replay_use_headers"]:
        vals = [unhx(v) for k, v in fl["headers"] if unhx(k).lower() == name.encode().lower()]
        hdrs.append((name, b", ".join(vals) if vals else None))
    return (fl["method"], fl["scheme"], fl["path"], tuple((k, v) for k, v in fl["query"] if k not in ignq),
            None if o["server_replay_ignore_host"] else fl["host"],
            None if o["server_replay_ignore_port"] else fl["port"], body, tuple(hdrs))


def _acc_raised(fl):
    return [x["raised"] for x in (fl if isinstance(fl, list) else [fl]) if x and x["raised"]]


def oracle(case, obs):
    known_at = _known_encoding_raise(case, obs)
    if case["k"] != "hist":
        if obs.get("raised"):
            return [{"key": "hash-raises-encoding" if known_at is not None else "exception",
                     "what": f"_hash raised {obs['raised']} (accessors: {obs['fields']['raised']})"}]
        return []
    v = []
    bad = lambda key, what: v.append({"key": key, "what": what})
    o = {**DEFAULTS, **case["opts"]}
    recs = {}            # id -> (fields, has_resp)
    prev = []            # bucket structure before the step
    tainted = set()      # ids that were pending when a re-index started from an out-of-order flowmap
    for i, (op, fl, st) in enumerate(zip(case["ops"], obs["fields"], obs["steps"])):
        cur = st["map"]
        flat_prev = [x for b in prev for x in b]
        flat_cur = [x for b in cur for x in b]
        out = st["out"]
        if known_at == i:
            bad("hash-raises-encoding", f"step {i}: _hash raised ValueError for a multipart request with undecodable Content-Encoding")
            return v
        if out and out[0] in ("exception", "other-error", "other-is-replay", "raised"):
            bad("exception", f"step {i}: {out} ({op['op']}; accessor exceptions {_acc_raised(fl)})")
        if st["count"] != len(flat_cur):
            bad("count", f"step {i}: count() = {st['count']} but flowmap holds {len(flat_cur)}")
        if op["op"] in ("load", "add"):
            new = []
            for fs, x in zip(op["flows"], fl):
                if not fs.get("other"):
                    recs[fs["id"]] = (x, fs["resp"])
                    new.append(fs["id"])
            want = sorted((flat_prev if op["op"] == "add" else []) + new)
            if sorted(flat_cur) != want:
                bad("load-lost-dup", f"step {i}: after {op['op']} pending ids {sorted(flat_cur)} != {want}")
        elif op["op"] == "clear":
            if flat_cur:
                bad("clear", f"step {i}: flowmap not empty after clear")
        elif op["op"] == "conf":
            touched = any(k in HASH_OPTS for k in op["upd"])
            if touched and flat_prev != sorted(flat_prev):
                tainted |= set(flat_prev)
            o = {**o, **op["upd"]}
            if sorted(flat_cur) != sorted(flat_prev):
                bad("reindex-lost-dup", f"step {i}: option change turned pending ids {sorted(flat_prev)} into {sorted(flat_cur)}")
        else:
            reuse = o["server_replay_reuse"] or o["server_replay_nopop"]
            want_key = ref_key(o, fl)
            cands = [x for x in flat_prev if ref_key(o, recs[x][0]) == want_key]
            live = [x for x in cands if recs[x][1]]
            if (out[0] in ("served", "status")) != st["is_replay"]:
                bad("is-replay", f"step {i}: outcome {out} with is_replay={st['is_replay']}")
            if out[0] == "served":
                sid = out[1]
                if sid not in flat_prev:
                    bad("served-not-pending", f"step {i}: served recording {sid} which was not pending {flat_prev}")
                elif sid not in cands:
                    bad("served-mismatch", f"step {i}: served recording {sid} whose matching key differs from the request's")
                elif not recs[sid][1]:
                    bad("served-no-response", f"step {i}: served recording {sid} which has no response")
                elif sid != min(live):
                    bad("reindex-order" if sid in tainted and min(live) in tainted else "order",
                        f"step {i}: served recording {sid} although earlier recording {min(live)} with the same key was pending")
            elif live:
                bad("should-serve", f"step {i}: outcome {out} although recordings {live} match and are pending")
            else:
                if not flat_prev:
                    want = ["forward"]
                elif o["server_replay_kill_extra"] or o["server_replay_extra"] == "kill":
                    want = ["killed"]
                elif o["server_replay_extra"] != "forward":
                    want = ["status", int(o["server_replay_extra"]), ""]
                else:
                    want = ["forward"]
                if out != want:
                    bad("unmatched-action", f"step {i}: unmatched request got {out}, configured {want}")
            # what may leave the pending set
            gone = sorted(flat_prev)
            for x in flat_cur:
                if x in gone:
                    gone.remove(x)
                else:
                    bad("request-dup", f"step {i}: recording {x} appeared in flowmap during a request")
            if reuse:
                if cur != prev:
                    bad("reuse-mutates", f"step {i}: flowmap changed during a request with reuse on")
            else:
                allowed = ([out[1]] if out[0] == "served" else [])
                for x in gone:
                    if x in allowed:
                        allowed.remove(x)
                    elif x in cands and not recs[x][1]:
                        pass  # a recording without response was skipped
                    else:
                        bad("request-lost", f"step {i}: recording {x} left flowmap without being served")
                if allowed:
                    bad("served-twice", f"step {i}: served recording {allowed[0]} stays pending without reuse")
        # index invariant: one bucket per matching key, every bucket homogeneous under the current options
        seen = {}
        for b in cur:
            ks = {ref_key(o, recs[x][0]) for x in b}
            if len(ks) != 1:
                bad("index-stale", f"step {i}: bucket {b} mixes matching keys (or is empty) under the current options")
                break
            k = next(iter(ks))
            if k in seen:
                bad("index-stale", f"step {i}: buckets {seen[k]} and {b} have the same matching key")
                break
            seen[k] = b
        prev = cur
    return v


def nontrivial(case, obs):
    if case["k"] == "hash":
        return obs["key"] is not None and len(obs["key"]) > 3
    return any(st["out"] and st["out"][0] == "served" for st in obs["steps"])


def _malformed_mp(x):
    ct = b" ".join(unhx(v) for k, v in x["headers"] if unhx(k).lower() == b"content-type").lower()
    return b"multipart/form-data" in ct and not x["mp"] and x["content"] not in (_s("None"), _s("b''"))


def classify(case, obs):
    if case["k"] == "hash":
        tags = ["hash"]
        if obs["key"] is None:
            return tags + ["hash-raised"]
        if _malformed_mp(obs["fields"]):
            tags.append("hash-malformed-multipart")
        kinds = {e[0] for e in obs["key"]}
        tags += ["hash-" + {"b": "multipart", "p": "urlencoded", "h": "headers", "i": "port"}[t] for t in kinds if t in "bphi"]
        return tags
    tags = ["hist"]
    seen = set()
    allf = [x for fl in obs["fields"] for x in (fl if isinstance(fl, list) else [fl]) if x]
    ipp = bool(case["opts"].get("server_replay_ignore_payload_params")) or any(
        op["op"] == "conf" and op["upd"].get("server_replay_ignore_payload_params") for op in case["ops"])
    if any(_malformed_mp(x) for x in allf):
        seen.add("malformed-multipart" + ("-with-payload-params" if ipp else ""))
    if any(x["bad_mp_encoding"] for x in allf):
        seen.add("multipart-undecodable-encoding")
    if _known_encoding_raise(case, obs) is not None:
        seen.add("known-hash-raises-encoding")
    o = {**DEFAULTS, **case["opts"]}
    prev = []
    for op, st in zip(case["ops"], obs["steps"]):
        if op["op"] == "conf":
            if any(k in HASH_OPTS for k in op["upd"]) and len(prev) >= 2:
                seen.add("reindex-multi-bucket")
            o = {**o, **op["upd"]}
        elif op["op"] == "req":
            reuse = o["server_replay_reuse"] or o["server_replay_nopop"]
            seen.add("out-" + st["out"][0] + ("-reuse" if reuse and st["out"][0] == "served" else ""))
            if not reuse and sum(map(len, prev)) - st["count"] >= 2:
                seen.add("skipped-no-response")
            if not reuse and sum(map(len, prev)) - st["count"] >= 1 and st["out"][0] != "served":
                seen.add("bucket-exhausted")
        else:
            seen.add("op-" + op["op"])
        if any(len(b) >= 2 for b in st["map"]):
            seen.add("bucket>=2")
        prev = st["map"]
    return tags + sorted(seen)
