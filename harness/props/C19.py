"""C19 — Ignored hosts are passed through untouched and allow/ignore rules are honoured
(mitmproxy/addons/next_layer.py, proxy/layer.py NextLayer, proxy/layers/tcp.py, proxy/layers/tls.py)."""
import re as _re

from lib.coqterm import cbytes, cbool, cN, clist, copt, hx, unhx

ID = "C19"
QUICK_N = 2000
THOROUGH_N = 16000
SHARD = 200
RULE = ("35% hdr: byte strings for NextLayer._get_host_header built from an HTTP token dictionary (request lines, Host field "
        "lines with every OWS/case/obs-fold variant, empty values, bare CR/LF, VT/FF, non-ASCII) incl. truncations and random "
        "mutations; 5% port: strings for the :digits$ test (ASCII and Unicode decimal digits, invalid UTF-8, trailing LF); "
        "3% dec cases around the :digits$ boundary of the Host value with a pattern anchored on one of the two candidate names; 22% dec: _ignore_connection on (peername, address, client SNI, WireGuard flag) x ignore/allow pattern sets x first "
        "flight (HTTP head with Host variants, TLS ClientHello with SNI in 1-3 records, prefixes of both, garbage, server "
        "greeting); 25% run: TransparentProxy / ReverseProxy / Socks5Proxy + real NextLayer + real addon + real "
        "TCPLayer under lib.sansio with eager/lazy connect, segmented first flight, interleaved server data, closes and "
        "deferred connect results; 8% tun + a fixed grid (oracle only): regular-mode CONNECT to an ignored host through the real HttpProxy + addon + "
        "HttpLayer + TCPLayer(ignore) with the client stream (CONNECT head + first tunnel bytes) cut at a grid of points around the end of "
        "the head (thorough: every point) and the pieces delivered before / between / after the deferred completions of the http_connect hook, "
        "the upstream connect and the http_connected hook, eager and lazy; 9% e2e (oracle only): regular-mode CONNECT tunnel and ClientTLSLayer "
        "tls_clienthello.ignore_connection. Non-trivial = a Host line / ClientHello / pattern set is present and a decision "
        "or a relay happened; distinct by canonical JSON.")
TRUSTED = ["Coq 8.16.1 kernel (coqc), vm_compute for case evaluation",
           "harness/props/C19.py (generator, sans-io driving via harness/lib/sansio.py, Corr/C19.v glue)",
           "hand model of CPython re semantics for the two fixed byte patterns, of bytes.decode(utf-8, surrogateescape) and of "
           "\\d on str (Unicode 15.0 Nd table); tied by correspondence only",
           "re.search(user_pattern, host, re.IGNORECASE) is a Section variable of the proofs; correspondence instantiates it for "
           "escaped literals, literal+$, .+ and a never-matching pattern",
           "Model/ClientHello.v (C13) for parse_client_hello and ClientHello.sni"]
ASSUMPTIONS = ["TCP client transport (UDP/QUIC/DTLS branch of _get_client_hello not modelled)",
               "the next_layer hook is answered before the next event is delivered (pausing while a hook is outstanding is C04)",
               "connection state bookkeeping as done by proxy/server.py is played by harness/lib/sansio.py",
               "no other addon sets nextlayer.layer; show_ignored_hosts is off (with it the chosen layer is C29's TCPLayer with a flow)",
               "generated host strings avoid U+0130, U+0131, U+017F, U+212A (Unicode case folding of i, s, k) so that literal "
               "patterns can be evaluated by the glue"]
ALLOWED_AXIOMS = []
COQ_PRELUDE = "From MV Require Import Model.IgnoreHosts.\n"

# ------------------------------------------------------------------ generator
HOSTS = [b"example.com", b"EXAMPLE.com", b"binary.example.org", b"192.0.2.1", b"a.b", b"x", b"example.com:8080",
         b"example.com:", b"example.com:80a", b"[::1]:443", b"ex\xc3\xa4mple.com", b"example.com:\xd9\xa3\xd9\xa4", b"\xff.com",
         b"example.com:\xef\xbc\x98", b"a b", b"evil.com"]
REQ_LINES = [b"GET / HTTP/1.1", b"get / http/1.0", b"POST /x HTTP/1.1", b"CONNECT example.com:443 HTTP/1.1", b"GE / HTTP/1.1",
             b"GET /HTTP/1.1", b"GET HTTP/", b"GETHTTP/", b"G3T / HTTP/1.1", b"GET /\x0b HTTP/1.1", b"OPTIONS * HTTP/1.1",
             b"GET / HTTP", b"GET /\r HTTP/1.1", b"M-SEARCH * HTTP/1.1", b"GET http://example.com/ HTTP/1.1"]
OWS = [b"", b" ", b"\t", b"  ", b" \t", b"\x0b", b"\x0c", b"\r", b"\n", b"\r\n ", b" \r\n\t"]
NAMES = [b"Host", b"host", b"HOST", b"hOsT", b"X-Host", b"Hos", b"Hostx", b"Host ", b"Accept", b"Content-Length"]
HDR_TOKENS = [b"\r\n", b"\r\n\r\n", b"\r", b"\n", b"Host:", b"host:", b"Host: ", b" ", b"\t", b"example.com", b"evil.com", b":",
              b"8080", b"GET / HTTP/1.1", b"HTTP/", b"GET", b"\x0b", b"\x0c", b"X: y", b"\xff", b"a", b"\r\nHost:\r\n", b"\r\n\r"]
LITS = ["example.com", "example", ".com", "192.0.2.1", "evil.com", "binary.example.org", ":443", "example.com:443", ":80",
        "existing-sni.example", "sni.example", "a.b", "x", "10.0.0.53", "example.org", "80a:443", "::443", "::80", "com:80", "8080:"]


def _field(rng, name=None, value=None):
    name = name if name is not None else rng.choice(NAMES)
    value = value if value is not None else rng.choice(HOSTS + [b"", b"y", b"close"])
    return name + b":" + rng.choice(OWS) + value + rng.choice(OWS[:6])


def _http_head(rng, wellformed=False):
    """-> (bytes, reference host value or None) ; reference only meaningful when wellformed"""
    if wellformed:
        line = rng.choice([b"GET / HTTP/1.1", b"POST /x HTTP/1.1", b"get / http/1.0", b"OPTIONS * HTTP/1.1",
                           b"CONNECT example.com:443 HTTP/1.1", b"GET http://example.com/ HTTP/1.1"])
        fields, ref = [], None
        nbefore = rng.randint(0, 2)
        for _ in range(nbefore):
            fields.append(rng.choice([b"Accept", b"X-Host", b"Hos", b"Hostx", b"Content-Length"]) + b":" + rng.choice([b"", b" ", b"\t"])
                          + rng.choice([b"y", b"*/*", b"3", b"example.com"]) + rng.choice([b"", b" "]))
        if rng.chance(0.85):
            ref = rng.choice([h for h in HOSTS if b" " not in h])
            fields.append(rng.choice(NAMES[:4]) + b":" + rng.choice([b"", b"", b" ", b"\t", b"  ", b" \t"]) + ref + rng.choice([b"", b" ", b"\t "]))
        for _ in range(rng.randint(0, 1)):
            fields.append(b"Accept: */*")
        head = line + b"\r\n" + b"".join(f + b"\r\n" for f in fields) + b"\r\n"
        return head, ref
    line = rng.choice(REQ_LINES)
    fields = [_field(rng) for _ in range(rng.randint(0, 3))]
    sep = b"\r\n" if rng.chance(0.9) else rng.choice([b"\n", b"\r", b"\r\n\r\n"])
    head = line + sep + b"".join(f + sep for f in fields) + (sep if rng.chance(0.8) else b"")
    return head, None


def _u16(n):
    return n.to_bytes(2, "big")


def client_hello(sni, rng=None, nrec=1, junk_ext=False):
    exts = b""
    if junk_ext:
        exts += _u16(0x0a0a) + _u16(0)
    if sni is not None:
        sn = b"\x00" + _u16(len(sni)) + sni
        lst = _u16(len(sn)) + sn
        exts += _u16(0) + _u16(len(lst)) + lst
    exts += _u16(0x10) + _u16(5) + _u16(3) + b"\x02h2"
    rnd = bytes(range(32))
    body = b"\x03\x03" + rnd + b"\x00" + _u16(4) + b"\x13\x01\x13\x02" + b"\x01\x00" + _u16(len(exts)) + exts
    hs = b"\x01" + len(body).to_bytes(3, "big") + body
    if nrec <= 1:
        parts = [hs]
    else:
        cuts = sorted(set(rng.randint(1, len(hs) - 1) for _ in range(nrec - 1)))
        parts = [hs[a:b] for a, b in zip([0] + cuts, cuts + [len(hs)])]
    return b"".join(b"\x16\x03\x01" + _u16(len(p)) + p for p in parts)


def _pats(rng, kind):
    """-> list of pattern dicts"""
    n = rng.choice([1, 1, 1, 2, 3]) if kind else 0
    out = []
    for _ in range(n):
        r = rng.random()
        if r < 0.65:
            out.append({"t": "lit", "s": rng.choice(LITS)})
        elif r < 0.85:
            out.append({"t": "suf", "s": rng.choice(LITS)})
        elif r < 0.93:
            out.append({"t": "all"})
        else:
            out.append({"t": "none"})
    return out


def _cfg(rng):
    r = rng.random()
    ign = _pats(rng, r < 0.6 or r > 0.9)
    alw = _pats(rng, 0.5 < r < 0.95)
    host = rng.choice(["example.com", "192.0.2.1", "evil.com", "binary.example.org", "10.0.0.53", "exämple.com", "2001:db8::1"])
    port = rng.choice([443, 80, 53, 8080, 0, 65535])
    return {"ignore": ign, "allow": alw,
            "wg": rng.chance(0.12),
            "peer": [rng.choice(["192.0.2.1", "2001:db8::1", "10.0.0.53"]), port] if rng.chance(0.5) else None,
            "addr": [host, port] if rng.chance(0.9) else None,
            "csni": rng.choice(["existing-sni.example", "", "example.com"]) if rng.chance(0.3) else None}


def _first_flight(rng):
    """-> (bytes, tag)"""
    r = rng.random()
    if r < 0.40:
        d, _ = _http_head(rng, wellformed=True)
        if rng.chance(0.3):
            d += rng.choice([b"body", b"evil.com\r\n", b"GET / HTTP/1.1\r\nHost: evil.com\r\n\r\n"])
        return d, "http"
    if r < 0.50:
        return _http_head(rng)[0], "http-odd"
    if r < 0.85:
        sni = rng.choice([b"example.com", b"sni.example", b"evil.com", b"EXAMPLE.com", None, b"192.0.2.1", b"bad host", b""])
        d = client_hello(sni, rng, nrec=rng.choice([1, 1, 2, 3]), junk_ext=rng.chance(0.3))
        if rng.chance(0.2):
            d += b"\x17\x03\x03\x00\x01x"
        return d, "tls"
    if r < 0.92:
        return rng.choice([b"SSH-2.0-x\r\n", b"\x16\x03", b"\x16\x03\x01\x00", b"\x16\x03\x01\x00\x05\x02\x00\x00\x01\x00",
                           b"AAAAAAAAAAAAAAAAAAAAAA==\n", b"\x00\x01", b"GET", b"G"]), "other"
    return rng.bytes(rng.randint(1, 20)), "random"


def _segment(rng, data, maxseg=4):
    if not data:
        return []
    k = rng.randint(1, maxseg)
    cuts = sorted(set(rng.randint(1, max(1, len(data) - 1)) for _ in range(k - 1))) if len(data) > 1 else []
    if rng.chance(0.3) and len(data) > 6:
        cuts = sorted(set(cuts + [rng.choice([1, 2, 3, 4, 5])]))
    return [data[a:b] for a, b in zip([0] + cuts, cuts + [len(data)]) if a < b]


TUN_OK = b"HTTP/1.1 200 Connection established\r\n\r\n"


def _tun_case(host, ign, payload, sched, eager):
    return {"k": "tun", "host": host, "ignore": ign, "payload": hx(payload), "sched": sched, "eager": eager}


def _tun_head(host):
    return f"CONNECT {host}:443 HTTP/1.1\r\nHost: {host}:443\r\n\r\n".encode()


def _tun_grid(tier):
    """explicit-proxy CONNECT to an ignored host: the client stream (CONNECT head + first tunnel bytes) cut in two at a
    grid of points (thorough: every point), the second piece delivered before / between / after the completions of the
    pending http_connect hook, upstream connect and http_connected hook (x = complete the oldest pending one)"""
    out = []
    host, ign = "example.com", [{"t": "lit", "s": "example.com"}]
    head = _tun_head(host)
    payload = client_hello(b"example.com")
    stream = head + payload
    if tier == "thorough":
        cuts = list(range(1, len(stream)))
    else:
        cuts = sorted(set([1, 7, len(head) - 4, len(head) - 2, len(head) - 1, len(head), len(head) + 1, len(head) + 2, len(head) + 3,
                           len(head) + 5, len(head) + 40, len(stream) - 1]))
    for cut in cuts:
        a, b = stream[:cut], stream[cut:]
        for pos in range(4):
            sched = [["d", hx(a)]] + [["x"]] * pos + [["d", hx(b)]] + [["x"]] * (3 - pos)
            for eager in (True, False):
                out.append(_tun_case(host, ign, payload, sched, eager))
    return out


def _tun_random(rng):
    q = rng.random()
    if q < 0.70:
        host, ign, sni = "example.com", [{"t": "lit", "s": "example.com"}], b"example.com"
    elif q < 0.85:
        host, ign, sni = "192.0.2.1", [{"t": "lit", "s": "sni.example"}], b"sni.example"
    else:
        host, ign, sni = "evil.com", [{"t": "lit", "s": "example.com"}], b"evil.com"
    payload = rng.choice([client_hello(sni, rng, nrec=rng.choice([1, 2])), client_hello(sni, rng) + b"\x17\x03\x03\x00\x02ab",
                          b"GET / HTTP/1.1\r\nHost: " + sni + b"\r\n\r\n", b"SSH-2.0-x\r\n", b"\x00", b"PRI * HTTP/2.0\r\n\r\nSM\r\n\r\n"])
    head = _tun_head(host)
    stream = head + payload
    # always one cut close to the end of the head, the rest anywhere
    cuts = set([min(len(stream) - 1, max(1, len(head) + rng.randint(-3, 6)))])
    for _ in range(rng.randint(0, 3)):
        cuts.add(rng.randint(1, len(stream) - 1))
    cuts = sorted(cuts)
    segs = [stream[a:b] for a, b in zip([0] + cuts, cuts + [len(stream)])]
    sched = [["d", hx(x)] for x in segs]
    for _ in range(rng.randint(0, 4)):
        sched.insert(rng.randint(1, len(sched)), ["x"])
    if rng.chance(0.3):
        sched.insert(rng.randint(1, len(sched)), ["s", hx(b"\x16\x03\x03\x00\x02hi")])
    return _tun_case(host, ign, payload, sched, rng.chance(0.5))


def gen(rng, n, tier):
    out = _tun_grid(tier)
    for _ in range(n):
        r = rng.random()
        if r < 0.08:
            out.append(_tun_random(rng))
            continue
        if r < 0.35:
            q = rng.random()
            if q < 0.35:
                d, _ = _http_head(rng, wellformed=True)
                d += rng.choice([b"", b"", b"body", b"evil.com\r\n"])
            elif q < 0.65:
                d, _ = _http_head(rng)
            else:
                d = b"".join(rng.choice(HDR_TOKENS) for _ in range(rng.randint(1, 9)))
                if rng.chance(0.6):
                    d = rng.choice([b"GET / HTTP/1.1", b"GET / HTTP/1.1\r\n", b"get /http/"]) + d
            if rng.chance(0.3) and d:
                d = d[:rng.randint(0, len(d))]
            if rng.chance(0.1) and d:
                i = rng.randint(0, len(d) - 1)
                d = d[:i] + rng.bytes(1) + d[i + 1:]
            out.append({"k": "hdr", "dc": hx(d), "ds": hx(b"" if rng.chance(0.93) else b"220 hi\r\n")})
        elif r < 0.40:
            base = rng.choice(HOSTS + [b"h", b""])
            tail = rng.choice([b"", b":", b":1", b":443", b":44a", b":\xd9\xa3", b":\xef\xbc\x98\xef\xbc\x99", b":8\n", b":8\n\n", b"::9",
                               b":\xf0\x9d\x9f\x8e", b":\xed\xa0\x80", b":\xc0\xb1", b":1\xff", b":\xe0\xa5\xa6", b":\xe0\xa5", b":12:", b"\n"])
            out.append({"k": "port", "s": hx(base + tail)})
        elif r < 0.43:
            # Host values around the :digits$ boundary, with a pattern anchored on one of the two candidate names
            hv = rng.choice([b"example.com:", b"example.com:80a", b"[::1]", b"example.com:8080", b"example.com", b"a:b:1", b"h:0"])
            port = rng.choice([443, 80, 8080])
            cand = rng.choice([hv.decode(), f"{hv.decode()}:{port}"])
            pat = {"t": rng.choice(["suf", "suf", "lit"]), "s": cand[-rng.randint(3, len(cand)):].lower()}
            c = {"ignore": [pat] if rng.chance(0.7) else [], "allow": [], "wg": False, "peer": None,
                 "addr": ["192.0.2.1", port], "csni": None}
            if not c["ignore"]:
                c["allow"] = [pat]
            d = b"GET / HTTP/1.1\r\n" + rng.choice([b"Host: ", b"host:", b"HOST:\t"]) + hv + b"\r\n\r\n"
            out.append({"k": "dec", "cfg": c, "dc": hx(d), "ds": "", "tag": "http"})
        elif r < 0.65:
            d, tag = _first_flight(rng)
            if rng.chance(0.35) and d:
                d = d[:rng.randint(0, len(d))]
            out.append({"k": "dec", "cfg": _cfg(rng), "dc": hx(d), "ds": hx(b"" if rng.chance(0.93) else b"220 hi\r\n"), "tag": tag})
        elif r < 0.90:
            c = _cfg(rng)
            c["wg"] = False
            c["csni"] = None
            mode = rng.choice(["transparent", "reverse", "socks5"])
            c["addr"] = [rng.choice(["example.com", "192.0.2.1", "evil.com", "binary.example.org"]), rng.choice([443, 80, 8080])]
            eager = rng.chance(0.5)
            c["peer"] = ["192.0.2.7", c["addr"][1]] if eager else None
            d, tag = _first_flight(rng)
            if rng.chance(0.15) and d:
                d = d[:rng.randint(1, len(d))]
            evs = [["d", True, hx(s)] for s in _segment(rng, d)]
            extra = []
            for _ in range(rng.randint(0, 6)):
                q = rng.random()
                if q < 0.35:
                    extra.append(["d", True, hx(rng.choice([b"more", b"\x17\x03\x03\x00\x02ab", b"x" * 20, b"GET /2 HTTP/1.1\r\n\r\n"]))])
                elif q < 0.65:
                    extra.append(["d", False, hx(rng.choice([b"HTTP/1.1 200 OK\r\n\r\n", b"\x16\x03\x03\x00\x02hi", b"220 hello\r\n", b"y"]))])
                elif q < 0.77:
                    extra.append(["c", True])
                elif q < 0.89:
                    extra.append(["c", False])
                else:
                    extra.append(["o", rng.chance(0.8)])
            # interleave: connect result and server data may come early
            if not eager:
                pos = rng.randint(0, len(evs) + len(extra))
                allv = evs + extra
                allv.insert(pos, ["o", rng.chance(0.85)])
                evs, extra = allv, []
            elif rng.chance(0.3):
                evs.insert(rng.randint(0, len(evs)), ["d", False, hx(b"220 greeting\r\n")])
            out.append({"k": "run", "mode": mode, "eager": eager, "cfg": c, "evs": evs + extra, "tag": tag,
                        "trail": rng.chance(0.5)})
        else:
            sni = rng.choice([b"example.com", b"sni.example", b"evil.com"])
            hello = client_hello(sni, rng, nrec=rng.choice([1, 2]))
            if rng.chance(0.5):
                host = rng.choice(["example.com", "evil.com", "192.0.2.1"])
                ign = [{"t": "lit", "s": rng.choice(["example.com", "sni.example", "192.0.2.1", "evil.com"])}]
                first = rng.choice([hello, b"GET / HTTP/1.1\r\nHost: " + sni + b"\r\n\r\n", b"SSH-2.0-x\r\n"])
                out.append({"k": "e2e", "via": "connect", "host": host, "ignore": ign, "segs": [hx(s) for s in _segment(rng, first)],
                            "after": [hx(b"\x17\x03\x03\x00\x02ab"), hx(b"tail")], "srv": [hx(b"\x16\x03\x03\x00\x02hi"), hx(b"z")]})
            else:
                out.append({"k": "e2e", "via": "tlshook", "segs": [hx(s) for s in _segment(rng, hello + (b"\x17\x03\x03\x00\x01q" if rng.chance(0.4) else b""))],
                            "after": [hx(b"\x17\x03\x03\x00\x02ab"), hx(b"tail")], "srv": [hx(b"\x16\x03\x03\x00\x02hi"), hx(b"z")],
                            "eager": rng.chance(0.5)})
    return out


# ------------------------------------------------------------------ implementation
def setup_impl():
    global mctx, next_layer, NextLayer, NeedsMoreData, Driver, DEFER, make_context, modes, mode_specs, TCPLayer, layer, tls_layer
    global HttpLayer, HTTPMode
    import mitmproxy.ctx as mctx  # noqa
    from mitmproxy.addons import next_layer  # noqa
    from mitmproxy.addons.next_layer import NextLayer, NeedsMoreData  # noqa
    from mitmproxy.proxy import layer, mode_specs  # noqa
    from mitmproxy.proxy.layers import modes, TCPLayer  # noqa
    from mitmproxy.proxy.layers import tls as tls_layer  # noqa
    from mitmproxy.proxy.layers.http import HttpLayer, HTTPMode  # noqa
    from lib.sansio import Driver, DEFER, make_context  # noqa
    global _Sink

    class _Sink(layer.Layer):
        """installed in place of a non-ignore layer once the decision has been observed: intercepting layers need
        addons (tlsconfig, ...) that are not loaded here, and what they do is not part of this property"""
        def _handle_event(self, event):
            yield from ()
    _Sink = _Sink


def _rx(p):
    t = p["t"]
    if t == "lit":
        return _re.escape(p["s"])
    if t == "suf":
        return _re.escape(p["s"]) + "$"
    if t == "all":
        return ".+"
    return "(?!)"


class _ReSpy:
    """stand-in for the re module inside next_layer: records the strings searched with a user pattern"""
    def __init__(self, sentinel):
        self.sentinel, self.seen = sentinel, []

    def __getattr__(self, name):
        return getattr(_re, name)

    def search(self, pattern, string, flags=0):
        if pattern == self.sentinel:
            self.seen.append(string)
        return _re.search(pattern, string, flags)


def _addon(opts, ignore, allow):
    opts.update(ignore_hosts=list(ignore), allow_hosts=list(allow))
    mctx.options = opts
    nl = NextLayer()
    nl.configure({"tcp_hosts", "udp_hosts", "allow_hosts", "ignore_hosts"})
    return nl


def _dec_ctx(c):
    kw = {}
    if c["wg"]:
        kw["proxy_mode"] = mode_specs.ProxyMode.parse("wireguard")
    if c.get("csni") is not None:
        kw["sni"] = c["csni"]
    ctx = make_context(None, kw)
    if c["addr"]:
        ctx.server.address = (c["addr"][0], c["addr"][1])
    if c["peer"]:
        ctx.server.peername = (c["peer"][0], c["peer"][1])
    return ctx


def _call(fn):
    """-> ("ok", value) | ("needs", None) | ("exc", type name)"""
    try:
        return ("ok", fn())
    except NeedsMoreData:
        return ("needs", None)
    except Exception as e:  # noqa
        return ("exc", type(e).__name__)


def _s2h(s):
    return hx(s.encode("utf-8", "surrogateescape"))


def _decide(c, dc, ds):
    ctx = _dec_ctx(c)
    nl = _addon(ctx.options, [_rx(p) for p in c["ignore"]], [_rx(p) for p in c["allow"]])
    k, r = _call(lambda: nl._ignore_connection(ctx, dc, ds))
    return bool(r) if k == "ok" else "needs" if k == "needs" else "exc:" + r


def _probe(c, dc, ds):
    sentinel = "(?!)probe"
    ctx = _dec_ctx(c)
    nl = _addon(ctx.options, [sentinel], [])
    spy = _ReSpy(sentinel)
    next_layer.re = spy
    try:
        k, r = _call(lambda: nl._ignore_connection(ctx, dc, ds))
    finally:
        next_layer.re = _re
    if k == "needs":
        return None
    if k == "exc":
        return "exc:" + r
    return [_s2h(s) for s in spy.seen]


def _run(case):
    c = case["cfg"]
    host, port = c["addr"]
    mode = case["mode"]
    pm = {"transparent": "transparent", "reverse": f"reverse:tcp://{host}:{port}", "socks5": "socks5"}[mode]
    ctx = make_context({"connection_strategy": "eager" if case["eager"] else "lazy"},
                       {"proxy_mode": mode_specs.ProxyMode.parse(pm)})
    nl = _addon(ctx.options, [_rx(p) for p in c["ignore"]], [_rx(p) for p in c["allow"]])
    st = {"nlobj": None, "stop": False, "cut": None, "pre": True}

    def policy(hook, drv):
        if hook.name == "next_layer":
            nl.next_layer(hook.data)
            st["nlobj"] = hook.data
            lay = hook.data.layer
            if lay is not None and not (isinstance(lay, TCPLayer) and lay.flow is None):
                drv.trace.append(("intercept", type(lay).__name__))
                st["stop"], st["cut"], st["other"] = True, len(drv.trace), type(lay).__name__
                hook.data.layer = _Sink(hook.data.context)

    def connect(conn, drv):
        if st["pre"]:
            conn.peername = (c["peer"][0], c["peer"][1]) if c["peer"] else ("192.0.2.7", port)
            return None
        return DEFER

    if mode == "transparent":
        ctx.server.address = (host, port)
        factory = lambda cx: modes.TransparentProxy(cx)  # noqa
    elif mode == "reverse":
        factory = lambda cx: modes.ReverseProxy(cx)  # noqa
    else:
        factory = lambda cx: modes.Socks5Proxy(cx)  # noqa
    d = Driver(factory, ctx=ctx, policy=policy, connect=connect)
    d.start()
    evs = [list(e) for e in case["evs"]]
    eff = []
    if mode == "socks5":
        d.data(0, b"\x05\x01\x00")
        hb = host.encode()
        req = b"\x05\x01\x00\x03" + bytes([len(hb)]) + hb + port.to_bytes(2, "big")
        trail = b""
        if case.get("trail") and evs and evs[0][0] == "d" and evs[0][1]:
            trail = unhx(evs[0][2])
            eff.append(evs.pop(0))
        st["pre"] = True
        # everything the child does on the trailing bytes happens inside this call; the connect for a lazy
        # TCPLayer start must already be deferred, so leave the preamble just before feeding
        if not case["eager"]:
            st["pre"] = False
        d.data(0, req + trail)
        t0 = None
        for i, t in enumerate(d.trace):
            if t[0] == "send" and t[1] == 0 and t[2].startswith("0500"):
                t0 = i + 1
        if t0 is None:
            return {"err": "socks preamble failed", "trace": [list(t) for t in d.trace]}
    else:
        t0 = len(d.trace)
    st["pre"] = False
    client_closed = False
    server_closed = False
    for e in evs:
        if st["stop"] or d.crashed:
            break
        if e[0] == "o":
            opens = [x for x in d.deferred if isinstance(x, d.commands.OpenConnection)]
            if not opens:
                continue
            eff.append(e)
            if e[1]:
                opens[0].connection.peername = ("192.0.2.7", port)
                d.complete(opens[0])
            else:
                d.complete(opens[0], "connection refused")
        elif e[0] == "d":
            if e[1]:
                if client_closed:
                    continue
                eff.append(e)
                d.data(0, unhx(e[2]))
            else:
                if len(d.conns) < 2 or server_closed or not (d.conns[1].state & d.CS.CAN_READ) or d.conns[1].timestamp_start is None:
                    continue
                eff.append(e)
                d.data(1, unhx(e[2]))
        else:
            if e[1]:
                if client_closed:
                    continue
                client_closed = True
                eff.append(e)
                d.close(0)
            else:
                if len(d.conns) < 2 or server_closed or not (d.conns[1].state & d.CS.CAN_READ) or d.conns[1].timestamp_start is None:
                    continue
                server_closed = True
                eff.append(e)
                d.close(1)
    tr = d.trace[t0:st["cut"]] if st["cut"] is not None else d.trace[t0:]
    cmds = []
    for t in tr:
        if t[0] == "hook" and t[1] == "next_layer":
            cmds.append(["ask"])
        elif t[0] == "intercept":
            cmds.append(["intercept", t[1]])
        elif t[0] == "send":
            cmds.append(["send", t[1] != 0, t[2]])
        elif t[0] == "open":
            cmds.append(["open"])
        elif t[0] == "close":
            cmds.append(["half" if t[2] else "close", t[1] != 0])
        else:
            cmds.append(["other", str(t[:2])])
    nlo = st["nlobj"]
    lay = nlo.layer if nlo is not None else None
    if lay is None:
        final = 0
    elif st.get("other"):
        final = 4
    elif isinstance(lay, TCPLayer) and lay.flow is None:
        if lay._paused is not None:
            final = 1
        else:
            final = {"relay_messages": 2, "done": 3}.get(getattr(lay._handle_event, "__name__", ""), 9)
    else:
        final = 4
    return {"eff": eff, "cmds": cmds, "final": final, "crashed": d.crashed, "chosen": type(lay).__name__ if lay is not None else None}


def _e2e(case):
    segs = [unhx(s) for s in case["segs"]]
    after = [unhx(s) for s in case["after"]]
    srv = [unhx(s) for s in case["srv"]]
    if case["via"] == "connect":
        host = case["host"]
        ctx = make_context({"connection_strategy": "lazy"}, {"proxy_mode": mode_specs.ProxyMode.parse("regular")})
        nl = _addon(ctx.options, [_rx(p) for p in case["ignore"]], [])
        chosen = []

        def policy(hook, drv):
            if hook.name == "next_layer":
                nl.next_layer(hook.data)
                lay = hook.data.layer
                if lay is not None:
                    chosen.append(type(lay).__name__ + ("/ignore" if getattr(lay, "flow", 1) is None else ""))
                    if len(chosen) > 1 and not chosen[-1].endswith("/ignore"):
                        hook.data.layer = _Sink(hook.data.context)
        d = Driver(lambda cx: modes.HttpProxy(cx), ctx=ctx, policy=policy)
        d.start()
        d.data(0, f"CONNECT {host}:443 HTTP/1.1\r\nHost: {host}:443\r\n\r\n".encode())
        pre_c = len(d.sent(0))
        for s in segs:
            d.data(0, s)
        for s in after[:1]:
            d.data(0, s)
        if len(d.conns) > 1:
            for s in srv:
                d.data(1, s)
        for s in after[1:]:
            d.data(0, s)
        return {"chosen": chosen, "to_server": hx(d.sent(1)) if len(d.conns) > 1 else "", "to_client": hx(d.sent(0)[pre_c:]),
                "hooks": [h for h in d.hook_names() if h != "next_layer"], "crashed": d.crashed,
                "opened": [t[2] for t in d.trace if t[0] == "open"]}
    # ClientTLSLayer with an addon that sets tls_clienthello.ignore_connection
    ctx = make_context({"connection_strategy": "lazy"}, {"proxy_mode": mode_specs.ProxyMode.parse("transparent")})
    ctx.server.address = ("example.com", 443)
    if case["eager"]:
        ctx.server.state = ctx.server.state.__class__.OPEN
        ctx.server.timestamp_start = 1
    _addon(ctx.options, [], [])
    seen = []

    def policy(hook, drv):
        if hook.name == "tls_clienthello":
            hook.data.ignore_connection = True
            seen.append(1)

    def factory(cx):
        s = tls_layer.ServerTLSLayer(cx)
        s.child_layer = tls_layer.ClientTLSLayer(cx)
        return s
    d = Driver(factory, ctx=ctx, policy=policy)
    if case["eager"]:
        d.conns.append(ctx.server)
    d.start()
    for s in segs:
        d.data(0, s)
    for s in after[:1]:
        d.data(0, s)
    if len(d.conns) > 1:
        for s in srv:
            d.data(1, s)
    for s in after[1:]:
        d.data(0, s)
    return {"chosen": ["TCPLayer/ignore"] if seen else [], "to_server": hx(d.sent(1)) if len(d.conns) > 1 else "",
            "to_client": hx(d.sent(0)), "hooks": [h for h in d.hook_names() if h not in ("next_layer", "tls_clienthello")],
            "crashed": d.crashed, "opened": [t[2] for t in d.trace if t[0] == "open"]}


def _tun(case):
    host = case["host"]
    ctx = make_context({"connection_strategy": "eager" if case["eager"] else "lazy"},
                       {"proxy_mode": mode_specs.ProxyMode.parse("regular")})
    nl = _addon(ctx.options, [_rx(p) for p in case["ignore"]], [])
    chosen = []

    def policy(hook, drv):
        if hook.name == "next_layer":
            nl.next_layer(hook.data)
            lay = hook.data.layer
            if lay is not None:
                chosen.append(type(lay).__name__ + ("/ignore" if getattr(lay, "flow", 1) is None else ""))
                if len(chosen) > 1 and not chosen[-1].endswith("/ignore"):
                    hook.data.layer = _Sink(hook.data.context)
            return None
        return DEFER if hook.blocking else None

    d = Driver(lambda cx: modes.HttpProxy(cx), ctx=ctx, policy=policy, connect=lambda conn, drv: DEFER)
    d.start()
    srv_sent = b""

    def complete_oldest():
        if not d.deferred:
            return False
        c = d.deferred[0]
        if isinstance(c, d.commands.OpenConnection):
            c.connection.peername = ("192.0.2.7", 443)
        d.complete(c)
        return True

    def server_data(b):
        nonlocal srv_sent
        if len(d.conns) > 1 and d.conns[1].timestamp_start is not None and (d.conns[1].state & d.CS.CAN_READ):
            d.data(1, b)
            srv_sent += b
    for e in case["sched"]:
        if d.crashed:
            break
        if e[0] == "d":
            d.data(0, unhx(e[1]))
        elif e[0] == "x":
            complete_oldest()
        else:
            server_data(unhx(e[1]))
    n = 0
    while not d.crashed and complete_oldest() and n < 20:
        n += 1
    tail = b"\x17\x03\x03\x00\x04tail"
    if not d.crashed:
        d.data(0, tail)
        while not d.crashed and complete_oldest() and n < 40:
            n += 1
        server_data(b"\x17\x03\x03\x00\x01z")
    return {"chosen": chosen, "to_server": hx(d.sent(1)) if len(d.conns) > 1 else "", "to_client": hx(d.sent(0)),
            "srv_sent": hx(srv_sent), "tail": hx(tail), "hooks": d.hook_names(), "crashed": d.crashed,
            "pending": len(d.deferred)}


def run_impl(case):
    k = case["k"]
    if k == "tun":
        return _tun(case)
    if k == "hdr":
        ctx = make_context()
        dc, ds = unhx(case["dc"]), unhx(case["ds"])
        kk, r = _call(lambda: NextLayer._get_host_header(ctx, dc, ds))
        if kk == "needs":
            return {"r": "needs"}
        if kk == "exc":
            return {"r": "exc:" + r}
        if r is None:
            return {"r": "none"}
        return {"r": "some", "h": _s2h(r)}
    if k == "port":
        s = unhx(case["s"]).decode("utf-8", "surrogateescape")
        return {"r": bool(_re.search(r":\d+$", s))}
    if k == "dec":
        dc, ds = unhx(case["dc"]), unhx(case["ds"])
        c = case["cfg"]
        obs = {"dec": _decide(c, dc, ds), "names": _probe(c, dc, ds)}
        # segmentation: the decision NextLayer would reach when the same bytes arrive in two pieces
        cuts = {}
        if not ds and obs["dec"] in (True, False):
            for cut in sorted(set([1, 2, 3, 4, 5, 8, len(dc) // 2, len(dc) - 1] + list(case.get("cuts", [])))):
                if 0 < cut < len(dc):
                    r = _decide(c, dc[:cut], b"")
                    cuts[str(cut)] = r
        obs["cuts"] = cuts
        return obs
    if k == "run":
        return _run(case)
    return _e2e(case)


# ------------------------------------------------------------------ Coq terms
def _cpat(p):
    if p["t"] == "lit":
        return f"(PLit {cbytes(p['s'].lower().encode())})"
    if p["t"] == "suf":
        return f"(PSuffix {cbytes(p['s'].lower().encode())})"
    return "PAll" if p["t"] == "all" else "PNone"


def _chp(hp):
    return copt(hp, lambda v: f"({cbytes(v[0].encode('utf-8'))}, {cN(v[1])})", "(bytes * N)")


def _ccfg(c):
    return ("{| ignore_hosts := " + clist([_cpat(p) for p in c["ignore"]], "cpat") + "; allow_hosts := "
            + clist([_cpat(p) for p in c["allow"]], "cpat") + f"; wireguard := {cbool(c['wg'])}; peername := {_chp(c['peer'])}; "
            f"address := {_chp(c['addr'])}; client_sni := " + copt(c.get("csni"), lambda s: cbytes(s.encode()), "bytes") + " |}")


def coq_case(case, obs):
    k = case["k"]
    if k == "hdr":
        r = obs["r"]
        o = "(OHdr HNeeds)" if r == "needs" else "(OHdr HNone)" if r == "none" else f"(OHdr (HSome {cbytes(unhx(obs['h']))}))" if r == "some" else "OHdrOther"
        return f"Hdr {cbytes(unhx(case['dc']))} {cbytes(unhx(case['ds']))} {o}"
    if k == "port":
        return f"Port {cbytes(unhx(case['s']))} {cbool(obs['r'])}"
    if k == "dec":
        names = obs["names"]
        if isinstance(names, str):
            names_t = "(Some [[xff; xff; xff]])"      # other exception: never equal
        else:
            names_t = copt(names, lambda l: clist([cbytes(unhx(h)) for h in l], "bytes"), "(list bytes)")
        d = obs["dec"]
        dt = "ONeeds" if d == "needs" else f"(OIgnore {cbool(d)})" if isinstance(d, bool) else "ODecOther"
        return f"Dec {_ccfg(case['cfg'])} {cbytes(unhx(case['dc']))} {cbytes(unhx(case['ds']))} {names_t} {dt}"
    if k == "run":
        if "err" in obs:
            return None
        evs = []
        for e in obs["eff"]:
            if e[0] == "d":
                evs.append(f"EData {cbool(e[1])} {cbytes(unhx(e[2]))}")
            elif e[0] == "c":
                evs.append(f"EClosed {cbool(e[1])}")
            else:
                evs.append(f"EOpened {cbool(e[1])}")
        cm = []
        for c in obs["cmds"]:
            if c[0] == "ask":
                cm.append("CAsk")
            elif c[0] == "intercept":
                cm.append("CIntercept")
            elif c[0] == "send":
                cm.append(f"CSend {cbool(c[1])} {cbytes(unhx(c[2]))}")
            elif c[0] == "open":
                cm.append("COpen")
            elif c[0] == "close":
                cm.append(f"CClose {cbool(c[1])}")
            elif c[0] == "half":
                cm.append(f"CHalf {cbool(c[1])}")
            else:
                cm.append("CIntercept")      # unknown trace entry: the model never produces this here
        final = obs["final"] if not obs["crashed"] else 99
        return f"Run {_ccfg(case['cfg'])} {cbool(case['eager'])} {clist(evs, 'ev')} {clist(cm, 'cmd')} {cN(final)}"
    return None


# ------------------------------------------------------------------ oracle (implementation only)
_TCHAR = set(b"!#$%&'*+-.^_`|~0123456789abcdefghijklmnopqrstuvwxyzABCDEFGHIJKLMNOPQRSTUVWXYZ")


def ref_host(data: bytes):
    """Independent RFC 9112 reading of the head: ('complete', host value of the first Host field or None, had_ows) or None
    when data does not start with a complete, well-formed request head."""
    end = data.find(b"\r\n\r\n")
    if end < 0:
        return None
    lines = data[:end].split(b"\r\n")
    parts = lines[0].split(b" ")
    if len(parts) != 3 or not parts[0] or any(ch not in _TCHAR for ch in parts[0]) or not parts[1]:
        return None
    if not _re.fullmatch(rb"HTTP/\d\.\d", parts[2], _re.I) or any(ch in b"\r\n\x00" for ch in lines[0]):
        return None
    host = None
    for ln in lines[1:]:
        name, sep, val = ln.partition(b":")
        if not sep or not name or any(ch not in _TCHAR for ch in name) or any(ch in b"\r\n\x00" for ch in val):
            return None
        if name.lower() == b"host" and host is None:
            v = val.strip(b" \t")
            host = (v, val[:1] in (b" ", b"\t"))
    return ("complete", host)


def _hh_family(dc, had_ows):
    m = dc.split(b" ", 1)[0]
    if len(m) < 3 or not m[:3].isalpha():
        return "host-header-short-method"
    return "host-header-no-ows" if not had_ows else "host-header-missed"


def _match_any(pats, names):
    return any(_re.search(_rx(p), h, _re.IGNORECASE) for h in names for p in pats)


def _expected(c, names):
    """the rule as documented: allow set and no name allowed -> ignore; ignore set and a name matches -> ignore"""
    if not c["ignore"] and not c["allow"]:
        return False
    if not names:
        return False
    if c["allow"] and not _match_any(c["allow"], names):
        return True
    if c["ignore"] and _match_any(c["ignore"], names):
        return True
    return False


def _ref_names(c, dc, ds, tag):
    """destination forms as the property names them, or None if the first flight is not a complete well-formed one"""
    if not c["addr"]:
        return [f"{c['peer'][0]}:{c['peer'][1]}"] if c["peer"] else []
    port = c["addr"][1]
    names = []
    if c["peer"]:
        names.append(f"{c['peer'][0]}:{c['peer'][1]}")
    names.append(f"{c['addr'][0]}:{port}")
    if ds:
        return None
    rh = ref_host(dc)
    if rh is not None:
        if rh[1] is not None:
            v = rh[1][0].decode("utf-8", "surrogateescape")
            if not v or any(ch in v for ch in " \t") or not rh[1][0].isascii():
                return None          # RFC 9110 Host = uri-host [ : port ] is ASCII; other values are not judged
            names.append(v if _re.search(r":[0-9]+$", v) else f"{v}:{port}")
    elif tag == "tls":
        sni = _ref_sni(dc)
        if sni is False:
            return None
        if sni:
            names.append(f"{sni}:{port}")
    else:
        return None
    if c.get("csni"):
        names.append(f"{c['csni']}:{port}")
    return names


def _ref_sni(data):
    """complete ClientHello built by client_hello(): reassemble records, read the SNI; False if incomplete/not ours"""
    hs, i = b"", 0
    while i + 5 <= len(data) and data[i] == 0x16:
        n = int.from_bytes(data[i + 3:i + 5], "big")
        if i + 5 + n > len(data):
            return False
        hs += data[i + 5:i + 5 + n]
        i += 5 + n
        if len(hs) >= 4 and len(hs) >= 4 + int.from_bytes(hs[1:4], "big"):
            break
    if len(hs) < 4 or len(hs) < 4 + int.from_bytes(hs[1:4], "big"):
        return False
    body = hs[4:]
    p = 2 + 32
    p += 1 + body[p]
    p += 2 + int.from_bytes(body[p:p + 2], "big")
    p += 1 + body[p]
    end = p + 2 + int.from_bytes(body[p:p + 2], "big")
    p += 2
    while p + 4 <= end:
        t, n = int.from_bytes(body[p:p + 2], "big"), int.from_bytes(body[p + 2:p + 4], "big")
        if t == 0:
            name = body[p + 9:p + 4 + n]
            if _re.fullmatch(rb"[A-Za-z0-9.-]+", name):
                return name.decode()
            return None
        p += 4 + n
    return None


def oracle(case, obs):
    k = case["k"]
    v = []
    if k == "hdr":
        if obs["r"] not in ("none", "needs", "some"):
            return [{"key": "host-header-other-exception", "what": f"_get_host_header raised on {case['dc']}"}]
        if case["ds"]:
            return []
        rh = ref_host(unhx(case["dc"]))
        if rh is None or rh[1] is None:
            return []
        val, had_ows = rh[1]
        if not val or any(ch in val for ch in b" \t\x0b\x0c"):
            return []
        got = unhx(obs["h"]) if obs["r"] == "some" else None
        if got != val:
            key = _hh_family(unhx(case["dc"]), had_ows)
            v.append({"key": key, "what": f"Host field value {val!r} of a well-formed head not recognised (got {got!r}) in {case['dc']}"})
        return v
    if k == "port":
        return []
    if k == "dec":
        c, dc, ds = case["cfg"], unhx(case["dc"]), unhx(case["ds"])
        d = obs["dec"]
        if d not in (True, False, "needs"):
            return [{"key": "decision-other-exception", "what": f"_ignore_connection raised {d}"}]
        wg = c["wg"] and c["addr"] == ["10.0.0.53", 53]
        names = None if wg else _ref_names(c, dc, ds, case.get("tag"))
        if names is not None:
            exp = _expected(c, names)
            if d != exp:
                rh = ref_host(dc)
                fam = "rule-not-honoured"
                if rh is not None and rh[1] is not None and isinstance(obs["names"], list):
                    hv = rh[1][0]
                    seen = [unhx(x) for x in obs["names"]]
                    if not any(x == hv or x.startswith(hv + b":") for x in seen):
                        fam = _hh_family(dc, rh[1][1])     # the Host header was not recognised at all
                v.append({"key": "rule-not-honoured" if fam == "host-header-missed" else fam,
                          "what": f"destination names {names} with ignore={c['ignore']} allow={c['allow']}: expected ignore={exp}, got {d}"})
        # segmentation: a decision reached on a prefix must be the decision on the whole first flight
        for cut, r in sorted(obs["cuts"].items(), key=lambda kv: int(kv[0])):
            cut = int(cut)
            if r == "needs" or r == d or d == "needs":
                continue
            pre = dc[:cut]
            if dc[:1] == b"\x16" and cut < 3:
                continue          # documented minimum to recognise TLS
            if pre[:3].isalpha() and b"\n" not in pre and not _re.match(rb"[A-Z]{3,}.+HTTP/", pre, _re.I):
                key = "segmentation-short-http-prefix"
            elif _re.search(rb"\r\nHost:\s*\r\n", pre, _re.I):
                key = "segmentation-empty-host-value"
            else:
                key = "segmentation-other"
            if not any(x["key"] == key for x in v):
                v.append({"key": key, "what": f"first {cut} bytes alone decide ignore={r}, the whole first flight decides ignore={d}: {case['dc']}"})
        return v
    if k == "run":
        if "err" in obs:
            return [{"key": "harness-preamble", "what": obs["err"]}]
        if obs["crashed"]:
            return [{"key": "layer-crash", "what": f"{obs['crashed']}"}]
        cm = obs["cmds"]
        ignored = obs["final"] in (1, 2, 3) or (obs["chosen"] == "TCPLayer" and obs["final"] != 4)
        if obs["final"] == 4 or not any(c[0] == "ask" for c in cm):
            return []
        if any(c[0] == "other" for c in cm):
            v.append({"key": "ignored-but-hooked", "what": f"unexpected trace entries on an ignored connection: {[c for c in cm if c[0] == 'other']}"})
        for fc in (True, False):
            arr = [e[2] for e in obs["eff"] if e[0] == "d" and e[1] == fc]
            snt = [c[2] for c in cm if c[0] == "send" and c[1] == fc]
            if obs["final"] == 2 and snt != arr:
                v.append({"key": "relay-not-exact", "what": f"relaying, from_client={fc}: arrived {arr} sent {snt}"})
            elif snt != arr[:len(snt)]:
                v.append({"key": "relay-not-exact", "what": f"from_client={fc}: sent {snt} is not a prefix of arrived {arr}"})
        return v
    if k == "tun":
        if obs["crashed"]:
            return [{"key": "layer-crash", "what": f"{obs['crashed']}"}]
        ign = any(c.endswith("/ignore") for c in obs["chosen"])
        direct = _match_any(case["ignore"], [f"{case['host']}:443"])
        if direct and not ign and len(obs["chosen"]) < 2:
            return [{"key": "connect-tunnel-not-verbatim",
                     "what": f"CONNECT {case['host']}:443 (ignored host), eager={case['eager']}, schedule {case['sched']}: none of the client's "
                             f"tunnel bytes reached the tunnel (no layer was ever chosen for it); server received {obs['to_server']!r}"}]
        if direct and not ign:
            return [{"key": "rule-not-honoured", "what": f"CONNECT {case['host']}:443 with ignore={case['ignore']}: chosen {obs['chosen']} (schedule {case['sched']})"}]
        if not ign:
            return []
        want = unhx(case["payload"]) + unhx(obs["tail"])
        got = unhx(obs["to_server"])
        if got != want:
            v.append({"key": "connect-tunnel-not-verbatim",
                      "what": f"ignored CONNECT tunnel, eager={case['eager']}, schedule {case['sched']}: client sent {len(want)} tunnel bytes "
                              f"{hx(want)}, server received {len(got)} bytes {obs['to_server']}"})
        gotc = unhx(obs["to_client"])
        if gotc != TUN_OK + unhx(obs["srv_sent"]):
            v.append({"key": "connect-tunnel-not-verbatim",
                      "what": f"ignored CONNECT tunnel, schedule {case['sched']}: server sent {obs['srv_sent']}, client received {obs['to_client']}"})
        bad = [h for h in obs["hooks"] if h not in ("next_layer", "http_connect", "http_connected", "http_connect_upstream")]
        if bad:
            v.append({"key": "ignored-but-hooked", "what": f"hooks on an ignored tunnel: {bad}"})
        return v
    # e2e
    if obs["crashed"]:
        return [{"key": "layer-crash", "what": f"{obs['crashed']}"}]
    segs = b"".join(unhx(s) for s in case["segs"])
    after = b"".join(unhx(s) for s in case["after"])
    srv = b"".join(unhx(s) for s in case["srv"])
    if case["via"] == "connect":
        names = [f"{case['host']}:443"]
        sni = _ref_sni(segs)
        if sni:
            names.append(f"{sni}:443")
        rh = ref_host(segs)
        if rh and rh[1]:
            names.append(rh[1][0].decode() + ":443")
        exp = _match_any(case["ignore"], names)
        ign = any(c.endswith("/ignore") for c in obs["chosen"])
        first = unhx(case["segs"][0])
        if exp != ign:
            if first[:1] == b"\x16" and len(first) < 3:
                return v              # documented minimum to recognise TLS
            if exp and rh and b"\n" not in first and not _re.match(rb"[A-Z]{3,}.+HTTP/", first, _re.I):
                key = "segmentation-short-http-prefix"
            else:
                key = "rule-not-honoured"
            v.append({"key": key, "what": f"CONNECT tunnel names {names} ignore={case['ignore']} segments {case['segs']}: chosen {obs['chosen']}"})
        if not ign:
            return v
    else:
        if not obs["chosen"]:
            return [{"key": "tls-ignore-not-reached", "what": "tls_clienthello hook never fired for a complete ClientHello"}]
    if unhx(obs["to_server"]) != segs + after:
        v.append({"key": "relay-not-exact", "what": f"{case['via']}: client sent {hx(segs + after)} server got {obs['to_server']}"})
    if unhx(obs["to_client"]) != srv:
        v.append({"key": "relay-not-exact", "what": f"{case['via']}: server sent {hx(srv)} client got {obs['to_client']}"})
    if obs["hooks"] and case["via"] != "connect":
        v.append({"key": "ignored-but-hooked", "what": f"hooks on an ignored connection: {obs['hooks']}"})
    if case["via"] == "connect" and [h for h in obs["hooks"] if not h.startswith("http_connect") and h not in ("requestheaders", "request", "server_connect", "server_connected", "client_connected")]:
        v.append({"key": "ignored-but-hooked", "what": f"hooks on an ignored tunnel: {obs['hooks']}"})
    return v


def nontrivial(case, obs):
    k = case["k"]
    if k == "hdr":
        return b"ost:" in unhx(case["dc"]).lower() or obs["r"] != "none"
    if k == "port":
        return b":" in unhx(case["s"])
    if k == "dec":
        return bool(case["cfg"]["ignore"] or case["cfg"]["allow"])
    if k == "run":
        return "cmds" in obs and len(obs["cmds"]) > 1
    if k == "tun":
        return any(c.endswith("/ignore") for c in obs["chosen"])
    return bool(obs["chosen"])


def classify(case, obs):
    k = case["k"]
    if k == "hdr":
        return ["hdr", "hdr-" + obs["r"]]
    if k == "port":
        return ["port", f"port-{obs['r']}"]
    if k == "dec":
        tags = ["dec", f"dec-{obs['dec']}", "dec-tag-" + case.get("tag", "?")]
        if case["cfg"]["allow"]:
            tags.append("dec-allow")
        if case["cfg"]["ignore"]:
            tags.append("dec-ignore")
        if isinstance(obs["names"], list):
            tags.append(f"dec-names-{len(obs['names'])}")
        return tags
    if k == "run":
        if "err" in obs:
            return ["run", "run-err"]
        return ["run", "run-" + case["mode"], f"run-final-{obs['final']}", "run-eager" if case["eager"] else "run-lazy",
                "run-sends" if any(c[0] == "send" for c in obs["cmds"]) else "run-nosend"]
    if k == "tun":
        x = sum(1 for e in case["sched"] if e[0] == "x")
        return ["tun", "tun-eager" if case["eager"] else "tun-lazy", f"tun-early-completions-{x}",
                "tun-ignored" if any(c.endswith("/ignore") for c in obs["chosen"]) else "tun-intercepted"]
    return ["e2e", "e2e-" + case["via"], "e2e-ignored" if any("ignore" in c for c in obs["chosen"]) else "e2e-intercepted"]
