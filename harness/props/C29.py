"""C29 — Raw TCP and UDP relaying is exact and each flow ends once
(mitmproxy/proxy/layers/tcp.py, mitmproxy/proxy/layers/udp.py)."""
from lib.coqterm import cbool, cbytes, clist, copt, hx, unhx

ID = "C29"
QUICK_N = 3600
THOROUGH_N = 24000
SHARD = 300
RULE = ("schedules for a real TCPLayer/UDPLayer (flow or ignore mode, server pre-connected or opened by the layer, "
        "connect success/failure): Start, then <= 22 events mixing DataReceived / ConnectionClosed for either peer, "
        "Tcp/UdpMessageInjected in either direction and replies to the outstanding blocking command (hook replies carry "
        "an addon action: keep / replace messages[-1].content / kill). 70% respect the transport (no data from a peer "
        "after its close) with three reply rhythms (prompt, lagging, stalled so that events queue behind a hook); 30% "
        "adversarial (data after close, repeated closes, second Start, missing Start). The environment of server.py "
        "(state bits cleared before ConnectionClosed is delivered, commands executed as they are yielded) is played by "
        "the harness. thorough adds every schedule of length <= 5 over a 7-letter alphabet after a completed start, for "
        "TCP/UDP. Plus 40 (quick) / 320 (thorough) oracle-only end-to-end cases: TCPLayer below real ServerTLSLayer and/or "
        "ClientTLSLayer with in-memory OpenSSL peers (TLS 1.2/1.3): data both ways, one peer ends its direction with "
        "close_notify+FIN or bare FIN, the other keeps sending, addon edits, final close; what each peer DECRYPTS is compared "
        "with flow.messages. Non-trivial = data was relayed and a close was handled; distinct by canonical JSON.")
TRUSTED = ["Coq 8.16.1 kernel; vm_compute for case evaluation",
           "harness plays mitmproxy/proxy/server.py: ConnectionClosed preceded by state &= ~CAN_READ (TCP) / CLOSED (UDP); "
           "CloseConnection -> CLOSED, CloseTcpConnection(half_close) -> state &= ~CAN_WRITE if writable, each applied when "
           "the command is yielded; OpenConnectionCompleted(None) preceded by state = OPEN (same rules as test/mitmproxy/proxy/tutils.py)",
           "pause/queue behaviour of Layer.handle_event is executed for real in the correspondence run and restated in "
           "Model/RawRelay.v (drain/arrive); its generic correctness is C04",
           "hand model of the two generator functions split at their blocking yields, tied by correspondence only"]
ASSUMPTIONS = ["the transport below TCPLayer (SendData to a connection reaches that peer unchanged until the layer closes it) is a "
               "contract in the theorems; tunnel/TLS layers implementing it are exercised by the end-to-end TLS cases only",
               "addons change only flow.messages[-1].content and only inside the tcp_message/udp_message hook, and may call "
               "flow.kill() in any hook when flow.killable; other mutations of the flow are out of scope",
               "events for connections other than context.client/context.server are not generated",
               "debug logging of Layer not modelled"]
COQ_PRELUDE = "From MV Require Import Model.RawRelay.\nImport ListNotations.\n"

PAY = [b"a", b"bc", b"GET /", b"\x00", b"\xff\xfe", b"", b"late", b"0123456789", b"x" * 17, b"\r\n"]


# ------------------------------------------------------------------ generator
def _payload(rng):
    return rng.choice(PAY) if rng.chance(0.7) else rng.bytes(rng.randint(0, 6))


def _reply(rng, err_p=0.0):
    r = rng.random()
    edit = None
    if r < 0.3:
        edit = hx(_payload(rng))
    return ["reply", edit, rng.chance(0.12), rng.chance(err_p)]


def gen_sched(rng, valid, rhythm, n):
    """rhythm: probability that the next event is a reply."""
    evs = []
    closed = {"c": False, "s": False}
    for _ in range(n):
        r = rng.random()
        if r < rhythm:
            evs.append(_reply(rng))
            continue
        k = rng.weighted([(45, "data"), (22, "closed"), (18, "inject"), (0 if valid else 4, "start"), (5, "reply")])
        if k == "reply":
            evs.append(_reply(rng))
        elif k == "start":
            evs.append(["start"])
        elif k == "inject":
            evs.append(["inject", rng.chance(0.5), hx(_payload(rng))])
        else:
            s = rng.choice(["c", "s"])
            if valid and closed[s]:
                s = "s" if s == "c" else "c"
                if closed[s]:
                    evs.append(_reply(rng) if rng.chance(0.6) else ["inject", rng.chance(0.5), hx(_payload(rng))])
                    continue
            if k == "data":
                evs.append(["data", s, hx(_payload(rng))])
            else:
                closed[s] = True
                evs.append(["closed", s])
    return evs


def gen(rng, n, tier):
    out = []
    if tier == "thorough":
        alpha = [["data", "c", "61"], ["data", "s", "62"], ["closed", "c"], ["closed", "s"],
                 ["reply", None, False, False], ["inject", True, "69"], ["inject", False, "6a"]]

        def rec(prefix, depth):
            if prefix:
                yield list(prefix)
            if depth:
                for a in alpha:
                    yield from rec(prefix + [a], depth - 1)
        for proto, depth in (("tcp", 5), ("udp", 4)):
            for seq in rec([], depth):
                out.append({"proto": proto, "ignore": False, "sopen": True,
                            "evs": [["start"], ["reply", None, False, False]] + seq + [["reply", None, False, False]] * 2})
        for seq in rec([], 4):
            out.append({"proto": "tcp", "ignore": True, "sopen": True, "evs": [["start"]] + seq})
    for _ in range(n):
        proto = "tcp" if rng.chance(0.7) else "udp"
        ignore = rng.chance(0.2)
        sopen = rng.chance(0.4)
        valid = rng.chance(0.7)
        rhythm = rng.choice([0.5, 0.5, 0.3, 0.12])
        evs = [["start"]] if (valid or rng.chance(0.9)) else []
        # the start sequence: replies for the start hook / OpenConnection, possibly with early events in between
        for _i in range(rng.randint(0, 3)):
            if rng.chance(0.25):
                evs.append(rng.choice([["data", "c", hx(_payload(rng))], ["inject", rng.chance(0.5), hx(_payload(rng))],
                                       ["closed", "c"]]))
            else:
                evs.append(_reply(rng, err_p=0.12))
        body = gen_sched(rng, valid, rhythm, rng.randint(1, 18))
        uni = proto == "tcp" and rng.chance(0.12)
        if valid:  # a client close before the body means no more client data
            seen = {"s"} if uni else set()
            fixed = []
            for e in evs + body:
                if e[0] == "data" and e[1] in seen:
                    continue
                if e[0] == "closed":
                    if e[1] in seen:
                        continue
                    seen.add(e[1])
                fixed.append(e)
            evs = fixed
        else:
            evs = evs + body
        if rng.chance(0.75):
            evs += [_reply(rng) for _ in range(rng.randint(1, 6))]
        out.append({"proto": proto, "ignore": ignore, "sopen": sopen, "uni": uni, "evs": evs})
    for _ in range(TLS_THOROUGH if tier == "thorough" else TLS_QUICK):
        out.append(gen_tls(rng))
    return out



# ------------------------------------------------------------------ end-to-end cases over real TLS layers (oracle only)
TLS_QUICK, TLS_THOROUGH = 40, 320


def gen_tls(rng):
    """raw TCP relayed by TCPLayer below real ServerTLSLayer / ClientTLSLayer with in-memory TLS peers: data both ways,
    one peer ends its direction (close_notify+FIN or bare FIN), the other keeps sending, addon edits, final close."""
    sides = rng.choice(["s", "s", "c", "c", "cs"])
    ops, open_ = [], {"c": True, "s": True}
    nmsg = 0
    for _ in range(rng.randint(2, 9)):
        live = [x for x in "cs" if open_[x]]
        if not live:
            break
        x = rng.choice(live)
        if rng.chance(0.2 if all(open_.values()) else 0.12):
            ops.append(["cn" if rng.chance(0.75) else "fin", x])
            open_[x] = False
        else:
            ops.append([x, hx(rng.choice([b"hello", b"my secret is 42, ", b"x", b"GET / HTTP/1.1\r\n\r\n", b"\x00\xff" * 9]) + rng.bytes(rng.randint(0, 5)))])
            nmsg += 1
    if all(open_.values()) and rng.chance(0.8):   # make sure most cases contain a half-close followed by traffic
        x = rng.choice("cs")
        ops.append(["cn" if rng.chance(0.75) else "fin", x])
        open_[x] = False
        y = "s" if x == "c" else "c"
        for _ in range(rng.randint(1, 3)):
            ops.append([y, hx(b"after half-close " + rng.bytes(rng.randint(0, 4)))])
            nmsg += 1
    if rng.chance(0.85):
        for x in "cs":
            if open_[x]:
                ops.append(["cn" if rng.chance(0.6) else "fin", x])
                open_[x] = False
    edits = {str(i): hx(rng.choice([b"", b"******", b"EDITED" + rng.bytes(3)])) for i in range(nmsg) if rng.chance(0.3)}
    return {"k": "tls", "sides": sides, "ver": rng.choice(["1.2", "1.3"]), "ignore": rng.chance(0.1), "ops": ops, "edits": edits}


# ------------------------------------------------------------------ implementation
def setup_impl():
    global events, commands, context, connection, options, Proxyserver, ltcp, ludp, mtcp, mudp, CS
    from mitmproxy import connection, options
    from mitmproxy import tcp as mtcp, udp as mudp
    from mitmproxy.addons.proxyserver import Proxyserver
    from mitmproxy.connection import ConnectionState as CS
    from mitmproxy.proxy import events, commands, context
    from mitmproxy.proxy.layers import tcp as ltcp, udp as ludp
    global ltls, SSL, pyssl, CERTS
    import os
    import ssl as pyssl
    from OpenSSL import SSL
    from mitmproxy.proxy.layers import tls as ltls
    CERTS = os.path.join(os.environ.get("VERIF_REPO", "/repo"), "test", "mitmproxy", "net", "data", "verificationcerts") + os.sep


def _ctx(sopen, uni=False):
    opts = options.Options()
    Proxyserver().load(opts)
    ctx = context.Context(connection.Client(peername=("client", 1234), sockname=("127.0.0.1", 8080),
                                            timestamp_start=1605699329, state=CS.OPEN), opts)
    ctx.server.address = ("server", 80)
    if sopen:
        ctx.server.state = CS.CAN_WRITE if uni else CS.OPEN
        ctx.server.timestamp_start = 1605699330
    return ctx


class _TlsPeer:
    """in-memory TLS endpoint (Python ssl on MemoryBIOs), as in test_tls.py SSLTest / harness C14"""

    def __init__(self, server_side, ver):
        self.inc, self.out = pyssl.MemoryBIO(), pyssl.MemoryBIO()
        ctx = pyssl.SSLContext(pyssl.PROTOCOL_TLS_SERVER if server_side else pyssl.PROTOCOL_TLS_CLIENT)
        if server_side:
            ctx.load_cert_chain(CERTS + "trusted-leaf.crt", CERTS + "trusted-leaf.key")
        else:
            ctx.check_hostname = False
            ctx.verify_mode = pyssl.CERT_NONE
        if ver == "1.2":
            ctx.maximum_version = pyssl.TLSVersion.TLSv1_2
        self.obj = ctx.wrap_bio(self.inc, self.out, server_side=server_side,
                                server_hostname=None if server_side else "example.mitmproxy.org")
        self.done = False
        self.got = bytearray()

    def handshake(self):
        if not self.done:
            try:
                self.obj.do_handshake()
                self.done = True
            except pyssl.SSLWantReadError:
                pass

    def feed(self, data):
        self.inc.write(data)
        if not self.done:
            return
        while True:
            try:
                r = self.obj.read(65536)
            except (pyssl.SSLWantReadError, pyssl.SSLZeroReturnError, pyssl.SSLError):
                break
            if not r:
                break
            self.got += r

    def close_notify(self):
        try:
            self.obj.unwrap()
        except pyssl.SSLError:
            pass


def run_tls(case):
    ctx = _ctx(False)
    ctx.server.sni = "example.mitmproxy.org"
    ctx.server.address = ("example.mitmproxy.org", 443)
    ctx.server.state = CS.OPEN  # eagerly connected
    ctx.server.timestamp_start = 1605699330
    sides = case["sides"]
    stack = []
    if "s" in sides:
        stack.append(ltls.ServerTLSLayer(ctx))
    else:
        ltcp.TCPLayer(ctx, ignore=True)  # stands for the mode layer above: ClientTLSLayer inspects context.layers[-2]
    if "c" in sides:
        stack.append(ltls.ClientTLSLayer(ctx))
    tcpl = ltcp.TCPLayer(ctx, ignore=case["ignore"])
    stack.append(tcpl)
    for a, b in zip(stack, stack[1:]):
        a.child_layer = b
    top = stack[0]
    conn = {"c": ctx.client, "s": ctx.server}
    name = lambda c: "c" if c is ctx.client else ("s" if c is ctx.server else "?")
    peer = {x: (_TlsPeer(server_side=(x == "s"), ver=case["ver"]) if x in sides else None) for x in "cs"}
    got_plain = {"c": bytearray(), "s": bytearray()}
    hooks, closes, alien = [], [], []
    sends_after_end = [0]
    fin = {"c": False, "s": False}

    def execute(cmd, queue):
        if isinstance(cmd, commands.StartHook):
            hooks.append(cmd.name)
            if isinstance(cmd, ltls.TlsStartClientHook):
                c = SSL.Context(SSL.SSLv23_METHOD)
                c.use_privatekey_file(CERTS + "trusted-leaf.key")
                c.use_certificate_chain_file(CERTS + "trusted-leaf.crt")
                cmd.data.ssl_conn = SSL.Connection(c)
                cmd.data.ssl_conn.set_accept_state()
            elif isinstance(cmd, ltls.TlsStartServerHook):
                cmd.data.ssl_conn = SSL.Connection(SSL.Context(SSL.SSLv23_METHOD))
                cmd.data.ssl_conn.set_connect_state()
            elif isinstance(cmd, ltls.TlsClienthelloHook):
                # what addons/tlsconfig.py does with an eagerly connected upstream
                cmd.data.establish_server_tls_first = "s" in sides
            elif isinstance(cmd, ltcp.TcpMessageHook):
                e = case["edits"].get(str(len(cmd.flow.messages) - 1))
                if e is not None:
                    cmd.flow.messages[-1].content = unhx(e)
            if cmd.blocking:
                queue.append(events.HookCompleted(cmd))
        elif isinstance(cmd, commands.SendData):
            if "tcp_end" in hooks or "tcp_error" in hooks:
                sends_after_end[0] += 1
            x = name(cmd.connection)
            if peer.get(x):
                peer[x].feed(cmd.data)
            elif x in got_plain:
                got_plain[x] += cmd.data
        elif isinstance(cmd, commands.CloseConnection):
            half = isinstance(cmd, commands.CloseTcpConnection) and cmd.half_close
            closes.append([name(cmd.connection), bool(half)])
            if half:
                if cmd.connection.state & CS.CAN_WRITE:
                    cmd.connection.state &= ~CS.CAN_WRITE
            else:
                cmd.connection.state = CS.CLOSED
        elif isinstance(cmd, commands.Log):
            pass
        else:
            alien.append(type(cmd).__name__)

    def event(ev):
        queue = [ev]
        while queue:
            e = queue.pop(0)
            for cmd in top.handle_event(e):
                execute(cmd, queue)

    def wire(x):
        """deliver what TLS peer x has produced to the proxy"""
        if peer[x] and not fin[x]:
            data = peer[x].out.read()
            if data:
                event(events.DataReceived(conn[x], data))

    exc = None
    step_closes = []
    try:
        event(events.Start())
        for _ in range(12):
            for x in "cs":
                if peer[x]:
                    peer[x].handshake()
                    wire(x)
            if all(p is None or p.done for p in peer.values()):
                break
        for x in "cs":
            wire(x)
        ready = all(p is None or p.done for p in peer.values()) and all(conn[x].tls_established for x in sides)
        if ready:
            for op in case["ops"]:
                before = len(closes)
                k = op[0]
                if k in ("c", "s"):
                    if peer[k]:
                        peer[k].obj.write(unhx(op[1]))
                        wire(k)
                    else:
                        event(events.DataReceived(conn[k], unhx(op[1])))
                else:
                    x = op[1]
                    if k == "cn" and peer[x]:
                        peer[x].close_notify()
                        wire(x)
                    fin[x] = True
                    conn[x].state &= ~CS.CAN_READ                                   # server.py handle_connection
                    event(events.ConnectionClosed(conn[x]))
                for y in "cs":
                    wire(y)
                step_closes.append(closes[before:])
    except Exception as e:  # noqa: BLE001
        exc = f"{type(e).__name__}: {e}"[:200]
        ready = locals().get("ready", False)
    got = {x: bytes(peer[x].got) if peer[x] else bytes(got_plain[x]) for x in "cs"}
    f = tcpl.flow
    return {"tls": True, "ready": bool(ready), "exc": exc, "alien": alien, "hooks": hooks, "closes": closes,
            "step_closes": step_closes, "sends_after_end": sends_after_end[0],
            "got_c": hx(got["c"]), "got_s": hx(got["s"]),
            "msgs": [[m.from_client, hx(m.content)] for m in f.messages] if f else [],
            "phase": {"start": 0, "relay_messages": 1, "done": 2}.get(getattr(tcpl._handle_event, "__name__", "?"), 9)}


def run_impl(case):
    if case.get("k") == "tls":
        return run_tls(case)
    tcp = case["proto"] == "tcp"
    L = ltcp if tcp else ludp
    pre = "Tcp" if tcp else "Udp"
    hooks = {getattr(L, pre + "StartHook"): "start_hook", getattr(L, pre + "MessageHook"): "message_hook",
             getattr(L, pre + "EndHook"): "end_hook", getattr(L, pre + "ErrorHook"): "error_hook"}
    MsgHook = getattr(L, pre + "MessageHook")
    Injected = getattr(L, pre + "MessageInjected")
    Message = mtcp.TCPMessage if tcp else mudp.UDPMessage
    uni = bool(case.get("uni"))
    ctx = _ctx(case["sopen"], uni)
    layer = (L.TCPLayer if tcp else L.UDPLayer)(ctx, ignore=case["ignore"])
    spare_flow = (mtcp.TCPFlow if tcp else mudp.UDPFlow)(ctx.client, ctx.server, True)
    conn = {"c": ctx.client, "s": ctx.server}
    side = lambda c: "c" if c is ctx.client else ("s" if c is ctx.server else "?")
    out, outs, pre_obs, orig = [], [], [], []
    alien = crashed = False
    exc = None

    def phase():
        return {"start": 0, "relay_messages": 1, "done": 2}.get(getattr(layer._handle_event, "__name__", "?"), 9)

    for e in case["evs"]:
        paused = layer._paused is not None
        pre_obs.append([paused, phase(), int(ctx.client.state.value), int(ctx.server.state.value)])
        step = []
        outs.append(step)
        k = e[0]
        if k == "start":
            ev = events.Start()
        elif k == "data":
            ev = events.DataReceived(conn[e[1]], unhx(e[2]))
        elif k == "closed":
            c = conn[e[1]]
            c.state = (c.state & ~CS.CAN_READ) if tcp else CS.CLOSED          # server.py handle_connection
            ev = events.ConnectionClosed(c)
        elif k == "inject":
            ev = Injected(layer.flow or spare_flow, Message(e[1], unhx(e[2])))
        else:
            if not paused:
                continue
            cmd = layer._paused.command
            if isinstance(cmd, commands.OpenConnection):
                if e[3]:
                    cmd.connection.error = "connect failed"
                    ev = events.OpenConnectionCompleted(cmd, "connect failed")
                else:
                    cmd.connection.state = CS.CAN_WRITE if uni else CS.OPEN        # server.py open_connection
                    cmd.connection.timestamp_start = 1605699331
                    ev = events.OpenConnectionCompleted(cmd, None)
            else:
                f = cmd.flow
                if isinstance(cmd, MsgHook):
                    orig.append([f.messages[-1].from_client, hx(f.messages[-1].content)])
                    if e[1] is not None:
                        f.messages[-1].content = unhx(e[1])
                if e[2] and f.killable:
                    f.kill()
                ev = events.HookCompleted(cmd)
        try:
            for c in layer.handle_event(ev):
                if isinstance(c, commands.SendData):
                    rec = ["send", side(c.connection), hx(c.data)]
                elif isinstance(c, commands.CloseTcpConnection) and c.half_close:
                    rec = ["half", side(c.connection)]
                    if c.connection.state & CS.CAN_WRITE:                           # server.py close_connection
                        c.connection.state &= ~CS.CAN_WRITE
                elif isinstance(c, commands.CloseConnection):
                    rec = ["close", side(c.connection)]
                    c.connection.state = CS.CLOSED
                elif isinstance(c, commands.OpenConnection):
                    rec = ["open"]
                elif type(c) in hooks:
                    rec = [hooks[type(c)]]
                else:
                    rec = ["alien", type(c).__name__]
                    alien = True
                if rec[0] in ("send", "half", "close") and rec[1] == "?":
                    alien = True
                out.append(rec)
                step.append(rec)
        except AssertionError:
            crashed = True
            break
        except Exception as x:  # noqa: BLE001 - any other exception is its own observable
            exc = type(x).__name__
            alien = True
            break
    f = layer.flow
    pc = layer._paused.command if layer._paused else None
    if pc is None:
        waitk = 0
    elif isinstance(pc, commands.OpenConnection):
        waitk = 2
    else:
        waitk = {"start_hook": 1, "error_hook": 3, "message_hook": 4, "end_hook": 5}.get(hooks.get(type(pc)), 9)
    if waitk == 4:
        orig.append([f.messages[-1].from_client, hx(f.messages[-1].content)])
    q = []
    for ev in layer._paused_event_queue:
        if isinstance(ev, events.DataReceived):
            q.append(["data", side(ev.connection)])
        else:
            q.append([type(ev).__name__])
    return {"out": out, "outs": outs, "pre": pre_obs, "alien": alien, "crashed": crashed, "exc": exc,
            "phase": phase(), "waitk": waitk, "queue": q,
            "cst": int(ctx.client.state.value), "sst": int(ctx.server.state.value),
            "msgs": [[m.from_client, hx(m.content)] for m in f.messages] if f else [],
            "orig": orig, "err": bool(f and f.error), "live": bool(f.live) if f else True,
            "eof": [True in getattr(layer, "_eof_handled", ()), False in getattr(layer, "_eof_handled", ())]}


# ------------------------------------------------------------------ Coq terms
def c_side(s):
    return "Client" if s == "c" else "Server"


def c_ev(e):
    k = e[0]
    if k == "start":
        return "EStart"
    if k == "data":
        return f"(EData {c_side(e[1])} {cbytes(unhx(e[2]))})"
    if k == "closed":
        return f"(EClosed {c_side(e[1])})"
    if k == "inject":
        return f"(EInject {cbool(e[1])} {cbytes(unhx(e[2]))})"
    ed = copt(e[1], lambda h: cbytes(unhx(h)), "bytes")
    return f"(EReply (mkAction {ed} {cbool(e[2])}) {cbool(e[3])})"


def c_cmd(c):
    k = c[0]
    if k == "send":
        return f"(SendData {c_side(c[1])} {cbytes(unhx(c[2]))})"
    if k == "half":
        return f"(HalfClose {c_side(c[1])})"
    if k == "close":
        return f"(CloseConnection {c_side(c[1])})"
    return {"open": "OpenConnection", "start_hook": "StartHook", "message_hook": "MessageHook",
            "end_hook": "EndHook", "error_hook": "ErrorHook"}[k]


def coq_case(case, obs):
    if case.get("k") == "tls":
        return None  # oracle-only: the transport below TCPLayer is a contract in the theorems
    out = [c for c in obs["out"] if c[0] != "alien"]
    msgs = clist([f"({cbool(m[0])}, {cbytes(unhx(m[1]))})" for m in obs["msgs"]], "(bool * bytes)%type")
    return (f"Case {'TCP' if case['proto'] == 'tcp' else 'UDP'} {cbool(case['ignore'])} {cbool(case['sopen'])} {cbool(case.get('uni'))} "
            f"{clist([c_ev(e) for e in case['evs']], 'event')} {cbool(obs['alien'])} {cbool(obs['crashed'])} "
            f"{clist([c_cmd(c) for c in out], 'cmd')} {obs['phase']} {obs['waitk']} {len(obs['queue'])} "
            f"{obs['cst']} {obs['sst']} {msgs} {cbool(obs['eof'][0])} {cbool(obs['eof'][1])} {cbool(obs['err'])} {cbool(obs['live'])}")


# ------------------------------------------------------------------ oracle (property on the implementation)
def _valid(case):
    """the schedule respects the transport: Start first and once, no data from a peer after its close, one close per peer"""
    evs = case["evs"]
    if not evs or evs[0] != ["start"] or any(e[0] == "start" for e in evs[1:]):
        return False
    closed = set()
    if case.get("uni") and any(e[0] in ("data", "closed") and e[1] == "s" for e in evs):
        return False  # a write-only server connection delivers neither data nor EOF
    for e in evs:
        if e[0] == "data" and e[1] in closed:
            return False
        if e[0] == "closed":
            if e[1] in closed:
                return False
            closed.add(e[1])
    return True


def _subseq(a, b):
    it = iter(b)
    return all(any(x == y for y in it) for x in a)


def oracle_tls(case, obs):
    """end to end over real TLS layers: what each PEER decrypts equals the recorded messages of the other direction"""
    v = []
    if obs["exc"] or obs["alien"]:
        return [{"key": "e2e-unexpected-exception", "what": f"TLS+TCP stack raised {obs['exc']} / unknown commands {obs['alien']}"}]
    if not obs["ready"]:
        return [{"key": "e2e-tls-setup-failed", "what": "TLS handshake between the in-memory peers and the TLS layers did not complete"}]
    ops = case["ops"]
    ndata = {x: sum(1 for o in ops if o[0] == x) for x in "cs"}
    if not case["ignore"]:
        rec = {True: b"".join(unhx(m[1]) for m in obs["msgs"] if m[0]), False: b"".join(unhx(m[1]) for m in obs["msgs"] if not m[0])}
        if unhx(obs["got_s"]) != rec[True]:
            v.append({"key": "e2e-peer-bytes-differ", "what": f"server peer received {obs['got_s']} but recorded client messages are {rec[True].hex()}"})
        if unhx(obs["got_c"]) != rec[False]:
            v.append({"key": "e2e-peer-bytes-differ", "what": f"client peer received {obs['got_c']} but recorded server messages are {rec[False].hex()}"})
        for x, fc in (("c", True), ("s", False)):
            if sum(1 for m in obs["msgs"] if m[0] == fc) != ndata[x]:
                v.append({"key": "e2e-data-lost", "what": f"{ndata[x]} chunks sent by {x} but {sum(1 for m in obs['msgs'] if m[0] == fc)} messages recorded"})
    else:
        for x, y in (("c", "s"), ("s", "c")):
            want = b"".join(unhx(o[1]) for o in ops if o[0] == x)
            if unhx(obs["got_" + y]) != want:
                v.append({"key": "e2e-peer-bytes-differ", "what": f"ignore mode: {y} received {obs['got_' + y]} but {x} sent {want.hex()}"})
    ends = [h for h in obs["hooks"] if h in ("tcp_end", "tcp_error")]
    closed = [o[1] for o in ops if o[0] in ("cn", "fin")]
    if len(ends) > 1 or (not case["ignore"] and len(closed) == 2 and ends != ["tcp_end"]) or (len(closed) < 2 and ends):
        v.append({"key": "e2e-end-hook", "what": f"end/error hooks {ends} with closes {closed}"})
    if obs["sends_after_end"]:
        v.append({"key": "e2e-relay-after-end", "what": "SendData after tcp_end"})
    first = next((i for i, o in enumerate(ops) if o[0] in ("cn", "fin")), None)
    if first is not None and len(obs["step_closes"]) > first:
        other = "s" if ops[first][1] == "c" else "c"
        if obs["step_closes"][first] != [[other, True]]:
            v.append({"key": "e2e-half-close", "what": f"{ops[first]} produced close commands {obs['step_closes'][first]}, expected half-close of {other}"})
    return v


def oracle(case, obs):
    if case.get("k") == "tls":
        return oracle_tls(case, obs)
    v = []
    if obs["exc"] or obs["alien"]:
        v.append({"key": "unexpected-exception", "what": f"layer raised {obs['exc']} or yielded an unknown command"})
        return v
    if obs["crashed"]:
        if _valid(case):
            v.append({"key": "assertion-on-valid-schedule", "what": "AssertionError on a schedule that respects the transport"})
        return v
    tcp = case["proto"] == "tcp"
    out = obs["out"]
    other = {"c": "s", "s": "c"}
    # (1) exactness: per direction the chunks sent to the peer are the recorded contents (minus the one still in its hook)
    if not case["ignore"]:
        msgs = obs["msgs"][:-1] if obs["waitk"] == 4 else obs["msgs"]
        for fc, to in ((True, "s"), (False, "c")):
            sent = [c[2] for c in out if c[0] == "send" and c[1] == to]
            rec = [m[1] for m in msgs if m[0] == fc]
            if sent != rec:
                v.append({"key": "relay-not-exact", "what": f"sent to {to}: {sent} != recorded contents {rec}"})
    else:
        if any(c[0].endswith("_hook") for c in out):
            v.append({"key": "hook-in-ignore-mode", "what": "a flow hook fired although ignore=True"})
        for fr, to in (("c", "s"), ("s", "c")):
            sent = [c[2] for c in out if c[0] == "send" and c[1] == to]
            arrived = [e[2] for e in case["evs"] if (e[0] == "data" and e[1] == fr) or (e[0] == "inject" and e[1] == (fr == "c"))]
            if not _subseq(sent, arrived):
                v.append({"key": "relay-not-exact", "what": f"ignore mode: sent to {to} {sent} is not a subsequence of arrivals {arrived}"})
    # (2) exactly one end/error hook, nothing relayed after it
    ends = [i for i, c in enumerate(out) if c[0] in ("end_hook", "error_hook")]
    if len(ends) > 1:
        v.append({"key": "two-end-hooks", "what": f"{len(ends)} end/error hooks"})
    if ends and any(c[0] in ("send", "message_hook", "start_hook") for c in out[ends[0] + 1:]):
        v.append({"key": "relay-after-end", "what": "SendData or message hook after the end/error hook"})
    if not case["ignore"]:
        if obs["phase"] == 2 and len(ends) != 1:
            v.append({"key": "ended-without-hook", "what": "layer is done but no end/error hook fired"})
        if ends and obs["phase"] != 2 and obs["waitk"] != 3:
            v.append({"key": "hook-but-not-done", "what": "end/error hook fired but the layer keeps relaying"})
    if tcp and obs["phase"] == 1 and obs["waitk"] == 0 and not (obs["cst"] & 1) and not (obs["sst"] & 1):
        v.append({"key": "not-ended", "what": "both peers closed their read side, layer idle, flow not ended"})
    # (2c) each peer eventually sees EOF: once the layer is done (end/error hook fired, or ignore mode finished) no
    #      connection is left open -- the layer has closed whatever its peer had not closed already.  Not applied to
    #      impossible schedules in which the server's close is delivered before the server connection exists.
    early_s = any(e[0] == "closed" and e[1] == "s" and p[3] == 0 for e, p in zip(case["evs"], obs["pre"]))
    if obs["phase"] == 2 and _valid(case) and not early_s and (obs["cst"] or obs["sst"]):
        left = [n for n, st in (("client", obs["cst"]), ("server", obs["sst"])) if st]
        v.append({"key": "done-with-open-connection",
                  "what": f"layer is done but {'/'.join(left)} connection was never closed (state bits {obs['cst']}/{obs['sst']})"})
    # (3) half-close: a close handled while the other peer is still readable is propagated as a half-close, alone
    seen_closed = set()
    for e, p, o in zip(case["evs"], obs["pre"], obs["outs"]):
        if e[0] == "closed":
            seen_closed.add(e[1])
        # (a peer whose ConnectionClosed was already delivered is not readable, whatever a replayed bit says)
        if tcp and e[0] == "closed" and not p[0] and p[1] == 1 and other[e[1]] not in seen_closed:
            oth = p[3] if e[1] == "c" else p[2]
            if oth & 1 and o != [["half", other[e[1]]]]:
                v.append({"key": "half-close-not-propagated", "what": f"close of {e[1]} while peer readable produced {o}"})
    # (4) no loss: on transport-respecting schedules every chunk that arrived from a peer (before its close) is recorded /
    #     relayed once the layer is quiescent, unless the connect failed
    valid = _valid(case)
    failed = any(c[0] == "error_hook" for c in out) or (case["ignore"] and out[:2] == [["open"], ["close", "c"]])
    quiescent = obs["waitk"] == 0 and not obs["queue"] and obs["phase"] != 0
    if valid and quiescent and not failed:
        first_close = next((i for i, e in enumerate(case["evs"]) if e[0] == "closed"), len(case["evs"]))
        for fr in ("c", "s"):
            arrived = [e[2] for i, e in enumerate(case["evs"]) if e[0] == "data" and e[1] == fr and (tcp or i < first_close)]
            if case["ignore"]:
                got = [c[2] for c in out if c[0] == "send" and c[1] == other[fr]]
            else:
                got = [m[1] for m in obs["orig"] if m[0] == (fr == "c")]
            if not _subseq(arrived, got):
                race = any(e[0] == "closed" and p[0] and p[1] != 2 for e, p in zip(case["evs"], obs["pre"]))
                if tcp and race:
                    v.append({"key": "close-while-paused-drops-data",
                              "what": f"data from {fr} {arrived} arrived before its close but only {got} was recorded"})
                else:
                    v.append({"key": "data-lost", "what": f"data from {fr} {arrived} arrived but only {got} was recorded"})
    # (5) nothing is sent to a connection after the layer closed (the write side of) it
    shut = set()
    for c in out:
        if c[0] in ("half", "close"):
            shut.add(c[1])
        elif c[0] == "send" and c[1] in shut:
            closed, late = set(), False
            for e in case["evs"]:
                if e[0] == "closed":
                    closed.add(e[1])
                if (e[0] == "inject" and ("c" if e[1] else "s") in closed) or (e[0] == "data" and e[1] in closed):
                    late = True
            if late:
                v.append({"key": "send-after-half-close",
                          "what": f"SendData to {c[1]} after the layer half-closed it (message injected/received from a peer that already closed)"})
            else:
                v.append({"key": "send-after-close", "what": f"SendData to {c[1]} after the layer closed it"})
            break
    return v


def nontrivial(case, obs):
    if case.get("k") == "tls":
        return obs["ready"] and len(obs["msgs"]) > 1 and bool(obs["closes"])
    return any(c[0] == "send" for c in obs["out"]) and any(c[0] in ("half", "close") for c in obs["out"])


def classify(case, obs):
    if case.get("k") == "tls":
        t = ["tls-e2e", "tls-" + case["sides"], "tls" + case["ver"]]
        if any(o[0] == "cn" for o in case["ops"]):
            t.append("close_notify")
        if any(c[1] for c in obs["closes"]):
            t.append("e2e-half-close")
        if "tcp_end" in obs["hooks"]:
            t.append("e2e-ended")
        return t
    t = [case["proto"], "ignore" if case["ignore"] else "flow", "valid" if _valid(case) else "adversarial"]
    if case.get("uni"):
        t.append("write-only-server")
    out = obs["out"]
    for k, tag in (("half", "half-close"), ("end_hook", "ended"), ("error_hook", "connect-failed"), ("open", "opened")):
        if any(c[0] == k for c in out):
            t.append(tag)
    if obs["crashed"]:
        t.append("assertion")
    if obs["queue"]:
        t.append("ends-with-queue")
    if any(p[0] and e[0] != "reply" for e, p in zip(case["evs"], obs["pre"])):
        t.append("queued-behind-hook")
    if any(e[0] == "reply" and e[1] is not None for e in case["evs"]) and obs["orig"] != obs["msgs"]:
        t.append("edited")
    if obs["err"] and not any(c[0] == "error_hook" for c in out):
        t.append("killed")
    if any(e[0] == "inject" for e in case["evs"]):
        t.append("inject")
    return t
