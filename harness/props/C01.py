"""C01 -- HTTP/1 forwarding is framing-consistent (no request or response desync).
net/http/http1/read.py, assemble.py, net/http/validate.py, proxy/layers/http/_http1.py, layers/http/__init__.py."""
from lib.coqterm import cN, cZ, cbool, cbytes, clist, copt, cpair

ID = "C01"
QUICK_N = 3600
THOROUGH_N = 60000
SHARD = 200
TRANSLATORS = ["body_size"]
COQ_PRELUDE = "From MV Require Import Model.Http1Msg Model.BodySizePrelude Model.Http1Conn Model.Rfc9112.\n"
RULE = ("28% request heads and 14% response heads as line lists from a grammar (methods incl. HEAD/CONNECT, origin/absolute/"
        "authority/asterisk targets, HTTP/1.0/1.1, CL/TE/both/duplicates/whitespace and case variants/unknown codings, obs-fold, "
        "bare CR, NUL, invalid names) with 30% byte-level mutations; 8% parse_transfer_encoding / parse_content_length on "
        "arbitrary strings; 12% Http1Client.send / Http1Server.send / assemble_body on heads with chunk lists; 14% reference-"
        "parser streams (tie of the Python port to Rfc9112.v); 24% end-to-end exchanges through a real HttpLayer (regular mode, "
        "pipelined requests, server responses, addon policies pass/edit-headers/edit-body/set-response/stream). Non-trivial = "
        "reaches a framing decision (head accepted, or rejected by validation) or forwards bytes; distinct by canonical JSON.")
TRUSTED = ["Coq 8.16.1 kernel; vm_compute for case evaluation",
           "harness/translators/body_size.py (ast + sre parse tree -> Gallina) and Model/BodySizePrelude.v (derivative matcher, model of re.match/^$ and of re.sub for the shape C1* lit C2*); tied by correspondence on parse_* and head cases",
           "hand model Model/Http1Msg.v of bytes.split/strip/partition/int()/%d/%x, Headers.get folding; tied by correspondence",
           "url.parse_authority / url.parse are parameters of the model (observed results are inputs of the case)",
           "Model/Rfc9112.v is the specification (written from RFC 9112); the oracle uses a Python port tied to it by RefReqs/RefResps correspondence cases",
           "h11 ReceiveBuffer line extraction and body readers are not modelled here (C02); they are exercised by the end-to-end oracle"]
ASSUMPTIONS = ["str values are the utf-8/surrogateescape decoding of the header bytes; isascii/lower/regex/int agree between both representations",
               "addon edits keep header names tokens and values free of CR/LF/NUL (Inv_head); edits outside this are the addon's responsibility",
               "lines handed to read_*_head contain no LF (guaranteed by the line extraction, C02)"]

hx = lambda b: bytes(b).hex()
unhx = bytes.fromhex

# =====================================================================================================================
# Python port of coq/Model/Rfc9112.v (kept line by line; tied to the Coq definitions by RefReqs / RefResps cases)
# =====================================================================================================================
TCHAR = set(b"!#$%&'*+-.^_`|~0123456789abcdefghijklmnopqrstuvwxyzABCDEFGHIJKLMNOPQRSTUVWXYZ")
HEXDIG = set(b"0123456789abcdefABCDEF")
INCOMPLETE, INVALID = "incomplete", "invalid"


class RefErr(Exception):
    def __init__(self, kind):
        self.kind = kind


def is_vchar_obs(c):
    return 33 <= c <= 126 or c >= 128


def span(p, s):
    i = 0
    while i < len(s) and p(s[i]):
        i += 1
    return s[:i], s[i:]


def trim_ows(s):
    return s.strip(b" \t")


def head_lines(s):
    """-> (raw lines, blank raw line, rest) or None"""
    lines, pos = [], 0
    while True:
        i = s.find(b"\n", pos)
        if i < 0:
            return None
        line = s[pos:i]
        pos = i + 1
        if line in (b"", b"\r"):
            return lines, line, s[pos:]
        lines.append(line)


def clean_line(o, raw):
    if raw.endswith(b"\r"):
        l = raw[:-1]
    elif o["bare_lf_ok"]:
        l = raw
    else:
        return None
    if b"\r" in l or b"\x00" in l:
        if o["cr_as_sp"]:
            return l.replace(b"\r", b" ").replace(b"\x00", b" ")
        return None
    return l


def clean_lines(o, raws):
    out = [clean_line(o, r) for r in raws]
    return None if any(x is None for x in out) else out


def is_http_version(v):
    return len(v) == 8 and v[:5] == b"HTTP/" and 48 <= v[5] <= 57 and v[6] == 46 and 48 <= v[7] <= 57


def parse_request_line(l):
    m, r1 = span(lambda c: c in TCHAR, l)
    if not m or not r1 or r1[0] != 32:
        return None
    t, r3 = span(is_vchar_obs, r1[1:])
    if not t or not r3 or r3[0] != 32 or not is_http_version(r3[1:]):
        return None
    return m, t, r3[1:]


def parse_status_line(l):
    if len(l) < 13:
        return None
    v, sp, d, sp2, reason = l[:8], l[8], l[9:12], l[12], l[13:]
    if not (is_http_version(v) and sp == 32 and sp2 == 32 and all(48 <= c <= 57 for c in d)
            and all(c in (32, 9) or is_vchar_obs(c) for c in reason)):
        return None
    return v, int(d), reason


def parse_field_line(l):
    n, r = span(lambda c: c in TCHAR, l)
    if not n or not r or r[0] != 58:
        return None
    return n, trim_ows(r[1:])


def parse_fields(o, ls):
    acc = []
    for l in ls:
        if not l:
            return None
        if l[0] in (32, 9):
            if not acc or not o["unfold"]:
                return None
            n, v = acc[-1]
            acc[-1] = (n, (v + b" " + trim_ows(l)).rstrip(b" \t"))
        else:
            f = parse_field_line(l)
            if f is None:
                return None
            acc.append(f)
    return acc


def ascii_lower(b):
    return bytes(c + 32 if 65 <= c <= 90 else c for c in b)


def field_values(lname, fs):
    return [v for n, v in fs if ascii_lower(n) == lname]


def list_elements(vals):
    out = []
    for v in vals:
        out += [trim_ows(e) for e in v.split(b",")]
    return [e for e in out if e]


def coding_name(e):
    n, r = span(lambda c: c in TCHAR, e)
    if not n:
        return None
    r = r.lstrip(b" \t")
    if not r or r[0] == 0x3b:
        return ascii_lower(n)
    return None


def parse_dec(s):
    if not s or not all(48 <= c <= 57 for c in s):
        return None
    return int(s)


def version_lt_11(v):
    if len(v) != 8:
        return True
    return v[5] < 49 or (v[5] == 0x31 and v[7] < 49)


def fields_body_length(is_request, version, fs):
    """-> None (invalid framing) | 'zero' | ('len', n) | 'chunked' | 'close'"""
    tes = field_values(b"transfer-encoding", fs)
    if tes:
        if version_lt_11(version):
            return None
        ns = [coding_name(e) for e in list_elements(tes)]
        if not ns or any(n is None for n in ns):
            return None
        if ns[-1] == b"chunked":
            return "chunked"
        return None if is_request else "close"
    cls = field_values(b"content-length", fs)
    if cls:
        es = list_elements(cls)
        if not es:
            return None
        ds = [parse_dec(e) for e in es]
        if any(d is None for d in ds) or any(d != ds[0] for d in ds):
            return None
        return ("len", ds[0])
    return "zero" if is_request else "close"


def response_body_length(req_method, status, version, fs):
    if req_method == b"HEAD":
        return "zero"
    if 100 <= status <= 199 or status in (204, 304):
        return "zero"
    if req_method == b"CONNECT" and 200 <= status <= 299:
        return "tunnel"
    return fields_body_length(False, version, fs)


def read_raw_line(s):
    i = s.find(b"\n")
    return None if i < 0 else (s[:i], s[i + 1:])


def parse_chunk_header(l):
    h, r = span(lambda c: c in HEXDIG, l)
    if not h:
        return None
    r = r.lstrip(b" \t")
    if not r or r[0] == 0x3b:
        return int(h, 16)
    return None


def dechunk(o, s):
    body = b""
    while True:
        x = read_raw_line(s)
        if x is None:
            raise RefErr(INCOMPLETE)
        l = clean_line(o, x[0])
        if l is None:
            raise RefErr(INVALID)
        rest = x[1]
        n = parse_chunk_header(l)
        if n is None:
            raise RefErr(INVALID)
        if n == 0:
            h = head_lines(rest)
            if h is None:
                raise RefErr(INCOMPLETE)
            raws, blank, rest2 = h
            ls = clean_lines(o, raws)
            if clean_line(o, blank) is None or ls is None:
                raise RefErr(INVALID)
            tr = parse_fields(o, ls)
            if tr is None:
                raise RefErr(INVALID)
            return body, tr, rest2
        if len(rest) < n + 2:
            raise RefErr(INCOMPLETE)
        if rest[n:n + 2] != b"\r\n":
            raise RefErr(INVALID)
        body += rest[:n]
        s = rest[n + 2:]


def read_body(o, bl, s):
    if bl in ("zero", "tunnel"):
        return b"", [], s
    if bl == "chunked":
        return dechunk(o, s)
    if bl == "close":
        return s, [], b""
    n = bl[1]
    if len(s) < n:
        raise RefErr(INCOMPLETE)
    return s[:n], [], s[n:]


def parse_head(o, s, start):
    h = head_lines(s)
    if h is None:
        raise RefErr(INCOMPLETE)
    raws, blank, rest = h
    ls = clean_lines(o, raws)
    if clean_line(o, blank) is None or not ls:
        raise RefErr(INVALID)
    st, fs = start(ls[0]), parse_fields(o, ls[1:])
    if st is None or fs is None:
        raise RefErr(INVALID)
    return st, fs, rest


def ref_parse_request(o, s):
    while s[:2] == b"\r\n":
        s = s[2:]
    (m, t, v), fs, rest = parse_head(o, s, parse_request_line)
    bl = fields_body_length(True, v, fs)
    if bl is None:
        raise RefErr(INVALID)
    body, tr, rest2 = read_body(o, bl, rest)
    return {"method": m, "target": t, "version": v, "fields": fs, "body": body, "trailers": tr}, rest2


def ref_parse_requests(o, s):
    out = []
    while s:
        q, s = ref_parse_request(o, s)
        out.append(q)
    return out


def ref_parse_response(o, m, s):
    (v, st, reason), fs, rest = parse_head(o, s, parse_status_line)
    bl = response_body_length(m, st, v, fs)
    if bl is None:
        raise RefErr(INVALID)
    body, tr, rest2 = read_body(o, bl, rest)
    return {"version": v, "status": st, "reason": reason, "fields": fs, "body": body, "trailers": tr, "close": bl == "close"}, rest2


def ref_parse_responses(o, methods, s):
    out = []
    for m in methods:
        if not s:
            return out
        p, s = ref_parse_response(o, m, s)
        out.append(p)
    if s:
        raise RefErr(INVALID)
    return out


STRICT = {"bare_lf_ok": False, "cr_as_sp": False, "unfold": False}
LENIENT = {"bare_lf_ok": True, "cr_as_sp": True, "unfold": True}

# =====================================================================================================================
# generators
# =====================================================================================================================
METHODS = [b"GET", b"POST", b"HEAD", b"PUT", b"CONNECT", b"OPTIONS", b"get", b"head", b"G(T", b"DELETE"]
VERSIONS = [b"HTTP/1.1", b"HTTP/1.1", b"HTTP/1.1", b"HTTP/1.0", b"HTTP/2.0", b"HTTP/1.2", b"http/1.1", b"HTTP/11", b"HTTP/1.1\x0b"]
TARGETS = [b"/", b"/a/b?c=d", b"*", b"http://example.com/", b"http://example.com/p?q", b"HTTP://example.com:8080/x", b"https://h.example/",
           b"example.com:443", b"http://example.com", b"ftp://example.com/", b"//x", b"/\xff\x00", b"http:/x", b"example.com", b"/a\x7fb"]
TE_VALUES = [b"chunked", b"Chunked", b"CHUNKED", b"gzip, chunked", b"gzip,chunked", b"gzip \t,\t chunked", b"deflate,chunked", b"compress , chunked",
             b"gzip", b"identity", b"deflate", b"compress", b"chunked, gzip", b"chunked,chunked", b"xchunked", b"chunked;q=1", b"", b",chunked",
             b"chunked,", b" chunked", b"chunked\x0b", b"chunk\xc3\xa9d", b"br", b"gzip,, chunked", b"gzip ,chunked", b"\tchunked"]
CL_VALUES = [b"0", b"5", b"10", b"3", b"05", b"+5", b"5 ", b" 5", b"5,5", b"5, 5", b"-1", b"abc", b"", b"0x10", b"1_0", b"5\n", b"12345678901234567890",
             b"\xd9\xa5", b"5\r\n 6", b"00", b"1"]
NAMES = [b"Host", b"Content-Length", b"content-length", b"CONTENT-LENGTH", b"Transfer-Encoding", b"transfer-encoding", b"TRANSFER-ENCODING",
         b"X-A", b"Accept", b"Connection", b"Expect", b"Content-Type", b"x_y", b"X-Long"]
BAD_NAMES = [b"Bad Name", b"Content-Length ", b"X(Y)", b"Transfer-Encoding\t", b"X\x00", b"\xc3\xa9", b"X/Y", b"Content-Length\x0b", b"X:"]
VALUES = [b"example.com", b"a", b"text/html", b"keep-alive", b"close", b"100-continue", b"", b"a b", b"a\tb", b"x" * 30, b"\xff\xfe", b"a,b , c"]
EVIL_VALUES = [b"a\rTransfer-Encoding: chunked", b"a\rb", b"a\x00b", b"a\x0bb", b"\x0ba", b"a\x01", b"a\rContent-Length: 7", b"\rb"]
WS = [b" ", b"", b"  ", b"\t", b" \t ", b"\x0b", b"\x0c"]


def gen_header_lines(rng, framing=None):
    """-> list of header lines (without terminators)"""
    lines = []
    n = rng.randint(0, 3)
    fr = framing if framing is not None else rng.weighted(
        [(20, "none"), (22, "cl"), (22, "te"), (8, "both"), (6, "cl2"), (5, "te2"), (5, "badname"), (6, "evil"), (6, "fold")])
    items = []
    for _ in range(n):
        items.append((rng.choice(NAMES[7:] + NAMES[:1]), rng.choice(VALUES)))
    clname = lambda: rng.choice([b"Content-Length", b"content-length", b"CONTENT-LENGTH", b"Content-length"])
    tename = lambda: rng.choice([b"Transfer-Encoding", b"transfer-encoding", b"TRANSFER-ENCODING"])
    if fr in ("cl", "both", "cl2"):
        items.append((clname(), rng.choice(CL_VALUES) if rng.chance(0.5) else rng.choice([b"0", b"3", b"5", b"10"])))
    if fr == "cl2":
        items.append((clname(), rng.choice(CL_VALUES[:6])))
    if fr in ("te", "both", "te2"):
        items.append((tename(), rng.choice(TE_VALUES) if rng.chance(0.6) else rng.choice(TE_VALUES[:12])))
    if fr == "te2":
        items.append((tename(), rng.choice(TE_VALUES[:10])))
    if fr == "badname":
        items.append((rng.choice(BAD_NAMES), rng.choice(VALUES)))
    if fr == "evil":
        items.append((rng.choice(NAMES[7:]), rng.choice(EVIL_VALUES)))
    rng.shuffle(items)
    for name, value in items:
        lines.append(name + b":" + rng.choice(WS) + value + rng.choice(WS))
    if fr == "fold" and lines:
        i = rng.randint(1, len(lines))
        lines.insert(i, rng.choice([b" ", b"\t", b"  "]) + rng.choice([b"cont", b"chunked", b"5", b"", b" x "]))
    elif fr == "fold":
        lines.append(b" leading")
    return lines


def mutate(rng, lines):
    lines = list(lines)
    if not lines:
        return lines
    k = rng.below(6)
    i = rng.below(len(lines))
    l = bytearray(lines[i])
    if k == 0 and l:
        l[rng.below(len(l))] = rng.choice([0, 9, 11, 13, 32, 58, 44, 127, 128, 255, 0x5f])
    elif k == 1:
        l[rng.below(len(l) + 1):0] = rng.choice([b" ", b"\r", b":", b"\t", b",", b"\x00", b"://", b"/"])
    elif k == 2 and l:
        del l[rng.below(len(l))]
    elif k == 3:
        lines.insert(i, lines[i])
        return lines
    elif k == 4:
        l = bytearray(bytes(l).swapcase())
    else:
        del lines[i]
        return lines
    lines[i] = bytes(l)
    return [x for x in lines if b"\n" not in x]


def gen_req_lines(rng):
    sep = lambda: rng.weighted([(12, b" "), (1, b"  "), (1, b"\t"), (1, b"\x0b")])
    first = rng.choice(METHODS[:6] if rng.chance(0.8) else METHODS) + sep() + rng.choice(TARGETS[:8] if rng.chance(0.75) else TARGETS) \
        + sep() + rng.choice(VERSIONS[:4] if rng.chance(0.8) else VERSIONS)
    if rng.chance(0.04):
        first = rng.choice([b"GET /", b"GET / HTTP/1.1 x", b"", b" GET / HTTP/1.1"])
    lines = [first] + gen_header_lines(rng)
    if rng.chance(0.3):
        lines = mutate(rng, lines)
    return lines


def gen_resp_lines(rng):
    first = rng.choice(VERSIONS[:4] if rng.chance(0.85) else VERSIONS) + b" " + \
        rng.choice([b"200", b"200", b"204", b"304", b"100", b"101", b"199", b"404", b"500", b"99", b"1000", b"+200", b"2_0_0", b"-5", b"2x", b"0200", b"205"]) + \
        rng.choice([b" OK", b" OK", b"", b" ", b" Not  Found ", b" a\rb", b"\tOK", b" \xff"])
    if rng.chance(0.04):
        first = rng.choice([b"HTTP/1.1", b"", b"HTTP/1.1  ", b"200 OK"])
    lines = [first] + gen_header_lines(rng)
    if rng.chance(0.3):
        lines = mutate(rng, lines)
    return lines


def gen_head_fields(rng):
    """a header list for the send-side cases (as an addon could leave it)"""
    hs = []
    for _ in range(rng.randint(0, 3)):
        hs.append((rng.choice(NAMES), rng.choice(VALUES + CL_VALUES[:4] + TE_VALUES[:6])))
    r = rng.random()
    if r < 0.35:
        hs.append((rng.choice(NAMES[4:7]), rng.choice(TE_VALUES)))
    elif r < 0.6:
        hs.append((rng.choice(NAMES[1:4]), rng.choice(CL_VALUES)))
    rng.shuffle(hs)
    return [[hx(n), hx(v)] for n, v in hs]


def gen_chunks(rng):
    n = rng.weighted([(3, 0), (4, 1), (3, 2), (2, 3)])
    sizes = [0, 1, 2, 9, 10, 15, 16, 17, 31, 255, 256, 300]
    return [hx(rng.bytes(rng.choice(sizes) if rng.chance(0.7) else rng.randint(0, 40), b"ab\r\n0123:;x\x00\xff")) for _ in range(n)]


CHUNK_TOK = [b"0\r\n\r\n", b"5\r\nhello\r\n", b"1\r\na\r\n", b"a\r\n0123456789\r\n", b"A\r\n0123456789\r\n", b"5;ext=1\r\nhello\r\n", b"5 ;x\r\nhello\r\n",
             b"0;last\r\n\r\n", b"0\r\nX-T: 1\r\n\r\n", b"5\nhello\n", b"5\r\nhelloXX", b"g\r\n", b"\r\n", b"05\r\nhello\r\n", b"5 x\r\nhello\r\n", b"0\r\n\r\r\n",
             b"000\r\n\r\n", b"1\r\n\r\r\n"]


def gen_ref_stream(rng, response):
    out = b""
    for _ in range(rng.randint(1, 3)):
        lines = gen_resp_lines(rng) if response else gen_req_lines(rng)
        if not lines or rng.chance(0.6):   # make the start line conformant more often
            lines = lines or [b""]
            lines[0] = (b"HTTP/1.1 " + rng.choice([b"200", b"204", b"304", b"404", b"100"]) + b" OK") if response else \
                (rng.choice(METHODS[:4]) + b" " + rng.choice(TARGETS[:4]) + b" HTTP/1.1")
        eol = rng.weighted([(10, b"\r\n"), (1, b"\n")])
        head = b"".join(l + eol for l in lines) + eol
        r = rng.random()
        if r < 0.4:
            body = b"".join(rng.choice(CHUNK_TOK[:9] if rng.chance(0.7) else CHUNK_TOK) for _ in range(rng.randint(0, 3))) + \
                (b"0\r\n\r\n" if rng.chance(0.7) else b"")
        elif r < 0.8:
            body = rng.bytes(rng.choice([0, 3, 5, 10]), b"abc\r\n")
        else:
            body = b""
        out += head + body
    if rng.chance(0.1) and out:
        out = out[:rng.below(len(out))]
    return out


def gen(rng, n, tier):
    out = []
    for _ in range(n):
        r = rng.random()
        if r < 0.28:
            out.append({"k": "req", "lines": [hx(l) for l in gen_req_lines(rng)]})
        elif r < 0.42:
            out.append({"k": "resp", "m": hx(rng.choice(METHODS[:6])), "lines": [hx(l) for l in gen_resp_lines(rng)]})
        elif r < 0.46:
            v = rng.choice(TE_VALUES) if rng.chance(0.7) else b"".join(rng.choice([b"chunked", b"gzip", b",", b" ", b"\t", b"identity", b"X", b"\xc3\xa9", b"\n", b"deflate", b"compress"]) for _ in range(rng.randint(0, 5)))
            out.append({"k": "te", "str": rng.chance(0.5), "v": hx(v)})
        elif r < 0.50:
            v = rng.choice(CL_VALUES) if rng.chance(0.7) else rng.bytes(rng.randint(0, 4), b"0123456789 \n_+-\xd9")
            out.append({"k": "cl", "str": rng.chance(0.5), "v": hx(v)})
        elif r < 0.56:
            out.append({"k": "fwdreq", "method": hx(rng.choice(METHODS)), "authority": hx(rng.choice([b"", b"", b"example.com", b"example.com:80"])),
                        "scheme": hx(rng.choice([b"http", b"https", b""])), "path": hx(rng.choice(TARGETS[:3])), "version": hx(rng.choice(VERSIONS[:4])),
                        "headers": gen_head_fields(rng), "chunks": gen_chunks(rng)})
        elif r < 0.60:
            out.append({"k": "fwdresp", "method": hx(rng.choice(METHODS)), "version": hx(rng.choice(VERSIONS[:4])),
                        "status": rng.choice([200, 200, 204, 304, 100, 404, 99, 1000, -5, 0]), "reason": hx(rng.choice([b"OK", b"", b"Not Found", b"a b "])),
                        "headers": gen_head_fields(rng), "chunks": gen_chunks(rng)})
        elif r < 0.62:
            out.append({"k": "asm", "headers": gen_head_fields(rng), "chunks": gen_chunks(rng), "trailers": hx(rng.choice([b"", b"", b"X-T: 1\r\n"]))})
        elif r < 0.76:
            resp = rng.chance(0.4)
            o = rng.choice([STRICT, LENIENT, {"bare_lf_ok": True, "cr_as_sp": False, "unfold": False}, {"bare_lf_ok": False, "cr_as_sp": True, "unfold": True}])
            c = {"k": "ref", "resp": resp, "o": o, "s": hx(gen_ref_stream(rng, resp))}
            if resp:
                c["methods"] = [hx(rng.choice(METHODS[:5])) for _ in range(rng.randint(1, 3))]
            out.append(c)
        else:
            out.append(gen_e2e(rng))
    return out


def gen_e2e(rng):
    return {"k": "te", "str": False, "v": hx(b"chunked")}   # replaced below


# =====================================================================================================================
# implementation runners
# =====================================================================================================================
def setup_impl():
    global read, validate, assemble, mhttp, url, _http1, hev, Driver, http_layers, HTTPMode, make_context
    from mitmproxy.net.http.http1 import read, assemble
    from mitmproxy.net.http import validate, url
    from mitmproxy import http as mhttp
    from mitmproxy.proxy.layers.http import _http1, _events as hev
    from mitmproxy.proxy.layers import http as http_layers
    from mitmproxy.proxy.layers.http import HTTPMode
    from lib.sansio import Driver, make_context


class UrlSpy:
    """records the calls read.py makes into the url module"""

    def __enter__(self):
        self.pa, self.up = None, True
        self.o_pa, self.o_up = url.parse_authority, url.parse
        spy = self

        def pa(authority, check):
            try:
                r = spy.o_pa(authority, check)
                if spy.pa is None:
                    spy.pa = (bytes(authority), (r[0].encode("utf-8", "surrogateescape"), r[1]))
                return r
            except ValueError:
                if spy.pa is None:
                    spy.pa = (bytes(authority), None)
                raise

        def up(target):
            try:
                return spy.o_up(target)
            except ValueError:
                spy.up = False
                raise
        url.parse_authority, url.parse = pa, up
        return self

    def __exit__(self, *a):
        url.parse_authority, url.parse = self.o_pa, self.o_up


def _fields(h):
    return [[hx(n), hx(v)] for n, v in h.fields]


def _valid(msg):
    try:
        validate.validate_headers(msg)
        return True
    except ValueError:
        return False


def run_req(lines):
    with UrlSpy() as spy:
        try:
            req = read.read_request_head(lines)
        except ValueError:
            return {"kind": 0, "pa": _pa(spy), "up": spy.up}
        except Exception as e:
            return {"kind": 3, "pa": _pa(spy), "up": spy.up, "exc": type(e).__name__}
    o = {"pa": _pa(spy), "up": spy.up, "method": hx(req.data.method), "scheme": hx(req.data.scheme), "authority": hx(req.data.authority),
         "path": hx(req.data.path), "version": hx(req.data.http_version), "port": req.data.port, "headers": _fields(req.headers)}
    try:
        size = read.expected_http_body_size(req)
    except ValueError:
        return dict(o, kind=1)
    except Exception as e:
        return dict(o, kind=3, exc=type(e).__name__)
    err = http_layers.validate_request(HTTPMode.regular, req, True)
    return dict(o, kind=2, size=[size], valid=err is None, hv=_valid(req))


def _pa(spy):
    if spy.pa is None:
        return None
    arg, res = spy.pa
    return [hx(arg), None if res is None else [hx(res[0]), res[1]]]


def run_resp(method, lines):
    req = mhttp.Request(host="", port=0, method=method, scheme=b"", authority=b"", path=b"/", http_version=b"HTTP/1.1",
                        headers=mhttp.Headers(), content=None, trailers=None, timestamp_start=0, timestamp_end=None)
    try:
        resp = read.read_response_head(lines)
    except ValueError:
        return {"kind": 0}
    except Exception as e:
        return {"kind": 3, "exc": type(e).__name__}
    o = {"version": hx(resp.data.http_version), "status": resp.data.status_code, "reason": hx(resp.data.reason), "headers": _fields(resp.headers)}
    try:
        size = read.expected_http_body_size(req, resp)
    except ValueError:
        return dict(o, kind=1)
    except Exception as e:
        return dict(o, kind=3, exc=type(e).__name__)
    return dict(o, kind=2, size=[size], valid=_valid(resp))


def _res(f):
    try:
        return ["ok", f()]
    except ValueError:
        return ["value"]
    except Exception as e:
        return ["other", type(e).__name__]


def _mk_req(c):
    return mhttp.Request(host="example.com", port=80, method=unhx(c["method"]), scheme=unhx(c["scheme"]), authority=unhx(c["authority"]),
                         path=unhx(c["path"]), http_version=unhx(c["version"]), headers=mhttp.Headers([(unhx(n), unhx(v)) for n, v in c["headers"]]),
                         content=None, trailers=None, timestamp_start=0, timestamp_end=None)


def _cmds(gen):
    from mitmproxy.proxy import commands
    out = []
    for c in gen:
        if isinstance(c, commands.SendData):
            out.append(["send", hx(c.data)])
        elif isinstance(c, commands.CloseTcpConnection) and c.half_close:
            out.append(["halfclose"])
        elif isinstance(c, commands.CloseConnection):
            out.append(["close"])
        else:
            out.append(["cmd", type(c).__name__])
    return out


def run_fwdreq(c):
    ctx = make_context()
    from mitmproxy import connection
    ctx.server = connection.Server(address=("example.com", 80))
    cl = _http1.Http1Client(ctx)
    req = _mk_req(c)

    def go():
        out = []
        out += _cmds(cl.send(hev.RequestHeaders(1, req, False)))
        for ch in c["chunks"]:
            out += _cmds(cl.send(hev.RequestData(1, unhx(ch))))
        out += _cmds(cl.send(hev.RequestEndOfMessage(1)))
        return out
    return {"r": _res(go)}


def run_fwdresp(c):
    ctx = make_context()
    sv = _http1.Http1Server(ctx)
    sv.request = _mk_req({"method": c["method"], "scheme": "", "authority": "", "path": "2f", "version": hx(b"HTTP/1.1"), "headers": []})
    resp = mhttp.Response(http_version=unhx(c["version"]), status_code=c["status"], reason=unhx(c["reason"]),
                          headers=mhttp.Headers([(unhx(n), unhx(v)) for n, v in c["headers"]]), content=None, trailers=None,
                          timestamp_start=0, timestamp_end=None)
    sv.request_done = False   # the response ends before the request: mark_done changes no connection state we observe
    out = []
    out += _cmds(sv.send(hev.ResponseHeaders(1, resp, False)))
    for ch in c["chunks"]:
        out += _cmds(sv.send(hev.ResponseData(1, unhx(ch))))
    out += _cmds(sv.send(hev.ResponseEndOfMessage(1)))
    return {"r": out}


def run_ref(c):
    s = unhx(c["s"])
    try:
        if c["resp"]:
            return {"r": ["ok", ref_parse_responses(c["o"], [unhx(m) for m in c["methods"]], s)]}
        return {"r": ["ok", ref_parse_requests(c["o"], s)]}
    except RefErr as e:
        return {"r": [e.kind]}


def _jsonable(x):
    if isinstance(x, (bytes, bytearray)):
        return hx(x)
    if isinstance(x, dict):
        return {k: _jsonable(v) for k, v in x.items()}
    if isinstance(x, (list, tuple)):
        return [_jsonable(v) for v in x]
    return x


def run_impl(case):
    k = case["k"]
    if k == "req":
        return run_req([unhx(l) for l in case["lines"]])
    if k == "resp":
        return run_resp(unhx(case["m"]), [unhx(l) for l in case["lines"]])
    if k in ("te", "cl"):
        v = unhx(case["v"])
        arg = v.decode("utf-8", "surrogateescape") if case["str"] else v
        f = validate.parse_transfer_encoding if k == "te" else validate.parse_content_length
        r = _res(lambda: f(arg))
        if r[0] == "ok" and k == "te":
            r[1] = hx(r[1].encode("utf-8", "surrogateescape") if isinstance(r[1], str) else r[1])
        return {"r": r}
    if k == "fwdreq":
        return run_fwdreq(case)
    if k == "fwdresp":
        return run_fwdresp(case)
    if k == "asm":
        h = mhttp.Headers([(unhx(n), unhx(v)) for n, v in case["headers"]])
        return {"r": _jsonable(_res(lambda: b"".join(assemble.assemble_body(h, [unhx(x) for x in case["chunks"]], unhx(case["trailers"]) or None))))}
    if k == "ref":
        return _jsonable(run_ref(case))
    if k == "e2e":
        return run_e2e(case)
    raise ValueError(k)


# =====================================================================================================================
# Coq terms
# =====================================================================================================================
B = lambda h: cbytes(unhx(h))
def chdrs(hs):
    return clist([cpair(B(n), B(v)) for n, v in hs], "header")
def clines(ls):
    return clist([B(l) for l in ls], "bytes")
def csize(s):
    return copt(s[0], cZ, "Z")
def ccmds(cs):
    for c in cs:
        if c[0] not in ("send", "halfclose"):
            return None
    return clist([f"(Send {B(c[1])})" if c[0] == "send" else "HalfClose" for c in cs], "cmd")
def crres(r, f, ty):
    if r[0] == "ok":
        t = f(r[1])
        return None if t is None else f"(ROk {t})"
    return f"(@RValueError {ty})" if r[0] == "value" else f"(@ROther {ty})"
def copts(o):
    return f"(mkOpts {cbool(o['bare_lf_ok'])} {cbool(o['cr_as_sp'])} {cbool(o['unfold'])})"
def cfields(fs):
    return clist([cpair(B(n), B(v)) for n, v in fs], "field")


def coq_case(case, obs):
    k = case["k"]
    if k == "req":
        pa = obs["pa"]
        pa_arg = copt(pa[0] if pa else None, B, "bytes")
        pa_res = copt(pa[1] if pa else None, lambda r: cpair(B(r[0]), copt(r[1], cN, "N")), "(bytes * option N)")
        if obs["kind"] in (0, 3):
            ro = f"(RO {cN(obs['kind'])} [] [] [] [] [] 0%N [] None false)"
        else:
            ro = (f"(RO {cN(obs['kind'])} {B(obs['method'])} {B(obs['scheme'])} {B(obs['authority'])} {B(obs['path'])} {B(obs['version'])} "
                  f"{cN(obs['port'])} {chdrs(obs['headers'])} {csize(obs['size']) if obs['kind'] == 2 else 'None'} {cbool(obs.get('valid', False))})")
        return f"ReqHead {clines(case['lines'])} {pa_arg} {pa_res} {cbool(obs['up'])} {ro}"
    if k == "resp":
        if obs["kind"] in (0, 3):
            po = f"(PO {cN(obs['kind'])} [] 0%Z [] [] None false)"
        else:
            po = (f"(PO {cN(obs['kind'])} {B(obs['version'])} {cZ(obs['status'])} {B(obs['reason'])} {chdrs(obs['headers'])} "
                  f"{csize(obs['size']) if obs['kind'] == 2 else 'None'} {cbool(obs.get('valid', False))})")
        return f"RespHead {B(case['m'])} {clines(case['lines'])} {po}"
    if k == "te":
        return f"Te {cbool(case['str'])} {B(case['v'])} {crres(obs['r'], B, 'bytes')}"
    if k == "cl":
        return f"Cl {cbool(case['str'])} {B(case['v'])} {crres(obs['r'], cZ, 'Z')}"
    if k == "fwdreq":
        t = crres(obs["r"], ccmds, "(list cmd)")
        if t is None:
            return None
        r = (f"(mkReq [] 0%N {B(case['method'])} {B(case['scheme'])} {B(case['authority'])} {B(case['path'])} {B(case['version'])} {chdrs(case['headers'])})")
        return f"FwdReq {r} {clines(case['chunks'])} {t}"
    if k == "fwdresp":
        t = ccmds(obs["r"])
        if t is None:
            return None
        q = f"(mkReq [] 0%N {B(case['method'])} [] [] [x2f] HTTP11 [])"
        r = f"(mkResp {B(case['version'])} {cZ(case['status'])} {B(case['reason'])} {chdrs(case['headers'])})"
        return f"FwdResp {q} {r} {clines(case['chunks'])} {t}"
    if k == "asm":
        return f"AsmBody {chdrs(case['headers'])} {clines(case['chunks'])} {B(case['trailers'])} {crres(obs['r'], B, 'bytes')}"
    if k == "ref":
        r = obs["r"]
        if case["resp"]:
            ty = "(list ref_response)"
            if r[0] == "ok":
                t = "(FOk " + clist([f"(mkRefResp {B(p['version'])} {cN(p['status'])} {B(p['reason'])} {cfields(p['fields'])} {B(p['body'])} {cfields(p['trailers'])} {cbool(p['close'])})"
                                     for p in r[1]], "ref_response") + ")"
            else:
                t = f"(@FIncomplete {ty})" if r[0] == INCOMPLETE else f"(@FInvalid {ty})"
            return f"RefResps {copts(case['o'])} {clines(case['methods'])} {B(case['s'])} {t}"
        ty = "(list ref_request)"
        if r[0] == "ok":
            t = "(FOk " + clist([f"(mkRefReq {B(q['method'])} {B(q['target'])} {B(q['version'])} {cfields(q['fields'])} {B(q['body'])} {cfields(q['trailers'])})"
                                 for q in r[1]], "ref_request") + ")"
        else:
            t = f"(@FIncomplete {ty})" if r[0] == INCOMPLETE else f"(@FInvalid {ty})"
        return f"RefReqs {copts(case['o'])} {B(case['s'])} {t}"
    return None


# =====================================================================================================================
# oracle: the property on the implementation
# =====================================================================================================================
def oracle(case, obs):
    k = case["k"]
    if k == "e2e":
        return oracle_e2e(case, obs)
    return []


def run_e2e(case):
    return {}


def oracle_e2e(case, obs):
    return []


def nontrivial(case, obs):
    k = case["k"]
    if k in ("req", "resp"):
        return obs["kind"] in (1, 2)
    if k in ("te", "cl"):
        return True
    if k in ("fwdreq", "fwdresp", "asm"):
        return True
    if k == "ref":
        return obs["r"][0] == "ok" and len(obs["r"][1]) > 0 or obs["r"][0] == INVALID
    return bool(obs.get("up") or obs.get("down"))


def classify(case, obs):
    k = case["k"]
    tags = [k]
    if k in ("req", "resp"):
        tags.append(f"{k}-kind{obs['kind']}")
        if obs["kind"] == 2:
            s = obs["size"][0]
            tags.append(f"{k}-size-" + ("chunked" if s is None else "eof" if s == -1 else "zero" if s == 0 else "len"))
            tags.append(f"{k}-valid" if obs["valid"] else f"{k}-rejected")
    elif k in ("te", "cl", "fwdreq", "asm"):
        tags.append(f"{k}-{obs['r'][0]}")
    elif k == "ref":
        tags.append("ref-" + ("resp-" if case["resp"] else "req-") + obs["r"][0])
    return tags
