"""C01 -- HTTP/1 forwarding is framing-consistent (no request or response desync).
net/http/http1/read.py, assemble.py, net/http/validate.py, proxy/layers/http/_http1.py, layers/http/__init__.py."""
from lib.coqterm import cN, cZ, cbool, cbytes, clist, copt, cpair

ID = "C01"
QUICK_N = 1500
THOROUGH_N = 8000
SHARD = 130
TRANSLATORS = ["body_size"]
COQ_PRELUDE = "From MV Require Import Model.Http1Msg Model.BodySizePrelude Model.Http1Conn Model.Rfc9112 Model.Http1Edit.\n"
RULE = ("28% request heads and 14% response heads as line lists from a grammar (methods incl. HEAD/CONNECT, origin/absolute/"
        "authority/asterisk targets, HTTP/1.0/1.1, CL/TE/both/duplicates/whitespace and case variants/unknown codings, obs-fold, "
        "bare CR, NUL, invalid names) with 30% byte-level mutations; 8% parse_transfer_encoding / parse_content_length on "
        "arbitrary strings; 12% Http1Client.send / Http1Server.send / assemble_body on heads with chunk lists; 14% reference-"
        "parser streams (tie of the Python port to Rfc9112.v); 24% end-to-end exchanges through a real HttpLayer (regular mode, "
        "pipelined requests, server responses, addon policies pass/edit-headers/edit-body/set-response/stream). Non-trivial = "
        "reaches a framing decision (head accepted, or rejected by validation) or forwards bytes; distinct by canonical JSON.")
TRUSTED = ["Coq 8.16.1 kernel; vm_compute for case evaluation",
           "harness/translators/body_size.py (ast + sre parse tree -> Gallina) and Model/BodySizePrelude.v (derivative matcher, model of re.match/^$ and of re.sub for the shape C1* lit C2*); tied by correspondence on parse_* and head cases",
           "hand model Model/Http1Msg.v of bytes.split/strip/partition/int()/%d/%x, Headers.get folding; tied by correspondence",
           "url.parse_authority / url.parse are parameters of the model (observed results are inputs of the case)",
           "Model/Rfc9112.v is the specification (written from RFC 9112); the oracle uses a Python port tied to it by RefReqs/RefResps correspondence cases",
           "h11 ReceiveBuffer line extraction and body readers are not modelled here (C02); they are exercised by the end-to-end oracle"]
ASSUMPTIONS = ["str values are the utf-8/surrogateescape decoding of the header bytes; isascii/lower/regex/int agree between both representations",
               "addon edits keep header names tokens and values free of CR/LF/NUL (Inv_head); edits outside this are the addon's responsibility",
               "lines handed to read_*_head contain no LF (guaranteed by the line extraction, C02)"]

hx = lambda b: bytes(b).hex()
unhx = bytes.fromhex

# =====================================================================================================================
# Python port of coq/Model/Rfc9112.v (kept line by line; tied to the Coq definitions by RefReqs / RefResps cases)
# =====================================================================================================================
TCHAR = set(b"!#$%&'*+-.^_`|~0123456789abcdefghijklmnopqrstuvwxyzABCDEFGHIJKLMNOPQRSTUVWXYZ")
HEXDIG = set(b"0123456789abcdefABCDEF")
INCOMPLETE, INVALID = "incomplete", "invalid"


class RefErr(Exception):
    def __init__(self, kind):
        self.kind = kind


def is_vchar_obs(c):
    return 33 <= c <= 126 or c >= 128


def span(p, s):
    i = 0
    while i < len(s) and p(s[i]):
        i += 1
    return s[:i], s[i:]


def trim_ows(s):
    return s.strip(b" \t")


def head_lines(s):
    """-> (raw lines, blank raw line, rest) or None"""
    lines, pos = [], 0
    while True:
        i = s.find(b"\n", pos)
        if i < 0:
            return None
        line = s[pos:i]
        pos = i + 1
        if line in (b"", b"\r"):
            return lines, line, s[pos:]
        lines.append(line)


def clean_line(o, raw):
    if raw.endswith(b"\r"):
        l = raw[:-1]
    elif o["bare_lf_ok"]:
        l = raw
    else:
        return None
    if b"\r" in l or b"\x00" in l:
        if o["cr_as_sp"]:
            return l.replace(b"\r", b" ").replace(b"\x00", b" ")
        return None
    return l


def clean_lines(o, raws):
    out = [clean_line(o, r) for r in raws]
    return None if any(x is None for x in out) else out


def is_http_version(v):
    return len(v) == 8 and v[:5] == b"HTTP/" and 48 <= v[5] <= 57 and v[6] == 46 and 48 <= v[7] <= 57


def parse_request_line(l):
    m, r1 = span(lambda c: c in TCHAR, l)
    if not m or not r1 or r1[0] != 32:
        return None
    t, r3 = span(is_vchar_obs, r1[1:])
    if not t or not r3 or r3[0] != 32 or not is_http_version(r3[1:]):
        return None
    return m, t, r3[1:]


def parse_status_line(l):
    if len(l) < 13:
        return None
    v, sp, d, sp2, reason = l[:8], l[8], l[9:12], l[12], l[13:]
    if not (is_http_version(v) and sp == 32 and sp2 == 32 and all(48 <= c <= 57 for c in d)
            and all(c in (32, 9) or is_vchar_obs(c) for c in reason)):
        return None
    return v, int(d), reason


def parse_field_line(l):
    n, r = span(lambda c: c in TCHAR, l)
    if not n or not r or r[0] != 58:
        return None
    return n, trim_ows(r[1:])


def parse_fields(o, ls):
    acc = []
    for l in ls:
        if not l:
            return None
        if l[0] in (32, 9):
            if not acc or not o["unfold"]:
                return None
            n, v = acc[-1]
            acc[-1] = (n, (v + b" " + trim_ows(l)).rstrip(b" \t"))
        else:
            f = parse_field_line(l)
            if f is None:
                return None
            acc.append(f)
    return acc


def ascii_lower(b):
    return bytes(c + 32 if 65 <= c <= 90 else c for c in b)


def field_values(lname, fs):
    return [v for n, v in fs if ascii_lower(n) == lname]


def list_elements(vals):
    out = []
    for v in vals:
        out += [trim_ows(e) for e in v.split(b",")]
    return [e for e in out if e]


def coding_name(e):
    n, r = span(lambda c: c in TCHAR, e)
    if not n:
        return None
    r = r.lstrip(b" \t")
    if not r or r[0] == 0x3b:
        return ascii_lower(n)
    return None


def parse_dec(s):
    if not s or not all(48 <= c <= 57 for c in s):
        return None
    return int(s)


def version_lt_11(v):
    if len(v) != 8:
        return True
    return v[5] < 49 or (v[5] == 0x31 and v[7] < 49)


def fields_body_length(is_request, version, fs):
    """-> None (invalid framing) | 'zero' | ('len', n) | 'chunked' | 'close'"""
    tes = field_values(b"transfer-encoding", fs)
    if tes:
        if version_lt_11(version):
            return None
        ns = [coding_name(e) for e in list_elements(tes)]
        if not ns or any(n is None for n in ns):
            return None
        if ns[-1] == b"chunked":
            return "chunked"
        return None if is_request else "close"
    cls = field_values(b"content-length", fs)
    if cls:
        es = list_elements(cls)
        if not es:
            return None
        ds = [parse_dec(e) for e in es]
        if any(d is None for d in ds) or any(d != ds[0] for d in ds):
            return None
        return ("len", ds[0])
    return "zero" if is_request else "close"


def response_body_length(req_method, status, version, fs):
    if req_method == b"HEAD":
        return "zero"
    if 100 <= status <= 199 or status in (204, 304):
        return "zero"
    if req_method == b"CONNECT" and 200 <= status <= 299:
        return "tunnel"
    return fields_body_length(False, version, fs)


def read_raw_line(s):
    i = s.find(b"\n")
    return None if i < 0 else (s[:i], s[i + 1:])


def parse_chunk_header(l):
    h, r = span(lambda c: c in HEXDIG, l)
    if not h:
        return None
    r = r.lstrip(b" \t")
    if not r or r[0] == 0x3b:
        return int(h, 16)
    return None


def dechunk(o, s):
    body = b""
    while True:
        x = read_raw_line(s)
        if x is None:
            raise RefErr(INCOMPLETE)
        l = clean_line(o, x[0])
        if l is None:
            raise RefErr(INVALID)
        rest = x[1]
        n = parse_chunk_header(l)
        if n is None:
            raise RefErr(INVALID)
        if n == 0:
            h = head_lines(rest)
            if h is None:
                raise RefErr(INCOMPLETE)
            raws, blank, rest2 = h
            ls = clean_lines(o, raws)
            if clean_line(o, blank) is None or ls is None:
                raise RefErr(INVALID)
            tr = parse_fields(o, ls)
            if tr is None:
                raise RefErr(INVALID)
            return body, tr, rest2
        if len(rest) < n + 2:
            raise RefErr(INCOMPLETE)
        if rest[n:n + 2] != b"\r\n":
            raise RefErr(INVALID)
        body += rest[:n]
        s = rest[n + 2:]


def read_body(o, bl, s):
    if bl in ("zero", "tunnel"):
        return b"", [], s
    if bl == "chunked":
        return dechunk(o, s)
    if bl == "close":
        return s, [], b""
    n = bl[1]
    if len(s) < n:
        raise RefErr(INCOMPLETE)
    return s[:n], [], s[n:]


def parse_head(o, s, start):
    h = head_lines(s)
    if h is None:
        raise RefErr(INCOMPLETE)
    raws, blank, rest = h
    ls = clean_lines(o, raws)
    if clean_line(o, blank) is None or not ls:
        raise RefErr(INVALID)
    st, fs = start(ls[0]), parse_fields(o, ls[1:])
    if st is None or fs is None:
        raise RefErr(INVALID)
    return st, fs, rest


def ref_parse_request(o, s):
    while s[:2] == b"\r\n":
        s = s[2:]
    (m, t, v), fs, rest = parse_head(o, s, parse_request_line)
    bl = fields_body_length(True, v, fs)
    if bl is None:
        raise RefErr(INVALID)
    body, tr, rest2 = read_body(o, bl, rest)
    return {"method": m, "target": t, "version": v, "fields": fs, "body": body, "trailers": tr}, rest2


def ref_parse_requests(o, s):
    out = []
    while s:
        q, s = ref_parse_request(o, s)
        out.append(q)
    return out


def ref_parse_response(o, m, s):
    (v, st, reason), fs, rest = parse_head(o, s, parse_status_line)
    bl = response_body_length(m, st, v, fs)
    if bl is None:
        raise RefErr(INVALID)
    body, tr, rest2 = read_body(o, bl, rest)
    return {"version": v, "status": st, "reason": reason, "fields": fs, "body": body, "trailers": tr, "close": bl == "close"}, rest2


def ref_parse_responses(o, methods, s):
    out = []
    for m in methods:
        if not s:
            return out
        p, s = ref_parse_response(o, m, s)
        out.append(p)
    if s:
        raise RefErr(INVALID)
    return out


STRICT = {"bare_lf_ok": False, "cr_as_sp": False, "unfold": False}
LENIENT = {"bare_lf_ok": True, "cr_as_sp": True, "unfold": True}

# =====================================================================================================================
# generators
# =====================================================================================================================
METHODS = [b"GET", b"POST", b"HEAD", b"PUT", b"CONNECT", b"OPTIONS", b"get", b"head", b"G(T", b"DELETE"]
VERSIONS = [b"HTTP/1.1", b"HTTP/1.1", b"HTTP/1.1", b"HTTP/1.0", b"HTTP/2.0", b"HTTP/1.2", b"http/1.1", b"HTTP/11", b"HTTP/1.1\x0b"]
TARGETS = [b"/", b"/a/b?c=d", b"*", b"http://example.com/", b"http://example.com/p?q", b"HTTP://example.com:8080/x", b"https://h.example/",
           b"example.com:443", b"http://example.com", b"ftp://example.com/", b"//x", b"/\xff\x00", b"http:/x", b"example.com", b"/a\x7fb"]
TE_VALUES = [b"chunked", b"Chunked", b"CHUNKED", b"gzip, chunked", b"gzip,chunked", b"gzip \t,\t chunked", b"deflate,chunked", b"compress , chunked",
             b"gzip", b"identity", b"deflate", b"compress", b"chunked, gzip", b"chunked,chunked", b"xchunked", b"chunked;q=1", b"", b",chunked",
             b"chunked,", b" chunked", b"chunked\x0b", b"chunk\xc3\xa9d", b"br", b"gzip,, chunked", b"gzip ,chunked", b"\tchunked"]
CL_VALUES = [b"0", b"5", b"10", b"3", b"05", b"+5", b"5 ", b" 5", b"5,5", b"5, 5", b"-1", b"abc", b"", b"0x10", b"1_0", b"5\n", b"12345678901234567890",
             b"\xd9\xa5", b"5\r\n 6", b"00", b"1"]
NAMES = [b"Host", b"Content-Length", b"content-length", b"CONTENT-LENGTH", b"Transfer-Encoding", b"transfer-encoding", b"TRANSFER-ENCODING",
         b"X-A", b"Accept", b"Connection", b"Expect", b"Content-Type", b"x_y", b"X-Long"]
BAD_NAMES = [b"Bad Name", b"Content-Length ", b"X(Y)", b"Transfer-Encoding\t", b"X\x00", b"\xc3\xa9", b"X/Y", b"Content-Length\x0b", b"X:"]
VALUES = [b"example.com", b"a", b"text/html", b"keep-alive", b"close", b"100-continue", b"", b"a b", b"a\tb", b"x" * 30, b"\xff\xfe", b"a,b , c"]
EVIL_VALUES = [b"a\rTransfer-Encoding: chunked", b"a\rb", b"a\x00b", b"a\x0bb", b"\x0ba", b"a\x01", b"a\rContent-Length: 7", b"\rb"]
WS = [b" ", b"", b"  ", b"\t", b" \t ", b"\x0b", b"\x0c"]
CE_VALUES = [b"gzip", b"identity", b"deflate", b"x-custom", b"gzip, br", b"utf-8", b"GZIP", b"br", b"", b"none", b"zstd", b"latin-1"]


def gen_header_lines(rng, framing=None):
    """-> list of header lines (without terminators)"""
    lines = []
    n = rng.randint(0, 3)
    fr = framing if framing is not None else rng.weighted(
        [(20, "none"), (22, "cl"), (22, "te"), (8, "both"), (6, "cl2"), (5, "te2"), (5, "badname"), (6, "evil"), (6, "fold")])
    items = []
    for _ in range(n):
        items.append((rng.choice(NAMES[7:] + NAMES[:1]), rng.choice(VALUES)))
    clname = lambda: rng.choice([b"Content-Length", b"content-length", b"CONTENT-LENGTH", b"Content-length"])
    tename = lambda: rng.choice([b"Transfer-Encoding", b"transfer-encoding", b"TRANSFER-ENCODING"])
    if fr in ("cl", "both", "cl2"):
        items.append((clname(), rng.choice(CL_VALUES) if rng.chance(0.5) else rng.choice([b"0", b"3", b"5", b"10"])))
    if fr == "cl2":
        items.append((clname(), rng.choice(CL_VALUES[:6])))
    if fr in ("te", "both", "te2"):
        items.append((tename(), rng.choice(TE_VALUES) if rng.chance(0.6) else rng.choice(TE_VALUES[:12])))
    if fr == "te2":
        items.append((tename(), rng.choice(TE_VALUES[:10])))
    if fr == "badname":
        items.append((rng.choice(BAD_NAMES), rng.choice(VALUES)))
    if fr == "evil":
        items.append((rng.choice(NAMES[7:]), rng.choice(EVIL_VALUES)))
    rng.shuffle(items)
    for name, value in items:
        lines.append(name + b":" + rng.choice(WS) + value + rng.choice(WS))
    if fr == "fold" and lines:
        i = rng.randint(1, len(lines))
        lines.insert(i, rng.choice([b" ", b"\t", b"  "]) + rng.choice([b"cont", b"chunked", b"5", b"", b" x "]))
    elif fr == "fold":
        lines.append(b" leading")
    return lines


def mutate(rng, lines):
    lines = list(lines)
    if not lines:
        return lines
    k = rng.below(6)
    i = rng.below(len(lines))
    l = bytearray(lines[i])
    if k == 0 and l:
        l[rng.below(len(l))] = rng.choice([0, 9, 11, 13, 32, 58, 44, 127, 128, 255, 0x5f])
    elif k == 1:
        l[rng.below(len(l) + 1):0] = rng.choice([b" ", b"\r", b":", b"\t", b",", b"\x00", b"://", b"/"])
    elif k == 2 and l:
        del l[rng.below(len(l))]
    elif k == 3:
        lines.insert(i, lines[i])
        return lines
    elif k == 4:
        l = bytearray(bytes(l).swapcase())
    else:
        del lines[i]
        return lines
    lines[i] = bytes(l)
    return [x for x in lines if b"\n" not in x]


def gen_req_lines(rng):
    sep = lambda: rng.weighted([(12, b" "), (1, b"  "), (1, b"\t"), (1, b"\x0b")])
    first = rng.choice(METHODS[:6] if rng.chance(0.8) else METHODS) + sep() + rng.choice(TARGETS[:8] if rng.chance(0.75) else TARGETS) \
        + sep() + rng.choice(VERSIONS[:4] if rng.chance(0.8) else VERSIONS)
    if rng.chance(0.04):
        first = rng.choice([b"GET /", b"GET / HTTP/1.1 x", b"", b" GET / HTTP/1.1"])
    lines = [first] + gen_header_lines(rng)
    if rng.chance(0.3):
        lines = mutate(rng, lines)
    return lines


def gen_resp_lines(rng):
    first = rng.choice(VERSIONS[:4] if rng.chance(0.85) else VERSIONS) + b" " + \
        rng.choice([b"200", b"200", b"204", b"304", b"100", b"101", b"199", b"404", b"500", b"99", b"1000", b"+200", b"2_0_0", b"-5", b"2x", b"0200", b"205"]) + \
        rng.choice([b" OK", b" OK", b"", b" ", b" Not  Found ", b" a\rb", b"\tOK", b" \xff"])
    if rng.chance(0.04):
        first = rng.choice([b"HTTP/1.1", b"", b"HTTP/1.1  ", b"200 OK"])
    lines = [first] + gen_header_lines(rng)
    if rng.chance(0.3):
        lines = mutate(rng, lines)
    return lines


def gen_head_fields(rng):
    """a header list for the send-side cases (as an addon could leave it)"""
    hs = []
    for _ in range(rng.randint(0, 3)):
        hs.append((rng.choice(NAMES), rng.choice(VALUES + CL_VALUES[:4] + TE_VALUES[:6])))
    r = rng.random()
    if r < 0.35:
        hs.append((rng.choice(NAMES[4:7]), rng.choice(TE_VALUES)))
    elif r < 0.6:
        hs.append((rng.choice(NAMES[1:4]), rng.choice(CL_VALUES)))
    rng.shuffle(hs)
    return [[hx(n), hx(v)] for n, v in hs]


def gen_chunks(rng):
    n = rng.weighted([(3, 0), (4, 1), (3, 2), (2, 3)])
    sizes = [0, 1, 2, 9, 10, 15, 16, 17, 31, 255, 256, 300]
    return [hx(rng.bytes(rng.choice(sizes) if rng.chance(0.7) else rng.randint(0, 40), b"ab\r\n0123:;x\x00\xff")) for _ in range(n)]


CHUNK_TOK = [b"0\r\n\r\n", b"5\r\nhello\r\n", b"1\r\na\r\n", b"a\r\n0123456789\r\n", b"A\r\n0123456789\r\n", b"5;ext=1\r\nhello\r\n", b"5 ;x\r\nhello\r\n",
             b"0;last\r\n\r\n", b"0\r\nX-T: 1\r\n\r\n", b"5\nhello\n", b"5\r\nhelloXX", b"g\r\n", b"\r\n", b"05\r\nhello\r\n", b"5 x\r\nhello\r\n", b"0\r\n\r\r\n",
             b"000\r\n\r\n", b"1\r\n\r\r\n"]


def gen_ref_stream(rng, response):
    out = b""
    for _ in range(rng.randint(1, 3)):
        lines = gen_resp_lines(rng) if response else gen_req_lines(rng)
        if not lines or rng.chance(0.6):   # make the start line conformant more often
            lines = lines or [b""]
            lines[0] = (b"HTTP/1.1 " + rng.choice([b"200", b"204", b"304", b"404", b"100"]) + b" OK") if response else \
                (rng.choice(METHODS[:4]) + b" " + rng.choice(TARGETS[:4]) + b" HTTP/1.1")
        eol = rng.weighted([(10, b"\r\n"), (1, b"\n")])
        head = b"".join(l + eol for l in lines) + eol
        r = rng.random()
        if r < 0.4:
            body = b"".join(rng.choice(CHUNK_TOK[:9] if rng.chance(0.7) else CHUNK_TOK) for _ in range(rng.randint(0, 3))) + \
                (b"0\r\n\r\n" if rng.chance(0.7) else b"")
        elif r < 0.8:
            body = rng.bytes(rng.choice([0, 3, 5, 10]), b"abc\r\n")
        else:
            body = b""
        out += head + body
    if rng.chance(0.1) and out:
        out = out[:rng.below(len(out))]
    return out


def gen(rng, n, tier):
    out = []
    for _ in range(n):
        r = rng.random()
        if r < 0.05:
            hs = gen_head_fields(rng)
            for _ in range(rng.weighted([(2, 0), (5, 1), (1, 2)])):
                hs.insert(rng.below(len(hs) + 1), [hx(rng.choice([b"Content-Encoding", b"content-encoding", b"CONTENT-ENCODING"])), hx(rng.choice(CE_VALUES))])
            out.append({"k": "setc", "resp": rng.chance(0.5), "headers": hs, "value": hx(gen_body(rng))})
        elif r < 0.28:
            out.append({"k": "req", "lines": [hx(l) for l in gen_req_lines(rng)]})
        elif r < 0.42:
            out.append({"k": "resp", "m": hx(rng.choice(METHODS[:6])), "lines": [hx(l) for l in gen_resp_lines(rng)]})
        elif r < 0.46:
            v = rng.choice(TE_VALUES) if rng.chance(0.7) else b"".join(rng.choice([b"chunked", b"gzip", b",", b" ", b"\t", b"identity", b"X", b"\xc3\xa9", b"\n", b"deflate", b"compress"]) for _ in range(rng.randint(0, 5)))
            out.append({"k": "te", "str": rng.chance(0.5), "v": hx(v)})
        elif r < 0.50:
            v = rng.choice(CL_VALUES) if rng.chance(0.7) else rng.bytes(rng.randint(0, 4), b"0123456789 \n_+-\xd9")
            out.append({"k": "cl", "str": rng.chance(0.5), "v": hx(v)})
        elif r < 0.56:
            out.append({"k": "fwdreq", "method": hx(rng.choice(METHODS)), "authority": hx(rng.choice([b"", b"", b"example.com", b"example.com:80"])),
                        "scheme": hx(rng.choice([b"http", b"https", b""])), "path": hx(rng.choice(TARGETS[:3])), "version": hx(rng.choice(VERSIONS[:4])),
                        "headers": gen_head_fields(rng), "chunks": gen_chunks(rng)})
        elif r < 0.60:
            out.append({"k": "fwdresp", "method": hx(rng.choice(METHODS)), "version": hx(rng.choice(VERSIONS[:4])),
                        "status": rng.choice([200, 200, 204, 304, 100, 404, 99, 1000, -5, 0]), "reason": hx(rng.choice([b"OK", b"", b"Not Found", b"a b "])),
                        "headers": gen_head_fields(rng), "chunks": gen_chunks(rng)})
        elif r < 0.62:
            out.append({"k": "asm", "headers": gen_head_fields(rng), "chunks": gen_chunks(rng), "trailers": hx(rng.choice([b"", b"", b"X-T: 1\r\n"]))})
        elif r < 0.76:
            resp = rng.chance(0.4)
            o = rng.choice([STRICT, LENIENT, {"bare_lf_ok": True, "cr_as_sp": False, "unfold": False}, {"bare_lf_ok": False, "cr_as_sp": True, "unfold": True}])
            if rng.chance(0.45):      # mostly well-formed streams, as the end-to-end oracle meets them
                k = rng.randint(1, 3)
                if resp:
                    rs = [gen_e2e_response(rng) for _ in range(k)]
                    stream = b"".join(unhx(x["b"]) for x in rs)
                else:
                    stream = b"".join(gen_e2e_request(rng, i) for i in range(k))
            else:
                stream = gen_ref_stream(rng, resp)
            c = {"k": "ref", "resp": resp, "o": o, "s": hx(stream)}
            if resp:
                c["methods"] = [hx(rng.choice(METHODS[:5])) for _ in range(rng.randint(1, 3))]
            out.append(c)
        else:
            out.append(gen_e2e(rng))
    return out


E2E_EVIL = ["both", "cl2", "te2", "badname", "evil", "fold", "te10", "badte", "badcl", "lf", "method", "expect", "target"]


def gen_body(rng):
    return rng.bytes(rng.choice([0, 1, 3, 5, 10, 16, 17, 40]), b"abc\r\n0123 :;")


def chunked_wire(rng, body, fancy):
    out, i = b"", 0
    while i < len(body):
        n = rng.randint(1, max(1, len(body) - i))
        size = (b"%x" % n) if not fancy or rng.chance(0.5) else rng.choice([b"%X" % n, b"0%x" % n, b"%x;ext=1" % n, b"%x ;a" % n, b'%x;q="x"' % n])
        out += size + b"\r\n" + body[i:i + n] + b"\r\n"
        i += n
    return out + (rng.choice([b"0\r\n\r\n", b"0\r\n\r\n", b"00\r\n\r\n", b"0;x\r\n\r\n"]) if fancy else b"0\r\n\r\n")


def gen_e2e_request(rng, idx):
    method = rng.weighted([(5, b"GET"), (5, b"POST"), (2, b"HEAD"), (2, b"PUT")])
    version = b"HTTP/1.1" if rng.chance(0.9) else b"HTTP/1.0"
    target = b"http://example.com/p%d" % idx
    hdrs = [b"Host: example.com"]
    for _ in range(rng.randint(0, 2)):
        hdrs.append(rng.choice(NAMES[7:]) + b": " + rng.choice(VALUES[:10]))
    if rng.chance(0.35):
        hdrs.append(rng.choice([b"Content-Encoding", b"content-encoding"]) + b": " + rng.choice(CE_VALUES))
    body = b""
    eol = b"\r\n"
    kind = rng.weighted([(70, "clean"), (30, "evil")])
    if kind == "clean":
        fr = rng.weighted([(3, "none"), (4, "cl"), (4, "te")])
        if version == b"HTTP/1.0" and fr == "te":
            fr = "cl"
        if fr == "cl":
            content = gen_body(rng)
            hdrs.append(rng.choice([b"Content-Length", b"content-length"]) + b": " + b"%d" % len(content))
            body = content
        elif fr == "te":
            hdrs.append(b"Transfer-Encoding: " + rng.choice(TE_VALUES[:8]))
            body = chunked_wire(rng, gen_body(rng), rng.chance(0.4))
    else:
        ev = rng.choice(E2E_EVIL)
        content = gen_body(rng)
        if ev in ("both", "cl2", "te2", "badname", "evil", "fold"):
            hdrs += gen_header_lines(rng, ev)
            body = rng.choice([content, chunked_wire(rng, content, False), b""])
            if ev in ("evil", "fold", "badname") and rng.chance(0.6):
                hdrs.append(b"Content-Length: %d" % len(content))
                body = content
        elif ev == "te10":
            version = b"HTTP/1.0"
            hdrs.append(b"Transfer-Encoding: chunked")
            body = chunked_wire(rng, content, False)
        elif ev == "badte":
            hdrs.append(b"Transfer-Encoding: " + rng.choice(TE_VALUES[8:]))
            body = chunked_wire(rng, content, False)
        elif ev == "badcl":
            hdrs.append(b"Content-Length: " + rng.choice(CL_VALUES[4:]))
            body = content
        elif ev == "lf":
            eol = b"\n"
            hdrs.append(b"Content-Length: %d" % len(content))
            body = content
        elif ev == "method":
            method = rng.choice([b"G(T", b"GET\x00", b"get", b"G\x7fT", b"M-SEARCH", b"head", b"Head"])
        elif ev == "expect":
            hdrs.append(b"Expect: 100-continue")
            hdrs.append(b"Content-Length: %d" % len(content))
            body = content
        elif ev == "target":
            target = rng.choice([b"http://example.com/a\x01b", b"http://example.com/\xff", b"http://example.com/a\x7f", b"http://example.com"])
    rng.shuffle(hdrs)
    return method + b" " + target + b" " + version + eol + b"".join(h + eol for h in hdrs) + eol + body


def gen_e2e_response(rng):
    status = rng.weighted([(20, b"200"), (4, b"204"), (6, b"304"), (4, b"404"), (2, b"500"), (1, b"99"), (1, b"1000"), (2, b"205")])
    version = b"HTTP/1.1" if rng.chance(0.9) else b"HTTP/1.0"
    reason = rng.weighted([(8, b" OK"), (3, b""), (3, b" Not Modified"), (1, b" a\rb"), (1, b" \xff")])
    hdrs = []
    for _ in range(rng.randint(0, 2)):
        hdrs.append(rng.choice(NAMES[7:]) + b": " + rng.choice(VALUES[:10]))
    if rng.chance(0.35):
        hdrs.append(rng.choice([b"Content-Encoding", b"content-encoding"]) + b": " + rng.choice(CE_VALUES))
    content = gen_body(rng)
    body, close = b"", False
    fr = rng.weighted([(4, "cl"), (4, "te"), (2, "close"), (1, "none0"), (3, "evil")])
    if fr == "cl":
        hdrs.append(b"Content-Length: %d" % len(content))
        body = content
    elif fr == "te":
        hdrs.append(b"Transfer-Encoding: " + rng.choice(TE_VALUES[:8]))
        body = chunked_wire(rng, content, rng.chance(0.4))
    elif fr == "close":
        if rng.chance(0.3):
            hdrs.append(b"Transfer-Encoding: " + rng.choice([b"gzip", b"identity"]))
        body, close = content, True
    elif fr == "none0":
        hdrs.append(b"Content-Length: 0")
    else:
        ev = rng.choice(["both", "cl2", "te2", "badname", "evil", "fold", "badte", "badcl"])
        if ev == "badte":
            hdrs.append(b"Transfer-Encoding: " + rng.choice(TE_VALUES[8:]))
        elif ev == "badcl":
            hdrs.append(b"Content-Length: " + rng.choice(CL_VALUES[4:]))
        else:
            hdrs += gen_header_lines(rng, ev)
            if ev in ("evil", "fold", "badname") and rng.chance(0.6):
                hdrs.append(b"Content-Length: %d" % len(content))
        body = rng.choice([content, chunked_wire(rng, content, False), b""])
        close = rng.chance(0.3)
    rng.shuffle(hdrs)
    return {"b": hx(version + b" " + status + reason + b"\r\n" + b"".join(h + b"\r\n" for h in hdrs) + b"\r\n" + body), "close": close}


POLICIES = ["pass", "pass", "pass", "req-header", "req-body", "req-rechunk", "req-dechunk", "resp-header", "resp-body", "resp-rechunk", "set-response",
            "stream-req", "stream-resp", "stream-both", "req-body", "resp-body", "req-text", "resp-text", "req-prepend", "resp-prepend", "req-raw", "resp-raw"]


def gen_e2e(rng):
    n = rng.weighted([(5, 1), (3, 2), (1, 3)])
    client = b"".join(gen_e2e_request(rng, i) for i in range(n))
    return {"k": "e2e", "client": hx(client), "server": [gen_e2e_response(rng) for _ in range(n)],
            "policy": [rng.choice(POLICIES) for _ in range(n)], "body": hx(gen_body(rng))}


# =====================================================================================================================
# implementation runners
# =====================================================================================================================
def setup_impl():
    global read, validate, assemble, mhttp, url, _http1, hev, Driver, http_layers, HTTPMode, make_context
    from mitmproxy.net.http.http1 import read, assemble
    from mitmproxy.net.http import validate, url
    from mitmproxy import http as mhttp
    from mitmproxy.proxy.layers.http import _http1, _events as hev
    from mitmproxy.proxy.layers import http as http_layers
    from mitmproxy.proxy.layers.http import HTTPMode
    from lib.sansio import Driver, make_context


class UrlSpy:
    """records the calls read.py makes into the url module"""

    def __enter__(self):
        self.pa, self.up = None, True
        self.o_pa, self.o_up = url.parse_authority, url.parse
        spy = self

        def pa(authority, check):
            try:
                r = spy.o_pa(authority, check)
                if spy.pa is None:
                    spy.pa = (bytes(authority), (r[0].encode("utf-8", "surrogateescape"), r[1]))
                return r
            except ValueError:
                if spy.pa is None:
                    spy.pa = (bytes(authority), None)
                raise

        def up(target):
            try:
                return spy.o_up(target)
            except ValueError:
                spy.up = False
                raise
        url.parse_authority, url.parse = pa, up
        return self

    def __exit__(self, *a):
        url.parse_authority, url.parse = self.o_pa, self.o_up


def _fields(h):
    return [[hx(n), hx(v)] for n, v in h.fields]


def _valid(msg):
    try:
        validate.validate_headers(msg)
        return True
    except ValueError:
        return False


def run_req(lines):
    with UrlSpy() as spy:
        try:
            req = read.read_request_head(lines)
        except ValueError:
            return {"kind": 0, "pa": _pa(spy), "up": spy.up}
        except Exception as e:
            return {"kind": 3, "pa": _pa(spy), "up": spy.up, "exc": type(e).__name__}
    o = {"pa": _pa(spy), "up": spy.up, "method": hx(req.data.method), "scheme": hx(req.data.scheme), "authority": hx(req.data.authority),
         "path": hx(req.data.path), "version": hx(req.data.http_version), "port": req.data.port, "headers": _fields(req.headers)}
    try:
        size = read.expected_http_body_size(req)
    except ValueError:
        return dict(o, kind=1)
    except Exception as e:
        return dict(o, kind=3, exc=type(e).__name__)
    err = http_layers.validate_request(HTTPMode.regular, req, True)
    return dict(o, kind=2, size=[size], valid=err is None, hv=_valid(req))


def _pa(spy):
    if spy.pa is None:
        return None
    arg, res = spy.pa
    return [hx(arg), None if res is None else [hx(res[0]), res[1]]]


def run_resp(method, lines):
    req = mhttp.Request(host="", port=0, method=method, scheme=b"", authority=b"", path=b"/", http_version=b"HTTP/1.1",
                        headers=mhttp.Headers(), content=None, trailers=None, timestamp_start=0, timestamp_end=None)
    try:
        resp = read.read_response_head(lines)
    except ValueError:
        return {"kind": 0}
    except Exception as e:
        return {"kind": 3, "exc": type(e).__name__}
    o = {"version": hx(resp.data.http_version), "status": resp.data.status_code, "reason": hx(resp.data.reason), "headers": _fields(resp.headers)}
    try:
        size = read.expected_http_body_size(req, resp)
    except ValueError:
        return dict(o, kind=1)
    except Exception as e:
        return dict(o, kind=3, exc=type(e).__name__)
    return dict(o, kind=2, size=[size], valid=_valid(resp))


def _res(f):
    try:
        return ["ok", f()]
    except ValueError:
        return ["value"]
    except Exception as e:
        return ["other", type(e).__name__]


def _mk_req(c):
    return mhttp.Request(host="example.com", port=80, method=unhx(c["method"]), scheme=unhx(c["scheme"]), authority=unhx(c["authority"]),
                         path=unhx(c["path"]), http_version=unhx(c["version"]), headers=mhttp.Headers([(unhx(n), unhx(v)) for n, v in c["headers"]]),
                         content=None, trailers=None, timestamp_start=0, timestamp_end=None)


def _cmds(gen):
    from mitmproxy.proxy import commands
    out = []
    for c in gen:
        if isinstance(c, commands.SendData):
            out.append(["send", hx(c.data)])
        elif isinstance(c, commands.CloseTcpConnection) and c.half_close:
            out.append(["halfclose"])
        elif isinstance(c, commands.CloseConnection):
            out.append(["close"])
        else:
            out.append(["cmd", type(c).__name__])
    return out


def run_fwdreq(c):
    ctx = make_context()
    from mitmproxy import connection
    ctx.server = connection.Server(address=("example.com", 80))
    cl = _http1.Http1Client(ctx)
    req = _mk_req(c)

    def go():
        out = []
        out += _cmds(cl.send(hev.RequestHeaders(1, req, False)))
        for ch in c["chunks"]:
            out += _cmds(cl.send(hev.RequestData(1, unhx(ch))))
        out += _cmds(cl.send(hev.RequestEndOfMessage(1)))
        return out
    return {"r": _res(go)}


def run_fwdresp(c):
    ctx = make_context()
    sv = _http1.Http1Server(ctx)
    sv.request = _mk_req({"method": c["method"], "scheme": "", "authority": "", "path": "2f", "version": hx(b"HTTP/1.1"), "headers": []})
    resp = mhttp.Response(http_version=unhx(c["version"]), status_code=c["status"], reason=unhx(c["reason"]),
                          headers=mhttp.Headers([(unhx(n), unhx(v)) for n, v in c["headers"]]), content=None, trailers=None,
                          timestamp_start=0, timestamp_end=None)
    sv.request_done = False   # the response ends before the request: mark_done changes no connection state we observe
    out = []
    out += _cmds(sv.send(hev.ResponseHeaders(1, resp, False)))
    for ch in c["chunks"]:
        out += _cmds(sv.send(hev.ResponseData(1, unhx(ch))))
    out += _cmds(sv.send(hev.ResponseEndOfMessage(1)))
    return {"r": out}


def run_ref(c):
    s = unhx(c["s"])
    try:
        if c["resp"]:
            return {"r": ["ok", ref_parse_responses(c["o"], [unhx(m) for m in c["methods"]], s)]}
        return {"r": ["ok", ref_parse_requests(c["o"], s)]}
    except RefErr as e:
        return {"r": [e.kind]}


def _jsonable(x):
    if isinstance(x, (bytes, bytearray)):
        return hx(x)
    if isinstance(x, dict):
        return {k: _jsonable(v) for k, v in x.items()}
    if isinstance(x, (list, tuple)):
        return [_jsonable(v) for v in x]
    return x


def run_impl(case):
    k = case["k"]
    if k == "req":
        return run_req([unhx(l) for l in case["lines"]])
    if k == "resp":
        return run_resp(unhx(case["m"]), [unhx(l) for l in case["lines"]])
    if k in ("te", "cl"):
        v = unhx(case["v"])
        arg = v.decode("utf-8", "surrogateescape") if case["str"] else v
        f = validate.parse_transfer_encoding if k == "te" else validate.parse_content_length
        r = _res(lambda: f(arg))
        if r[0] == "ok" and k == "te":
            r[1] = hx(r[1].encode("utf-8", "surrogateescape") if isinstance(r[1], str) else r[1])
        return {"r": r}
    if k == "fwdreq":
        return run_fwdreq(case)
    if k == "fwdresp":
        return run_fwdresp(case)
    if k == "asm":
        h = mhttp.Headers([(unhx(n), unhx(v)) for n, v in case["headers"]])
        return {"r": _jsonable(_res(lambda: b"".join(assemble.assemble_body(h, [unhx(x) for x in case["chunks"]], unhx(case["trailers"]) or None))))}
    if k == "setc":
        from mitmproxy.net import encoding
        hs = mhttp.Headers([(unhx(n), unhx(v)) for n, v in case["headers"]])
        value = unhx(case["value"])
        if case["resp"]:
            msg = mhttp.Response(http_version=b"HTTP/1.1", status_code=200, reason=b"OK", headers=hs, content=b"old", trailers=None, timestamp_start=0, timestamp_end=None)
        else:
            msg = mhttp.Request(host="example.com", port=80, method=b"POST", scheme=b"http", authority=b"", path=b"/", http_version=b"HTTP/1.1",
                                headers=hs, content=b"old", trailers=None, timestamp_start=0, timestamp_end=None)
        ce = hs.get("content-encoding")
        try:
            enc = hx(encoding.encode(value, ce or "identity"))
        except (ValueError, TypeError):
            enc = None
        try:
            msg.content = value
        except Exception as e:
            return {"exc": type(e).__name__, "enc": enc}
        return {"enc": enc, "headers": _fields(msg.headers), "raw": hx(msg.raw_content)}
    if k == "ref":
        return _jsonable(run_ref(case))
    if k == "e2e":
        return run_e2e(case)
    raise ValueError(k)


# =====================================================================================================================
# Coq terms
# =====================================================================================================================
B = lambda h: cbytes(unhx(h))
def chdrs(hs):
    return clist([cpair(B(n), B(v)) for n, v in hs], "header")
def clines(ls):
    return clist([B(l) for l in ls], "bytes")
def csize(s):
    return copt(s[0], cZ, "Z")
def ccmds(cs):
    for c in cs:
        if c[0] not in ("send", "halfclose"):
            return None
    return clist([f"(Send {B(c[1])})" if c[0] == "send" else "HalfClose" for c in cs], "cmd")
def crres(r, f, ty):
    if r[0] == "ok":
        t = f(r[1])
        return None if t is None else f"(ROk {t})"
    return f"(@RValueError {ty})" if r[0] == "value" else f"(@ROther {ty})"
def copts(o):
    return f"(mkOpts {cbool(o['bare_lf_ok'])} {cbool(o['cr_as_sp'])} {cbool(o['unfold'])})"
def cfields(fs):
    return clist([cpair(B(n), B(v)) for n, v in fs], "field")


def coq_case(case, obs):
    k = case["k"]
    if k == "req":
        pa = obs["pa"]
        pa_arg = copt(pa[0] if pa else None, B, "bytes")
        pa_res = copt(pa[1] if pa else None, lambda r: cpair(B(r[0]), copt(r[1], cN, "N")), "(bytes * option N)")
        if obs["kind"] in (0, 3):
            ro = f"(RO {cN(obs['kind'])} [] [] [] [] [] 0%N [] None false)"
        else:
            ro = (f"(RO {cN(obs['kind'])} {B(obs['method'])} {B(obs['scheme'])} {B(obs['authority'])} {B(obs['path'])} {B(obs['version'])} "
                  f"{cN(obs['port'])} {chdrs(obs['headers'])} {csize(obs['size']) if obs['kind'] == 2 else 'None'} {cbool(obs.get('valid', False))})")
        return f"ReqHead {clines(case['lines'])} {pa_arg} {pa_res} {cbool(obs['up'])} {ro}"
    if k == "resp":
        if obs["kind"] in (0, 3):
            po = f"(PO {cN(obs['kind'])} [] 0%Z [] [] None false)"
        else:
            po = (f"(PO {cN(obs['kind'])} {B(obs['version'])} {cZ(obs['status'])} {B(obs['reason'])} {chdrs(obs['headers'])} "
                  f"{csize(obs['size']) if obs['kind'] == 2 else 'None'} {cbool(obs.get('valid', False))})")
        return f"RespHead {B(case['m'])} {clines(case['lines'])} {po}"
    if k == "te":
        return f"Te {cbool(case['str'])} {B(case['v'])} {crres(obs['r'], B, 'bytes')}"
    if k == "cl":
        return f"Cl {cbool(case['str'])} {B(case['v'])} {crres(obs['r'], cZ, 'Z')}"
    if k == "fwdreq":
        t = crres(obs["r"], ccmds, "(list cmd)")
        if t is None:
            return None
        r = (f"(mkReq [] 0%N {B(case['method'])} {B(case['scheme'])} {B(case['authority'])} {B(case['path'])} {B(case['version'])} {chdrs(case['headers'])})")
        return f"FwdReq {r} {clines(case['chunks'])} {t}"
    if k == "fwdresp":
        t = ccmds(obs["r"])
        if t is None:
            return None
        q = f"(mkReq [] 0%N {B(case['method'])} [] [] [x2f] HTTP11 [])"
        r = f"(mkResp {B(case['version'])} {cZ(case['status'])} {B(case['reason'])} {chdrs(case['headers'])})"
        return f"FwdResp {q} {r} {clines(case['chunks'])} {t}"
    if k == "asm":
        return f"AsmBody {chdrs(case['headers'])} {clines(case['chunks'])} {B(case['trailers'])} {crres(obs['r'], B, 'bytes')}"
    if k == "setc":
        if "exc" in obs:
            return None
        return f"SetContent {chdrs(case['headers'])} {B(case['value'])} {copt(obs['enc'], B, 'bytes')} {chdrs(obs['headers'])} {B(obs['raw'])}"
    if k == "ref":
        r = obs["r"]
        if case["resp"]:
            ty = "(list ref_response)"
            if r[0] == "ok":
                t = "(FOk " + clist([f"(mkRefResp {B(p['version'])} {cN(p['status'])} {B(p['reason'])} {cfields(p['fields'])} {B(p['body'])} {cfields(p['trailers'])} {cbool(p['close'])})"
                                     for p in r[1]], "ref_response") + ")"
            else:
                t = f"(@FIncomplete {ty})" if r[0] == INCOMPLETE else f"(@FInvalid {ty})"
            return f"RefResps {copts(case['o'])} {clines(case['methods'])} {B(case['s'])} {t}"
        ty = "(list ref_request)"
        if r[0] == "ok":
            t = "(FOk " + clist([f"(mkRefReq {B(q['method'])} {B(q['target'])} {B(q['version'])} {cfields(q['fields'])} {B(q['body'])} {cfields(q['trailers'])})"
                                 for q in r[1]], "ref_request") + ")"
        else:
            t = f"(@FIncomplete {ty})" if r[0] == INCOMPLETE else f"(@FInvalid {ty})"
        return f"RefReqs {copts(case['o'])} {B(case['s'])} {t}"
    return None


# =====================================================================================================================
# oracle: the property on the implementation
# =====================================================================================================================
def oracle(case, obs):
    k = case["k"]
    if k == "e2e":
        return oracle_e2e(case, obs)
    if k == "setc":
        if "exc" in obs:
            return [{"key": "set-content-raises-" + obs["exc"], "what": f"message.content = ... raised {obs['exc']} for headers {case['headers']}"}]
        hs = [(unhx(n), unhx(v)) for n, v in obs["headers"]]
        if not field_values(b"transfer-encoding", hs):
            cl = field_values(b"content-length", hs)
            if cl != [b"%d" % len(unhx(obs["raw"]))]:
                return [{"key": "stale-content-length-after-edit", "what": f"after message.content = <{len(unhx(case['value']))} bytes> the head has Content-Length {cl} "
                         f"for a raw body of {len(unhx(obs['raw']))} bytes (headers before: {[(unhx(n), unhx(v)) for n, v in case['headers']]})"}]
    return []


def _snap_req(r):
    return {"method": hx(r.data.method), "scheme": hx(r.data.scheme), "authority": hx(r.data.authority), "path": hx(r.data.path),
            "version": hx(r.data.http_version), "headers": _fields(r.headers), "content": None if r.raw_content is None else hx(r.raw_content)}


def _snap_resp(r):
    return {"version": hx(r.data.http_version), "status": r.data.status_code, "reason": hx(r.data.reason), "headers": _fields(r.headers),
            "content": None if r.raw_content is None else hx(r.raw_content)}


def run_e2e(case):
    pol = case["policy"]
    newbody = unhx(case["body"])
    addon_resp = set()

    def policy(hook, drv):
        flow = hook.args()[0] if hook.args() else None
        i = drv.flow_ord(flow)
        p = pol[i] if i < len(pol) else "pass"
        if getattr(flow, "error", None):
            return
        if hook.name == "requestheaders":
            if p in ("stream-req", "stream-both"):
                flow.request.stream = True
        elif hook.name == "request":
            if p == "req-rechunk" and flow.request.http_version != "HTTP/1.1":
                p = "req-body"
            if p == "req-header":
                flow.request.headers["X-Edit"] = "1"
                flow.request.headers.pop("Accept", None)
            elif p == "req-body":
                flow.request.content = newbody
            elif p == "req-text":
                flow.request.text = newbody.decode("latin-1") + "\u00e9"
            elif p == "req-prepend":
                flow.request.content = newbody + (flow.request.get_content(strict=False) or b"")
            elif p == "req-raw":      # raw_content does not touch the head: the addon restores the framing itself
                flow.request.raw_content = newbody
                if "transfer-encoding" not in flow.request.headers:
                    flow.request.headers["content-length"] = str(len(newbody))
            elif p == "req-rechunk":
                flow.request.headers.pop("Content-Length", None)
                flow.request.headers["Transfer-Encoding"] = "chunked"
                flow.request.content = newbody
            elif p == "req-dechunk":
                flow.request.headers.pop("Transfer-Encoding", None)
                flow.request.content = newbody
            elif p == "set-response":
                flow.response = mhttp.Response.make(200, b"" if flow.request.method.upper() == "HEAD" else newbody, {"X-Made": "1"})
                addon_resp.add(i)
        elif hook.name == "responseheaders":
            if p in ("stream-resp", "stream-both") and i not in addon_resp:
                flow.response.stream = True
        elif hook.name == "response":
            st = flow.response.status_code
            if p in ("resp-body", "resp-rechunk", "resp-text", "resp-prepend", "resp-raw") and (flow.request.method.upper() == "HEAD" or 100 <= st <= 199 or st in (204, 304)):
                p = "resp-header"
            if p == "resp-rechunk" and flow.response.http_version != "HTTP/1.1":
                p = "resp-body"
            if p == "resp-header":
                flow.response.headers["X-Edit"] = "1"
            elif p == "resp-body":
                flow.response.content = newbody
            elif p == "resp-text":
                flow.response.text = newbody.decode("latin-1") + "\u00e9"
            elif p == "resp-prepend":
                flow.response.content = newbody + (flow.response.get_content(strict=False) or b"")
            elif p == "resp-raw":
                flow.response.raw_content = newbody
                if "transfer-encoding" not in flow.response.headers:
                    flow.response.headers["content-length"] = str(len(newbody))
            elif p == "resp-rechunk":
                flow.response.headers.pop("Content-Length", None)
                flow.response.headers["Transfer-Encoding"] = "chunked"
                flow.response.content = newbody

    d = Driver(lambda ctx: http_layers.HttpLayer(ctx, HTTPMode.regular), options_overrides={"store_streamed_bodies": True}, policy=policy)
    d.start()
    d.data(0, unhx(case["client"]))
    for r in case["server"]:
        srv = [t[1] for t in d.trace if t[0] == "send" and t[1] != 0]
        if not srv:
            break
        conn = srv[-1]
        c = d.conns[conn]
        if not (c.state & d.CS.CAN_READ) or d.crashed:
            break
        done_before = sum(1 for h in d.hook_names() if h in ("response", "error"))
        d.data(conn, unhx(r["b"]))
        unfinished = sum(1 for h in d.hook_names() if h in ("response", "error")) == done_before
        if (r["close"] or unfinished) and (c.state & d.CS.CAN_READ) and not d.crashed:
            d.close(conn)      # the server closes after its last byte (ends read-until-EOF bodies, aborts incomplete ones)
    # attribute upstream sends to the flow of the most recent hook
    up, cur, headless = [], None, 0
    for t in d.trace:
        if t[0] == "hook":
            cur = t[2]
        elif t[0] == "send" and t[1] != 0:
            if up and up[-1][0] == cur and up[-1][1] == t[1]:
                up[-1][2] += t[2]
            else:
                up.append([cur, t[1], t[2]])
    flows = []
    for i, f in enumerate(d.flows):
        if not hasattr(f, "request"):
            continue
        flows.append({"req": _snap_req(f.request), "resp": _snap_resp(f.response) if f.response else None,
                      "error": f.error.msg if f.error else None, "addon_resp": i in addon_resp})
    return {"up": up, "down": hx(d.sent(0)), "flows": flows, "crashed": list(d.crashed) if d.crashed else None,
            "hooks": d.hook_names(), "closed0": not bool(d.conns[0].state & d.CS.CAN_WRITE)}


def _expected_target(q):
    m, au = unhx(q["method"]), unhx(q["authority"])
    if m.upper() == b"CONNECT":
        return au
    if au:
        return unhx(q["scheme"]) + b"://" + au + unhx(q["path"])
    return unhx(q["path"])


def _diagnose(msg_headers, first_line_parts, default):
    vals = b"".join(unhx(v) for _, v in msg_headers)
    if any(b"\r\n" in unhx(v) for _, v in msg_headers):
        return "obs-fold-forwarded"
    if b"\r" in vals:
        return "bare-cr-forwarded"
    if b"\x00" in vals:
        return "nul-forwarded"
    return default


def _client_ambiguous(client):
    """index of the first client request whose framing is ambiguous / invalid for a lenient RFC recipient, and the count of
    requests before it (None, n) when all n are fine"""
    s, n = client, 0
    while s:
        while s[:2] == b"\r\n":
            s = s[2:]
        try:
            (m, t, v), fs, rest = parse_head(LENIENT, s, lambda l: (b"", b"", l.split(b" ")[-1]) if l else None)
        except RefErr as e:
            return (n if e.kind == INVALID else None), n
        # field names must be tokens: parse_fields ensured it; framing
        bl = fields_body_length(True, v if is_http_version(v) else b"HTTP/1.1", fs)
        if bl is None or (field_values(b"transfer-encoding", fs) and field_values(b"content-length", fs)):
            return n, n
        try:
            _, _, s = read_body(LENIENT, bl, rest)
        except RefErr as e:
            return (n if e.kind == INVALID else None), n
        n += 1
    return None, n


def oracle_e2e(case, obs):
    v = []
    if obs["crashed"]:
        import re as _re
        sig = _re.sub(r"[^A-Za-z]+", "-", _re.sub(r"\(.*", "", obs["crashed"][1]))[:70].strip("-")
        return [{"key": "layer-crash-" + obs["crashed"][0] + "-" + sig, "what": f"HttpLayer raised {obs['crashed']} for client bytes {case['client'][:200]}"}]
    flows = obs["flows"]
    # ---------- upstream: every forwarded request parses, under the reference parser, to exactly the recorded flow
    forwarded = []
    req_incomplete = set()
    for fi, conn, data in obs["up"]:
        data = unhx(data)
        if fi is None or fi >= len(flows):
            v.append({"key": "upstream-bytes-without-flow", "what": f"bytes sent upstream outside any flow: {data[:80]!r}"})
            continue
        q = flows[fi]["req"]
        forwarded.append(fi)
        first = [unhx(q["method"]), _expected_target(q), unhx(q["version"])]
        dflt = "upstream"
        if not first[0] or any(c not in TCHAR for c in first[0]):
            dflt = "nontoken-method"
        elif not all(is_vchar_obs(c) for c in first[1]) or not first[1]:
            dflt = "ctl-in-target"
        for o in (STRICT, LENIENT):
            tag = "" if o is STRICT else "-lenient"
            try:
                qs = ref_parse_requests(o, data)
            except RefErr as e:
                if e.kind == INCOMPLETE and fi < len(case["policy"]) and case["policy"][fi] in ("stream-req", "stream-both"):
                    req_incomplete.add(fi)
                    continue      # a streamed request whose body the client never completed
                if o is STRICT:
                    k = _diagnose(q["headers"], first, dflt)
                    v.append({"key": k + "-unparsable",
                              "what": f"flow {fi}: reference parser ({e.kind}) cannot read what was sent upstream: {data[:120]!r}"})
                continue
            exp = {"method": first[0], "target": first[1], "version": first[2], "fields": [(unhx(n), unhx(x)) for n, x in q["headers"]],
                   "body": unhx(q["content"] or ""), "trailers": []}
            got = [dict(x, fields=[tuple(f) for f in x["fields"]]) for x in qs]
            if got != [exp]:
                k = _diagnose(q["headers"], first, dflt)
                v.append({"key": k + "-desync" + tag,
                          "what": f"flow {fi}: upstream bytes {data[:120]!r} read as {len(qs)} request(s) that differ from the recorded flow"})
    for fi, f in enumerate(flows):
        if fi not in forwarded and not f["error"] and not f["addon_resp"] and f["resp"] is not None:
            v.append({"key": "response-without-forwarding", "what": f"flow {fi} has a response but no request bytes were sent upstream"})
        if fi in forwarded and f["addon_resp"]:
            v.append({"key": "forwarded-despite-addon-response", "what": f"flow {fi} answered by the addon was also sent upstream"})
    # ---------- ambiguous client framing is never forwarded
    amb, nfine = _client_ambiguous(unhx(case["client"]))
    if amb is not None and len(set(forwarded)) > amb:
        import re as _re
        amb2, _ = _client_ambiguous(_re.sub(rb"[\x0b\x0c]+(?=\r?\n)|(?<=:)[ \t]*[\x0b\x0c]+", b"", unhx(case["client"])))
        v.append({"key": "ambiguous-forwarded" if amb2 is not None and len(set(forwarded)) > amb2 else "vt-ff-stripped-from-framing-header", "what": f"client request #{amb} has ambiguous/invalid framing but {len(set(forwarded))} requests were forwarded; client bytes {case['client'][:240]}"})
    # ---------- downstream: the client reads exactly the recorded responses, in the context of the request methods
    s = unhx(obs["down"])
    stop = False
    for fi, f in enumerate(flows):
        if stop or not s:
            break
        m = unhx(f["req"]["method"])
        p = None
        while s:
            try:
                p, s = ref_parse_response(STRICT, m, s)
            except RefErr as e:
                if e.kind == INCOMPLETE and fi in req_incomplete:
                    p, stop = None, True      # the end of the response is held back until the client completes its streamed request
                    break
                if e.kind == INCOMPLETE and f["error"]:
                    p, stop = None, True      # a streamed response aborted by an upstream error; the connection is closed
                    break
                hs = f["resp"]["headers"] if f["resp"] else []
                k = _diagnose(hs, None, "downstream")
                if m != b"HEAD" and m.upper() == b"HEAD":
                    v.append({"key": "lowercase-head-response-bodiless", "what": f"flow {fi}: request method {m!r} is forwarded as is but its response is framed as a HEAD response (no body): {s[:80]!r}"})
                    p, stop = None, True
                    break
                prev = flows[fi - 1]["resp"] if fi > 0 else None
                if s.startswith(b"0\r\n\r\n") and prev and (prev["status"] in (204, 304) or 100 <= prev["status"] <= 199):
                    v.append({"key": "last-chunk-after-bodiless-response", "what": f"a {prev['status']} response with Transfer-Encoding: chunked is followed by a stray last-chunk on the client connection: {s[:60]!r}"})
                    p, stop = None, True
                    break
                if k == "downstream":
                    line = s.split(b"\r\n", 1)[0].split(b" ", 2)
                    if len(line) >= 2 and not (len(line[1]) == 3 and line[1].isdigit()):
                        k = "status-not-3-digits"
                    elif len(line) == 3 and b"\r" in line[2]:
                        k = "bare-cr-in-reason"
                v.append({"key": k + "-unparsable",
                          "what": f"flow {fi}: reference parser ({e.kind}) cannot read what was sent to the client: {s[:120]!r}"})
                p, stop = None, True
                break
            if 100 <= p["status"] <= 199 and p["status"] != 101 and not (f["resp"] and f["resp"]["status"] == p["status"]):
                p = None
                continue      # interim response generated by the proxy (100 Continue)
            break
        if p is None:
            break
        if f["error"] or f["resp"] is None:
            stop = True       # an error page generated by the proxy; the connection is closed after it
            continue
        r = f["resp"]
        exp = {"version": unhx(r["version"]), "status": r["status"], "reason": unhx(r["reason"]), "fields": [(unhx(n), unhx(x)) for n, x in r["headers"]],
               "body": unhx(r["content"] or "")}
        got = {k: p[k] for k in exp}
        got["fields"] = [tuple(x) for x in got["fields"]]
        bodiless = m.upper() == b"HEAD" or 100 <= r["status"] <= 199 or r["status"] in (204, 304)
        if bodiless:
            exp["body"] = b""
        if got != exp and m != b"HEAD" and m.upper() == b"HEAD":
            v.append({"key": "lowercase-head-response-bodiless", "what": f"flow {fi}: request method {m!r} is forwarded as is but its response is framed as a HEAD response (no body)"})
            stop = True
        elif got != exp:
            k = _diagnose(r["headers"], None, "downstream")
            v.append({"key": k + "-desync", "what": f"flow {fi}: client-side bytes read as a response that differs from the recorded one: {got} vs {exp}"[:400]})
            stop = True
    if s and not stop and not v:
        # bytes after the last recorded response: either a proxy error page for a request that never became a flow, or a desync
        try:
            p, rest = ref_parse_response(STRICT, b"GET", s)
            ok = p["status"] >= 400 and not rest
        except RefErr:
            ok = False
        if not ok:
            last = flows[-1]["resp"] if flows and flows[-1]["resp"] else None
            if s == b"0\r\n\r\n" and last and (last["status"] in (204, 304) or 100 <= last["status"] <= 199):
                v.append({"key": "last-chunk-after-bodiless-response", "what": f"a {last['status']} response with Transfer-Encoding: chunked is followed by a stray last-chunk on the client connection: {unhx(obs['down'])[-80:]!r}"})
            else:
                v.append({"key": "downstream-extra-bytes", "what": f"bytes after the last response on the client connection: {s[:80]!r}"})
    # one violation per key
    seen, out = set(), []
    for x in v:
        if x["key"] not in seen:
            seen.add(x["key"]); out.append(x)
    return out


def nontrivial(case, obs):
    k = case["k"]
    if k in ("req", "resp"):
        return obs["kind"] in (1, 2)
    if k in ("te", "cl"):
        return True
    if k in ("fwdreq", "fwdresp", "asm", "setc"):
        return True
    if k == "ref":
        return obs["r"][0] == "ok" and len(obs["r"][1]) > 0 or obs["r"][0] == INVALID
    return bool(obs.get("up") or obs.get("down"))


def classify(case, obs):
    k = case["k"]
    tags = [k]
    if k in ("req", "resp"):
        tags.append(f"{k}-kind{obs['kind']}")
        if obs["kind"] == 2:
            s = obs["size"][0]
            tags.append(f"{k}-size-" + ("chunked" if s is None else "eof" if s == -1 else "zero" if s == 0 else "len"))
            tags.append(f"{k}-valid" if obs["valid"] else f"{k}-rejected")
    elif k in ("te", "cl", "fwdreq", "asm"):
        tags.append(f"{k}-{obs['r'][0]}")
    elif k == "ref":
        tags.append("ref-" + ("resp-" if case["resp"] else "req-") + obs["r"][0])
    elif k == "setc":
        tags.append("setc-exc" if "exc" in obs else "setc-enc-fails" if obs["enc"] is None else "setc-encoded")
    elif k == "e2e":
        tags += ["e2e-policy-" + p for p in set(case["policy"])]
        if b"ontent-" + b"Encoding" in unhx(case["client"]) or b"ontent-encoding" in unhx(case["client"]):
            tags.append("e2e-req-content-encoding")
    return tags
