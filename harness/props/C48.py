"""C48 - Exported commands reproduce the request and are shell-safe (mitmproxy/addons/export.py).

Every exported command is written to a script file exactly as export.file writes it (UTF-8, surrogateescape) and run by a
real /bin/bash (a fraction also by /bin/dash) in which `curl`, `http` and `pwned` are stub commands (shell functions; PATH
points nowhere) that dump their argv and standard input; the oracle decodes the received argv with the documented
option semantics of curl and compares with the request."""
import gzip
import json
import os
import shutil
import subprocess

from lib.coqterm import cbytes, cbool, cN, clist, copt, hx, unhx

ID = "C48"
QUICK_N = 1000
THOROUGH_N = 5000
SHARD = 200
RULE = ("(shares: req 45%, sh 17%, quote 13%, raw 10%, hist 15% = histories of 2-4 curl/httpie/raw/raw_request exports of the "
        "SAME flow object, with/without Content-Encoding, with a body but no Content-Length header (HTTP/2 style), request "
        "state compared before/after every export and every raw export read back against a snapshot taken before the first) "
        "requests built from per-field token dictionaries (shell metacharacters, quotes, command substitutions, "
        "control characters, percent/backslash, leading dash/at-sign, high and invalid UTF-8 bytes in method, scheme, host, "
        "path, header names/values and body; charsets, gzip bodies, host/:authority/content-length/accept-encoding headers, "
        "peer address x export_preserve_original_ip), exported as curl and httpie and executed; 20% shell command lines "
        "built from the grammar of the modelled bash fragment (must be supported) or mutated with metacharacter tokens; "
        "15% argument lists through shlex.quote; 10% raw_request exports of well-formed requests (gzip, chunked, trailers). "
        "Non-trivial = something needed quoting or a body/here-string/command substitution is present; distinct by JSON.")
TRUSTED = ["Coq 8.16.1 kernel (coqc), vm_compute for case evaluation and byte sweeps",
           "harness/props/C48.py (generator, batch driver with stub curl/http/pwned shell functions, glue Corr/C48.v)",
           "Model/Sh.v: hand model of the bash word parser / printf builtin fragment, written from the bash manual; tied to "
           "/bin/bash 5.2 only by correspondence (bash by contract)",
           "Model/Export.v shlex.quote written from CPython Lib/shlex.py; tied by correspondence",
           "the oracle's reading of curl options (-H, -X, -d, --resolve, --compressed, @file, blank header value) is taken "
           "from curl(1); curl itself is not run"]
ASSUMPTIONS = ["commands are written as UTF-8 with surrogateescape (export.file); the shell runs with LC_ALL=C",
               "request.method/pretty_url/pretty_host/host/get_text/decode are inputs read from the real request (C31-C33)",
               "header names are compared with ASCII lower-casing (exact for the four ASCII constants export.py uses)"]
TRANSLATORS = []
ALLOWED_AXIOMS = []
COQ_PRELUDE = "From MV Require Import Model.Http1Msg Model.Sh Model.Export.\n"

VERIF = os.path.dirname(os.path.dirname(os.path.dirname(os.path.abspath(__file__))))
WORK = os.path.join(VERIF, ".work", "C48", "sh")
BASH = "/bin/bash"
DASH = "/bin/dash"

DRIVER = r"""
__rec() { { printf 'R'; for __a in "$@"; do printf 'A%d:%s' "${#__a}" "$__a"; done; __s=; __READ__; printf 'I%d:%s' "${#__s}" "$__s"; printf 'E'; } >> "$C48_OUT"; }
curl() { __rec curl "$@"; }
http() { __rec http "$@"; }
pwned() { __rec pwned "$@"; }
__i=__S__
while [ $__i -lt __N__ ]; do
  C48_OUT=__W__/o$__i
  cd __W__/d$__i
  __RUN__ </dev/null >/dev/null 2>&1
  echo $? > __W__/r$__i
  __i=$((__i+1))
done
"""

# ------------------------------------------------------------------ running commands under a real shell
# Process creation is very slow on the build machine, so commands are run in batches: one shell process per batch,
# every command sourced in its own subshell, in its own empty directory, with curl / http / pwned defined as shell
# functions that record their argv and standard input (PATH points nowhere: nothing else can be executed).
_state = {"batch": 0}
_pending = []          # cases handed out by gen(), in order, not yet run
_cache = {}


def _init_work():
    shutil.rmtree(WORK, ignore_errors=True)
    os.makedirs(WORK)


def _run_group(cmds, shell):
    _state["batch"] += 1
    w = os.path.join(WORK, "b%d" % _state["batch"])
    os.makedirs(w)
    for i, c in enumerate(cmds):
        os.mkdir(os.path.join(w, "d%d" % i))
        with open(os.path.join(w, "s%d" % i), "wb") as fp:
            fp.write(c)
    # bash: every command file is sourced by the driver itself (no fork per command; a fork costs 10-200 ms on the
    # build machine): a syntax error only fails the `.`; if a command ends the driver (exit, exec) it is recorded as
    # abnormal and a new driver continues after it.  dash ends on a syntax error in a sourced file, so it gets a subshell.
    read = "IFS= read -r -d '' __s" if shell == "bash" else ":"
    runc = ". __W__/s$__i" if shell == "bash" else "( . __W__/s$__i )"
    drv = os.path.join(w, "driver")
    env = {"PATH": "/nonexistent", "LC_ALL": "C", "HOME": "/nonexistent"}
    argv = [BASH, "--norc", "--noprofile", drv] if shell == "bash" else [DASH, drv]
    start, died = 0, set()
    while start < len(cmds):
        open(drv, "w").write(DRIVER.replace("__READ__", read).replace("__RUN__", runc).replace("__S__", str(start))
                             .replace("__N__", str(len(cmds))).replace("__W__", w))
        try:
            subprocess.run(argv, cwd=w, env=env, stdin=subprocess.DEVNULL, stdout=subprocess.DEVNULL,
                           stderr=subprocess.DEVNULL, timeout=600)
        except subprocess.TimeoutExpired:
            pass
        miss = next((i for i in range(start, len(cmds)) if not os.path.exists(os.path.join(w, "r%d" % i))), None)
        if miss is None:
            break
        died.add(miss)
        start = miss + 1
    res = []
    for i in range(len(cmds)):
        rcf, out = os.path.join(w, "r%d" % i), os.path.join(w, "o%d" % i)
        if i in died:
            res.append({"runs": [], "rc": -1, "files": [], "timeout": True})
            continue
        rc = int(open(rcf).read().strip() or -1)
        data = open(out, "rb").read() if os.path.exists(out) else b""
        files = sorted(os.listdir(os.path.join(w, "d%d" % i)))
        try:
            recs = _parse_records(data)
        except Exception:  # interleaved background writers
            recs = [([b"?"], b""), ([b"?"], b"")]
        res.append({"runs": [[[hx(a) for a in argv_], hx(stdin)] for argv_, stdin in recs], "rc": rc, "files": files,
                    "timeout": False})
    shutil.rmtree(w, ignore_errors=True)
    return res


def run_shell_batch(jobs):
    """jobs: [(cmd bytes, "bash"|"dash")] -> [{"runs": [[argv hex...], stdin hex], "rc", "files", "timeout"}]"""
    out = [None] * len(jobs)
    for shell in ("bash", "dash"):
        idx = [i for i, (_, sh) in enumerate(jobs) if sh == shell]
        if idx:
            for i, r in zip(idx, _run_group([jobs[i][0] for i in idx], shell)):
                out[i] = r
    return out


def _parse_records(data: bytes):
    recs, i = [], 0
    while i < len(data):
        assert data[i:i + 1] == b"R", data[i:i + 20]
        i += 1
        argv, stdin = [], b""
        while data[i:i + 1] != b"E":
            tag = data[i:i + 1]
            j = data.index(b":", i)
            n = int(data[i + 1:j])
            val = data[j + 1:j + 1 + n]
            i = j + 1 + n
            if tag == b"A":
                argv.append(val)
            else:
                stdin = val
        i += 1
        recs.append((argv, stdin))
    return recs


def clean_run(sh):
    """(argv list of bytes, stdin bytes) if exactly one stub ran and nothing else happened, else None"""
    if sh is None or sh["timeout"] or sh["rc"] != 0 or sh["files"] or len(sh["runs"]) != 1:
        return None
    argv, stdin = sh["runs"][0]
    return [unhx(a) for a in argv], unhx(stdin)


# ------------------------------------------------------------------ generator
def S(x):
    return x.encode("utf-8", "surrogateescape") if isinstance(x, str) else x


INJ = [b"$(pwned)", b"`pwned`", b";pwned;", b"|pwned", b"&&pwned", b"&pwned&", b">pwned_file", b"\npwned\n", b"${IFS}",
       b"$HOME", b"$((1+1))", b"<(pwned)", b"'$(pwned)'", b"\"$(pwned)\"", b"';pwned;'", b"\";pwned;\"", b"\\';pwned;\\'",
       b"'\"'\"';pwned;'\"'\"'", b"!!", b"*", b"~", b"{a,b}", b"#x", b"\\"]
PLAINISH = [b"a", b"Z", b"0", b"foo", b"bar=baz", b"x-y_z", b"1.2", b"a:b", b"a,b", b"a+b", b"a@b", b"50%", b"/p"]
ODD = [b" ", b"  ", b"\t", b"'", b"''", b'"', b"\\", b"\\\\", b"\\n", b"%s", b"%d", b"%%", b"%", b"\\x41", b"\\101", b"-",
       b"--", b"@", b"\x7f", b"\x01", b"\x1b[2J", b"\r\n", b"\n", b"\xc3\xa9", b"\xe2\x82\xac", b"\xff", b"\xc3", b"\x80",
       b"=", b"&", b"?", b"(", b")", b"<", b">", b"[", b"]", b"^", b"!"]
METHODS = [b"GET"] * 6 + [b"POST"] * 5 + [b"PUT", b"DELETE", b"PATCH", b"OPTIONS", b"HEAD", b"get", b"Post", b"CONNECT",
                                          b"PO ST", b"GET;pwned", b"$(pwned)", b"`pwned`", b"GE'T", b'G"ET', b"-X", b"--help",
                                          b"M\xc3\x96VE", b"G\xffT", b"", b"GET\npwned"]
SCHEMES = [b"http"] * 5 + [b"https"] * 4 + [b"ht tp", b"", b"ws", b"$(pwned)", b"h'"]
HOSTS = ["example.com"] * 8 + ["address", "127.0.0.1", "::1", "a'b.com", "ex ample.com", "$(pwned).com", "münchen.de",
                               "", "-oX", "a;pwned;.com", "xn--mnchen-3ya.de", "h\"q.com", "`pwned`", "a\\b", "10.0.0.1"]
PATHS = [b"/", b"/path", b"/path?a=foo&a=bar&b=baz", b"/a b", b"/;pwned;", b"/$(pwned)", b"/`pwned`", b"/'", b'/"', b"/%41%",
         b"/\\x", b"/\xc3\xa9", b"/\x01", b"/#frag", b"/*", b"*", b"/~", b"/!", b"/{a,b}", b"/\n", b"", b"/?q='$(pwned)'",
         b"/a'\"'\"'b", b"/\xff", b"/a|pwned", b"/a>pwned_file", b"/&pwned&"]
HNAMES = [b"content-type", b"Content-Type", b"accept", b"Accept-Encoding", b"accept-encoding", b"ACCEPT-ENCODING", b"host",
          b"Host", b"HOST", b":authority", b"content-length", b"Content-Length", b"cookie", b"x-a", b"user-agent", b"x'y",
          b"x y", b"x$(pwned)", b"@file", b"x;pwned", b"-H", b"x\xc3\xa9", b"x\xff", b"", b"content-encoding", b"x`pwned`",
          b"transfer-encoding"]
CTYPES = [b"text/plain", b"application/json", b"text/plain; charset=utf-8", b"text/plain; charset=latin-1",
          b"text/html; charset=utf-16", b"text/plain; charset=ascii", b"application/x-www-form-urlencoded",
          b"multipart/form-data; boundary=xx", b"text/plain; charset=nonsense", b"text/plain; charset=utf-8-sig", b"application/octet-stream"]
BODYTOK = [b"a", b"foo=bar&x=y", b'{"a": "b"}', b"'", b'"', b"'&#", b"$(pwned)", b"`pwned`", b";pwned;", b"\n", b"\r\n", b"\t",
           b"\x01", b"\x1b[2J", b"\x00", b"%", b"%s", b"%d", b"100%", b"\\", b"\\n", b"\\x41", b"\\\\", b"\\101", b"-", b"--xx\r\n",
           b"@file", b"\xc3\xa9", b"\xe2\x82\xac", b"\xe9", b"\xff\xfe", b"\xef\xbb\xbf", b" ", b"x" * 40, b"\x7f", b"\x1f", b"\\c", b"%%", b"!"]
PEERS = [None, None, "127.0.0.1", "10.0.0.1", "::1", "", "example.com", "address"]
VERSIONS = [b"HTTP/1.1", b"HTTP/1.1", b"HTTP/2.0", b"HTTP/1.0"]


def _mix(rng, pools, lo, hi):
    return b"".join(rng.choice(rng.choice(pools)) for _ in range(rng.randint(lo, hi)))


def _hval(rng):
    r = rng.random()
    if r < 0.35:
        return _mix(rng, [PLAINISH], 1, 3)
    if r < 0.45:
        return rng.choice([b"", b" ", b"gzip, deflate", b"br", b"k=v; k2=v2", b"0", b"5"])
    return _mix(rng, [PLAINISH, ODD, INJ], 1, 4)


def _body(rng):
    r = rng.random()
    if r < 0.15:
        return b""
    if r < 0.20:
        return None
    if r < 0.45:
        return _mix(rng, [[b"a", b"foo=bar&x=y", b'{"a": "b"}', b"'", b'"', b"'&#", b" ", b"%", b"\\", b"-", b"@file", b"$(pwned)",
                           b"`pwned`", b";pwned;", b"\xc3\xa9", b"!", b"%s", b"\\n"]], 1, 4)
    b = _mix(rng, [BODYTOK], 1, 6)
    if rng.chance(0.3):
        b += rng.choice([b"\n", b"\n\n", b"\r\n"])
    return b


def gen_req(rng):
    host = rng.choice(HOSTS)
    port = rng.choice([80, 443, 8080, 22, 0, 65535, 8443])
    hs = []
    for _ in range(rng.randint(0, 5)):
        k = rng.choice(HNAMES)
        lk = k.lower()
        if lk in (b"host", b":authority"):
            v = rng.choice([S(host), S(host), S(host) + b":%d" % port, b"other.example", b"", _hval(rng)])
        elif lk == b"content-type":
            v = rng.choice(CTYPES)
        elif lk == b"content-length":
            v = rng.choice([b"0", b"5", b"x"])
        elif lk == b"content-encoding":
            v = rng.choice([b"gzip", b"identity", b"nonsense"])
        elif lk == b"transfer-encoding":
            v = rng.choice([b"chunked", b"identity"])
        elif lk == b"accept-encoding":
            v = rng.choice([b"gzip, deflate", b"br", b"", b"$(pwned)"])
        else:
            v = _hval(rng)
        hs.append([hx(k), hx(v)])
    body = _body(rng)
    if body and any(unhx(k).lower() == b"content-encoding" and unhx(v) == b"gzip" for k, v in hs) and rng.chance(0.8):
        body = gzip.compress(body, mtime=0)
    authority = rng.choice([b"", b"", b"", S(host) + b":%d" % port, S(host), b"a b:1", b"$(pwned):80", b"-x"])
    return {"k": "req", "method": hx(rng.choice(METHODS)), "scheme": hx(rng.choice(SCHEMES)), "host": hx(S(host)),
            "port": port, "authority": hx(authority), "path": hx(rng.choice(PATHS) if rng.chance(0.8) else _mix(rng, [PLAINISH, ODD, INJ], 1, 3)),
            "ver": hx(rng.choice(VERSIONS)), "headers": hs, "content": None if body is None else hx(body),
            "peer": rng.choice(PEERS), "preserve": rng.chance(0.5), "sh": "dash" if rng.chance(0.06) else "bash"}


PLAIN_CH = b"abcdefghijklmnopqrstuvwxyzABCDEFGHIJKLMNOPQRSTUVWXYZ0123456789_@%+=:,./-"
FMT_OK = [b"a", b"foo", b"\\\\", b"\\n", b"\\t", b"\\x41", b"\\x0a", b"\\x00", b"\\x1", b"\\101", b"\\18", b"\\0", b"%%", b"%s", b"%d",
          b"%x", b"%b", b"\\q", b"\\8", b"\\e", b"\\\"", b"\\?", b" ", b"$", b"`", b"\"", b";pwned;", b"\\x0a\\x0a", b"\\x9",
          b"\xc3\xa9", b"\x01", b"\x7f", b"-", b")", b"(", b"\n", b"\\c", b"\\r", b"\\a", b"\\v", b"\\f", b"\\b"]
FMT_ODD = [b"%c", b"%5d", b"% d", b"%q", b"%", b"\\x", b"\\xg", b"\\u00e9", b"\\U0001F600", b"%n", b"%(", b"\\"]


def _sq_any(rng):
    body = _mix(rng, [PLAINISH, ODD, INJ], 0, 3).replace(b"'", b"").replace(b"\x00", b"")
    return b"'" + body + b"'"


def _dq_body(rng, allow_subst):
    out = b""
    for _ in range(rng.randint(0, 4)):
        r = rng.random()
        if r < 0.45:
            out += rng.choice([b"a", b"foo bar", b"'", b";pwned;", b"|", b"*", b"~", b"#", b"(", b")", b"<", b">", b"\n", b"\x01",
                               b"\xc3\xa9", b"\xff", b"%s", b"!", b"{a,b}", b"  ", b"\t"])
        elif r < 0.6:
            out += b"\\" + rng.choice([b"$", b"`", b'"', b"\\"])
        elif r < 0.7:
            out += b"\\" + rng.choice([b"a", b"n", b"'", b" ", b"x", b"(", b"\x03", b"\x02", b"\xff"])
        elif allow_subst:
            fmt = b"".join(rng.choice(FMT_OK) for _ in range(rng.randint(0, 5)))
            while fmt.startswith(b"-"):
                fmt = fmt[1:]
            fmt = fmt.replace(b"'", b"")
            if rng.chance(0.3):
                fmt += rng.choice([b"\\x0a", b"\\n\\n", b"\n"])
            out += b"$(printf " + (b"'" + fmt + b"'" if fmt else b"''") + b")"
    return out


def _word_ok(rng):
    w = b""
    for _ in range(rng.randint(1, 3)):
        r = rng.random()
        if r < 0.3:
            w += rng.bytes(rng.randint(1, 5), PLAIN_CH)
        elif r < 0.55:
            w += _sq_any(rng)
        elif r < 0.9:
            w += b'"' + _dq_body(rng, True) + b'"'
        else:
            w += b"\\" + rng.choice([b" ", b"'", b'"', b"\\", b"$", b";", b"a", b"*", b"\x01", b"\xff", b"(", b"<"])
    return w


SH_MUT = [b";", b"|", b"&", b"$x", b"`", b"(", b")", b"<", b">", b"*", b"~", b"#", b"{a,b}", b"\n", b"$(", b'"', b"'", b"\\", b"$(pwned)",
          b";pwned", b"<<<", b" <<< ", b"\"\\\x01$(printf a)\"", b"\\%", b"<<<\"\\\x7f\"", b"\"\\\x7f\"", b"\\\n", b"$((1))", b"!", b"[", b"?", b"printf", b"%c", b"\\u00e9", b"-", b"a=b "]


def gen_sh(rng):
    blank = lambda: rng.choice([b" ", b" ", b"  ", b"\t", b" \t "])
    cmd = rng.choice([b"curl", b"http", b"curl", b"'curl'", b"cu\"rl\"", b"\\curl"])
    nw = rng.randint(0, 4)
    hpos = rng.randint(0, nw) if rng.chance(0.35) else -1
    for i in range(nw + 1):
        if i == hpos:
            cmd += blank() + b"<<<" + rng.choice([b"", b" ", b"  "]) + _word_ok(rng)
        if i < nw:
            cmd += blank() + _word_ok(rng)
    if rng.chance(0.3):
        cmd += blank()
    must = True
    if rng.chance(0.45):
        must = False
        for _ in range(rng.randint(1, 2)):
            p = rng.randint(0, len(cmd))
            cmd = cmd[:p] + rng.choice(SH_MUT + FMT_ODD) + cmd[p:]
    return {"k": "sh", "cmd": hx(cmd), "must": must}


def gen_quote(rng):
    args = [rng.choice([b"curl", b"http"])]
    for _ in range(rng.randint(0, 5)):
        r = rng.random()
        if r < 0.25:
            args.append(_mix(rng, [PLAINISH], 0, 3))
        elif r < 0.35:
            args.append(rng.bytes(rng.randint(0, 12)))
        else:
            args.append(_mix(rng, [PLAINISH, ODD, INJ, [b"'", b"''", b"'\"'\"'", b"\\'", b"'\\''"]], 0, 5))
    return {"k": "quote", "args": [hx(a) for a in args]}


TOKCH = b"abcdefghijklmnopqrstuvwxyzABCDEFGHIJKLMNOPQRSTUVWXYZ0123456789!#$%&'*+-.^_`|~"


def gen_raw(rng):
    hs = []
    for _ in range(rng.randint(0, 4)):
        k = rng.choice([b"x-a", b"Cookie", b"accept", b"user-agent", rng.bytes(rng.randint(1, 6), TOKCH)])
        v = _mix(rng, [PLAINISH, [b" ", b"'", b'"', b";", b"$(pwned)", b"\xc3\xa9", b"\xff", b"\t", b"a b", b":"]], 0, 4).strip()
        hs.append([hx(k), hx(v)])
    body = rng.choice([b"", b"hello", _mix(rng, [BODYTOK], 0, 5), rng.bytes(rng.randint(0, 30)), None])
    mode = rng.choice(["cl", "cl", "gzip", "chunked", "none", "trailers-bad", "nocl", "nocl"])
    trailers = None
    if body is not None:
        if mode == "nocl":        # HTTP/2-style: the body length is not announced by a header
            if rng.chance(0.3) and body:
                hs.append([hx(b"content-encoding"), hx(b"gzip")])
                body = gzip.compress(body, mtime=0)
        elif mode == "gzip" and body:
            hs.append([hx(b"content-encoding"), hx(b"gzip")])
            body = gzip.compress(body, mtime=0)
            hs.append([hx(b"content-length"), hx(b"%d" % len(body))])
        elif mode == "chunked":
            hs.append([hx(b"Transfer-Encoding"), hx(rng.choice([b"chunked", b"gzip, chunked", b"Chunked"]))])
            if rng.chance(0.3):
                trailers = [[hx(b"x-trailer"), hx(b"v")]]
        elif mode == "trailers-bad":
            hs.append([hx(b"content-length"), hx(b"%d" % len(body))])
            trailers = [[hx(b"x-trailer"), hx(b"v")]]
        elif mode == "cl" or body:
            hs.append([hx(b"content-length"), hx(b"%d" % len(body))])
    host = rng.choice([b"example.com", b"example.com:8080", b"[::1]:80"])
    form = rng.choice(["origin", "origin", "absolute", "connect"])
    method = b"CONNECT" if form == "connect" else rng.choice([b"GET", b"POST", b"PUT", b"M-SEARCH", b"get", rng.bytes(rng.randint(1, 5), TOKCH)])
    path = rng.choice([b"/", b"/a?b=c", b"/%20x", b"*", b"/a'b", b"/$(pwned)", b"/;x"])
    return {"k": "raw", "method": hx(method), "scheme": hx(b"http" if form != "origin" else rng.choice([b"http", b"https", b""])),
            "host": hx(b"example.com"), "port": 80, "authority": hx(host if form != "origin" else b""), "path": hx(path),
            "ver": hx(rng.choice([b"HTTP/1.1", b"HTTP/1.0", b"HTTP/2.0"])), "headers": hs,
            "content": None if body is None else hx(body), "trailers": trailers}


def gen_hist(rng):
    """several exports of the SAME flow object; well-formed request so that the raw exports can be read back"""
    host = rng.choice([b"example.com", b"address", b"10.0.0.1", b"h'q.example"])
    port = rng.choice([80, 443, 8080])
    hs = []
    if rng.chance(0.7):
        hs.append([hx(rng.choice([b"host", b"Host"])), hx(rng.choice([host, host, host + b":%d" % port, b"other.example"]))])
    for _ in range(rng.randint(0, 3)):
        k = rng.choice([b"x-a", b"Cookie", b"accept", b"accept-encoding", b"content-type", b"user-agent"])
        v = rng.choice(CTYPES) if k == b"content-type" else _mix(rng, [PLAINISH, [b" ", b"'", b";", b"$(pwned)", b"a b"]], 1, 3).strip()
        hs.append([hx(k), hx(v or b"v")])
    body = rng.choice([b"", b"hello", b"a=b&c=d", b'{"a": 1}\n', _mix(rng, [BODYTOK], 1, 4), None])
    ver = rng.choice([b"HTTP/1.1", b"HTTP/1.1", b"HTTP/2.0"])
    if body:
        if rng.chance(0.35):
            hs.append([hx(b"content-encoding"), hx(b"gzip")])
            body = gzip.compress(body, mtime=0)
        if ver != b"HTTP/2.0" and rng.chance(0.75) or rng.chance(0.3):
            hs.append([hx(rng.choice([b"content-length", b"Content-Length"])), hx(b"%d" % len(body))])
    elif body == b"" and rng.chance(0.5):
        hs.append([hx(b"content-length"), hx(b"0")])
    seq = [rng.choice(["curl", "httpie", "raw", "raw_request"]) for _ in range(rng.randint(1, 3))]
    seq.append(rng.choice(["raw", "raw_request", "raw", "curl"]))
    return {"k": "hist", "method": hx(rng.choice([b"GET", b"POST", b"POST", b"PUT"])), "scheme": hx(rng.choice([b"http", b"https"])),
            "host": hx(host), "port": port, "authority": hx(host + b":%d" % port if ver == b"HTTP/2.0" else b""),
            "path": hx(rng.choice([b"/", b"/a?b=c", b"/a'b", b"/$(pwned)"])), "ver": hx(ver), "headers": hs,
            "content": None if body is None else hx(body), "trailers": None, "peer": rng.choice(PEERS),
            "preserve": rng.chance(0.5), "seq": seq}


def gen(rng, n, tier):
    out = []
    for _ in range(n):
        r = rng.random()
        if r < 0.45:
            out.append(gen_req(rng))
        elif r < 0.62:
            out.append(gen_sh(rng))
        elif r < 0.75:
            out.append(gen_quote(rng))
        elif r < 0.85:
            out.append(gen_raw(rng))
        else:
            out.append(gen_hist(rng))
    _pending.extend(out)
    return out


# ------------------------------------------------------------------ implementation
def setup_impl():
    global export, http, tflow, exceptions, shlex
    import shlex  # noqa
    from mitmproxy import exceptions, http  # noqa
    from mitmproxy.addons import export  # noqa
    from mitmproxy.test import taddons, tflow  # noqa
    _init_work()
    cm = taddons.context()
    tctx = cm.__enter__()
    e = export.Export()
    tctx.configure(e)
    _state.update(cm=cm, tctx=tctx, addon=e)
    # which variant of export.py is this tree? (before / after fixes/C48-*.diff)
    probe = _mkflow({"method": hx(b"GET"), "scheme": hx(b"http"), "host": hx(b"h"), "port": 80, "authority": "", "path": hx(b"/"),
                     "ver": hx(b"HTTP/1.1"), "headers": [], "content": hx(b"%\x01"), "peer": None})
    _state["tctx"].options.export_preserve_original_ip = False
    c = export.curl_command(probe)
    _state["fp"] = "%%" in c
    _state["fg"] = "-X GET" in c


def _mkflow(case):
    f = tflow.tflow()
    trailers = case.get("trailers")
    f.request = http.Request(
        unhx(case["host"]).decode("utf-8", "surrogateescape"), case["port"], unhx(case["method"]), unhx(case["scheme"]),
        unhx(case["authority"]), unhx(case["path"]), unhx(case["ver"]),
        http.Headers([(unhx(k), unhx(v)) for k, v in case["headers"]]),
        None if case["content"] is None else unhx(case["content"]),
        None if trailers is None else http.Headers([(unhx(k), unhx(v)) for k, v in trailers]), 0.0, 0.0)
    if "peer" in case:
        f.server_conn.peername = None if case["peer"] is None else (case["peer"], 22)
    return f


def _export(fn, f):
    try:
        c = fn(f)
    except exceptions.CommandError:
        return "CommandError"
    except AssertionError:
        return "AssertionError"
    except KeyError:
        return "KeyError"
    except Exception as e:  # anything else is its own observable
        return "Other:" + type(e).__name__
    if isinstance(c, str):
        try:
            c = c.encode("utf-8", "surrogateescape")   # what export.file writes
        except UnicodeEncodeError:
            return "Other:unencodable"
    return {"ok": hx(c)}


def _inputs(f):
    r = export.cleanup_request(f)
    try:
        t = r.get_text(strict=True)
        text = {"ok": hx(t.encode("utf-8", "surrogateescape"))} if t else "empty"
    except ValueError:
        text = "ValueError"
    enc = lambda s: hx(s.encode("utf-8", "surrogateescape"))
    inp = {"host": enc(r.host), "headers": [[hx(k), hx(v)] for k, v in r.headers.fields], "has_content": bool(r.content),
           "content": None if r.content is None else hx(r.content), "text": text}
    # the URL of the request once the redundant headers are gone (removed here independently of export.pop_headers)
    r2 = r.copy()
    r2.headers = http.Headers(_expected_headers(inp))
    inp["ref_url"], inp["ref_host"], inp["ref_method"] = enc(r2.pretty_url), enc(r2.pretty_host), enc(r2.method)
    # what export.py itself reads: method / pretty_url / pretty_host / port after its own pop_headers
    try:
        export.pop_headers(r)
    except KeyError:
        inp.update(method=enc(r.method), pretty_url="", pretty_host="", port=r.port)
        return inp
    inp.update(method=enc(r.method), pretty_url=enc(r.pretty_url), pretty_host=enc(r.pretty_host), port=r.port)
    return inp


BATCH = 150


def _key(case):
    return json.dumps(case, sort_keys=True)


def run_impl(case):
    k = _key(case)
    if k not in _cache:
        todo = [case]
        while _pending and len(todo) < BATCH:
            c = _pending.pop(0)
            if _key(c) != k and _key(c) not in _cache:
                todo.append(c)
        staged = [_stage1(c) for c in todo]
        jobs = [(cmd, sh) for _, js in staged for (_, cmd, sh) in js]
        results = iter(run_shell_batch(jobs)) if jobs else iter(())
        for c, (obs, js) in zip(todo, staged):
            for slot, _, _ in js:
                obs[slot] = next(results)
            _cache[_key(c)] = obs
    return _cache[k]


def _stage1(case):
    """everything but the shell runs -> (observation, [(slot, command bytes, shell)])"""
    k = case["k"]
    if k == "sh":
        return {}, [("sh", unhx(case["cmd"]), "bash")]
    if k == "quote":
        args = [unhx(a).decode("utf-8", "surrogateescape") for a in case["args"]]
        cmd = " ".join(shlex.quote(a) for a in args).encode("utf-8", "surrogateescape")
        return {"cmd": hx(cmd)}, [("sh", cmd, "bash")]
    if k == "raw":
        f = _mkflow(case)
        try:
            r = export.cleanup_request(f)
            d = r.data
            inp = {"method": hx(d.method), "scheme": hx(d.scheme), "authority": hx(d.authority), "path": hx(d.path),
                   "ver": hx(d.http_version), "headers": [[hx(a), hx(b)] for a, b in d.headers.fields],
                   "content": None if d.content is None else hx(d.content),
                   "trailers": hx(bytes(d.trailers)) if d.trailers else ""}
        except Exception as e:
            return {"skip": "inputs:" + type(e).__name__}, []
        try:
            out = {"ok": hx(export.raw_request(f))}
        except ValueError:
            out = "ValueError"
        except exceptions.CommandError:
            out = "CommandError"
        except Exception as e:
            out = "Other:" + type(e).__name__
        return {"inp": inp, "out": out}, []
    if k == "hist":
        _state["tctx"].options.export_preserve_original_ip = case["preserve"]
        try:   # model inputs and the snapshot come from separate, pristine copies of the flow
            inp = _inputs(_mkflow(case))
            d = export.cleanup_request(_mkflow(case)).data
            rawinp = {"method": hx(d.method), "scheme": hx(d.scheme), "authority": hx(d.authority), "path": hx(d.path),
                      "ver": hx(d.http_version), "headers": [[hx(a), hx(b)] for a, b in d.headers.fields],
                      "content": None if d.content is None else hx(d.content), "trailers": ""}
            s0 = _mkflow(case).request
            body0 = s0.get_content(strict=False)
            snap = {"method": hx(s0.data.method), "scheme": hx(s0.data.scheme), "authority": hx(s0.data.authority),
                    "path": hx(s0.data.path), "ver": hx(s0.data.http_version),
                    "headers": [[hx(a), hx(b)] for a, b in s0.data.headers.fields], "body": None if body0 is None else hx(body0)}
        except Exception as e:
            return {"skip": "inputs:" + type(e).__name__}, []
        f = _mkflow(case)
        items = []
        for fmt in case["seq"]:
            before = f.request.get_state()
            if fmt in ("curl", "httpie"):
                out = _export(export.curl_command if fmt == "curl" else export.httpie_command, f)
            else:
                try:
                    out = {"ok": hx((export.raw if fmt == "raw" else export.raw_request)(f))}
                except ValueError:
                    out = "ValueError"
                except exceptions.CommandError:
                    out = "CommandError"
                except Exception as e:
                    out = "Other:" + type(e).__name__
            after = f.request.get_state()
            changed = sorted(k_ for k_ in before if before[k_] != after.get(k_))
            items.append({"fmt": fmt, "out": out, "changed": changed})
        return {"inp": inp, "rawinp": rawinp, "snap": snap, "items": items, "fp": _state["fp"], "fg": _state["fg"]}, []
    # req
    f = _mkflow(case)
    _state["tctx"].options.export_preserve_original_ip = case["preserve"]
    try:
        inp = _inputs(f)
    except Exception as e:
        return {"skip": "inputs:" + type(e).__name__}, []
    obs = {"inp": inp, "fp": _state["fp"], "fg": _state["fg"]}
    jobs = []
    for name, fn in (("curl", export.curl_command), ("httpie", export.httpie_command)):
        c = _export(fn, f)
        obs[name] = c
        obs["sh_" + name] = None
        if isinstance(c, dict):
            jobs.append(("sh_" + name, unhx(c["ok"]), case.get("sh", "bash")))
    return obs, jobs


# ------------------------------------------------------------------ Coq terms
B = lambda h: cbytes(unhx(h))


def chdrs(hs):
    return clist((f"({B(k)}, {B(v)})" for k, v in hs), "(bytes * bytes)")


def cshobs(sh):
    r = clean_run(sh)
    if r is None:
        return "(@None (list bytes * option bytes))"
    argv, stdin = r
    return f"(Some ({clist((cbytes(a) for a in argv), 'bytes')}, {copt(stdin or None, cbytes, 'bytes')}))"


def cxres(c):
    if isinstance(c, dict):
        return f"(XOk {B(c['ok'])})"
    return {"CommandError": "(@XCommandError bytes)", "AssertionError": "(@XAssertionError bytes)",
            "KeyError": "(@XKeyError bytes)"}.get(c, "(@XOther bytes)")


def coq_case(case, obs):
    if "skip" in obs:
        return None
    k = case["k"]
    if k == "sh":
        return f"ShCmd {B(case['cmd'])} {cbool(case['must'])} {cshobs(obs['sh'])}"
    if k == "quote":
        must = all(b"\x00" not in unhx(a) for a in case["args"])
        return (f"Quote {clist((B(a) for a in case['args']), 'bytes')} {B(obs['cmd'])} {cbool(must)} {cshobs(obs['sh'])}")
    if k == "raw":
        i = obs["inp"]
        r = f"(mkReq [] 0%N {B(i['method'])} {B(i['scheme'])} {B(i['authority'])} {B(i['path'])} {B(i['ver'])} {chdrs(i['headers'])})"
        o = obs["out"]
        if isinstance(o, dict):
            impl = f"(Ok {B(o['ok'])})"
        elif o == "ValueError":
            impl = "(@ValueError bytes)"
        elif o == "CommandError":
            impl = "(@OtherError bytes)"
        else:
            return f"Raw {r} (@None bytes) [] (Ok [])"   # an exception the model does not have: forces a disagreement
        return f"Raw {r} {copt(i['content'], B, 'bytes')} {B(i['trailers'])} {impl}"
    i = obs["inp"]
    t = i["text"]
    text = f"(TextOk {B(t['ok'])})" if isinstance(t, dict) else ("TextEmpty" if t == "empty" else "TextValueError")
    x = (f"(mkX {B(i['method'])} {B(i['pretty_url'])} {B(i['pretty_host'])} {B(i['host'])} {cN(i['port'])} "
         f"{chdrs(i['headers'])} {cbool(i['has_content'])} {text})")
    peer = case["peer"]
    addr = copt(None if peer is None else peer.encode(), cbytes, "bytes")
    if k == "hist":
        ri = obs["rawinp"]
        head = (f"(mkReq [] 0%N {B(ri['method'])} {B(ri['scheme'])} {B(ri['authority'])} {B(ri['path'])} {B(ri['ver'])} "
                f"{chdrs(ri['headers'])})")
        fl = f"(mkFlow {x} {head} {copt(ri['content'], B, 'bytes')} {B(ri['trailers'])})"
        fmts, outs = [], []
        for it in obs["items"]:
            o = it["out"]
            if it["fmt"] in ("curl", "httpie"):
                fmts.append("FCurl" if it["fmt"] == "curl" else "FHttpie")
                outs.append(f"(OX {cxres(o)})")
            else:
                fmts.append("FRaw")
                if isinstance(o, dict):
                    outs.append(f"(OR (Ok {B(o['ok'])}))")
                elif o == "ValueError":
                    outs.append("(OR (@ValueError bytes))")
                elif o == "CommandError":
                    outs.append("(OR (@OtherError bytes))")
                else:
                    outs.append("(OX (@XOther bytes))")   # an exception the model does not have: forces a disagreement
        return (f"Hist {cbool(obs['fp'])} {cbool(obs['fg'])} {cbool(case['preserve'])} {addr} {fl} "
                f"{clist(fmts, 'fmt')} {clist(outs, 'eout')}")
    bash = case.get("sh", "bash") == "bash"
    must = lambda c: isinstance(c, dict) and b"\x00" not in unhx(c["ok"])
    m = bash and obs["fp"] and all(must(obs[n]) or not isinstance(obs[n], dict) for n in ("curl", "httpie"))
    return (f"Req {cbool(obs['fp'])} {cbool(obs['fg'])} {cbool(case['preserve'])} {addr} {x} {cxres(obs['curl'])} "
            f"{cxres(obs['httpie'])} {cbool(bash)} {cbool(m)} {cshobs(obs['sh_curl'])} {cshobs(obs['sh_httpie'])}")


# ------------------------------------------------------------------ oracle (the property, on the implementation)
def _expected_headers(i):
    """headers export.py documents to drop: content-length; host / :authority when equal to request.host"""
    hs = [(unhx(k), unhx(v)) for k, v in i["headers"]]
    host = unhx(i["host"])
    hs = [(k, v) for k, v in hs if k.lower() != b"content-length"]
    for name in (b"host", b":authority"):
        vals = [v for k, v in hs if k.lower() == name]
        if b", ".join(vals) == host:
            hs = [(k, v) for k, v in hs if k.lower() != name]
    return hs


def _curl_decode(argv):
    """read argv the way curl(1) documents the options export.py uses -> dict or (None, reason)"""
    d = {"H": [], "X": None, "data": [], "url": [], "compressed": 0, "resolve": []}
    it = iter(argv[1:])
    for a in it:
        if a in (b"-H", b"-X", b"-d", b"--resolve"):
            v = next(it, None)
            if v is None:
                return None, "option %r without value" % a
            if a == b"-H":
                d["H"].append(v)
            elif a == b"-X":
                d["X"] = v
            elif a == b"-d":
                d["data"].append(v)
            else:
                d["resolve"].append(v)
        elif a == b"--compressed":
            d["compressed"] += 1
        elif a.startswith(b"-") and a != b"-":
            return None, "argument %r is read by curl as options" % a
        else:
            d["url"].append(a)
    return d, None


def _oracle_req(case, obs):
    v = []
    i = obs["inp"]
    shell = case.get("sh", "bash")
    method, url = unhx(i["ref_method"]), unhx(i["ref_url"])
    hs = _expected_headers(i)
    fields = [method, url] + [x for kv in hs for x in kv]
    nul = any(b"\x00" in x for x in fields)
    t = i["text"]
    text = unhx(t["ok"]) if isinstance(t, dict) else None
    has_ctrl = text is not None and any(c < 32 for c in text)
    for name in ("curl", "httpie"):
        c = obs[name]
        if not isinstance(c, dict):
            if c == "CommandError" and i["has_content"] and t == "ValueError":
                continue                                   # body is not valid text: outside the property
            if c == "KeyError":
                v.append({"key": "pop-headers-keyerror", "what": f"{name} export raises KeyError (request.host empty, no host header)"})
            elif c == "AssertionError":
                v.append({"key": "assert-empty-text", "what": f"{name} export raises AssertionError: non-empty content decodes to empty text"})
            else:
                v.append({"key": "export-raises-" + c, "what": f"{name} export raised {c}"})
            continue
        sh = obs["sh_" + name]
        stub = b"curl" if name == "curl" else b"http"
        run = clean_run(sh)
        if run is None or run[0][0] != stub:
            if shell == "dash" and name == "httpie" and i["has_content"]:
                v.append({"key": "sh-here-string-not-posix", "what": "httpie export uses a here-string; dash: syntax error"})
            elif nul:
                v.append({"key": "nul-byte-in-field", "what": f"{name}: NUL byte in method/url/header cannot be passed in argv"})
            else:
                ran = [[unhx(a) for a in r[0]] for r in sh["runs"]]
                v.append({"key": "shell-unsafe", "what": f"{name} command {unhx(c['ok'])!r} under {shell}: rc={sh['rc']} files={sh['files']} ran {ran!r}"})
            continue
        argv, stdin = run
        if nul:
            if (name == "httpie" and argv != [stub, method, url] + [k + b": " + val for k, val in hs]) or name == "curl":
                v.append({"key": "nul-byte-in-field", "what": f"{name}: NUL byte in method/url/header cannot be passed in argv"})
            continue
        if name == "httpie":
            exp = [stub, method, url] + [k + b": " + val for k, val in hs]
            if argv != exp:
                v.append({"key": "httpie-argv", "what": f"httpie argv {argv!r} != {exp!r}"})
            continue
        if stdin:
            v.append({"key": "curl-stdin", "what": "curl received standard input"})
        d, why = _curl_decode(argv)
        if d is None:
            key = "curl-url-leading-dash" if url.startswith(b"-") else "curl-argv-undecodable"
            v.append({"key": key, "what": f"curl argv {argv!r}: {why}"})
            continue
        # headers
        exp_h = [k + b": " + val for k, val in hs if k.lower() != b"accept-encoding"]
        n_ae = sum(1 for k, _ in hs if k.lower() == b"accept-encoding")
        got_h = list(d["H"])
        if method != b"GET" and not i["has_content"]:
            exp_h.append(b"content-length: 0")
        if got_h != exp_h or d["compressed"] != n_ae:
            v.append({"key": "curl-headers", "what": f"curl -H {got_h!r} compressed={d['compressed']} != {exp_h!r}/{n_ae}"})
        else:
            for k, val in hs:
                if k.lower() == b"accept-encoding":
                    continue
                if k.startswith(b"@"):
                    v.append({"key": "curl-header-at-file", "what": f"-H {k + b': ' + val!r}: curl reads headers from a file"})
                    break
                if not val.strip(b" \t"):
                    v.append({"key": "curl-blank-header-dropped", "what": f"-H {k + b': ' + val!r}: curl removes a header given with a blank value"})
                    break
        # method
        eff = d["X"] if d["X"] is not None else (b"POST" if d["data"] else b"GET")
        if eff != method:
            key = "curl-get-body-becomes-post" if (method == b"GET" and d["data"] and d["X"] is None) else "curl-method"
            v.append({"key": key, "what": f"request method {method!r}, curl sends {eff!r} (argv {argv!r})"})
        # url
        if d["url"] != [url]:
            v.append({"key": "curl-url", "what": f"curl URL arguments {d['url']!r} != [{url!r}]"})
        # preserve_original_ip
        peer = case["peer"]
        exp_res = []
        if case["preserve"] and peer and unhx(i["ref_host"]) != peer.encode():
            exp_res = [unhx(i["ref_host"]) + b":%d:[" % i["port"] + peer.encode() + b"]"]
        if d["resolve"] != exp_res:
            v.append({"key": "curl-resolve", "what": f"--resolve {d['resolve']!r} != {exp_res!r}"})
        # body
        content = unhx(i["content"]) if i["content"] else b""
        if not i["has_content"]:
            if d["data"]:
                v.append({"key": "body-mismatch", "what": f"no content but -d {d['data']!r}"})
            continue
        if len(d["data"]) != 1:
            v.append({"key": "body-mismatch", "what": f"content {content!r} but -d {d['data']!r}"})
            continue
        data = d["data"][0]
        keys, tb = [], text
        if tb != content:
            keys.append(("body-charset-reencoded", f"content {content!r} (content-type charset) is sent as UTF-8 {tb!r}"))
        if has_ctrl:
            t2 = tb.replace(b"\x00", b"")
            if t2 != tb:
                keys.append(("body-nul-dropped", f"body {tb!r}: NUL bytes are lost in the command substitution"))
            t3 = t2.rstrip(b"\n")
            if t3 != t2:
                keys.append(("body-trailing-newline-stripped", f"body {tb!r}: command substitution strips trailing newlines, curl gets {data!r}"))
            tb = t3
        if data == tb:
            v.extend({"key": k_, "what": w_} for k_, w_ in keys)
            if data.startswith(b"@"):
                v.append({"key": "curl-data-at-file", "what": f"-d {data!r}: curl reads the body from a file"})
        elif shell == "dash" and has_ctrl:
            v.append({"key": "sh-printf-hex-not-posix", "what": f"body {text!r}: dash printf does not know backslash-x escapes, curl gets {data!r}"})
        elif has_ctrl and (b"%" in text or b"\\" in text or text.startswith(b"-")):
            v.append({"key": "printf-format-interpreted", "what": f"body {text!r} goes through printf as a format: curl gets {data!r}"})
        else:
            v.append({"key": "body-mismatch", "what": f"body {text!r}: curl gets {data!r}"})
    return v


def _ref_parse_request(raw: bytes):
    """independent reference reader of an HTTP/1 request: (method, target, version, [(name, value)], body) or None"""
    head, sep, rest = raw.partition(b"\r\n\r\n")
    if not sep:
        return None
    lines = head.split(b"\r\n")
    parts = lines[0].split(b" ")
    if len(parts) != 3:
        return None
    hs = []
    for ln in lines[1:]:
        name, colon, val = ln.partition(b":")
        if not colon or not name or name != name.strip():
            return None
        hs.append((name, val.strip(b" \t")))
    te = b",".join(v for k, v in hs if k.lower() == b"transfer-encoding").lower()
    cl = [v for k, v in hs if k.lower() == b"content-length"]
    if te:
        if te.split(b",")[-1].strip() != b"chunked":
            return None
        body, trailer = b"", None
        while True:
            ln, sep, rest = rest.partition(b"\r\n")
            if not sep:
                return None
            try:
                n = int(ln.split(b";")[0], 16)
            except ValueError:
                return None
            if n == 0:
                break
            if len(rest) < n + 2 or rest[n:n + 2] != b"\r\n":
                return None
            body += rest[:n]
            rest = rest[n + 2:]
        tr, sep, rest = (b"\r\n" + rest).partition(b"\r\n\r\n")
        if not sep or rest:
            return None
        return parts[0], parts[1], parts[2], hs, body, tr[2:]
    if cl:
        if len(set(cl)) != 1 or not cl[0].isdigit() or int(cl[0]) != len(rest):
            return None
        return parts[0], parts[1], parts[2], hs, rest, b""
    if rest:
        return None
    return parts[0], parts[1], parts[2], hs, b"", b""


def _oracle_raw(case, obs):
    i, o = obs["inp"], obs["out"]
    if not isinstance(o, dict):
        if o == "CommandError" and i["content"] is None:
            return []
        if o == "ValueError" and i["trailers"]:
            return []     # trailers without chunked framing cannot be expressed in HTTP/1
        return [{"key": "raw-raises", "what": f"raw_request raised {o}"}]
    p = _ref_parse_request(unhx(o["ok"]))
    method, authority, path = unhx(i["method"]), unhx(i["authority"]), unhx(i["path"])
    if method.upper() == b"CONNECT":
        target = authority
    elif authority:
        target = unhx(i["scheme"]) + b"://" + authority + path
    else:
        target = path
    exp = (method, target, unhx(i["ver"]), [(unhx(k), unhx(v).strip(b" \t")) for k, v in i["headers"]], unhx(i["content"]),
           unhx(i["trailers"]).rstrip(b"\r\n"))
    if p is None or (p[0], p[1], p[2], p[3], p[4], p[5].rstrip(b"\r\n")) != exp:
        return [{"key": "raw-roundtrip", "what": f"raw export {unhx(o['ok'])!r} reads back as {p!r}, expected {exp!r}"}]
    return []


def oracle(case, obs):
    if "skip" in obs:
        return []
    k = case["k"]
    if k == "req":
        return _oracle_req(case, obs)
    if k == "quote":
        args = [unhx(a) for a in case["args"]]
        run = clean_run(obs["sh"])
        if run is None or run[0] != args or run[1]:
            if any(b"\x00" in a for a in args):
                return [{"key": "nul-byte-in-field", "what": "an argument with a NUL byte cannot be passed in argv"}]
            return [{"key": "quote-roundtrip", "what": f"bash runs {unhx(obs['cmd'])!r} as {obs['sh']['runs']!r}, not {args!r}"}]
        return []
    if k == "raw":
        return _oracle_raw(case, obs)
    if k == "hist":
        return _oracle_hist(case, obs)
    return []


def _oracle_hist(case, obs):
    """exports must not change the flow; equal exports of one flow are equal; every raw export reads back (HTTP/1
    reader) as the request captured BEFORE the first export (body decoded, content-length/-encoding recomputed)"""
    v, seen, s = [], {}, obs["snap"]
    seq = ">".join(case["seq"])
    for n, it in enumerate(obs["items"]):
        fmt, o = it["fmt"], it["out"]
        if it["changed"]:
            v.append({"key": "export-mutates-flow", "what": f"history {seq}: export #{n} ({fmt}) changed request fields {it['changed']}"})
        kind = "raw" if fmt.startswith("raw") else fmt
        if kind in seen and seen[kind] != o:
            v.append({"key": "export-history-differs", "what": f"history {seq}: export #{n} ({fmt}) differs from an earlier {kind} export of the same flow"})
        seen.setdefault(kind, o)
        if kind != "raw":
            continue
        if not isinstance(o, dict):
            if not (o == "CommandError" and s["body"] is None):
                v.append({"key": "raw-raises", "what": f"history {seq}: {fmt} raised {o}"})
            continue
        p = _ref_parse_request(unhx(o["ok"]))
        method, authority, path = unhx(s["method"]), unhx(s["authority"]), unhx(s["path"])
        target = authority if method.upper() == b"CONNECT" else (unhx(s["scheme"]) + b"://" + authority + path if authority else path)
        skip = (b"content-length", b"content-encoding")
        exp_h = [(unhx(a), unhx(b).strip(b" \t")) for a, b in s["headers"] if unhx(a).lower() not in skip]
        exp = (method, target, unhx(s["ver"]), exp_h, unhx(s["body"]))
        got = None if p is None else (p[0], p[1], p[2], [(a, b) for a, b in p[3] if a.lower() not in skip], p[4])
        if got != exp:
            v.append({"key": "raw-roundtrip", "what": f"history {seq}: export #{n} ({fmt}) {unhx(o['ok'])!r} reads back as {got!r}, captured request was {exp!r}"})
    return v


def nontrivial(case, obs):
    if "skip" in obs:
        return False
    k = case["k"]
    if k == "sh":
        c = unhx(case["cmd"])
        return any(x in c for x in (b"'", b'"', b"\\", b"<<<"))
    if k == "quote":
        return b"'" in unhx(obs["cmd"])
    if k == "raw":
        return isinstance(obs["out"], dict)
    if k == "hist":
        return len(case["seq"]) > 1 and any(isinstance(it["out"], dict) for it in obs["items"])
    c = obs["curl"]
    return isinstance(c, dict) and (b"'" in unhx(c["ok"]) or b" -d " in unhx(c["ok"]))


def classify(case, obs):
    if "skip" in obs:
        return [case["k"], "skip:" + obs["skip"]]
    k = case["k"]
    tags = [k]
    if k == "hist":
        seq = ["raw" if s.startswith("raw") else "cmd" for s in case["seq"]]
        tags.append("hist:" + ">".join(seq[-2:]))
        names = [unhx(a).lower() for a, _ in case["headers"]]
        if case["content"] and b"content-length" not in names:
            tags.append("hist-body-without-content-length")
        if b"content-encoding" in names:
            tags.append("hist-content-encoding")
        return tags
    if k == "sh":
        r = clean_run(obs["sh"])
        tags += ["must" if case["must"] else "mutated", "clean-run" if r else "abnormal-run"]
        if b"$(" in unhx(case["cmd"]):
            tags.append("sh-subst")
        if b"<<<" in unhx(case["cmd"]):
            tags.append("sh-here")
    elif k == "quote":
        tags.append("quoted" if b"'" in unhx(obs["cmd"]) else "bare")
    elif k == "raw":
        o = obs["out"]
        tags.append("raw-ok" if isinstance(o, dict) else "raw-" + o)
        if isinstance(o, dict) and b"chunked" in unhx(o["ok"]).lower():
            tags.append("raw-chunked")
    else:
        for n in ("curl", "httpie"):
            c = obs[n]
            tags.append(f"{n}-ok" if isinstance(c, dict) else f"{n}-{c}")
        c = obs["curl"]
        if isinstance(c, dict):
            cmd = unhx(c["ok"])
            if b"$(printf" in cmd:
                tags.append("body-printf")
            elif b" -d " in cmd:
                tags.append("body-plain")
            if b"--resolve" in cmd:
                tags.append("resolve")
            if b"--compressed" in cmd:
                tags.append("compressed")
            if clean_run(obs["sh_curl"]) is None:
                tags.append("curl-abnormal-run")
        tags.append("shell=" + case.get("sh", "bash"))
        i = obs["inp"]
        if len(i["headers"]) != len(_expected_headers(i)):
            tags.append("headers-popped")
    return tags
