"""C11 — Intercepted flows are held until resumed, killed flows are never forwarded
(mitmproxy/flow.py, mode_servers.ProxyConnectionHandler.handle_hook, protocol layers)."""
from lib.coqterm import cbool, clist

ID = "C11"
QUICK_N = 2000
THOROUGH_N = 60000
SHARD = 500
COQ_PRELUDE = "From MV Require Import Model.FlowControl.\n"
RULE = ("(a) 70%: operation sequences (<=14) over {intercept, resume, kill, hook reaches wait_for_resume, event-loop step} on a real "
        "Flow whose hook is run by the real ProxyConnectionHandler.handle_hook; state compared with the model after every "
        "operation. (b) 30%: a real TCP or UDP layer relays one message; at its message hook the addon intercepts, then the "
        "user edits/resumes/kills in generated orders; the oracle watches the bytes sent to the destination. "
        "Non-trivial = the hook actually waited (flow intercepted at hook time); distinct by canonical JSON.")
TRUSTED = ["Coq 8.16.1 kernel; vm_compute for case evaluation",
           "hand model of Flow.intercept/resume/kill/wait_for_resume and asyncio.Event wake-up semantics, tied by correspondence",
           "layer-level clause rests on C04 (LayerCore) plus the relay skeleton; the real TCP/UDP layers are exercised by the oracle only",
           "addon manager abstracted to: addon decides intercept at the message hook"]
ASSUMPTIONS = ["kill() on a non-killable flow raises and changes nothing", "WebSocket/DNS/HTTP layer kill paths are not driven by this check's oracle"]

OPS = ["int", "res", "kill", "wait", "loop"]
COQ_OP = {"int": "Intercept", "res": "Resume", "kill": "Kill", "wait": "HookWait", "loop": "LoopStep"}


def gen(rng, n, tier):
    out = []
    for _ in range(n):
        if rng.chance(0.7):
            ops = []
            for _ in range(rng.randint(1, 14)):
                ops.append(rng.weighted([(3, "int"), (3, "res"), (2, "kill"), (2, "wait"), (3, "loop")]))
            if rng.chance(0.5):  # make sure the hook waits in many cases
                ops = ["int", "wait"] + ops
            out.append({"k": "flow", "ops": ops})
        else:
            user = [rng.weighted([(3, "res"), (2, "kill"), (1, "int"), (2, "loop"), (2, "edit")]) for _ in range(rng.randint(1, 5))]
            out.append({"k": rng.choice(["tcp", "udp"]), "intercept": rng.chance(0.8), "user": user,
                        "msg": rng.bytes(rng.randint(1, 6)).hex(), "from_client": rng.chance(0.7)})
    return out


def setup_impl():
    global asyncio, mflow, tflow, mode_servers, server, commands, events, layer, context, connection, options, Proxyserver
    global TCPLayer, UDPLayer, exceptions
    import asyncio
    from mitmproxy import flow as mflow, connection, options, exceptions
    from mitmproxy.test import tflow
    from mitmproxy.proxy import mode_servers, server, commands, events, layer, context
    from mitmproxy.addons.proxyserver import Proxyserver
    from mitmproxy.proxy.layers.tcp import TCPLayer
    from mitmproxy.proxy.layers.udp import UDPLayer


class _Addons:
    def __init__(self, policy):
        self.policy = policy

    async def handle_lifecycle(self, hook):
        self.policy(hook)


class _Master:
    def __init__(self, policy):
        self.addons = _Addons(policy)


def _handler(policy):
    h = object.__new__(mode_servers.ProxyConnectionHandler)
    h.master = _Master(policy)
    h.timeout_watchdog = server.TimeoutWatchdog(600, lambda: None)
    return h


async def _settle():
    for _ in range(5):
        await asyncio.sleep(0)


def _obs_flow(f, task):
    ev = f._resume_event
    return [f.intercepted, f.live, bool(f.error and f.error.msg == mflow.Error.KILLED_MESSAGE),
            0 if ev is None else (2 if ev.is_set() else 1), 0 if task is None else (2 if task.done() else 1)]


def _apply(f, op):
    if op == "int":
        f.intercept()
    elif op == "res":
        f.resume()
    elif op == "kill":
        try:
            f.kill()
        except exceptions.ControlException:
            pass


def run_flow(case):
    async def main():
        f = tflow.ttcpflow()
        f.live = True
        h = _handler(lambda hook: None)
        from mitmproxy.proxy.layers.tcp import TcpMessageHook
        task = None
        rows = []
        for op in case["ops"]:
            if op == "wait":
                if task is None:
                    task = asyncio.get_running_loop().create_task(h.handle_hook(TcpMessageHook(f)))
                    await _settle()
            elif op == "loop":
                await _settle()
            else:
                _apply(f, op)
            rows.append(_obs_flow(f, task))
        if task is not None and not task.done():
            task.cancel()
            try:
                await task
            except BaseException:
                pass
        return rows
    return {"rows": asyncio.run(main())}


def _ctx():
    opts = options.Options()
    Proxyserver().load(opts)
    return context.Context(connection.Client(peername=("client", 1234), sockname=("127.0.0.1", 8080),
                                             timestamp_start=1605699329, state=connection.ConnectionState.OPEN), opts)


def run_layer(case):
    async def main():
        ctx = _ctx()
        if case["k"] == "udp":
            ctx.client.transport_protocol = "udp"
            ctx.server.transport_protocol = "udp"
        ctx.server.address = ("example.com", 80)
        ctx.server.state = connection.ConnectionState.OPEN
        ctx.server.timestamp_start = 1605699330
        lay = (TCPLayer if case["k"] == "tcp" else UDPLayer)(ctx)
        sent = []        # (to_server?, hex) in order
        log = []
        msg = bytes.fromhex(case["msg"])
        edited = [msg]
        state = {"hook_cmd": None, "task": None, "released": False}

        def policy(hook):
            if hook.name.endswith("_message") and case["intercept"]:
                hook.args()[0].intercept()
        h = _handler(policy)

        async def feed(ev):
            for c in lay.handle_event(ev):
                if isinstance(c, commands.SendData):
                    sent.append([c.connection is ctx.server, c.data.hex()])
                    log.append("send")
                elif isinstance(c, commands.StartHook):
                    log.append("hook:" + c.name)
                    if c.name.endswith("_message"):
                        state["hook_cmd"] = c
                        state["task"] = asyncio.get_running_loop().create_task(h.handle_hook(c))
                        await _settle()
                    else:
                        # lifecycle hooks other than the message hook complete at once
                        await feed(events.HookCompleted(c))
                elif isinstance(c, (commands.CloseConnection,)):
                    log.append("close")

        await feed(events.Start())
        src = ctx.client if case["from_client"] else ctx.server
        await feed(events.DataReceived(src, msg))
        flow = lay.flow
        sent_before = list(sent)
        killed_before_completion = False
        for op in case["user"] + ["loop", "res", "loop"]:   # the tail makes sure the hook is eventually released
            if state["task"] is not None and state["task"].done() and not state["released"]:
                state["released"] = True
                killed_before_completion = bool(flow.error and flow.error.msg == mflow.Error.KILLED_MESSAGE)
                log.append("hook-completed")
                await feed(events.HookCompleted(state["hook_cmd"]))
            if state["released"]:
                break
            if op == "edit":
                flow.messages[-1].content = flow.messages[-1].content + b"!"
                edited[0] = flow.messages[-1].content
            elif op == "loop":
                await _settle()
            else:
                _apply(flow, op)
            if not state["task"].done():
                sent_before = list(sent)
        if state["task"] is not None and state["task"].done() and not state["released"]:
            state["released"] = True
            killed_before_completion = bool(flow.error and flow.error.msg == mflow.Error.KILLED_MESSAGE)
            log.append("hook-completed")
            await feed(events.HookCompleted(state["hook_cmd"]))
        return {"sent_while_held": sent_before, "sent": sent, "log": log, "killed": killed_before_completion,
                "content": edited[0].hex(), "released": state["released"], "waited": case["intercept"]}
    return asyncio.run(main())


def run_impl(case):
    return run_flow(case) if case["k"] == "flow" else run_layer(case)


def coq_case(case, obs):
    if case["k"] != "flow":
        return None
    rows = [f"(mkObs {cbool(r[0])} {cbool(r[1])} {cbool(r[2])} {r[3]} {r[4]})" for r in obs["rows"]]
    return f"mkCase {clist([COQ_OP[o] for o in case['ops']], 'fop')} {clist(rows, 'obs')}"


def oracle(case, obs):
    v = []
    if case["k"] == "flow":
        waiting_since = None
        for i, (op, r) in enumerate(zip(case["ops"], obs["rows"])):
            inter, live, killed, ev, h = r
            if h == 1 and not inter and ev != 2:
                v.append({"key": "stuck-hook", "what": f"after op {i} ({op}) the hook waits although the flow is not intercepted and nothing will release it"})
                break
        return v
    tgt = case["from_client"]
    held = [s for s in obs["sent_while_held"] if s[0] == tgt]
    if held and obs["waited"]:
        v.append({"key": "sent-while-intercepted", "what": f"{held} sent to the destination while the flow was intercepted"})
    mine = [s for s in obs["sent"] if s[0] == tgt]
    if not obs["released"]:
        v.append({"key": "stuck-hook", "what": "message hook never completed although the flow was resumed/killed"})
    elif obs["killed"]:
        if mine:
            v.append({"key": f"{case['k']}-kill-forwards", "what": f"{case['k']} flow killed during its message hook, yet {mine} was sent to the destination"})
    else:
        if [s[1] for s in mine] != [obs["content"]]:
            v.append({"key": "resume-not-exactly-once", "what": f"after resume the destination received {mine}, expected exactly [{obs['content']}]"})
    return v


def nontrivial(case, obs):
    if case["k"] == "flow":
        return any(r[4] == 1 for r in obs["rows"])
    return obs["waited"]


def classify(case, obs):
    if case["k"] == "flow":
        t = ["flow"]
        if any(r[4] == 1 for r in obs["rows"]):
            t.append("hook-waited")
        if any(r[2] for r in obs["rows"]):
            t.append("killed")
        if obs["rows"] and obs["rows"][-1][4] == 2:
            t.append("hook-done")
        return t
    return [case["k"], "killed" if obs["killed"] else "resumed", "intercepted" if obs["waited"] else "not-intercepted"]
