"""C11 — Intercepted flows are held until resumed, killed flows are never forwarded
(mitmproxy/flow.py, mode_servers.ProxyConnectionHandler.handle_hook, protocol layers)."""
from lib.coqterm import cbool, clist

ID = "C11"
QUICK_N = 2000
THOROUGH_N = 16000
SHARD = 500
TRANSLATORS = ["watchdog_cond"]
COQ_PRELUDE = "From MV Require Import Model.FlowControl.\n"
RULE = ("(m) 12%: 2-4 flows of one multiplexed connection whose hooks are concurrent real handle_hook tasks sharing the real "
        "TimeoutWatchdog under a virtual clock (some intercepted; time advances past the idle timeout; resume/kill in any order): the "
        "timeout must not fire while a hook is pending, and a hook that is not intercepted completes at once. Of the rest: (a) 70%: operation sequences (<=14) over {intercept, resume, kill, hook reaches wait_for_resume, event-loop step} on a real "
        "Flow whose hook is run by the real ProxyConnectionHandler.handle_hook; state compared with the model after every "
        "operation. (b) 30%: a real TCP or UDP layer relays one message; at its message hook the addon intercepts, then the "
        "user edits/resumes/kills in generated orders; the oracle watches the bytes sent to the destination. "
        "Non-trivial = the hook actually waited (flow intercepted at hook time); distinct by canonical JSON.")
TRUSTED = ["Coq 8.16.1 kernel; vm_compute for case evaluation",
           "hand model of Flow.intercept/resume/kill/wait_for_resume and asyncio.Event wake-up semantics, tied by correspondence",
           "layer-level clause rests on C04 (LayerCore) plus the relay skeleton; the real TCP/UDP layers are exercised by the oracle only",
           "addon manager abstracted to: addon decides intercept at the message hook",
           "translator harness/translators/watchdog_cond.py (the connection-level clause is about the regenerated watcher condition; see C10)"]
ASSUMPTIONS = ["kill() on a non-killable flow raises and changes nothing", "WebSocket and DNS layer kill paths are not driven by this check's oracle; HTTP/1 (HttpStream.check_killed) is"]

OPS = ["int", "res", "kill", "wait", "loop"]
COQ_OP = {"int": "Intercept", "res": "Resume", "kill": "Kill", "wait": "HookWait", "loop": "LoopStep"}


def gen(rng, n, tier):
    out = []
    for _ in range(n):
        if rng.chance(0.12):
            # several flows of one (multiplexed) connection: their hooks are concurrent handle_hook tasks sharing
            # the connection's idle watchdog; some are intercepted, time passes, the user resumes/kills
            T = rng.randint(5, 30)
            nf = rng.randint(2, 4)
            started, evs = [], []
            for _ in range(rng.randint(4, 16)):
                r = rng.random()
                fresh = [i for i in range(nf) if i not in started]
                if r < 0.3 and fresh:
                    i = rng.choice(fresh)
                    started.append(i)
                    evs.append(["hook", i, rng.chance(0.6)])
                elif r < 0.45 and started:
                    evs.append([rng.choice(["res", "res", "kill"]), rng.choice(started)])
                elif r < 0.7:
                    evs.append(["adv", rng.choice([1, 2, T - 1, T, T + 1, 2 * T + 1, 3 * T])])
                elif r < 0.9:
                    evs.append(["wstep"])
                else:
                    evs.append(["loop"])
            out.append({"k": "mux", "T": T, "nf": nf, "evs": evs})
            continue
        if rng.chance(0.7):
            ops = []
            for _ in range(rng.randint(1, 14)):
                ops.append(rng.weighted([(3, "int"), (3, "res"), (2, "kill"), (2, "wait"), (3, "loop")]))
            if rng.chance(0.5):  # make sure the hook waits in many cases
                ops = ["int", "wait"] + ops
            out.append({"k": "flow", "ops": ops})
        elif rng.chance(0.5):
            out.append({"k": "http", "hook": rng.choice(["requestheaders", "request", "responseheaders", "response"]),
                        "action": rng.choice(["kill", "resume", "edit-resume"]),
                        "stream_req": rng.chance(0.4), "stream_resp": rng.chance(0.5),
                        "req_chunked": rng.chance(0.5), "resp_chunked": rng.chance(0.6),
                        "nbody": rng.randint(0, 3)})
        else:
            user = [rng.weighted([(3, "res"), (2, "kill"), (1, "int"), (2, "loop"), (2, "edit")]) for _ in range(rng.randint(1, 5))]
            out.append({"k": rng.choice(["tcp", "udp"]), "intercept": rng.chance(0.8), "user": user,
                        "msg": rng.bytes(rng.randint(1, 6)).hex(), "from_client": rng.chance(0.7)})
    return out


def setup_impl():
    global asyncio, mflow, tflow, mode_servers, server, commands, events, layer, context, connection, options, Proxyserver
    global TCPLayer, UDPLayer, exceptions
    import asyncio
    from mitmproxy import flow as mflow, connection, options, exceptions
    from mitmproxy.test import tflow
    from mitmproxy.proxy import mode_servers, server, commands, events, layer, context
    from mitmproxy.addons.proxyserver import Proxyserver
    from mitmproxy.proxy.layers.tcp import TCPLayer
    from mitmproxy.proxy.layers.udp import UDPLayer


class _Addons:
    def __init__(self, policy):
        self.policy = policy

    async def handle_lifecycle(self, hook):
        self.policy(hook)


class _Master:
    def __init__(self, policy):
        self.addons = _Addons(policy)


def _handler(policy):
    h = object.__new__(mode_servers.ProxyConnectionHandler)
    h.master = _Master(policy)
    h.timeout_watchdog = server.TimeoutWatchdog(600, lambda: None)
    return h


async def _settle():
    for _ in range(5):
        await asyncio.sleep(0)


def _obs_flow(f, task):
    ev = f._resume_event
    return [f.intercepted, f.live, bool(f.error and f.error.msg == mflow.Error.KILLED_MESSAGE),
            0 if ev is None else (2 if ev.is_set() else 1), 0 if task is None else (2 if task.done() else 1)]


def _apply(f, op):
    if op == "int":
        f.intercept()
    elif op == "res":
        f.resume()
    elif op == "kill":
        try:
            f.kill()
        except exceptions.ControlException:
            pass


def run_flow(case):
    async def main():
        f = tflow.ttcpflow()
        f.live = True
        h = _handler(lambda hook: None)
        from mitmproxy.proxy.layers.tcp import TcpMessageHook
        task = None
        rows = []
        for op in case["ops"]:
            if op == "wait":
                if task is None:
                    task = asyncio.get_running_loop().create_task(h.handle_hook(TcpMessageHook(f)))
                    await _settle()
            elif op == "loop":
                await _settle()
            else:
                _apply(f, op)
            rows.append(_obs_flow(f, task))
        if task is not None and not task.done():
            task.cancel()
            try:
                await task
            except BaseException:
                pass
        return rows
    return {"rows": asyncio.run(main())}


def _ctx():
    opts = options.Options()
    Proxyserver().load(opts)
    return context.Context(connection.Client(peername=("client", 1234), sockname=("127.0.0.1", 8080),
                                             timestamp_start=1605699329, state=connection.ConnectionState.OPEN), opts)


def run_layer(case):
    async def main():
        ctx = _ctx()
        if case["k"] == "udp":
            ctx.client.transport_protocol = "udp"
            ctx.server.transport_protocol = "udp"
        ctx.server.address = ("example.com", 80)
        ctx.server.state = connection.ConnectionState.OPEN
        ctx.server.timestamp_start = 1605699330
        lay = (TCPLayer if case["k"] == "tcp" else UDPLayer)(ctx)
        sent = []        # (to_server?, hex) in order
        log = []
        msg = bytes.fromhex(case["msg"])
        edited = [msg]
        state = {"hook_cmd": None, "task": None, "released": False}

        def policy(hook):
            if hook.name.endswith("_message") and case["intercept"]:
                hook.args()[0].intercept()
        h = _handler(policy)

        async def feed(ev):
            for c in lay.handle_event(ev):
                if isinstance(c, commands.SendData):
                    sent.append([c.connection is ctx.server, c.data.hex()])
                    log.append("send")
                elif isinstance(c, commands.StartHook):
                    log.append("hook:" + c.name)
                    if c.name.endswith("_message"):
                        state["hook_cmd"] = c
                        state["task"] = asyncio.get_running_loop().create_task(h.handle_hook(c))
                        await _settle()
                    else:
                        # lifecycle hooks other than the message hook complete at once
                        await feed(events.HookCompleted(c))
                elif isinstance(c, (commands.CloseConnection,)):
                    log.append("close")

        await feed(events.Start())
        src = ctx.client if case["from_client"] else ctx.server
        await feed(events.DataReceived(src, msg))
        flow = lay.flow
        sent_before = list(sent)
        killed_before_completion = False
        for op in case["user"] + ["loop", "res", "loop"]:   # the tail makes sure the hook is eventually released
            if state["task"] is not None and state["task"].done() and not state["released"]:
                state["released"] = True
                killed_before_completion = bool(flow.error and flow.error.msg == mflow.Error.KILLED_MESSAGE)
                log.append("hook-completed")
                await feed(events.HookCompleted(state["hook_cmd"]))
            if state["released"]:
                break
            if op == "edit":
                flow.messages[-1].content = flow.messages[-1].content + b"!"
                edited[0] = flow.messages[-1].content
            elif op == "loop":
                await _settle()
            else:
                _apply(flow, op)
            if not state["task"].done():
                sent_before = list(sent)
        if state["task"] is not None and state["task"].done() and not state["released"]:
            state["released"] = True
            killed_before_completion = bool(flow.error and flow.error.msg == mflow.Error.KILLED_MESSAGE)
            log.append("hook-completed")
            await feed(events.HookCompleted(state["hook_cmd"]))
        return {"sent_while_held": sent_before, "sent": sent, "log": log, "killed": killed_before_completion,
                "content": edited[0].hex(), "released": state["released"], "waited": case["intercept"]}
    return asyncio.run(main())


def run_http(case):
    """A real HttpLayer (regular mode, HTTP/1) relays one exchange; the addon intercepts at one hook, the user kills
    or resumes; we record what reaches each peer before and after that decision."""
    from lib.sansio import Driver, DEFER
    from mitmproxy.proxy.layers import http as http_layers
    from mitmproxy.proxy.layers.http import HTTPMode
    st = {"hook": None, "flow": None}

    def policy(hook, drv):
        f = hook.args()[0]
        if hook.name == "requestheaders" and case["stream_req"]:
            f.request.stream = True
        if hook.name == "responseheaders" and case["stream_resp"]:
            f.response.stream = True
        if hook.name == case["hook"] and st["hook"] is None:
            f.intercept()
            st["hook"], st["flow"] = hook, f
            return DEFER
    d = Driver(lambda ctx: http_layers.HttpLayer(ctx, HTTPMode.regular), policy=policy)
    chunks = [b"chunk%d" % i for i in range(case["nbody"])]

    def body(chunked):
        if chunked:
            return b"Transfer-Encoding: chunked\r\n\r\n" + b"".join(b"%x\r\n%s\r\n" % (len(c), c) for c in chunks) + b"0\r\n\r\n"
        return b"Content-Length: %d\r\n\r\n" % sum(map(len, chunks)) + b"".join(chunks)
    req = b"POST http://example.com/p HTTP/1.1\r\nHost: example.com\r\n" + body(case["req_chunked"])
    resp = b"HTTP/1.1 200 OK\r\n" + body(case["resp_chunked"])
    marks = {}

    def decide():
        if st["hook"] is None or "at" in marks:
            return
        marks["at"] = len(d.trace)
        f = st["flow"]
        if case["action"] == "kill":
            f.kill()
        else:
            if case["action"] == "edit-resume":
                if case["hook"] in ("requestheaders", "request"):
                    f.request.headers["x-edited"] = "1"
                elif f.response is not None:
                    f.response.headers["x-edited"] = "1"
            f.resume()
        d.complete(st["hook"])
    d.start()
    d.data(0, req)
    decide()
    if any(t[0] == "open" for t in d.trace):
        d.data(1, resp)
        decide()
    f = st["flow"]
    at = marks.get("at")
    killed = bool(f is not None and f.error and f.error.msg == mflow.Error.KILLED_MESSAGE)
    sends_after = [[t[1], t[2]] for t in d.trace[at:] if t[0] == "send"] if at is not None else []
    sends_before = [[t[1], t[2]] for t in d.trace[:at] if t[0] == "send"] if at is not None else [[t[1], t[2]] for t in d.trace if t[0] == "send"]
    hooks_after = [t[1] for t in d.trace[at:] if t[0] == "hook"] if at is not None else []
    return {"intercepted": at is not None, "killed": killed, "sends_before": sends_before, "sends_after": sends_after,
            "hooks_after": hooks_after, "hooks": d.hook_names(), "crashed": d.crashed,
            "to_server": d.sent(1).hex() if len(d.conns) > 1 else "", "to_client": d.sent(0).hex(),
            "live": bool(f.live) if f is not None else None}


class _Clock:
    def __init__(self):
        self.now = 0

    def time(self):
        return self.now


def run_mux(case):
    """Real handle_hook tasks of several flows share the connection's real TimeoutWatchdog (virtual clock)."""
    from mitmproxy.proxy.layers.tcp import TcpMessageHook
    clock = _Clock()
    timers = []
    real_sleep = asyncio.sleep

    async def vsleep(delay, result=None):
        fut = asyncio.get_running_loop().create_future()
        timers.append([clock.now + max(delay, 0), fut])
        await fut
        return result

    class _AsyncioShim:
        def __getattr__(self, name):
            return vsleep if name == "sleep" else getattr(asyncio, name)
    saved_time, saved_asyncio = server.time, server.asyncio
    server.time, server.asyncio = clock, _AsyncioShim()
    rows = []
    try:
        async def main():
            fired = []

            async def cb():
                fired.append(clock.now)
            flows = [tflow.ttcpflow() for _ in range(case["nf"])]
            for f in flows:
                f.live = True
            want_intercept = {}

            def policy(hook):
                f = hook.args()[0]
                if want_intercept.get(id(f)):
                    f.intercept()
            h = _handler(policy)
            h.timeout_watchdog = server.TimeoutWatchdog(case["T"], cb)
            wtask = asyncio.get_running_loop().create_task(h.timeout_watchdog.watch())
            tasks = {}

            async def settle():
                for _ in range(8):
                    await real_sleep(0)
            await settle()
            for e in case["evs"]:
                if e[0] == "hook":
                    f = flows[e[1]]
                    want_intercept[id(f)] = e[2]
                    h.timeout_watchdog.register_activity()       # server_event does this for every event
                    tasks[e[1]] = asyncio.get_running_loop().create_task(h.handle_hook(TcpMessageHook(f)))
                    await settle()
                elif e[0] in ("res", "kill"):
                    _apply(flows[e[1]], e[0])
                    await settle()
                elif e[0] == "adv":
                    clock.now += e[1]
                elif e[0] == "wstep":
                    for t in list(timers):
                        if t[0] <= clock.now and not t[1].done():
                            t[1].set_result(None)
                            timers.remove(t)
                    await settle()
                else:
                    await settle()
                rows.append([clock.now, bool(fired), [[i, tasks[i].done(), bool(flows[i].intercepted)] for i in sorted(tasks)]])
            for t in list(tasks.values()) + [wtask]:
                t.cancel()
            await asyncio.gather(*tasks.values(), wtask, return_exceptions=True)
        asyncio.run(main())
    finally:
        server.time, server.asyncio = saved_time, saved_asyncio
    return {"rows": rows}


def run_impl(case):
    if case["k"] == "mux":
        return run_mux(case)
    if case["k"] == "flow":
        return run_flow(case)
    if case["k"] == "http":
        return run_http(case)
    return run_layer(case)


def coq_case(case, obs):
    if case["k"] != "flow":
        return None
    rows = [f"(mkObs {cbool(r[0])} {cbool(r[1])} {cbool(r[2])} {r[3]} {r[4]})" for r in obs["rows"]]
    return f"mkCase {clist([COQ_OP[o] for o in case['ops']], 'fop')} {clist(rows, 'obs')}"


def oracle(case, obs):
    v = []
    if case["k"] == "mux":
        was_fired = False
        last_done = 0
        for e, (now, fired, ts) in zip(case["evs"], obs["rows"]):
            pending = [i for i, done, _ in ts if not done]
            if fired and not was_fired and pending:
                v.append({"key": "timeout-while-intercepted", "what": f"the connection idle timeout fired at t={now} while the hooks of flows {pending} were still pending (intercepted)"})
                break
            was_fired = fired
            for i, done, inter in ts:
                if not done and not inter:
                    v.append({"key": "other-flow-blocked", "what": f"hook of flow {i} is not intercepted (or was resumed/killed) yet has not completed at t={now} after {e}"})
            if v:
                break
        return v
    if case["k"] == "flow":
        waiting_since = None
        for i, (op, r) in enumerate(zip(case["ops"], obs["rows"])):
            inter, live, killed, ev, h = r
            if h == 1 and not inter and ev != 2:
                v.append({"key": "stuck-hook", "what": f"after op {i} ({op}) the hook waits although the flow is not intercepted and nothing will release it"})
                break
        return v
    if case["k"] == "http":
        if obs["crashed"]:
            return [{"key": "http-layer-crash", "what": f"HttpLayer raised {obs['crashed']}"}]
        if not obs["intercepted"]:
            return []
        request_side = case["hook"] in ("requestheaders", "request")
        dest = 1 if request_side else 0
        after = [s for s in obs["sends_after"] if (s[0] >= 1 if request_side else s[0] == 0)]
        if case["action"] == "kill":
            if not obs["killed"]:
                v.append({"key": "http-kill-not-recorded", "what": "flow killed but carries no kill error"})
            if request_side and after and case["hook"] == "request" and case["stream_req"]:
                v.append({"key": "http-streamed-request-kill-completes", "what": f"streamed request killed at its request hook, yet the end of the message {after[:2]} was still sent upstream (state_stream_request_body has no check_killed after the hook)"})
            elif request_side and after:
                v.append({"key": "http-kill-forwards-request", "what": f"flow killed at {case['hook']}, yet {after[:2]} was sent upstream afterwards"})
            if not request_side and after:
                v.append({"key": "http-kill-forwards-response", "what": f"flow killed at {case['hook']} (stream_resp={case['stream_resp']}), yet {after[:2]} was sent to the client afterwards"})
            # after the response hook has fired no error hook may follow (C03: never both); the flow carries the kill error
            if case["hook"] != "response" and "error" not in obs["hooks_after"]:
                v.append({"key": "http-kill-no-error-hook", "what": f"flow killed at {case['hook']} but no error hook fired afterwards: {obs['hooks_after']}"})
        else:
            if "error" in obs["hooks"]:
                v.append({"key": "http-resume-errored", "what": f"flow resumed at {case['hook']} ended with an error hook: {obs['hooks']}"})
            head = bytes.fromhex(obs["to_server"])
            if head.count(b"POST /p HTTP/1.1") != 1:
                v.append({"key": "resume-not-exactly-once", "what": f"after resume the server received {head.count(b'POST /p HTTP/1.1')} request heads"})
            cl = bytes.fromhex(obs["to_client"])
            if cl.count(b"HTTP/1.1 200 OK") != 1:
                v.append({"key": "resume-not-exactly-once", "what": f"after resume the client received {cl.count(b'HTTP/1.1 200 OK')} response heads"})
            streamed_already = (case["hook"] == "request" and case["stream_req"]) or (case["hook"] == "response" and case["stream_resp"])
            if case["action"] == "edit-resume" and not streamed_already and b"x-edited" not in (head if request_side else cl):
                v.append({"key": "edit-not-forwarded", "what": f"header edited while intercepted at {case['hook']} was not forwarded"})
        return v
    tgt = case["from_client"]
    held = [s for s in obs["sent_while_held"] if s[0] == tgt]
    if held and obs["waited"]:
        v.append({"key": "sent-while-intercepted", "what": f"{held} sent to the destination while the flow was intercepted"})
    mine = [s for s in obs["sent"] if s[0] == tgt]
    if not obs["released"]:
        v.append({"key": "stuck-hook", "what": "message hook never completed although the flow was resumed/killed"})
    elif obs["killed"]:
        if mine:
            v.append({"key": f"{case['k']}-kill-forwards", "what": f"{case['k']} flow killed during its message hook, yet {mine} was sent to the destination"})
    else:
        if [s[1] for s in mine] != [obs["content"]]:
            v.append({"key": "resume-not-exactly-once", "what": f"after resume the destination received {mine}, expected exactly [{obs['content']}]"})
    return v


def nontrivial(case, obs):
    if case["k"] == "mux":
        return any(any(not done for _, done, _ in r[2]) for r in obs["rows"])
    if case["k"] == "http":
        return obs["intercepted"]
    if case["k"] == "flow":
        return any(r[4] == 1 for r in obs["rows"])
    return obs["waited"]


def classify(case, obs):
    if case["k"] == "mux":
        t = ["mux"]
        if any(r[1] for r in obs["rows"]):
            t.append("mux-timeout-fired")
        if any(sum(1 for _, done, _ in r[2] if not done) >= 1 and len(r[2]) >= 2 for r in obs["rows"]):
            t.append("mux-held-beside-others")
        return t
    if case["k"] == "flow":
        t = ["flow"]
        if any(r[4] == 1 for r in obs["rows"]):
            t.append("hook-waited")
        if any(r[2] for r in obs["rows"]):
            t.append("killed")
        if obs["rows"] and obs["rows"][-1][4] == 2:
            t.append("hook-done")
        return t
    if case["k"] == "http":
        return ["http", "http-" + case["hook"], "http-" + case["action"], "http-intercepted" if obs["intercepted"] else "http-hook-not-reached"]
    return [case["k"], "killed" if obs["killed"] else "resumed", "intercepted" if obs["waited"] else "not-intercepted"]
