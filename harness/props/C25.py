"""C25 — DNS wire encoding round-trips and decoding is total
(mitmproxy/dns.py, mitmproxy/net/dns/domain_names.py).  Also hosts the DNS wire generator and
the observation helpers shared with C26 (props.C26 imports this module)."""
import struct

from lib.coqterm import cbytes, cbool, cN, cnat, clist, hx, unhx

ID = "C25"
QUICK_N = 2000
THOROUGH_N = 10000
SHARD = 150
COQ_PRELUDE = "From MV Require Import Model.DnsNames Model.DnsMessage.\n"
RULE = ("45% wire messages built by a compressing DNS writer (names from a label pool, pointers to earlier "
        "suffixes, A/AAAA/TXT/HINFO/CNAME/NS/PTR/MX/SOA/SRV/unknown records, TXT/MX/SOA data seeded with bytes "
        ">= 0xC0 that resolve to real names), a third of them mutated (truncate, trailing bytes, byte flips, "
        "pointer loops, forward pointers, pointers to the root label, labels containing dots, over-long labels, "
        "count fields changed, xn-- and non-ASCII labels); 20% message objects packed then unpacked (full field "
        "ranges, out-of-range fields, bad names, a few IDN names); 25% direct calls of domain_names.pack/unpack/"
        "unpack_from/unpack_from_with_compression on small label/pointer buffers; 5% decompress_from_record_data; "
        "5% record_data_can_have_compression over 0..300 and random types; 8% HISTORIES in one process: several spellings (ASCII case variants) of the same names packed one after the other, then messages using yet other spellings are round-tripped. Thorough adds every buffer of length "
        "<= 3 over a 7-byte alphabet for the name decoders. Non-trivial = at least one name label or record "
        "was decoded/encoded, or an error branch was taken; distinct by canonical JSON.")
TRUSTED = ["Coq 8.16.1 kernel (coqc), vm_compute for case evaluation and the refutation witnesses",
           "harness/props/C25.py generator, observation and comparison glue (Corr/C25.v)",
           "hand model of struct (big-endian H/I/B readers), bytearray slice assignment, str.split/join, and of the "
           "CPython idna codec restricted to labels without the ACE prefix (ASCII fast path); tied by correspondence",
           "CPython recursion limit is not modelled: buffers are assumed shorter than ~1900 bytes so that a pointer "
           "chain cannot exceed it (longer chains: known finding recursionerror-long-pointer-chain)"]
ASSUMPTIONS = ["labels/names containing the ACE prefix xn-- (any case) or non-ASCII characters are outside the model: "
               "the model stops with EAce and only the implementation-side oracle judges those inputs",
               "integer fields of DNSMessage are non-negative (N); negative ints only hit the same ValueError/struct.error checks"]

COMPRESSIBLE = {5, 13, 7, 3, 4, 8, 14, 9, 15, 2, 12, 6, 16, 17, 18, 21, 24, 26, 30, 35, 33}
NAME_TYPES = {2, 5, 12}     # rdata is exactly one domain name

LABELS = [b"a", b"b", b"www", b"example", b"com", b"org", b"mail", b"ns1", b"A-b_1", b"x" * 63, b"\x00\x01 ", b"_tcp",
          b"Xn-x", b"0"]
ACE_LABELS = [b"xn--bcher-kva", b"xn--a-b-", b"XN--X", b"axn--b", b"xn--\xff", b"xn--", b"xn--9ca"]
ODD_LABELS = [b"a.b", b".", b"a..b", b"\xc3\xa9", b"\xff", b"y" * 64]
IDN_NAMES = ["bücher.de", "例え.jp", "ñandú.example", "a.é"]


def wt(rng, pairs):
    """weighted choice over (value, weight) pairs"""
    return rng.weighted([(w, v) for v, w in pairs])


# ------------------------------------------------------------------ wire writer
class Writer:
    def __init__(self, rng, compress=0.6):
        self.rng, self.buf, self.table, self.compress = rng, bytearray(), {}, compress

    def name(self, labels):
        for i in range(len(labels)):
            suf = tuple(labels[i:])
            if suf in self.table and self.rng.chance(self.compress):
                self.buf += struct.pack("!H", 0xC000 | self.table[suf])
                return
            if len(self.buf) < 0x3FFF:
                self.table.setdefault(suf, len(self.buf))
            self.buf += bytes([len(labels[i]) & 0xFF]) + labels[i]
        self.buf += b"\x00"

    def raw(self, b):
        self.buf += b


def rand_labels(rng, pool=None):
    pool = pool or LABELS
    return [rng.choice(pool) for _ in range(wt(rng, [(0, 1), (1, 2), (2, 4), (3, 4), (4, 1)]))]


def charstr(rng, ptrish):
    n = rng.randint(0, 12)
    s = bytearray(rng.bytes(n, alphabet=b"abc xyz=0\x00\x7f") if rng.chance(0.7) else rng.bytes(n))
    if ptrish and rng.chance(0.6):
        s += bytes([0xC0, rng.choice(ptrish) & 0xFF])
    return bytes([len(s)]) + bytes(s)


def build_wire(rng, odd=False):
    """A DNS message as a real server could send it. Returns (bytes, info)."""
    w = Writer(rng, rng.choice([0.0, 0.6, 0.9]))
    pool = LABELS + (ODD_LABELS + ACE_LABELS if odd else [])
    nq = wt(rng, [(0, 1), (1, 8), (2, 2)])
    counts = [nq, wt(rng, [(0, 2), (1, 4), (2, 3), (3, 1)]), wt(rng, [(0, 5), (1, 2)]), wt(rng, [(0, 5), (1, 2), (2, 1)])]
    flags = rng.choice([0x0100, 0x8180, 0x8583, rng.below(65536)])
    w.raw(struct.pack("!HHHHHH", rng.below(65536), flags, *counts))
    base = rand_labels(rng, pool)
    for _ in range(nq):
        w.name(base if rng.chance(0.7) else rand_labels(rng, pool))
        w.raw(struct.pack("!HH", rng.choice([1, 28, 16, 15, 255, rng.below(65536)]), rng.choice([1, 1, 3, 255, rng.below(65536)])))
    types = []
    for _ in range(sum(counts[1:])):
        owner = base if rng.chance(0.6) else rand_labels(rng, pool)
        w.name(owner)
        t = wt(rng, [(1, 4), (28, 2), (16, 5), (13, 1), (5, 3), (2, 2), (12, 1), (15, 3), (6, 3), (14, 1), (17, 1), (33, 2), (41, 1), (99, 1),
                          (46, 2), (47, 2), (48, 1), (43, 1), (65, 1), (64, 1), (65280, 1), (rng.below(65536), 1)])
        types.append(t)
        w.raw(struct.pack("!HHI", t, rng.choice([1, 1, 1, 3, rng.below(65536)]),
                          rng.choice([0, 60, 86400, 0xC00C0000, 0xFFFFFFFF, rng.below(1 << 32)])))
        lenpos = len(w.buf)
        w.raw(b"\x00\x00")
        start = len(w.buf)
        ptrish = [o for o in w.table.values() if o < 256]
        if t == 1:
            w.raw(rng.bytes(4) if rng.chance(0.7) else bytes([192, 12, 192, 12]))
        elif t == 28:
            w.raw(rng.bytes(16))
        elif t in (16, 13):
            for _ in range(rng.randint(1, 3) if t == 16 else 2):
                w.raw(charstr(rng, ptrish if rng.chance(0.5) else None))
        elif t in NAME_TYPES:
            w.name(rand_labels(rng, pool) if rng.chance(0.4) else [rng.choice(pool)] + list(base))
        elif t == 15:
            w.raw(struct.pack("!H", rng.choice([0, 10, 20, 0xC00C, 0xC000 | (rng.choice(ptrish) if ptrish else 12)])))
            w.name([rng.choice(pool)] + list(base))
        elif t in (6, 14, 17):
            # two names; half of the time the second one is compressed against a suffix that first occurs inside the first
            # name of the SAME rdata (primary NS outside the zone, as BIND emits it)
            if rng.chance(0.5):
                outside = [rng.choice([b"dns-provider", b"nsone", b"b"]), rng.choice([b"net", b"io"])]
                w.name([b"ns1"] + outside)
                keep, w.compress = w.compress, (1.0 if rng.chance(0.8) else w.compress)
                w.name([b"hostmaster"] + (outside if rng.chance(0.7) else outside[1:]))
                w.compress = keep
            else:
                w.name([b"ns1"] + list(base)); w.name([b"hostmaster"] + list(base))
            if t != 6:
                struct.pack_into("!H", w.buf, lenpos, len(w.buf) - start)
                continue
            w.raw(struct.pack("!IIIII", rng.choice([2024010101, 0xC00CC00C, rng.below(1 << 32)]), 7200, 3600, 1209600, rng.below(1 << 32)))
        elif t == 33:
            w.raw(struct.pack("!HHH", rng.below(65536), rng.below(65536), rng.choice([443, 53, 0xC00C])))
            w.name([rng.choice(pool)] + list(base))
        else:
            # opaque RDATA (DNSSEC signatures/bitmaps/keys, OPT, SVCB, unknown types): must be forwarded byte-for-byte;
            # seeded with byte pairs that would resolve as compression pointers to real names in this message
            d = bytearray(rng.bytes(rng.randint(0, 10)))
            if ptrish and rng.chance(0.7):
                for _ in range(rng.randint(1, 2)):
                    i = rng.randint(0, len(d))
                    d[i:i] = bytes([0xC0, rng.choice(ptrish)])
            w.raw(bytes(d))
        struct.pack_into("!H", w.buf, lenpos, len(w.buf) - start)
    return bytes(w.buf), {"types": types}


def mutate(rng, b):
    b = bytearray(b)
    tags = []
    for _ in range(rng.randint(1, 2)):
        op = wt(rng, [("trunc", 3), ("trail", 2), ("flip", 3), ("ptr", 5), ("count", 2), ("rootptr", 2), ("selfptr", 2), ("len", 1)])
        tags.append(op)
        n = len(b)
        if op == "trunc" and n:
            del b[rng.below(n):]
        elif op == "trail":
            b += rng.bytes(rng.randint(1, 4))
        elif op == "flip" and n:
            b[rng.below(n)] = rng.choice([0, 0x3F, 0x40, 0xC0, 0xFF, 0x2E, rng.below(256)])
        elif op == "ptr" and n > 13:
            i = rng.randint(12, n - 2)
            b[i:i + 2] = struct.pack("!H", 0xC000 | rng.choice([12, i, i - 2 if i > 13 else 12, rng.below(n + 4), rng.below(0x4000)]))
        elif op == "selfptr" and n > 13:
            i = rng.randint(12, n - 2)
            b[i:i + 2] = struct.pack("!H", 0xC000 | i)
        elif op == "rootptr" and n > 13:
            zeros = [j for j in range(12, n) if b[j] == 0]
            i = rng.randint(12, n - 2)
            if zeros:
                b[i:i + 2] = struct.pack("!H", 0xC000 | rng.choice(zeros))
        elif op == "count" and n >= 12:
            b[4 + 2 * rng.below(4) + 1] = rng.choice([0, 1, 2, 3, 9])
        elif op == "len" and n > 14:
            b[rng.randint(12, n - 1)] = rng.choice([0, 1, 5, 200])
    return bytes(b), tags


# ------------------------------------------------------------------ message objects
def wf_name(name: str) -> bool:
    if name == "":
        return True
    for p in name.split("."):
        if not (0 < len(p) < 64) or any(ord(c) > 127 for c in p) or "xn--" in p.lower():
            return False
    return True


def recase(rng, name: str) -> str:
    """another spelling of the same DNS name: ASCII letters with random case (0x20 encoding)"""
    return "".join((c.upper() if rng.chance(0.5) else c.lower()) if c.isascii() and c.isalpha() else c for c in name)


def gen_name(rng, bad=False):
    if bad and rng.chance(0.5):
        return rng.choice(["a..b", ".", "a.", ".a", "y" * 64, "ok." + "z" * 70, "xn--bcher-kva.com", "XN--a.b", "a.bé"] + IDN_NAMES)
    return ".".join(l.decode("latin-1") for l in rand_labels(rng) if b"." not in l)


def gen_rr(rng, bad):
    t = wt(rng, [(1, 3), (28, 1), (16, 4), (5, 2), (15, 2), (6, 1), (33, 1), (13, 1), (99, 1), (rng.below(65536), 2)])
    if t in COMPRESSIBLE and rng.chance(0.75):
        data = rng.bytes(rng.randint(0, 14), alphabet=bytes(range(0, 0xC0)))
    elif rng.chance(0.3):
        data = rng.bytes(rng.randint(0, 6)) + bytes([0xC0, rng.choice([12, 13, 20, 30])]) + rng.bytes(rng.randint(0, 3))
    else:
        data = rng.bytes(rng.randint(0, 14))
    ttl = rng.choice([0, 1, 300, 0xFFFFFFFF, rng.below(1 << 32)])
    if bad and rng.chance(0.2):
        ttl = 1 << 32
    return {"name": gen_name(rng, bad and rng.chance(0.3)), "type": t if not (bad and rng.chance(0.1)) else 65536,
            "class": rng.choice([1, 1, 3, 255, 65535, rng.below(65536)]), "ttl": ttl, "data": hx(data)}


def gen_msg(rng, bad=False):
    pick = lambda lim: (lim + 1 + rng.below(3)) if (bad and rng.chance(0.15)) else rng.choice([0, lim, rng.below(lim + 1)])
    return {"id": pick(65535), "query": rng.chance(0.5), "op_code": pick(15), "aa": rng.chance(0.5), "tc": rng.chance(0.3),
            "rd": rng.chance(0.5), "ra": rng.chance(0.5), "reserved": pick(7), "rcode": pick(15),
            "q": [{"name": gen_name(rng, bad and rng.chance(0.3)), "type": rng.choice([1, 28, 255, 65535, rng.below(65536)]),
                   "class": rng.choice([1, 255, rng.below(65536)])} for _ in range(wt(rng, [(0, 1), (1, 6), (2, 2)]))],
            "an": [gen_rr(rng, bad) for _ in range(wt(rng, [(0, 2), (1, 4), (2, 2), (3, 1)]))],
            "ns": [gen_rr(rng, bad) for _ in range(wt(rng, [(0, 5), (1, 2)]))],
            "ar": [gen_rr(rng, bad) for _ in range(wt(rng, [(0, 5), (1, 2), (2, 1)]))]}


def gen_history(rng):
    """One process: pack several spellings of the same names, then round-trip messages that use yet other spellings
    (mixed-case question after a lower-case one; mixed-case question + lower-case owner in one message)."""
    base = [n for n in (gen_name(rng) for _ in range(2)) if n] or ["www.example.com"]
    packs = []
    for _ in range(rng.randint(2, 5)):
        b = rng.choice(base)
        packs.append(rng.choice([b.lower(), b, recase(rng, b), b.upper()]))
    msgs = []
    for _ in range(rng.randint(1, 2)):
        m = gen_msg(rng, False)
        b = rng.choice(base)
        for q in m["q"]:
            q["name"] = recase(rng, b)
        for r in m["an"] + m["ns"] + m["ar"]:
            if rng.chance(0.7):
                r["name"] = rng.choice([b.lower(), recase(rng, b), b])
        msgs.append(m)
    return {"k": "hist", "packs": packs, "msgs": msgs}


def msg_wf(m) -> bool:
    if not (m["id"] <= 65535 and m["op_code"] <= 15 and m["reserved"] <= 7 and m["rcode"] <= 15):
        return False
    for q in m["q"]:
        if not (wf_name(q["name"]) and q["type"] <= 65535 and q["class"] <= 65535):
            return False
    for r in m["an"] + m["ns"] + m["ar"]:
        if not (wf_name(r["name"]) and r["type"] <= 65535 and r["class"] <= 65535 and r["ttl"] < (1 << 32)):
            return False
    return True


# ------------------------------------------------------------------ small name buffers
def name_buf(rng):
    toks = [b"\x00", b"\x01a", b"\x03www", b"\x07example", b"\x03com", b"\xc0\x00", b"\xc0\x02", b"\xc0\x05", b"\xc0", b"\x40",
            b"\x3f" + b"q" * 63, b"\x05ab", b"\x03a.b", b"\x02\xc3\xa9", b"\xc0\x0c", b"\xff\xff", b"\x01.", b"\x04a..b",
            b"\x04xn--", b"\x0dxn--bcher-kva", b"\x08xn--a-b-"]
    if rng.chance(0.5):
        # mostly valid: a few complete names, later ones may end in a pointer to the start of an earlier one
        out, starts = bytearray(), []
        for _ in range(rng.randint(1, 3)):
            here = len(out)
            for lab in rand_labels(rng, LABELS + ([b"a.b"] if rng.chance(0.1) else [])):
                out += bytes([len(lab)]) + lab
            out += struct.pack("!H", 0xC000 | rng.choice(starts)) if starts and rng.chance(0.6) else b"\x00"
            starts.append(here if rng.chance(0.8) else here + 1)
        return bytes(out), starts
    return b"".join(rng.choice(toks) for _ in range(rng.randint(0, 6))), [0]


def gen(rng, n, tier):
    out = []
    if tier == "thorough":
        alpha = [0x00, 0x01, 0x02, 0x61, 0xC0, 0x2E, 0x40]
        def rec(prefix, depth):
            yield bytes(prefix)
            if depth:
                for a in alpha:
                    yield from rec(prefix + [a], depth - 1)
        for s in rec([], 3):
            out.append({"k": "nunpack", "buf": hx(s)})
            out.append({"k": "nunpackc", "buf": hx(s), "off": 0})
    for t in list(range(0, 301)) if tier == "thorough" else list(range(0, 60)):
        out.append({"k": "compr", "t": t})
    for _ in range(n):
        r = rng.random()
        if r < 0.08:
            out.append(gen_history(rng))
        elif r < 0.45:
            odd = rng.chance(0.12)
            b, info = build_wire(rng, odd)
            tags = ["odd-labels"] if odd else []
            if rng.chance(0.35):
                b, mt = mutate(rng, b)
                tags += ["mut:" + t for t in mt]
            out.append({"k": "unp", "buf": hx(b), "tags": tags})
        elif r < 0.65:
            bad = rng.chance(0.3)
            m = gen_msg(rng, bad)
            out.append({"k": "pk", "m": m})
        elif r < 0.72:
            out.append({"k": "npack", "name": gen_name(rng, rng.chance(0.5))})
        elif r < 0.78:
            out.append({"k": "nunpack", "buf": hx(name_buf(rng)[0])})
        elif r < 0.84:
            b, offs = name_buf(rng)
            out.append({"k": "nunpackfrom", "buf": hx(b), "off": rng.choice(offs) if rng.chance(0.7) else rng.below(len(b) + 2)})
        elif r < 0.90:
            b, offs = name_buf(rng)
            out.append({"k": "nunpackc", "buf": hx(b), "off": rng.choice(offs) if rng.chance(0.7) else rng.below(len(b) + 2)})
        elif r < 0.95:
            b = name_buf(rng)[0] + name_buf(rng)[0]
            off = rng.below(len(b) + 1)
            out.append({"k": "decomp", "buf": hx(b), "off": off, "end": rng.randint(off, len(b))})
        else:
            out.append({"k": "compr", "t": rng.choice([rng.below(300), rng.below(65536)])})
    return out


# ------------------------------------------------------------------ implementation side
def setup_impl():
    global dns, domain_names
    from mitmproxy import dns  # noqa
    from mitmproxy.net.dns import domain_names  # noqa


def exc_class(e) -> str:
    if isinstance(e, struct.error):
        return "EStruct"
    if isinstance(e, UnicodeError):
        return "EUnicode"
    if isinstance(e, ValueError):
        return "EValue"
    if isinstance(e, IndexError):
        return "EIndex"
    if isinstance(e, RecursionError):
        return "ERecursion"
    return "EOther:" + type(e).__name__


def attempt(f):
    try:
        return {"ok": f()}
    except Exception as e:  # every exception class is an observable
        return {"err": exc_class(e)}


def msg_to_json(m):
    rr = lambda r: {"name": r.name, "type": r.type, "class": r.class_, "ttl": r.ttl, "data": hx(r.data)}
    return {"id": m.id, "query": m.query, "op_code": m.op_code, "aa": m.authoritative_answer, "tc": m.truncation,
            "rd": m.recursion_desired, "ra": m.recursion_available, "reserved": m.reserved, "rcode": m.response_code,
            "q": [{"name": q.name, "type": q.type, "class": q.class_} for q in m.questions],
            "an": [rr(r) for r in m.answers], "ns": [rr(r) for r in m.authorities], "ar": [rr(r) for r in m.additionals]}


def msg_from_json(j):
    rr = lambda r: dns.ResourceRecord(r["name"], r["type"], r["class"], r["ttl"], unhx(r["data"]))
    return dns.DNSMessage(id=j["id"], query=j["query"], op_code=j["op_code"], authoritative_answer=j["aa"], truncation=j["tc"],
                          recursion_desired=j["rd"], recursion_available=j["ra"], reserved=j["reserved"], response_code=j["rcode"],
                          questions=[dns.Question(q["name"], q["type"], q["class"]) for q in j["q"]],
                          answers=[rr(r) for r in j["an"]], authorities=[rr(r) for r in j["ns"]], additionals=[rr(r) for r in j["ar"]],
                          timestamp=0.0)


def run_impl(case):
    k = case["k"]
    if k == "unp":
        buf = unhx(case["buf"])
        holder = {}
        def f():
            holder["m"] = dns.DNSMessage.unpack(buf)
            return msg_to_json(holder["m"])
        o = {"r": attempt(f)}
        if "m" in holder:
            o["repacked"] = attempt(lambda: hx(holder["m"].packed))
            if "ok" in o["repacked"]:
                o["again"] = attempt(lambda: msg_to_json(dns.DNSMessage.unpack(unhx(o["repacked"]["ok"]))))
        return o
    if k == "pk":
        o = {"p": attempt(lambda: hx(msg_from_json(case["m"]).packed))}
        if "ok" in o["p"]:
            o["back"] = attempt(lambda: msg_to_json(dns.DNSMessage.unpack(unhx(o["p"]["ok"]))))
        return o
    if k == "hist":
        o = {"packs": [attempt(lambda n=n: hx(domain_names.pack(n))) for n in case["packs"]], "msgs": []}
        for m in case["msgs"]:
            o["msgs"].append(run_impl({"k": "pk", "m": m}))
        return o
    if k == "npack":
        return {"r": attempt(lambda: hx(domain_names.pack(case["name"])))}
    if k == "nunpack":
        return {"r": attempt(lambda: domain_names.unpack(unhx(case["buf"])))}
    if k == "nunpackfrom":
        return {"r": attempt(lambda: list(domain_names.unpack_from(unhx(case["buf"]), case["off"])))}
    if k == "nunpackc":
        return {"r": attempt(lambda: list(domain_names.unpack_from_with_compression(unhx(case["buf"]), case["off"], domain_names.cache())))}
    if k == "decomp":
        return {"r": attempt(lambda: hx(domain_names.decompress_from_record_data(unhx(case["buf"]), case["off"], case["end"], domain_names.cache())))}
    if k == "compr":
        return {"r": bool(domain_names.record_data_can_have_compression(case["t"]))}
    raise AssertionError(k)


# ------------------------------------------------------------------ Coq terms
def cname(s: str) -> str:
    return cbytes(s.encode("utf-8", "surrogatepass"))


def cmsg(j) -> str:
    q = lambda x: f"(mkQ {cname(x['name'])} {cN(x['type'])} {cN(x['class'])})"
    r = lambda x: f"(mkRR {cname(x['name'])} {cN(x['type'])} {cN(x['class'])} {cN(x['ttl'])} {cbytes(unhx(x['data']))})"
    return (f"(mkMsg {cN(j['id'])} {cbool(j['query'])} {cN(j['op_code'])} {cbool(j['aa'])} {cbool(j['tc'])} {cbool(j['rd'])} "
            f"{cbool(j['ra'])} {cN(j['reserved'])} {cN(j['rcode'])} {clist([q(x) for x in j['q']], 'question')} "
            f"{clist([r(x) for x in j['an']], 'rr')} {clist([r(x) for x in j['ns']], 'rr')} {clist([r(x) for x in j['ar']], 'rr')})")


def cres(o, f, ty) -> str:
    if o is None:
        return f"(@Err {ty} EOther)"
    if "ok" in o:
        return f"(@Ok {ty} {f(o['ok'])})"
    e = o["err"]
    return f"(@Err {ty} {e if e in ('EStruct', 'EValue', 'EUnicode', 'EIndex') else 'EOther'})"


def coq_case(case, obs):
    k = case["k"]
    hexb = lambda h: cbytes(unhx(h))
    if k == "unp":
        if obs["r"].get("err") == "ERecursion":
            return None     # CPython recursion limit: outside the modelled buffer sizes (known finding, oracle only)
        return f"Unp {hexb(case['buf'])} {cres(obs['r'], cmsg, 'message')} {cres(obs.get('repacked'), hexb, 'bytes')}"
    if k == "pk":
        return f"Pk {cmsg(case['m'])} {cres(obs['p'], hexb, 'bytes')} {cres(obs.get('back'), cmsg, 'message')}"
    if k == "hist":
        ps = clist([f"({cname(n)}, {cres(r, hexb, 'bytes')})" for n, r in zip(case["packs"], obs["packs"])], "(name * result bytes)")
        ms = clist([f"({cmsg(m)}, {cres(o['p'], hexb, 'bytes')}, {cres(o.get('back'), cmsg, 'message')})"
                    for m, o in zip(case["msgs"], obs["msgs"])], "(message * result bytes * result message)")
        return f"Hist {ps} {ms}"
    if k == "npack":
        return f"NPack {cname(case['name'])} {cres(obs['r'], hexb, 'bytes')}"
    if k == "nunpack":
        return f"NUnpack {hexb(case['buf'])} {cres(obs['r'], cname, 'name')}"
    nn = lambda v: f"({cname(v[0])}, {cnat(v[1])})"
    if k == "nunpackfrom":
        return f"NUnpackFrom {hexb(case['buf'])} {cnat(case['off'])} {cres(obs['r'], nn, '(name * nat)')}"
    if k == "nunpackc":
        return f"NUnpackC {hexb(case['buf'])} {cnat(case['off'])} {cres(obs['r'], nn, '(name * nat)')}"
    if k == "decomp":
        return f"Decomp {hexb(case['buf'])} {cnat(case['off'])} {cnat(case['end'])} {cres(obs['r'], hexb, 'bytes')}"
    if k == "compr":
        return f"Compr {cN(case['t'])} {cbool(obs['r'])}"


# ------------------------------------------------------------------ oracle: the property on the implementation
def blank_compressible(j):
    import copy
    j = copy.deepcopy(j)
    for sec in ("an", "ns", "ar"):
        for r in j[sec]:
            if r["type"] in COMPRESSIBLE:
                r["data"] = ""
    return j


def decode_failure_key(err, buflen=0):
    if err == "ERecursion" and buflen < 1800:
        return "recursionerror-on-short-buffer"      # a loop or a bug, not the CPython stack limit on a long chain
    return {"EUnicode": "unicodeerror-escapes-decode", "EValue": "valueerror-escapes-decode",
            "ERecursion": "recursionerror-long-pointer-chain"}.get(err, "decode-raises-other")


def oracle(case, obs):
    k = case["k"]
    v = []
    if k == "pk":
        m = case["m"]
        if not msg_wf(m):
            return []
        if "ok" not in obs["p"]:
            return [{"key": "wellformed-pack-fails", "what": f"packed raised {obs['p']['err']} for a well-formed message"}]
        back = obs["back"]
        if "ok" not in back:
            return [{"key": "roundtrip-" + decode_failure_key(back["err"]), "what": f"unpack(packed(m)) raised {back['err']}"}]
        if back["ok"] != m:
            if blank_compressible(back["ok"]) == blank_compressible(m):
                return [{"key": "rdata-pointer-lookalike-rewritten",
                         "what": "unpack(packed(m)) changed the data of a record whose type is in record_data_can_have_compression"}]
            return [{"key": "roundtrip", "what": "unpack(packed(m)) != m"}]
        return []
    if k == "unp":
        r = obs["r"]
        if "err" in r:
            if r["err"] != "EStruct":
                return [{"key": decode_failure_key(r["err"], len(case["buf"]) // 2), "what": f"DNSMessage.unpack({case['buf'][:400]}) raised {r['err']}"}]
            return []
        rp = obs["repacked"]
        if "ok" not in rp:
            return [{"key": "decoded-message-not-packable", "what": f"packed of the decoded message raised {rp['err']} (buf {case['buf']})"}]
        ag = obs["again"]
        if "ok" not in ag:
            return [{"key": "reencode-" + decode_failure_key(ag["err"]) if ag["err"] != "EStruct" else "reencode-undecodable",
                     "what": f"unpack(packed(unpack(b))) raised {ag['err']} (buf {case['buf']})"}]
        if ag["ok"] != r["ok"]:
            if blank_compressible(ag["ok"]) == blank_compressible(r["ok"]):
                return [{"key": "rdata-pointer-lookalike-rewritten", "what": f"re-decoding changed compressible-type rdata (buf {case['buf']})"}]
            return [{"key": "reencode-roundtrip", "what": f"unpack(packed(unpack(b))) != unpack(b) (buf {case['buf']})"}]
        return []
    if k == "hist":
        for n, r in zip(case["packs"], obs["packs"]):
            if wf_name(n):
                for x in oracle({"k": "npack", "name": n}, {"r": r}):
                    return [{"key": x["key"] + "-in-history", "what": x["what"] + f" after packing {case['packs']!r} in the same process"}]
        for m, o in zip(case["msgs"], obs["msgs"]):
            for x in oracle({"k": "pk", "m": m}, o):
                if x["key"] == "rdata-pointer-lookalike-rewritten":
                    return [x]
                names = [q["name"] for q in m["q"]] + [r["name"] for r in m["an"] + m["ns"] + m["ar"]]
                return [{"key": x["key"] + "-in-history", "what": x["what"] + f"; names in the message {names!r}, packed before in this process {case['packs']!r}"}]
        return []
    if k in ("nunpack", "nunpackfrom", "nunpackc", "decomp"):
        r = obs["r"]
        if "err" in r and r["err"] != "EStruct":
            return [{"key": decode_failure_key(r["err"], len(case["buf"]) // 2), "what": f"{k}({case['buf']}) raised {r['err']}"}]
    if k == "npack" and wf_name(case["name"]):
        r = obs["r"]
        if "ok" not in r:
            return [{"key": "wellformed-pack-fails", "what": f"pack({case['name']!r}) raised {r['err']}"}]
        try:
            back = domain_names.unpack(unhx(r["ok"]))
        except Exception as e:
            return [{"key": "name-roundtrip", "what": f"unpack(pack({case['name']!r})) raised {type(e).__name__}"}]
        if back != case["name"]:
            return [{"key": "name-roundtrip", "what": f"unpack(pack({case['name']!r})) = {back!r}"}]
    return v


def nontrivial(case, obs):
    k = case["k"]
    if k == "unp":
        return "err" in obs["r"] or bool(obs["r"]["ok"]["q"] or obs["r"]["ok"]["an"])
    if k == "pk":
        return "err" in obs["p"] or bool(case["m"]["q"] or case["m"]["an"])
    if k == "compr":
        return True
    return True


def classify(case, obs):
    k = case["k"]
    tags = [k]
    if k == "unp":
        r = obs["r"]
        tags.append("unp-ok" if "ok" in r else "unp-" + r["err"])
        buf = unhx(case["buf"])
        if any(b >= 0xC0 for b in buf[12:]):
            tags.append("has-ptr-byte")
        tags += case.get("tags", [])[:3]
        if "ok" in r:
            if buf != unhx(obs["repacked"].get("ok", "")):
                tags.append("repack-differs")
            if any(x["type"] in COMPRESSIBLE for s in ("an", "ns", "ar") for x in r["ok"][s]):
                tags.append("compressible-rr")
            tags.append(f"nrr={min(3, len(r['ok']['an']) + len(r['ok']['ns']) + len(r['ok']['ar']))}")
    elif k == "pk":
        tags.append("wf" if msg_wf(case["m"]) else "not-wf")
        tags.append("pk-ok" if "ok" in obs["p"] else "pk-" + obs["p"]["err"])
    elif k == "hist":
        low = [n.lower() for n in case["packs"]]
        tags.append("hist-case-variants" if len(set(low)) < len(set(case["packs"])) else "hist-no-variants")
    elif k == "compr":
        tags.append(f"compr={obs['r']}")
    else:
        r = obs["r"]
        tags.append(k + ("-ok" if "ok" in r else "-" + r["err"]))
    return tags
